import os, sys; sys.path.insert(0, os.getcwd())

# Differential script: run once with cwd=/tmp/seed/R50 (changed tree) and once
# with cwd=/repo (unchanged tree); the printed output must be identical.

# string hashing is randomised per process, and some results/messages depend on set order:
# pin the hash seed so that two runs are comparable
if os.environ.get("PYTHONHASHSEED") != "0":
    os.environ["PYTHONHASHSEED"] = "0"
    os.execv(sys.executable, [sys.executable] + sys.argv)

import collections
import contextlib
import hashlib
import io
import random
import warnings

import numpy as np

import localcider
assert os.path.abspath(localcider.__file__).startswith(os.path.abspath(os.getcwd()) + os.sep), \
    (localcider.__file__, os.getcwd())

from localcider.backend.sequence import Sequence
from localcider.backend.sequenceComplexity import SequenceComplexity
from localcider.sequenceParameters import SequenceParameters

warnings.simplefilter("ignore")

TOTAL = hashlib.sha256()
SECTION = None
NCASES = 0
NEXC = 0


def canon(obj):
    """Deterministic, type-revealing text form of a result."""
    if isinstance(obj, np.ndarray):
        return "ndarray(shape=%r,dtype=%s,data=%s)" % (
            obj.shape, obj.dtype, canon(obj.tolist()))
    if isinstance(obj, np.generic):
        return "%s(%r)" % (type(obj).__name__, obj.item())
    if isinstance(obj, (list, tuple)):
        return "%s[%s]" % (type(obj).__name__, ",".join(canon(x) for x in obj))
    if isinstance(obj, (set, frozenset)):
        return "%s{%s}" % (type(obj).__name__, ",".join(sorted(canon(x) for x in obj)))
    if isinstance(obj, dict):
        return "%s{%s}" % (type(obj).__name__, ",".join(
            sorted("%s:%s" % (canon(k), canon(v)) for k, v in obj.items())))
    if isinstance(obj, float):
        return "float(%r)" % obj
    return "%s(%r)" % (type(obj).__name__, obj)


def section(name):
    global SECTION
    flush()
    SECTION = [name, hashlib.sha256(), 0, 0]


def flush():
    global SECTION
    if SECTION is not None:
        print("%-34s cases=%5d exceptions=%5d digest=%s" % (
            SECTION[0], SECTION[2], SECTION[3], SECTION[1].hexdigest()[:24]))
    SECTION = None


def case(label, fn, *args, **kwargs):
    """Run fn, record value or exception (type+message) plus anything printed."""
    global NCASES, NEXC
    out = io.StringIO()
    try:
        with contextlib.redirect_stdout(out):
            res = fn(*args, **kwargs)
        text = "OK " + canon(res)
    except Exception as e:  # noqa
        text = "EXC %s: %s" % (type(e).__name__, e)
        SECTION[3] += 1
        NEXC += 1
    line = "%s | %s | stdout=%r\n" % (label, text, out.getvalue())
    SECTION[1].update(line.encode("utf-8", "backslashreplace"))
    TOTAL.update(line.encode("utf-8", "backslashreplace"))
    SECTION[2] += 1
    NCASES += 1
    if os.environ.get("EQUIV_VERBOSE"):
        sys.stdout.write(line)


def state(obj):
    d = dict(obj.__dict__)
    d.pop("ComplexityObject", None)
    return canon(d)


rng = random.Random(20240607)
AAS = "ACDEFGHIKLMNPQRSTVWY"


def randseq(n, alphabet=AAS):
    return "".join(rng.choice(alphabet) for _ in range(n))


SEQS = [
    "A", "AK", "EKE", "PPPP",
    "MKKEEDDRRSTGAV",
    "EEEEEEEEKKKKKKKK",
    "GSGSGSGSGSGSGSGSGSGS",
    "MEEPQSDPSVEPPLSQETFSDLWKLLPENNVLSPLPSQAMDDLMLSPDDIEQWFTEDPGPDEAPRMPEAAPPVAPAPAAPTPAAPAPAPSWPLSSSVPSQKTYQGSYGFRLGFLHSGTAKSVTCTYSPALNKMFCQLAKTCPVQLWVDSTPPPGTRVRAMAIYKQSQHMTEVVRRCPHHE",
    randseq(7), randseq(23), randseq(50), randseq(101),
    randseq(30, "KE"), randseq(30, "KEG"), randseq(40, "QNSTGHC"),
]
ODD_SEQS = [
    "", "acdefg", "MKXBZE", "AK ED", "ß", "AßK", "akßde", "MKU*-", "12345",
]

SC = SequenceComplexity()

VALID_UA = {a: a for a in AAS}
UA_HP = {a: ('L' if a in "LVIMCAGSTPFYW" else 'E') for a in AAS}
UA_MISSING = {a: a for a in AAS if a != 'W'}
UA_LOWER = dict(VALID_UA, K='k')
UA_BADVAL = dict(VALID_UA, D='DD')
UA_UNHASH = dict(VALID_UA, E=['E'])
UA_EXTRA = dict(UA_HP, X='E', B='L')


def user_alphabets():
    dd = collections.defaultdict(lambda: 'A')
    dd.update(UA_HP)
    dd2 = collections.defaultdict(lambda: 'a')
    od = collections.OrderedDict((a, 'K' if a in 'KRH' else 'G') for a in AAS)
    return [("valid", dict(VALID_UA)), ("hp", dict(UA_HP)), ("missing", dict(UA_MISSING)),
            ("lower", dict(UA_LOWER)), ("badval", dict(UA_BADVAL)), ("unhash", dict(UA_UNHASH)),
            ("extra", dict(UA_EXTRA)), ("defaultdict", dd), ("defaultdict_bad", dd2),
            ("ordered", od), ("list", ['A', 'C']), ("tuple", ('A',)), ("str", "ACDEFGHIKLMNPQRSTVWY"),
            ("empty", {}), ("emptylist", []), ("set", set(AAS))]


# ---------------------------------------------------------------------------
section("reduce_alphabet/predefined")
SIZES = list(range(-1, 23)) + ["2", "10", " 12 ", "20", "abc", "", "3.0", 3.0, 3.9, 8.2, 15.99,
                                True, False, None, float("nan"), float("inf"), [2], (3,), b"4",
                                np.int64(6), np.float64(11.5), 10 ** 30]
for s in SEQS + ODD_SEQS:
    for size in SIZES:
        case("ra %r %r" % (s, size), SC.reduce_alphabet, s, size)
# sequences given as lists / tuples / other iterables, strange elements
LISTSEQS = [list("MKKEEDDRRSTGAVHPWYFC"), tuple("HPKRQN"), ["", "A", "", "H"], ["AB", "H", "P", "LV"],
            ["H", 5], [5, "A"], [["A"], "K"], [None], [b"A"], iter("ACDH"), None, 5, ["A", "k", "h", "p"],
            "HHPP", "hp", ["HP", "PH", "H ", ""]]
for i, s in enumerate(LISTSEQS):
    for size in (2, 3, 4, 5, 6, 8, 10, 11, 12, 15, 18, 20):
        if i == 9:
            s = iter("ACDHPKWY")
        case("ra-list %d %r" % (i, size), SC.reduce_alphabet, s, size)
# default arguments, keyword use
for s in SEQS[:6]:
    case("ra-default %r" % s, SC.reduce_alphabet, s)
    case("ra-kw %r" % s, SC.reduce_alphabet, sequence=s, alphabetSize=8)
    case("ra-kw2 %r" % s, SC.reduce_alphabet, s, userAlphabet={}, alphabetSize="11")

section("reduce_alphabet/returned-alphabet")
# the returned alphabet list must be a fresh object each time (mutating it must
# not influence later calls) and it must be a list
for size in (2, 3, 4, 5, 6, 8, 10, 11, 12, 15, 18, 20):
    def mutate(size=size):
        r1 = SC.reduce_alphabet("ACDEFGHIKLMNPQRSTVWY", size)
        a1 = r1[1]
        snapshot = list(a1)
        a1.append("!")
        del a1[0]
        r2 = SC.reduce_alphabet("ACDEFGHIKLMNPQRSTVWY", size)
        return (type(r1).__name__, type(a1).__name__, snapshot, r2, r2[1] is a1, type(r2[0]).__name__)
    case("fresh %d" % size, mutate)
    other = SequenceComplexity()
    case("fresh-other %d" % size, other.reduce_alphabet, "WYHPKR", size)

section("reduce_alphabet/user")
for s in SEQS[:8] + ODD_SEQS + [list("ACDK"), ["A", "X"], None]:
    for name, ua in user_alphabets():
        before = canon(ua) if not isinstance(ua, collections.defaultdict) else None
        case("ua %r %s" % (s, name), SC.reduce_alphabet, s, 20, ua)
        case("ua-size-ignored %r %s" % (s, name), SC.reduce_alphabet, s, "bogus", ua)
        case("ua-after %s" % name, lambda ua=ua: canon(ua))

# ---------------------------------------------------------------------------
section("CWF")
ALPHABETS = [list(AAS), ['L', 'E'], ['L', 'F', 'E'], ['A'], [], tuple("KE"), "KEG", ['K', 'K', 'E'], ['KE', 'G']]
WINDOWS = [-3, -1, 0, 1, 2, 3, 5, 10, 11, 30, 31, 1000]
STEPS = [1, 2, 3, 7, 100]
CSEQS = ["", "A", "KEKE", "KKKKKKKKKK", randseq(30, "KE"), randseq(31, "KEG"), randseq(40), SEQS[7][:60],
         list(randseq(12, "KEG")), tuple("KEGKEG")]
for s in CSEQS:
    for al in ALPHABETS:
        for w in WINDOWS:
            for st in STEPS:
                case("cwf %r %r %r %r" % (s, al, w, st), SC.CWF, s, al, w, st)
for s in CSEQS[:6]:
    for w in (2.0, 2.5, None, "3", np.int64(4)):
        case("cwf-oddw %r %r" % (s, w), SC.CWF, s, ['K', 'E', 'G'], w, 1)
    for st in (1.0, 0.5, 2.5, None, "1", np.int64(2), 10 ** 6):
        case("cwf-oddst %r %r" % (s, st), SC.CWF, s, ['K', 'E', 'G'], 4, st)
    case("cwf-gen %r" % (s,), lambda s=s: SC.CWF(s, iter("KEG"), 3, 1))
    case("cwf-kw %r" % (s,), lambda s=s: SC.CWF(sequence=s, alphabet=['K', 'E'], windowSize=3, stepSize=2))

section("LC")
for s in CSEQS:
    for al in ALPHABETS[:6]:
        for w in WINDOWS:
            for st in (1, 2, 5):
                for word in (-1, 0, 1, 2, 3, 4, 12):
                    case("lc %r %r %r %r %r" % (s, al, w, st, word), SC.LC, s, al, w, st, word)
for s in CSEQS[:6]:
    for w in (4.0, 4.5, None, "5", np.int64(5)):
        case("lc-oddw %r %r" % (s, w), SC.LC, s, ['K', 'E', 'G'], w, 1, 2)
    for st in (1.0, 0.5, None, "1", np.int64(2)):
        case("lc-oddst %r %r" % (s, st), SC.LC, s, ['K', 'E', 'G'], 5, st, 2)
    for word in (2.0, 1.5, None, "2", np.int64(2)):
        case("lc-oddword %r %r" % (s, word), SC.LC, s, ['K', 'E', 'G'], 5, 1, word)
    case("lc-kw %r" % (s,), lambda s=s: SC.LC(sequence=s, alphabet=['K', 'E'], windowSize=5, stepSize=2, wordSize=2))
    case("lc-noalpha %r" % (s,), SC.LC, s, None, 5, 1, 3)

section("LZW")
for s in CSEQS + [["K", 1, "E"], ["KE", "", "G", "KE", "KE", ""], [None, None]]:
    for al in (list(AAS), [], None):
        for w in WINDOWS:
            for st in STEPS:
                case("lzw %r %r %r %r" % (s, al, w, st), SC.LZW, s, al, w, st)
for s in CSEQS[:6]:
    for w in (4.0, 4.5, None, "5", np.int64(5)):
        case("lzw-oddw %r %r" % (s, w), SC.LZW, s, [], w, 1)
    for st in (1.0, 0.5, None, "1", np.int64(2)):
        case("lzw-oddst %r %r" % (s, st), SC.LZW, s, [], 5, st)
    case("lzw-kw %r" % (s,), lambda s=s: SC.LZW(sequence=s, alphabet=['K', 'E'], windowSize=5, stepSize=2))

section("indexed_complexity_vector")
for n in range(0, 14):
    for seq_len in list(range(0, 40)) + [100, 101, 1000]:
        vec = [0.25 * i for i in range(n)]
        case("icv %d %d" % (n, seq_len), SC.get_indexed_complexity_vector, vec, seq_len)
for vec in ([1, 2, 3], (0.5, 0.25), np.array([1.0, 2.0, 3.0, 4.0]), [], "abc", None, [[1, 2], [3, 4]]):
    for seq_len in (-5, 0, 3, 4, 10, 11, 10.0, 10.5, 11.5, 12.5, 7.25, None, "10", np.int64(9), True):
        case("icv-odd %r %r" % (vec, seq_len), SC.get_indexed_complexity_vector, vec, seq_len)
case("icv-kw", lambda: SC.get_indexed_complexity_vector(complexity_vector=[1, 2, 3], seq_len=11))

section("get_X_complexity (backend)")
for s in SEQS + ["", "MKXBZE", "acde", list("MKKEEDDRRSTGAV")]:
    for size in (20, 2, 8, 11, "5", 7, "x"):
        for w in (1, 3, 10, len(s), len(s) + 1, 0):
            for st in (1, 3):
                case("wf %r %r %r %r" % (s, size, w, st), SC.get_WF_complexity, s, size, {}, w, st)
                case("lzw %r %r %r %r" % (s, size, w, st), SC.get_LZW_complexity, s, size, {}, w, st)
                for word in (1, 3):
                    case("lc %r %r %r %r %r" % (s, size, w, st, word),
                         SC.get_LC_complexity, s, size, {}, w, st, word)
for s in SEQS[4:9]:
    case("wf-default %r" % s, SC.get_WF_complexity, s)
    case("lc-default %r" % s, SC.get_LC_complexity, s)
    case("lzw-default %r" % s, SC.get_LZW_complexity, s)
    for name, ua in user_alphabets()[:9]:
        case("wf-ua %r %s" % (s, name), SC.get_WF_complexity, s, 20, ua, 5, 2)
        case("lc-ua %r %s" % (s, name), SC.get_LC_complexity, s, 20, ua, 5, 2, 2)
        case("lzw-ua %r %s" % (s, name), SC.get_LZW_complexity, s, 20, ua, 5, 2)
    case("wf-kw %r" % s, lambda s=s: SC.get_WF_complexity(sequence=s, stepSize=2, windowSize=4, alphabetSize=4))
    case("lc-kw %r" % s, lambda s=s: SC.get_LC_complexity(sequence=s, wordSize=2, stepSize=2, windowSize=6, userAlphabet=UA_HP))
    case("lzw-kw %r" % s, lambda s=s: SC.get_LZW_complexity(s, stepSize=3, alphabetSize="12"))
case("zlib", SC.Zlib_compressed_complexity, SEQS[7][:200])

# ---------------------------------------------------------------------------
section("Sequence linear profiles")
PROFILE_FNS = ["linearDistOfNCPR", "linearDistOfFCR", "linearDistOfSigma",
               "linearDistOfHydropathy", "linearDistOfHydropathy_2"]


def make(s, **kw):
    return Sequence(s, **kw)


ALLSEQS = SEQS + ODD_SEQS
for s in ALLSEQS:
    try:
        obj = make(s)
    except Exception as e:  # noqa
        case("construct %r" % s, make, s)
        continue
    n = len(s)
    blobs = sorted(set([-2, -1, 0, 1, 2, 3, 4, 5, 6, 7, 10, 11, n - 1, n, n + 1, n + 2, 2 * n + 1]))
    blobs += [2.0, 2.5, 5.0, float(n), float("nan"), float("inf"), None, "5", True, np.int64(3), np.float64(3.0), [3], np.array([2])]
    for b in blobs:
        for fname in PROFILE_FNS:
            case("%s %r %r" % (fname, s, b), getattr(obj, fname), b)
        for target in (['K', 'R'], ['E'], [], "KRED", set("ST"), ('P',), None, ['X', 'B'], ['k'], 5, {'A': 1}):
            case("density %r %r %r" % (s, b, target), obj.linearDenistyOfAAs, b, target)
    case("state %r" % s, state, obj)
    # repeat on the same object: results must be reproducible
    for fname in PROFILE_FNS:
        case("%s-again %r" % (fname, s), getattr(obj, fname), 3)
    case("state2 %r" % s, state, obj)

# objects with an explicit charge pattern / modified public attributes
cp = np.array([1, -1, 0, 0, 1, 1, -1, 0, -1, 1])
obj = Sequence("GGGGGGGGGG", chargePattern=cp)
for b in range(0, 13):
    for fname in PROFILE_FNS:
        case("cp %s %r" % (fname, b), getattr(obj, fname), b)
    case("cp density %r" % b, obj.linearDenistyOfAAs, b, ['G'])
obj = Sequence("KEKEKEKEKEGG")
obj.len = 10                       # public attribute changed by hand
for b in range(0, 15):
    for fname in PROFILE_FNS:
        case("len-edit %s %r" % (fname, b), getattr(obj, fname), b)
    case("len-edit density %r" % b, obj.linearDenistyOfAAs, b, ['K'])
    case("len-edit comp %r" % b, obj.linearCompositions, b, [['K'], ['E', 'G']])
obj = Sequence("KEKEKEKEKEGG")
obj.seq = "KEKEKEKEKEGGSTST"
for b in range(0, 19):
    for fname in PROFILE_FNS:
        case("seq-edit %s %r" % (fname, b), getattr(obj, fname), b)
    case("seq-edit density %r" % b, obj.linearDenistyOfAAs, b, ['S'])
case("kw NCPR", lambda: Sequence("KEKEKEKEKEGG").linearDistOfNCPR(bloblen=4))
case("kw density", lambda: Sequence("KEKEKEKEKEGG").linearDenistyOfAAs(targetAAs=['K'], bloblen=4))
case("validated", lambda: Sequence("ke ke kg\n", validateSeq=True).linearDistOfSigma(3))

section("linearCompositions")
GROUPS = [
    [['E', 'D']], [['K'], ['E']], [['E', 'D'], ['R', 'K'], ['P']], [['e', 'd'], ['k']], ["ED", "RK"],
    [('E', 'D'), {'K', 'R'}], (['E'], ['K']), (('E',),), [['X']], [['E', 1]], [[1, 2]], [5], [None], "EK", "EZ",
    [[]], [[], ['K']], [['E', 'D'], []], {'a': 1}, {'E': 1, 'K': 2}, (), None, 5, [''], ['', 'K'],
    collections.deque(), collections.deque([['K'], ['E']]), set(), {"K"}, np.array([]), iter([["K"]]),
]
for s in SEQS[:9] + ["MKXBZE", "", "ß", "acdk"]:
    try:
        obj = make(s)
    except Exception:
        continue
    n = len(s)
    for b in sorted(set([-1, 0, 1, 2, 3, 5, n, n + 1])) + [2.0, None]:
        case("comp-default %r %r" % (s, b), obj.linearCompositions, b)     # shared default list is stateful
        case("comp-default-again %r %r" % (s, b), obj.linearCompositions, b)
        for gi, g in enumerate(GROUPS):
            if gi == 30:
                g = iter([["K"]])
            if isinstance(g, (list, collections.deque, set, dict)):
                g = type(g)(g)   # fresh copy so that argument mutation can be observed
            case("comp %r %r g%d" % (s, b, gi), obj.linearCompositions, b, g)
            case("comp-arg-after %r %r g%d" % (s, b, gi), canon, g if not hasattr(g, "__next__") else "iter")
        mine = []
        case("comp-own-empty %r %r" % (s, b), obj.linearCompositions, b, mine)
        case("comp-own-empty-after %r %r" % (s, b), canon, mine)
        case("comp-own-empty-reuse %r %r" % (s, b), obj.linearCompositions, b, mine)
        case("comp-own-empty-after2 %r %r" % (s, b), canon, mine)
        case("comp-kw %r %r" % (s, b), lambda: obj.linearCompositions(grps=[['K', 'R']], bloblen=b))
    case("state %r" % s, state, obj)
case("comp-default-object", lambda: canon(Sequence.linearCompositions.__defaults__))

section("Sequence complexity wrappers")
for s in SEQS + ["MKXBZE", "ßßß", "acdefghikl"]:
    try:
        obj = make(s)
    except Exception:
        continue
    n = len(s)
    for w in sorted(set([-1, 0, 1, 2, 5, 10, n - 1, n, n + 1])) + [3.0, None, "4"]:
        for size in (20, 3, "10", 9):
            for st in (1, 2):
                case("WF %r %r %r %r" % (s, w, size, st), obj.get_linear_WF_complexity, size, {}, w, st)
                case("LZW %r %r %r %r" % (s, w, size, st), obj.get_linear_LZW_complexity, size, {}, w, st)
                for word in (2, 3):
                    case("LC %r %r %r %r %r" % (s, w, size, st, word),
                         obj.get_linear_LC_complexity, size, {}, w, st, word)
    case("WF-default %r" % s, obj.get_linear_WF_complexity)
    case("LC-default %r" % s, obj.get_linear_LC_complexity)
    case("LZW-default %r" % s, obj.get_linear_LZW_complexity)
    case("WF-kw %r" % s, lambda: obj.get_linear_WF_complexity(stepSize=2, windowSize=3, userAlphabet=UA_HP))
    case("LC-kw %r" % s, lambda: obj.get_linear_LC_complexity(wordSize=2, stepSize=2, windowSize=3, alphabetSize=6))
    case("LZW-kw %r" % s, lambda: obj.get_linear_LZW_complexity(windowSize=2, alphabetSize=15))
    for size in (20, 2, 8, "18", 1):
        case("reduced %r %r" % (s, size), obj.get_reducedAlphabetSequence, size)
    for name, ua in user_alphabets():
        case("reduced-ua %r %s" % (s, name), obj.get_reducedAlphabetSequence, 20, ua)
    case("state %r" % s, state, obj)


class SpyComplexity(SequenceComplexity):
    """replacement backend used to observe how the wrappers forward their arguments"""
    def get_WF_complexity(self, *a, **k):
        return ("WF", len(a) + len(k), SequenceComplexity.get_WF_complexity(self, *a, **k))

    def get_LC_complexity(self, *a, **k):
        return ("LC", len(a) + len(k), SequenceComplexity.get_LC_complexity(self, *a, **k))

    def get_LZW_complexity(self, *a, **k):
        return ("LZW", len(a) + len(k), SequenceComplexity.get_LZW_complexity(self, *a, **k))

    def reduce_alphabet(self, *a, **k):
        return ("RA", len(a) + len(k), SequenceComplexity.reduce_alphabet(self, *a, **k))


obj = Sequence("MKKEEDDRRSTGAVMKKEEDDRRSTGAV")
obj.ComplexityObject = SpyComplexity()
case("spy WF", obj.get_linear_WF_complexity, 4, {}, 5, 2)
case("spy LC", obj.get_linear_LC_complexity, 4, {}, 5, 2, 2)
case("spy LZW", obj.get_linear_LZW_complexity, 4, {}, 5, 2)
case("spy RA", obj.get_reducedAlphabetSequence, 4)

section("SequenceParameters API")
for s in SEQS[2:12]:
    try:
        sp = SequenceParameters(s)
    except Exception:
        case("SP construct %r" % s, SequenceParameters, s)
        continue
    n = len(s)
    for b in sorted(set([1, 2, 5, 8, n, n + 1])):
        case("sp sigma %r %r" % (s, b), sp.get_linear_sigma, b)
        case("sp NCPR %r %r" % (s, b), sp.get_linear_NCPR, b)
        case("sp FCR %r %r" % (s, b), sp.get_linear_FCR, b)
        case("sp hydro %r %r" % (s, b), sp.get_linear_hydropathy, b)
        case("sp comp %r %r" % (s, b), sp.get_linear_sequence_composition, b)
        case("sp comp2 %r %r" % (s, b), sp.get_linear_sequence_composition, b, [['S', 'T'], ['G']])
        for ctype in ("WF", "LC", "LZW", "lzw", "RHP", "bogus", None):
            for size in (20, 5, "8", 13):
                case("sp cx %r %r %r %r" % (s, b, ctype, size), sp.get_linear_complexity, ctype, size, {}, b, 1, 3)
            case("sp cx-ua %r %r %r" % (s, b, ctype), sp.get_linear_complexity, ctype, 20, UA_HP, b, 2, 2)
    case("sp defaults %r" % s, lambda: (sp.get_linear_sigma(), sp.get_linear_NCPR(), sp.get_linear_FCR(),
                                          sp.get_linear_hydropathy(), sp.get_linear_complexity()))
    case("sp reduced %r" % s, sp.get_reduced_alphabet_sequence, 6)
    case("sp state %r" % s, state, sp.SeqObj)

flush()
print("TOTAL cases=%d exceptions=%d digest=%s" % (NCASES, NEXC, TOTAL.hexdigest()))
