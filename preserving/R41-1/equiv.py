import os, sys; sys.path.insert(0, os.getcwd())
# Differential script: run once with cwd=/tmp/seed/R41 (changed tree) and once
# with cwd=/repo (unchanged tree); the printed output must be identical.
import io
import hashlib
import contextlib

import numpy as np

import localcider
assert os.path.abspath(localcider.__file__).startswith(os.path.abspath(os.getcwd()) + os.sep), \
    (localcider.__file__, os.getcwd())

from localcider.backend.sequence import Sequence
from localcider.sequenceParameters import SequenceParameters

# the package ships with HUSH_ALL = True; switch the messages on so that the
# status / warning output is part of the comparison as well
import localcider.backend.backendtools as _bt
_bt.HUSH_ALL = False
_bt.HUSH_STATUS = False
_bt.HUSH_WARNINGS = False

RECORDS = []


def rec(*items):
    RECORDS.append(repr(items))


def call(label, fn, *args, **kwargs):
    """Run fn, record return value / exception AND everything printed."""
    buf = io.StringIO()
    try:
        with contextlib.redirect_stdout(buf):
            out = fn(*args, **kwargs)
        res = ("ok", type(out).__name__, repr(out))
    except BaseException as e:  # noqa
        res = ("exc", type(e).__name__, str(e))
    rec(label, res, buf.getvalue())
    return res


def state(label, obj):
    rec(label, "state", type(obj.phosphosites).__name__, repr(obj.phosphosites),
        [type(x).__name__ for x in obj.phosphosites],
        repr(obj.dmax), repr(obj.seqDeltaMax), obj.seq, obj.len)


class Weird(object):
    def __int__(self):
        return 3


def gen_sites():
    for x in (2, 5, 2):
        yield x


SEQS = [
    "",
    "S",
    "K",
    "SS",
    "KKKYKKK",
    "kkkykkk",
    "STYSTY",
    "EEEEKKKKSSTTYY",
    "MSTYKKEDRSATYGPLSQ",
    "AAAAAAAA",
    "KSKSKSKSESESESETTTYYY",
    "DDDDSDDDDTDDDDY",
    "RRRRSRRRRTRRRRY",
    "EKEKEKEKEKSTYEKEKEKEK",
    "GSGSGSGSGS",
    "SXZBSTY",
    "ßKE",          # upper() changes the length -> self.len != len(self.seq)
    "S T Y K E",
]

SITE_LISTS = [
    [],
    [1],
    [4],
    4,
    1,
    0,
    -1,
    True,
    False,
    [0],
    [-1],
    [-5, 1],
    [1, 1, 1],
    [1, 2, 3],
    [3, 2, 1],
    [1, 2, 3, 4, 5, 6],
    [2, 4, 6, 8, 10, 12, 14],
    [100],
    [1, 100, 2],
    ["1"],
    ["2", 3],
    [" 3 "],
    [2.9],
    [1.0, 2.0],
    (1, 2),
    (5,),
    set([2]),
    range(1, 7),
    "12",
    "3",
    ["abc"],
    [1, "abc", 2],
    [2, None],
    [None],
    None,
    [[1]],
    [1, [2]],
    2.5,
    np.int64(2),
    np.array([1, 2, 3]),
    np.array([], dtype=int),
    [np.int64(1), np.int64(3)],
    [Weird()],
    [True, 2],
    {1: "a", 2: "b"},
    [float("nan")],
    [float("inf"), 1],
    [10 ** 30],
    [1, 2, 3, 4, 5, 6, 7, 8],
]


def all_getters(tag, obj, with_dist=True):
    call(tag + ":get_phosphosites", obj.get_phosphosites)
    call(tag + ":get_phosphosequence", obj.get_phosphosequence)
    call(tag + ":kappa_at_maxPhos", obj.kappa_at_maxPhos)
    state(tag + ":after_kmp", obj)
    call(tag + ":nstates", obj.calculateNumberDifferentPhosphoStates)
    if with_dist and len(obj.phosphosites) <= 7:
        call(tag + ":dist", obj.calculateKappaDistOfPhosphoStates)
    state(tag + ":after_dist", obj)
    call(tag + ":get_STY", obj.get_STY_residues)


def make_sites(sl):
    # generators must be created fresh
    if isinstance(sl, str) and sl == "GEN":
        return gen_sites()
    return sl


# ---------------------------------------------------------------------------
# 1. backend Sequence objects, every sequence x every proposed site list
for si, s in enumerate(SEQS):
    for li, sl in enumerate(SITE_LISTS + ["GEN"]):
        tag = "B[%d,%d]" % (si, li)
        try:
            obj = Sequence(s)
        except BaseException as e:  # noqa
            rec(tag, "ctor-exc", type(e).__name__, str(e))
            continue
        state(tag + ":init", obj)
        # fresh object: nothing set yet
        if li == 0:
            all_getters(tag + ":fresh", obj)
        call(tag + ":set", obj.setPhosPhoSites, make_sites(sl))
        state(tag + ":after_set", obj)
        # only run the (slow) distribution for a subset
        all_getters(tag, obj, with_dist=(li % 3 == 0))
        # repeated call on the same object (duplicates, accumulation)
        call(tag + ":set2", obj.setPhosPhoSites, make_sites(sl))
        call(tag + ":set3", obj.setPhosPhoSites, [1, 2])
        state(tag + ":after_set3", obj)
        call(tag + ":get_phosphosites2", obj.get_phosphosites)
        call(tag + ":get_phosphosequence2", obj.get_phosphosequence)
        call(tag + ":kappa_at_maxPhos2", obj.kappa_at_maxPhos)
        # the returned list must be a fresh list (not the internal one)
        r = obj.get_phosphosites()
        r.append(999)
        call(tag + ":get_phosphosites3", obj.get_phosphosites)
        call(tag + ":clear", obj.clear_phosphosites)
        state(tag + ":after_clear", obj)
        call(tag + ":kappa_at_maxPhos_cleared", obj.kappa_at_maxPhos)
        call(tag + ":get_phosphosequence_cleared", obj.get_phosphosequence)
        call(tag + ":get_phosphosites_cleared", obj.get_phosphosites)
        call(tag + ":dist_cleared", obj.calculateKappaDistOfPhosphoStates)
        state(tag + ":end", obj)

# ---------------------------------------------------------------------------
# 2. kappa_at_maxPhos must / must not touch the cached dmax of the receiver
for s in ("EEEEKKKKSSTTYY", "KSKSKSKSESESESETTTYYY", "GSGSGSGSGS", "DDDDSDDDDTDDDDY"):
    for sl in ([], [9, 10], [1, 2, 3]):
        obj = Sequence(s)
        with contextlib.redirect_stdout(io.StringIO()):
            obj.setPhosPhoSites(sl)
        state("D:%s:%r:pre" % (s, sl), obj)
        call("D:kmp", obj.kappa_at_maxPhos)
        state("D:%s:%r:post" % (s, sl), obj)
        call("D:kappa", obj.kappa)
        call("D:kmp-again", obj.kappa_at_maxPhos)
        state("D:%s:%r:post2" % (s, sl), obj)
    # preset dmax
    obj = Sequence(s, dmax=0.5)
    call("D:preset-kmp-empty", obj.kappa_at_maxPhos)
    with contextlib.redirect_stdout(io.StringIO()):
        obj.setPhosPhoSites([9, 10, 11, 12])
    call("D:preset-kmp", obj.kappa_at_maxPhos)
    state("D:preset", obj)

# ---------------------------------------------------------------------------
# 3. internal consistency check of get_phosphosequence (phosphosite list pointing
#    at a residue which is not S/T/Y) and other hand-set internal lists
for s, ps in (("KKKYKKK", [0]), ("KKKYKKK", [3, 0]), ("KKKYKKK", [3]), ("KKKYKKK", [50]),
              ("KKKYKKK", [-1]), ("STY", [2, 1, 0]), ("STY", [1, 1]), ("", [0]),
              ("SKE", (0,)), ("AKE", (0,)), ("SKE", ()), ("TTTT", [1.0]), ("KTTT", [0.0])):
    obj = Sequence(s)
    obj.phosphosites = ps
    tag = "I:%s:%r" % (s, ps)
    call(tag + ":seq", obj.get_phosphosequence)
    call(tag + ":sites", obj.get_phosphosites)
    call(tag + ":kmp", obj.kappa_at_maxPhos)
    call(tag + ":dist", obj.calculateKappaDistOfPhosphoStates)
    call(tag + ":set", obj.setPhosPhoSites, [1, 2, 3])
    rec(tag, repr(obj.phosphosites), type(obj.phosphosites).__name__)

# ---------------------------------------------------------------------------
# 4. progress messages of the distribution (> 50 states) and ordering of result
obj = Sequence("KSKSKSKSESESESETTTYYY")
call("P:set", obj.setPhosPhoSites, [2, 4, 6, 8, 16, 17, 19])
call("P:dist7", obj.calculateKappaDistOfPhosphoStates)
call("P:dist7-again", obj.calculateKappaDistOfPhosphoStates)
state("P", obj)
obj = Sequence("EKEKEKEKEKSTYEKEKEKEK")
call("P2:set", obj.setPhosPhoSites, [13, 11, 12])
call("P2:dist", obj.calculateKappaDistOfPhosphoStates)
call("P2:sites", obj.get_phosphosites)
call("P2:pseq", obj.get_phosphosequence)

# ---------------------------------------------------------------------------
# 5. public API (SequenceParameters wrappers)
for si, s in enumerate(["KKKYKKK", "MSTYKKEDRSATYGPLSQ", "EEEEKKKKSSTTYY", "GSGSGSGSGS", "AAAA"]):
    for li, sl in enumerate([[], [4], 4, [1, 2, 3], [2, 3, 4, 10, 13], ["x"], [0, 99], "23", None]):
        tag = "A[%d,%d]" % (si, li)
        SP = SequenceParameters(s)
        call(tag + ":get_phosphosites0", SP.get_phosphosites)
        call(tag + ":kap0", SP.get_kappa_after_phosphorylation)
        call(tag + ":set", SP.set_phosphosites, sl)
        call(tag + ":get_phosphosites", SP.get_phosphosites)
        call(tag + ":pseq", SP.get_phosphosequence)
        call(tag + ":kap", SP.get_kappa_after_phosphorylation)
        call(tag + ":all", SP.get_all_phosphorylatable_sites)
        call(tag + ":dist", SP.get_full_phosphostatus_kappa_distribution)
        call(tag + ":set-all", SP.set_phosphosites, SP.get_all_phosphorylatable_sites())
        call(tag + ":pseq-all", SP.get_phosphosequence)
        call(tag + ":kap-all", SP.get_kappa_after_phosphorylation)
        call(tag + ":clear", SP.clear_phosphosites)
        call(tag + ":pseq-clear", SP.get_phosphosequence)
        call(tag + ":kap-clear", SP.get_kappa_after_phosphorylation)
        call(tag + ":dist-clear", SP.get_full_phosphostatus_kappa_distribution)
        state(tag, SP.SeqObj)

blob = "\n".join(RECORDS).encode("utf-8", "backslashreplace")
print("records:", len(RECORDS))
print("ok:", sum(1 for r in RECORDS if "('ok'" in r), "exc:", sum(1 for r in RECORDS if "('exc'" in r))
print("sha256:", hashlib.sha256(blob).hexdigest())
if os.environ.get("EQUIV_DUMP"):
    with open(os.environ["EQUIV_DUMP"], "wb") as fh:
        fh.write(blob)
