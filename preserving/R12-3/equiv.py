"""
Differential script: run once with cwd=/tmp/seed/R12 (changed tree) and once
with cwd=/repo (unchanged tree); the printed output must be identical.

    cd /tmp/seed/R12 && /venv/bin/python /tmp/seed/R12_out/<X>/equiv.py > new.txt
    cd /repo         && /venv/bin/python /tmp/seed/R12_out/<X>/equiv.py > old.txt
    cmp old.txt new.txt
"""
import os
import sys

# set iteration order (which decides e.g. WHICH invalid residue of a grouping is
# reported) depends on string hashing - pin it so that two runs are comparable
if os.environ.get("PYTHONHASHSEED") != "0":
    os.environ["PYTHONHASHSEED"] = "0"
    os.execv(sys.executable, [sys.executable] + sys.argv)

sys.path.insert(0, os.getcwd())
sys.dont_write_bytecode = True

import contextlib
import decimal
import fractions
import hashlib
import io
import random

import numpy as np

import localcider
from localcider.backend.sequence import Sequence
from localcider.sequenceParameters import SequenceParameters

assert os.path.abspath(localcider.__file__).startswith(os.getcwd() + os.sep), localcider.__file__

LINES = []


def show(x):
    """deterministic, type-aware rendering of a result"""
    if isinstance(x, (tuple, list)):
        return type(x).__name__ + "(" + ", ".join(show(y) for y in x) + ")"
    if isinstance(x, np.ndarray):
        return "ndarray[%s]%s" % (x.dtype, show(x.tolist()))
    return "%s:%r" % (type(x).__name__, x)


def state(obj):
    cp = obj.chargePattern
    return "len=%s seq=%r dmax=%s sdm=%s cp=%s phos=%r" % (
        show(obj.len), obj.seq, show(obj.dmax), show(obj.seqDeltaMax), show(cp), obj.phosphosites)


def rec(label, fn, obj=None):
    buf = io.StringIO()
    try:
        with contextlib.redirect_stdout(buf):
            r = fn()
        out = "OK " + show(r)
    except BaseException as e:  # noqa
        out = "EXC %s: %s" % (type(e).__name__, e)
    line = "%s -> %s | stdout=%r" % (label, out, buf.getvalue())
    if obj is not None:
        line += " | " + state(obj)
    LINES.append(line)


# ---------------------------------------------------------------------------
# inputs
# ---------------------------------------------------------------------------
AAS = "ACDEFGHIKLMNPQRSTVWY"
rnd = random.Random(20240612)


def rseq(n, alphabet):
    return "".join(rnd.choice(alphabet) for _ in range(n))


SEQS = [
    "A", "K", "E", "P", "KE", "EK", "GG", "KKKK", "EEEE", "KEKE",
    "GGGGG", "GGGGGG", "KKKKK", "EEEEEE", "KEKEKE", "KKKEEE", "KGE", "GKG",
    "EKGPS", "EKGPSQ", "EKGPSQW",
    "MEEPQSDPSVEPPLSQETFSDLWKLLPENNVLSPLPSQAMDDLMLSPDDIEQWFTEDPGPDEAPRMPEAAPPVAPAPAAPTPAAPAPAPSWPL",
    "GSGSGSGSGSGSGSGSGSGSGSGSKGSGSGS",           # only positive, many neutral
    "GSGSGSGSGSGSGSGSGSGSGSGSEGSGSDS",           # only negative, many neutral
    "KKKKKKKKKKKKGKKKKKKK",                      # neutral block shorter
    "EEEEEEEEGSEEEEEEEEEE",
    "KKKKKKKKKKEEEEE", "EEEEEEEEEKKKK", "KEKEKEKEKEKEKEKEKE", "KKKEEEKKKEEE",   # no neutrals
    "GSGSGSGSGSGSGSGSGSKEKEKEGSGSGS",            # >= 18 neutrals
    "QQQQQQQQQQQQQQQQQQKE", "QQQQQQQQQQQQQQQQQKE",  # 18 / 17 neutrals
    "GKGEGKGEGKGEG", "AAKAAEAAKAAEAARAADAA", "RRGGDDGG", "PPPPPKPPPPE",
    "ekgpsqwkedr", "eKdRpG",                     # lower / mixed case
    "+-0+-0", "+++---000", "000000", "++++++", "+0-0+0-0+0-0+0-0+0-0+0-0+0-0",
    "KE+-0G",
    "HHHHHHKHHHHE", "CCCCCCCC", "WYFWYFKWYFE",
]
for n in (3, 4, 5, 6, 7, 9, 12, 17, 23, 31, 40, 55):
    SEQS.append(rseq(n, AAS))
    SEQS.append(rseq(n, "KEG"))
    SEQS.append(rseq(n, "KRG"))
    SEQS.append(rseq(n, "DEGS"))
    SEQS.append(rseq(n, "KRDE"))
    SEQS.append(rseq(n, "GSAQN"))
    SEQS.append(rseq(n, "KEGGGGGGGG"))

BAD_SEQS = ["", "B", "KEZ", "K E", "X", "KE1", "ßKKEE", "KKEEß", "ß", None, 5, b"KE", ["K", "E"]]

BLOBS = [-7, -1, 0, 1, 2, 3, 5, 6, 7, 11, True, False, np.int64(3), np.int32(5), 2.0, 2.5,
         fractions.Fraction(3, 1), decimal.Decimal(2), "5", None, np.float64(3.0), 10 ** 20]

GROUPS = [
    (["E", "D"], ["K", "R"]),
    (["E", "D"], None),
    (["E", "D"], []),
    (["E", "D"], ()),
    (["E", "D"], ""),
    (["P", "E", "D", "K", "R"], None),
    ("PEDKR", None),
    ("pedkr", None),
    (("e", "d"), ("k", "R")),
    (["E", "D"], ["E", "K"]),          # overlapping groups
    (["G", "S"], ["Q", "N", "A"]),
    (["G"], ["G"]),
    ([], ["K"]),
    ([], None),
    ("", ""),
    (["E", "Z"], None),
    (["E"], ["K", "B", "J"]),
    (["E", "+"], None),
    (["ED"], None),
    (["E", 5], None),
    (["E", None], ["K"]),
    (["E"], ["K", 5.0]),
    (None, None),
    (5, None),
    (["E"], 5),
    (["E"], 0),
    ({"E": 1, "D": 2}, {"K": 0}),
    (frozenset("ED"), frozenset("KR")),
    ("ACDEFGHIKL", "MNPQRSTVWY"),
    ("ACDEFGHIKLMNPQRSTVWY", None),
    ("ACDEFGHIKLMNPQRSTVWY", "ACD"),
    (["W", "Y", "F"], ["H"]),
]


def group_factories():
    """groups that cannot be shared between calls (iterators / generators)"""
    yield "iter/None", lambda: (iter(["E", "D"]), None)
    yield "iter/iter", lambda: (iter(["E", "D"]), iter(["K", "R"]))
    yield "list/emptyiter", lambda: (["E", "D"], iter([]))
    yield "gen/emptygen", lambda: ((x for x in "ed"), (x for x in ""))
    yield "list/gen", lambda: (["E"], (x for x in "kr"))
    yield "list/badgen", lambda: (["E"], (x for x in "kz"))
    yield "list/nparray", lambda: (["E", "D"], np.array(["K", "R"]))
    yield "nparray/None", lambda: (np.array(["E", "D"]), None)


# ---------------------------------------------------------------------------
# 1. plain Sequence objects: every function in the area, repeated calls,
#    several call orders, object state after every call
# ---------------------------------------------------------------------------
for s in SEQS:
    tag = "S[%s]" % s

    o = Sequence(s)
    rec(tag + " new", lambda: None, o)
    for b in BLOBS:
        rec(tag + " deltaForm(%r)" % (b,), lambda: o.deltaForm(b))
    for b in range(-2, len(s) + 4):
        rec(tag + " deltaForm(%d)" % b, lambda: o.deltaForm(b))
    rec(tag + " sigma", lambda: o.sigma())
    rec(tag + " delta", lambda: o.delta(), o)
    rec(tag + " delta#2", lambda: o.delta(), o)
    rec(tag + " kappa", lambda: o.kappa(), o)
    rec(tag + " kappa#2", lambda: o.kappa(), o)
    rec(tag + " deltaMax", lambda: o.deltaMax(), o)
    rec(tag + " deltaMax(True)", lambda: o.deltaMax(True), o)
    rec(tag + " deltaMax(True)#2", lambda: o.deltaMax(returnSeqDeltaMax=True), o)
    rec(tag + " deltaMax#2", lambda: o.deltaMax(), o)
    rec(tag + " kappa#3", lambda: o.kappa(), o)
    rec(tag + " Omega", lambda: o.Omega(), o)
    rec(tag + " Omega#2", lambda: o.Omega(), o)
    rec(tag + " Omega_seq", lambda: o.Omega_seq(), o)

    # other call orders on fresh objects
    o2 = Sequence(s)
    rec(tag + " o2.deltaMax(True) first", lambda: o2.deltaMax(True), o2)
    rec(tag + " o2.deltaMax", lambda: o2.deltaMax(), o2)
    rec(tag + " o2.kappa", lambda: o2.kappa(), o2)
    o3 = Sequence(s)
    rec(tag + " o3.deltaMax first", lambda: o3.deltaMax(), o3)
    rec(tag + " o3.deltaMax(1)", lambda: o3.deltaMax(1), o3)
    o4 = Sequence(s)
    rec(tag + " o4.Omega first", lambda: o4.Omega(), o4)
    rec(tag + " o4.kappa", lambda: o4.kappa(), o4)

    # a permutant of the same composition (same deltaMax expected)
    chars = list(s)
    rnd.shuffle(chars)
    o5 = Sequence("".join(chars))
    rec(tag + " shuffled %s deltaMax" % "".join(chars), lambda: o5.deltaMax(), o5)
    rec(tag + " shuffled deltaMax(True)", lambda: o5.deltaMax(True), o5)
    rec(tag + " shuffled kappa", lambda: o5.kappa(), o5)
    o6 = Sequence(s[::-1])
    rec(tag + " reversed deltaMax(True)", lambda: o6.deltaMax(True), o6)
    rec(tag + " reversed kappa", lambda: o6.kappa(), o6)

    # preset dmax
    for dm in (0, 0.25, -1, -1.0, 1, float("nan")):
        o7 = Sequence(s, dmax=dm)
        rec(tag + " dmax=%r kappa" % dm, lambda: o7.kappa(), o7)
        rec(tag + " dmax=%r deltaMax" % dm, lambda: o7.deltaMax(), o7)
        rec(tag + " dmax=%r deltaMax(True)" % dm, lambda: o7.deltaMax(True), o7)
        rec(tag + " dmax=%r kappa#2" % dm, lambda: o7.kappa(), o7)

# ---------------------------------------------------------------------------
# 2. kappa_X on a subset of sequences with many groupings
# ---------------------------------------------------------------------------
KX_SEQS = [s for s in SEQS if len(s) <= 31][::3] + [SEQS[21], "", ]
for s in KX_SEQS:
    tag = "KX[%s]" % s
    try:
        o = Sequence(s)
    except BaseException as e:  # noqa
        LINES.append(tag + " ctor EXC %s: %s" % (type(e).__name__, e))
        continue
    for g1, g2 in GROUPS:
        rec(tag + " kappa_X(%r,%r)" % (g1, g2), lambda: o.kappa_X(g1, g2), o)
    rec(tag + " kappa_X(ED) 1-arg", lambda: o.kappa_X(["E", "D"]), o)
    rec(tag + " kappa_X(grp2 kw)", lambda: o.kappa_X(grp1="KR", grp2="ED"), o)
    for name, fac in group_factories():
        def call():
            g1, g2 = fac()
            return o.kappa_X(g1, g2)
        rec(tag + " kappa_X{%s}" % name, call, o)

# which invalid residue is reported must not change
for grp in ["ZBJ", "JBZ", "zjb", "XUOBJZ", ["B", "Z", "J", "X", "U", "O"], "K1", "1K", "E E", "+-0"]:
    o = Sequence("KEGSKEGS")
    rec("PG %r" % (grp,), lambda: o.kappa_X(grp), o)
    rec("PG2 %r" % (grp,), lambda: o.kappa_X("E", grp), o)

# ---------------------------------------------------------------------------
# 3. unusual construction
# ---------------------------------------------------------------------------
for s in BAD_SEQS:
    tag = "BAD[%r]" % (s,)
    try:
        o = Sequence(s)
    except BaseException as e:  # noqa
        LINES.append(tag + " ctor EXC %s: %s" % (type(e).__name__, e))
        continue
    rec(tag + " new", lambda: None, o)
    for b in (-1, 0, 1, 2, 5, 6):
        rec(tag + " deltaForm(%d)" % b, lambda: o.deltaForm(b), o)
    rec(tag + " delta", lambda: o.delta(), o)
    rec(tag + " deltaMax", lambda: o.deltaMax(), o)
    rec(tag + " deltaMax(True)", lambda: o.deltaMax(True), o)
    rec(tag + " kappa", lambda: o.kappa(), o)
    rec(tag + " Omega", lambda: o.Omega(), o)
    rec(tag + " Omega_seq", lambda: o.Omega_seq(), o)
    rec(tag + " kappa_X", lambda: o.kappa_X("ED", "KR"), o)
    rec(tag + " kappa_X1", lambda: o.kappa_X("S"), o)

PATTERNS = [
    ("list", lambda: [1, 0, -1, 0, 1, -1, 0, 0]),
    ("tuple", lambda: (1, 0, -1, 0, 1, -1, 0, 0)),
    ("arr", lambda: np.array([1, 0, -1, 0, 1, -1, 0, 0])),
    ("arrf", lambda: np.array([1.0, 0, -1, 0, 0.5, -2.5, 0, 0])),
    ("arrnan", lambda: np.array([1.0, np.nan, -1, 0, 1, -1, np.nan, 0])),
    ("arrbool", lambda: np.array([True, False, True, False, False, True, False, False])),
    ("arru8", lambda: np.array([1, 0, 1, 0, 1, 1, 0, 0], dtype=np.uint8)),
    ("arri8", lambda: np.array([1, 0, -1, 0, 1, -1, 0, 0], dtype=np.int8)),
    ("arrobj", lambda: np.array([1, 0, -1, 0, 1, -1, 0, 0], dtype=object)),
    ("arrshort", lambda: np.array([1, 0, -1, 0, 1])),
    ("arrlong", lambda: np.array([1, 0, -1, 0, 1, -1, 0, 0, 1, 1, -1, 0])),
    ("arr2d", lambda: np.array([[1, 0, -1, 0], [1, -1, 0, 0]])),
    ("arr2d8", lambda: np.array([[1], [0], [-1], [0], [1], [-1], [0], [0]])),
    ("arrcplx", lambda: np.array([1, 0, -1, 0, 1, -1, 0, 0], dtype=complex)),
    ("arrstr", lambda: np.array(list("10-10100"))),
    ("masked", lambda: np.ma.array([1, 0, -1, 0, 1, -1, 0, 0], mask=[0, 1, 0, 0, 1, 0, 0, 0])),
    ("matrix", lambda: np.asmatrix([1, 0, -1, 0, 1, -1, 0, 0])),
    ("allneut", lambda: np.zeros(8)),
    ("allpos", lambda: np.ones(8)),
    ("strided", lambda: np.array([1, 9, 0, 9, -1, 9, 0, 9, 1, 9, -1, 9, 0, 9, 0, 9])[::2]),
    ("readonly", lambda: _ro(np.array([1, 0, -1, 0, 1, -1, 0, 0]))),
]


def _ro(a):
    a.setflags(write=False)
    return a


for name, mk in PATTERNS:
    for s in ("KGEGKEGG", "GGGGGGGG"):
        tag = "CP[%s,%s]" % (name, s)
        try:
            o = Sequence(s, chargePattern=mk())
        except BaseException as e:  # noqa
            LINES.append(tag + " ctor EXC %s: %s" % (type(e).__name__, e))
            continue
        rec(tag + " new", lambda: None, o)
        for b in (-1, 0, 1, 2, 3, 5, 6, 8, 9, 12, 13):
            rec(tag + " deltaForm(%d)" % b, lambda: o.deltaForm(b), o)
        rec(tag + " delta", lambda: o.delta(), o)
        rec(tag + " deltaMax", lambda: o.deltaMax(), o)
        rec(tag + " deltaMax(True)", lambda: o.deltaMax(True), o)
        rec(tag + " deltaMax#2", lambda: o.deltaMax(), o)
        rec(tag + " kappa", lambda: o.kappa(), o)
        rec(tag + " Omega", lambda: o.Omega(), o)
        rec(tag + " Omega_seq", lambda: o.Omega_seq(), o)
        rec(tag + " kappa_X", lambda: o.kappa_X("ED", "KR"), o)

# attributes poked by hand after construction
o = Sequence("KGEGKEGGSSKE")
o.seq = "kgeXX??pp"
rec("POKE seq Omega_seq", lambda: o.Omega_seq(), o)
rec("POKE seq Omega", lambda: o.Omega(), o)
rec("POKE seq kappa_X", lambda: o.kappa_X("GX?", "P"), o)
rec("POKE seq kappa", lambda: o.kappa(), o)
o = Sequence("KGEGKEGGSSKE")
o.seq = ["K", "P", "G", "E", "AB", ""]
rec("POKE listseq Omega_seq", lambda: o.Omega_seq(), o)
rec("POKE listseq Omega", lambda: o.Omega(), o)
rec("POKE listseq kappa_X", lambda: o.kappa_X("G", "P"), o)
o = Sequence("KGEGKEGGSSKE")
o.len = 7
rec("POKE len deltaForm(3)", lambda: o.deltaForm(3), o)
rec("POKE len delta", lambda: o.delta(), o)
rec("POKE len deltaMax", lambda: o.deltaMax(), o)
rec("POKE len kappa", lambda: o.kappa(), o)
o = Sequence("KGEGKEGGSSKE")
o.len = 12.0
rec("POKE flen deltaForm(3)", lambda: o.deltaForm(3), o)
rec("POKE flen deltaMax", lambda: o.deltaMax(), o)
o = Sequence("KGEGKEGGSSKE")
rec("POKE pre deltaMax", lambda: o.deltaMax(), o)
o.dmax = -1
o.chargePattern = np.array([1, 1, 1, 1, 1, 1, -1, -1, -1, -1, -1, -1])
rec("POKE cp deltaMax", lambda: o.deltaMax(), o)
rec("POKE cp kappa", lambda: o.kappa(), o)

# ---------------------------------------------------------------------------
# 4. the SequenceParameters wrappers
# ---------------------------------------------------------------------------
SP_SEQS = SEQS[::4] + ["ek gps\nqwK", "KEB", "", "kkkk eeee"]
for s in SP_SEQS:
    tag = "SP[%r]" % s
    buf = io.StringIO()
    try:
        with contextlib.redirect_stdout(buf):
            sp = SequenceParameters(s)
    except BaseException as e:  # noqa
        LINES.append(tag + " ctor EXC %s: %s | %r" % (type(e).__name__, e, buf.getvalue()))
        continue
    o = sp.SeqObj
    rec(tag + " new (%r)" % buf.getvalue(), lambda: None, o)
    rec(tag + " get_delta", lambda: sp.get_delta(), o)
    rec(tag + " get_kappa", lambda: sp.get_kappa(), o)
    rec(tag + " get_deltaMax", lambda: sp.get_deltaMax(), o)
    rec(tag + " get_deltaMax(True)", lambda: sp.get_deltaMax(True), o)
    rec(tag + " get_deltaMax(kw)", lambda: sp.get_deltaMax(returnSeqDeltaMax=True), o)
    rec(tag + " get_deltaMax#2", lambda: sp.get_deltaMax(), o)
    rec(tag + " get_kappa#2", lambda: sp.get_kappa(), o)
    rec(tag + " get_Omega", lambda: sp.get_Omega(), o)
    rec(tag + " get_Omega_sequence", lambda: sp.get_Omega_sequence(), o)
    rec(tag + " get_kappa_X", lambda: sp.get_kappa_X(["E", "D"], ["K", "R"]), o)
    rec(tag + " get_kappa_X1", lambda: sp.get_kappa_X("PEDKR"), o)
    rec(tag + " get_kappa_X bad", lambda: sp.get_kappa_X("PEDKRZ"), o)
    rec(tag + " get_kappa_X kw", lambda: sp.get_kappa_X(grp1="GS", grp2=("A", "Q")), o)
    # functions elsewhere that lean on the area
    rec(tag + " get_kappa_after_phosphorylation", lambda: sp.get_kappa_after_phosphorylation(), o)
    rec(tag + " get_sequence_charge_decoration", lambda: sp.get_SCD() if hasattr(sp, "get_SCD") else None, o)

# phospho-state kappas (use kappa/deltaMax of derived objects)
sp = SequenceParameters("KESGKTGEYGGKESDD")
rec("PH set", lambda: sp.set_phosphosites([3, 6, 9]), sp.SeqObj)
rec("PH kappa_after", lambda: sp.get_kappa_after_phosphorylation(), sp.SeqObj)
rec("PH dist", lambda: sp.get_full_phosphostatus_kappa_distribution(), sp.SeqObj)
rec("PH kappa", lambda: sp.get_kappa(), sp.SeqObj)

# swapRes hands a pre-computed dmax + charge pattern to a new object
o = Sequence("KKGGEEGSGSKE")
rec("SW deltaMax", lambda: o.deltaMax(), o)
n = o.swapRes(0, 5)
rec("SW swapped kappa", lambda: n.kappa(), n)
rec("SW swapped deltaMax(True)", lambda: n.deltaMax(True), n)
rec("SW swapped delta", lambda: n.delta(), n)
n2 = Sequence("GGGGGGGG").swapRes(1, 2)
rec("SW neutral kappa", lambda: n2.kappa(), n2)

# ---------------------------------------------------------------------------
# 5. many objects sharing compositions, interleaved (shared-cache order effects)
# ---------------------------------------------------------------------------
pool = []
for comp in ("KKEEGGGG", "KKKGGGGG", "EEGGGGGGGGGGGGGGGGGGGGKK", "KKKKEEEE", "GGGG", "KEG", "KKKKKKKG"):
    for k in range(4):
        chars = list(comp)
        rnd.shuffle(chars)
        pool.append("".join(chars))
rnd.shuffle(pool)
objs = [Sequence(p) for p in pool]
for idx, ob in enumerate(objs):
    flag = (idx % 3 == 0)
    rec("POOL[%d:%s] deltaMax(%r)" % (idx, ob.seq, flag), lambda: ob.deltaMax(flag), ob)
for idx, ob in enumerate(objs):
    rec("POOL2[%d] kappa" % idx, lambda: ob.kappa(), ob)
    rec("POOL2[%d] deltaMax(True)" % idx, lambda: ob.deltaMax(True), ob)
    rec("POOL2[%d] Omega" % idx, lambda: ob.Omega(), ob)

# ---------------------------------------------------------------------------
body = "\n".join(LINES)
if "--full" in sys.argv:
    print(body)
print("records:", len(LINES))
print("sha256:", hashlib.sha256(body.encode("utf-8", "backslashreplace")).hexdigest())
