# Common part of the differential scripts (copied verbatim into each equiv.py).
import os, sys, io, hashlib, contextlib
sys.path.insert(0, os.getcwd())
import numpy as np
import random as _random
import localcider.backend.sequence as S
from localcider.backend.sequence import Sequence

TRACE = []

class _FakeTime(object):
    """Deterministic replacement for the `time` module used for seeding."""
    def __init__(self):
        self.n = 0
    def time(self):
        self.n += 1
        TRACE.append(('time',))
        return 1000.0 + 0.37 * self.n

class _LoggedRandom(_random.Random):
    """random.Random that records every public call made on it."""
    def seed(self, *a, **k):
        TRACE.append(('seed', repr(a), repr(k)))
        return _random.Random.seed(self, *a, **k)
    def sample(self, population, k, **kw):
        TRACE.append(('sample', type(population).__name__, repr(list(population)), k))
        return _random.Random.sample(self, population, k, **kw)
    def shuffle(self, x, *a):
        TRACE.append(('shuffle', repr(list(x))))
        return _random.Random.shuffle(self, x, *a)
    def randint(self, a, b):
        TRACE.append(('randint', repr(a), repr(b)))
        return _random.Random.randint(self, a, b)

class _FakeRng(object):
    Random = _LoggedRandom

FT = _FakeTime()
S.time = FT
S.rng = _FakeRng()

def state(obj):
    if not isinstance(obj, Sequence):
        return ('NOTSEQ', repr(obj))
    cp_ = obj.chargePattern
    return (obj.seq, obj.len, repr(obj.dmax), type(cp_).__name__,
            repr(np.asarray(cp_, dtype=float).tolist()), repr(obj.seqDeltaMax), repr(obj.phosphosites))

RESULTS = []

def run(label, obj, fn):
    """Call fn(), record result / exception / stdout / rng trace / state of obj afterwards."""
    del TRACE[:]
    buf = io.StringIO()
    try:
        with contextlib.redirect_stdout(buf):
            r = fn()
        if r is obj:
            out = ('SELF',)
        else:
            out = ('OK', state(r))
    except BaseException as e:
        out = ('EXC', type(e).__name__, str(e))
    rec = (label, out, buf.getvalue(), tuple(TRACE), state(obj) if obj is not None else None)
    RESULTS.append(rec)

def finish():
    h = hashlib.sha256()
    nexc = 0
    nself = 0
    for rec in RESULTS:
        h.update(repr(rec).encode('utf8'))
        if isinstance(rec[1], tuple) and rec[1][0] == 'EXC':
            nexc += 1
        if isinstance(rec[1], tuple) and rec[1][0] == 'SELF':
            nself += 1
    print('cases', len(RESULTS), 'exceptions', nexc, 'returned-self', nself)
    print('digest', h.hexdigest())
    if '-v' in sys.argv:
        for rec in RESULTS:
            print(repr(rec)[:600])

# ------------------------- R4: permute_block_swap and permute_cluster_charges
# Some inputs make the library loop for ever (e.g. "KKKK": no permutation changes delta).
# To test those deterministically too, give the logged RNG a call budget per case: after
# BUDGET randint/sample calls it raises, identically on both trees.
BUDGET = 300

class BudgetExceeded(Exception):
    pass

def _spent():
    return sum(1 for t in TRACE if t[0] in ('randint', 'sample'))

_orig_randint = _LoggedRandom.randint
_orig_sample = _LoggedRandom.sample

def _randint(self, a, b):
    if _spent() >= BUDGET:
        raise BudgetExceeded('rng budget')
    return _orig_randint(self, a, b)

def _sample(self, population, k, **kw):
    if _spent() >= BUDGET:
        raise BudgetExceeded('rng budget')
    return _orig_sample(self, population, k, **kw)

_LoggedRandom.randint = _randint
_LoggedRandom.sample = _sample

SEQS = ["", "A", "KE", "KK", "AKE", "KKKK", "KKEE", "EKEK", "KKAA", "EEEKKK", "GSGSGS", "GSGSGSGSGS",
        "kEdRaAa", "KRKRAAAAEDED", "MKKDEERRSTYPQ", "EKEKEKEKEKQQQQPPPGGG", "ßKE", "ßKEKEDDRR",
        "KAAAAAAAAK", "DAAAAAAAAD", "KKAAAAAAAD", "DDAAAAAAAK", "RRRRRRRRRD", "DDDDDDDDDG",
        "KKKKKEEEEEGGGGGSSSSSKEKEKEDRDRDRPPPPP", "ACDEFGHIKLMNPQRSTVWY" * 2,
        "GGGGGGGGGGKKGGGGGGGGGG", "EEGGGGGGGGGGGGGGGGGGKK"]

for s in SEQS:
    for dmax in (-1, 0.4):
        obj = Sequence(s, dmax)
        for rep in range(8):
            run(('block_swap', s, dmax, rep), obj, lambda: obj.permute_block_swap())
            run(('cluster', s, dmax, rep), obj, lambda: obj.permute_cluster_charges())
        run(('block_swap-frozen', s, dmax), obj, lambda: obj.permute_block_swap(set([0, 1])))
        run(('cluster-frozen', s, dmax), obj, lambda: obj.permute_cluster_charges(frozen=[0]))

# user supplied charge patterns (unusual residues; list pattern; pattern inconsistent with residues)
CASES = [("XBZXBZXBZX", np.array([1.0, -1.0, 0.0, 1.0, -1.0, 0.0, 1.0, -1.0, 0.0, 0.0])),
         ("KEAKEAKEAA", [1, -1, 0, 1, -1, 0, 1, -1, 0, 0]),
         ("KKEEAAGGKE", np.array([0.0] * 10)),
         ("AAAAAAAAAA", np.array([1.0, 1.0, -1.0, -1.0, 0, 0, 0, 0, 1.0, -1.0])),
         ("KKEEAAGGKE", np.array([1.0, 1.0, -1.0])),
         ("KKEEAAGGKE", np.array([np.nan] * 10)),
         ("KKEEAAGGKE", np.array([2.0, 3.0, -4.0, -1.0, 0, 0, 0, 0, 5.0, -1.0]))]
for s, pat in CASES:
    obj = Sequence(s, 0.3, pat)
    for rep in range(5):
        run(('block_swap-pat', s, repr(pat), rep), obj, lambda: obj.permute_block_swap())
        run(('cluster-pat', s, repr(pat), rep), obj, lambda: obj.permute_cluster_charges())

# objects whose len attribute disagrees with the sequence (hand edited)
for newlen in (0, 3, 4, 8, 14):
    obj = Sequence("EKEKAAGGKD")
    obj.len = newlen
    for rep in range(4):
        run(('block_swap-len', newlen, rep), obj, lambda: obj.permute_block_swap())
        run(('cluster-len', newlen, rep), obj, lambda: obj.permute_cluster_charges())

# chained walks, alternating the two moves (what the Wang-Landau driver does)
cur = Sequence("EKEKEKDDRRAAGGSSPPQQKKEE", 0.77)
for k in range(120):
    holder = cur
    if k % 2:
        run(('walk-block', k), holder, lambda: holder.permute_block_swap())
    else:
        run(('walk-cluster', k), holder, lambda: holder.permute_cluster_charges())
    nxt = RESULTS[-1][1]
    cur = Sequence(nxt[1][0], 0.77) if nxt[0] == 'OK' else holder

finish()
