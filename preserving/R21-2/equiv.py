"""Differential check for Sequence.swapRandChargeRes / Sequence.full_shuffle.

Run once with cwd=/tmp/seed/R21 (changed tree) and once with cwd=/repo
(unchanged tree); the printed output (per-section digests plus a final digest)
must be identical.
"""
import os
import sys

sys.path.insert(0, os.getcwd())

import contextlib
import hashlib
import io
import itertools
import time
import warnings

warnings.simplefilter("ignore")

import numpy as np

# ---------------------------------------------------------------------------
# deterministic clock: every call to time.time() returns the next value of a
# counter, so the "time seeded" generators are reproducible and the number of
# clock reads is observable.
# ---------------------------------------------------------------------------
_CLOCK = {"t": 1000.0, "calls": 0}


def _fake_time():
    _CLOCK["calls"] += 1
    _CLOCK["t"] += 0.37
    return _CLOCK["t"]


time.time = _fake_time

from localcider.backend.sequence import Sequence
from localcider.sequenceParameters import SequenceParameters

assert os.path.abspath(sys.modules["localcider"].__file__).startswith(
    os.path.abspath(os.getcwd())), sys.modules["localcider"].__file__

LINES = []


def emit(*parts):
    LINES.append(" | ".join(str(p) for p in parts))


def state(obj):
    cp = obj.chargePattern
    return (type(obj).__name__, obj.seq, obj.len, repr(obj.dmax),
            type(cp).__name__, [float(x) for x in cp],
            repr(obj.seqDeltaMax), list(obj.phosphosites))


def call(label, obj, fn, *args):
    """Run fn(*args); record result / exception, printed text, number of clock
    reads and the state of the receiver before and after."""
    before = state(obj)
    calls0 = _CLOCK["calls"]
    buf = io.StringIO()
    res = None
    with contextlib.redirect_stdout(buf):
        try:
            res = fn(*args)
            if isinstance(res, SequenceParameters):
                res = res.SeqObj
            out = ("ok", res is obj, state(res))
        except BaseException as e:  # noqa
            out = ("exc", type(e).__name__, str(e))
    after = state(obj)
    emit(label, out, "printed=%r" % buf.getvalue(),
         "clock=%d" % (_CLOCK["calls"] - calls0),
         "same_state=%s" % (before == after), after if before != after else "")
    return res


SEQS = [
    "EKEKEKEKEK",                 # charged only
    "KKKKKKKK",                   # only positive
    "EEEEDDDD",                   # only negative
    "GSGSGSGSQN",                 # only neutral
    "KKKKGGGG",                   # no negative
    "EEEEGGGG",                   # no positive
    "KEG",
    "KE",
    "KG",
    "EG",
    "K",
    "G",
    "EKG" * 5,
    "MEEPQSDPSVEPPLSQETFSDLWKLLPENNVLSPLPSQAMDDLMLSPDDIEQWFTEDPGPDEAPRMPEAAPPVAPAPAAPTPAAPAPAPSWPL",
    "GRKDEHSTNQ" * 4 + "AILMFWYVCP",
    "kekeGGss",                   # lower case input
    "XKBEZ*",                     # unusual residues (explicit charge pattern)
    "ßKE",                    # upper() changes the length ('ß' -> 'SS')
    "RRRRRRRRRRRRRRRRRRRRRRRRRRRRRRE",
]


def build(s):
    if s.endswith("*"):
        s = s[:-1]
        cp = np.array([{"K": 1., "R": 1., "E": -1., "D": -1.}.get(c, 0.) for c in s])
        return Sequence(s, -1, cp)
    return Sequence(s)


def frozen_sets(seq_obj):
    n = seq_obj.len
    cp = seq_obj.chargePattern
    pos = [i for i in range(n) if cp[i] > 0]
    neg = [i for i in range(n) if cp[i] < 0]
    neu = [i for i in range(n) if cp[i] == 0]
    out = [set(), set(range(n)), set(range(n + 5)), {0}, {n - 1}, {-1, n, n + 3},
           set(pos), set(neg), set(neu),
           set(pos + neg), set(pos + neu), set(neg + neu),
           set(pos[1:]), set(neg[1:]), set(neu[1:]),
           set(pos[1:] + neg[1:] + neu), set(pos + neg[1:] + neu[1:]),
           set(pos[1:] + neg + neu[1:]), set(pos[:-1] + neg[:-1] + neu[:-1]),
           set(range(0, n, 2)), set(range(1, n, 2)), set(range(n // 2)),
           set(range(n // 2, n)), set(range(1, n)), set(range(n - 1))]
    r = np.random.RandomState(n * 7 + len(pos))
    for k in range(12):
        m = r.randint(0, n + 1)
        out.append(set(int(x) for x in r.choice(n, size=m, replace=False)) if n else set())
    return out


def section(title):
    emit("==== " + title)


# ---------------------------------------------------------------------------
section("swapRandChargeRes / full_shuffle over sequences x frozen sets")
for s in SEQS:
    obj = build(s)
    for k, fz in enumerate(frozen_sets(obj)):
        tag = "%s#%d" % (s[:12], k)
        for rep in range(3):
            call(tag + ":swap%d" % rep, obj, obj.swapRandChargeRes, set(fz))
            call(tag + ":shuf%d" % rep, obj, obj.full_shuffle, set(fz))
    # defaults
    for rep in range(4):
        call(s[:12] + ":swap-default", obj, obj.swapRandChargeRes)
        call(s[:12] + ":shuf-default", obj, obj.full_shuffle)

# ---------------------------------------------------------------------------
section("other container types for frozen")
for s in ["EKGEKGEKGQ", "KKKKGGGG", "EKEKEKEKEK", "GSGSGSGSQN", "ßKE"]:
    obj = Sequence(s)
    n = obj.len
    variants = [
        ("list-empty", lambda: []),
        ("list", lambda: [0, 2, 4]),
        ("list-dups", lambda: [1, 1, 3, 3, 3]),
        ("tuple", lambda: (0, 1, 2)),
        ("frozenset", lambda: frozenset([0, 3, 5])),
        ("dict", lambda: {0: "a", 4: "b"}),
        ("dictkeys", lambda: {0: "a", 4: "b"}.keys()),
        ("range", lambda: range(0, n, 3)),
        ("nparray", lambda: np.array([0, 2, 5])),
        ("nparray-empty", lambda: np.array([], dtype=int)),
        ("nparray2d", lambda: np.array([[0, 1], [2, 3]])),
        ("npint-set", lambda: set(np.arange(0, n, 2))),
        ("floats", lambda: {0.0, 2.0, 3.5}),
        ("strings", lambda: {"0", "1"}),
        ("string", lambda: "012"),
        ("mixed", lambda: {0, "a", 2.0, None, (1, 2)}),
        ("bools", lambda: {True, False}),
        ("generator", lambda: (i for i in [0, 1, 2])),
        ("iterator", lambda: iter([2, 3])),
        ("iterator-out-of-range", lambda: iter([n + 1, n + 2])),
        ("none", lambda: None),
        ("int", lambda: 3),
        ("unhashable-elems", lambda: [[0], [1]]),
        ("all-list", lambda: list(range(n))),
        ("negatives", lambda: [-1, -2]),
    ]
    for name, mk in variants:
        for rep in range(2):
            call("%s:%s:swap" % (s[:10], name), obj, obj.swapRandChargeRes, mk())
            call("%s:%s:shuf" % (s[:10], name), obj, obj.full_shuffle, mk())

# ---------------------------------------------------------------------------
section("empty sequence and objects built with explicit dmax / charge pattern")
e = Sequence("")
call("empty:swap", e, e.swapRandChargeRes)
call("empty:swap-fz", e, e.swapRandChargeRes, {0})
call("empty:shuf", e, e.full_shuffle)
call("empty:shuf-fz", e, e.full_shuffle, {0, 1})
call("empty:shuf-list", e, e.full_shuffle, [])

o = Sequence("EKGEKGQQ", 0.25, np.array([-1., 1., 0., -1., 1., 0., 0., 0.]))
for rep in range(5):
    call("dmaxcp:swap", o, o.swapRandChargeRes, {0, 1})
    call("dmaxcp:shuf", o, o.full_shuffle, {0, 1})
# a charge pattern that does not match the residues and is given as a list
o2 = Sequence("GGGGGG", 0.5, np.array([1., 1., -1., 0., 0., -1.]))
for fz in [set(), {0, 1}, {2, 5}, {3, 4}, {0, 1, 2, 5}, {0, 1, 3, 4}]:
    for rep in range(3):
        call("fakecp:swap", o2, o2.swapRandChargeRes, fz)
        call("fakecp:shuf", o2, o2.full_shuffle, fz)
o3 = Sequence("GGGG", 0.5, [1, -1, 0, 0])        # list, not an array
call("listcp:swap", o3, o3.swapRandChargeRes)
call("listcp:shuf", o3, o3.full_shuffle, [1])
o4 = Sequence("KEGG")
o4.len = 6                                     # len larger than the sequence
call("biglen:shuf", o4, o4.full_shuffle)
call("biglen:shuf-fz", o4, o4.full_shuffle, {4, 5})
call("biglen:swap", o4, o4.swapRandChargeRes)
o5 = Sequence("KEGGQQ")
o5.len = 3                                     # len shorter than the sequence
for rep in range(3):
    call("smalllen:shuf", o5, o5.full_shuffle, {1})
    call("smalllen:swap", o5, o5.swapRandChargeRes, {1})

# ---------------------------------------------------------------------------
section("chains of moves (result fed back in), delta after a warm dmax")
obj = Sequence("EKEKGGEKQQRRDDSS")
obj.deltaMax()
cur = obj
for step in range(40):
    fz = {1, 2} if step % 3 else set()
    nxt = call("chain%d" % step, cur,
               cur.swapRandChargeRes if step % 2 else cur.full_shuffle, fz)
    if nxt is not None:
        cur = nxt
emit("chain-final", state(cur), repr(cur.kappa()), repr(cur.delta()))

# ---------------------------------------------------------------------------
section("public wrappers")
sp = SequenceParameters("EKEKGGEKQQRRDDSSPPAA")
for fz in [set(), {0, 1, 2}, [3, 4], set(range(20)), set(range(10, 30)), None]:
    for rep in range(3):
        if fz is None:
            call("SP:get_shuffled_sequence()", sp.SeqObj, sp.get_shuffled_sequence)
        else:
            call("SP:get_shuffled_sequence", sp.SeqObj, sp.get_shuffled_sequence, fz)
emit("SP-state", state(sp.SeqObj))
try:
    from localcider.sequencePermutants import SequencePermutants
    perm = SequencePermutants("EKEKGGEKQQRRDDSSPPAA")
    for rep in range(4):
        calls0 = _CLOCK["calls"]
        buf = io.StringIO()
        with contextlib.redirect_stdout(buf):
            p = perm.get_permutant()
        emit("permutant", state(p.SeqObj), repr(buf.getvalue()),
             _CLOCK["calls"] - calls0)
except BaseException as e:  # noqa
    emit("permutant-exc", type(e).__name__, str(e))

# ---------------------------------------------------------------------------
section("mutable default argument untouched")
emit(Sequence.swapRandChargeRes.__defaults__, Sequence.full_shuffle.__defaults__)
emit("total clock reads", _CLOCK["calls"])

# ---------------------------------------------------------------------------
sec_digest = None
cur_title = None
acc = []
for line in LINES:
    if line.startswith("==== "):
        if cur_title is not None:
            print("%-75s %5d %s" % (cur_title, len(acc),
                  hashlib.sha256("\n".join(acc).encode("utf-8")).hexdigest()[:16]))
        cur_title = line[5:]
        acc = []
    else:
        acc.append(line)
print("%-75s %5d %s" % (cur_title, len(acc),
      hashlib.sha256("\n".join(acc).encode("utf-8")).hexdigest()[:16]))
print("TOTAL", len(LINES), hashlib.sha256("\n".join(LINES).encode("utf-8")).hexdigest())
if os.environ.get("EQUIV_DUMP"):
    with open(os.environ["EQUIV_DUMP"], "w", encoding="utf-8") as fh:
        fh.write("\n".join(LINES) + "\n")
