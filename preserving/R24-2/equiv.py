"""Differential check for Sequence.set_HTMLColorResiduePalette / get_HTMLColorString.

Run once with cwd=/tmp/seed/R24 (changed) and once with cwd=/repo (unchanged);
the printed output must be identical.
"""
import os
import sys

sys.path.insert(0, os.getcwd())

import collections
import hashlib
import random

from localcider.backend.sequence import Sequence
from localcider.backend.data import aminoacids
from localcider.sequenceParameters import SequenceParameters

OUT = []


def emit(*items):
    OUT.append(" | ".join(str(x) for x in items))


def outcome(fn, *args):
    try:
        return ("ok", repr(fn(*args)))
    except BaseException as e:  # noqa
        return ("exc", type(e).__name__, str(e))


AAS = list(aminoacids.ONE_TO_THREE)
COLORS = ['aqua', 'black', 'blue', 'fuchsia', 'gray', 'green', 'lime', 'maroon', 'navy',
          'olive', 'orange', 'purple', 'red', 'silver', 'teal', 'white', 'yellow']
DEFAULT = dict(aminoacids.DEFAULT_COLOR_PALETTE)


class CountingDict(dict):
    """dict that records every lookup / membership test made on it"""

    def __init__(self, *a, **k):
        dict.__init__(self, *a, **k)
        self.log = []

    def __contains__(self, k):
        self.log.append(("in", k))
        return dict.__contains__(self, k)

    def __getitem__(self, k):
        self.log.append(("get", k))
        return dict.__getitem__(self, k)


class OddStr(str):
    """a str whose lower() gives something else"""

    def lower(self):
        return "LOWERED-" + str(self)


class EqAll(object):
    """compares equal to anything, has lower()"""

    def __eq__(self, other):
        return True

    def __hash__(self):
        return 1

    def lower(self):
        return "eqall"

    def __str__(self):
        return "EqAllObj"

    def __repr__(self):
        return "<EqAll>"


class NoLower(object):
    def __eq__(self, other):
        return other == 'red'

    def __hash__(self):
        return 2

    def __str__(self):
        return "NoLowerObj"

    def __repr__(self):
        return "<NoLower>"


class BadStr(object):
    def __str__(self):
        raise RuntimeError("cannot stringify")

    def __repr__(self):
        return "<BadStr>"


def palette_case(label, colorDict, seq="ACDEFGHIKLMNPQRSTVWYACDEFGHIKLMNPQRSTVWY"):
    S = Sequence(seq)
    before = S.aminoAcidColorMap
    before_copy = dict(before)
    res = outcome(S.set_HTMLColorResiduePalette, colorDict)
    after = S.aminoAcidColorMap
    emit("PAL", label, res,
         "same_obj=%s" % (after is before),
         "alias_input=%s" % (after is colorDict),
         "type=%s" % type(after).__name__,
         "items=%r" % (list(after.items()),),
         "before_intact=%s" % (dict(before) == before_copy),
         outcome(S.get_HTMLColorString))
    if isinstance(colorDict, CountingDict):
        emit("PAL-LOG", label, colorDict.log)
    # a second call on the same object with the default palette must recover
    res2 = outcome(S.set_HTMLColorResiduePalette, DEFAULT)
    emit("PAL2", label, res2, list(S.aminoAcidColorMap.items()))


def run_palette():
    rnd = random.Random(1234)

    palette_case("default", dict(DEFAULT))
    palette_case("default-same-object", aminoacids.DEFAULT_COLOR_PALETTE)
    palette_case("empty", {})
    palette_case("none", None)
    palette_case("int", 5)
    palette_case("string-of-letters", "".join(AAS))
    palette_case("list-of-letters", list(AAS))
    palette_case("tuple-of-letters", tuple(AAS))
    palette_case("set-of-letters", set(AAS))
    palette_case("list-short", ['A'])

    # every colour for every residue
    for c in COLORS:
        palette_case("all-" + c, dict((a, c) for a in AAS))

    # random valid palettes, shuffled key order and extra keys
    for n in range(15):
        keys = list(AAS)
        rnd.shuffle(keys)
        d = collections.OrderedDict((a, rnd.choice(COLORS)) for a in keys)
        if n % 3 == 0:
            d['X'] = 'notacolor'
            d['B'] = 'red'
            d[7] = 'blue'
        palette_case("random-%i" % n, d)

    # one residue missing
    for a in AAS:
        d = dict(DEFAULT)
        del d[a]
        palette_case("missing-" + a, d)

    # one residue with a bad colour of different sorts
    bads = ['Red', 'RED', 'pink', '', ' red', 'red ', None, 3, 3.5, ['red'], ('red',), {'red'},
            {'a': 1}, b'red', True, OddStr('pink'), BadStr()]
    for a in AAS:
        for b in bads:
            d = dict(DEFAULT)
            d[a] = b
            palette_case("bad-%s-%r" % (a, type(b).__name__ + ":" + (repr(b) if not isinstance(b, BadStr) else "BadStr")), d)

    # order of checks: a bad colour before a missing residue and the reverse
    for i in range(len(AAS)):
        for j in range(len(AAS)):
            if i == j or (i + 3 * j) % 7:
                continue
            d = dict(DEFAULT)
            d[AAS[i]] = 'magenta'
            del d[AAS[j]]
            palette_case("bad-%s-missing-%s" % (AAS[i], AAS[j]), d)

    # two bad colours, two missing
    d = dict(DEFAULT); d['W'] = 'x1'; d['D'] = 'x2'
    palette_case("two-bad", d)
    d = dict(DEFAULT); del d['W']; del d['D']
    palette_case("two-missing", d)

    # lower-case keys only
    palette_case("lower-keys", dict((a.lower(), c) for a, c in DEFAULT.items()))

    # unusual values that pass the membership test
    d = dict(DEFAULT); d['A'] = OddStr('red')
    palette_case("oddstr-valid", d)
    d = dict(DEFAULT); d['C'] = EqAll()
    palette_case("eqall", d)
    d = dict(DEFAULT); d['Y'] = NoLower()
    palette_case("nolower", d)
    d = dict(DEFAULT); d['A'] = EqAll(); d['Y'] = NoLower(); del d['C']
    palette_case("eqall-then-missing", d)

    # dict-likes
    palette_case("counting-default", CountingDict(DEFAULT))
    d = CountingDict(DEFAULT); del d['M']
    palette_case("counting-missing-M", d)
    d = CountingDict(DEFAULT); d['Q'] = 'beige'
    palette_case("counting-bad-Q", d)
    d = CountingDict(DEFAULT); d['Q'] = ['beige']
    palette_case("counting-bad-Q-list", d)
    palette_case("counting-empty", CountingDict())

    dd = collections.defaultdict(lambda: 'red')
    palette_case("defaultdict-empty", dd)
    emit("defaultdict-after", sorted(dd.items()))
    dd = collections.defaultdict(lambda: 'red', DEFAULT)
    del dd['K']
    palette_case("defaultdict-missing-K", dd)
    emit("defaultdict-after", sorted(dd.items()))
    dd = collections.defaultdict(lambda: 'nope', DEFAULT)
    palette_case("defaultdict-full", dd)

    palette_case("counter", collections.Counter("".join(AAS)))
    palette_case("chainmap", collections.ChainMap({'A': 'red'}, DEFAULT))

    # the input dictionary must never be modified
    d = dict(DEFAULT)
    S = Sequence("ACDEF")
    S.set_HTMLColorResiduePalette(d)
    emit("input-unchanged", d == DEFAULT, list(d.items()))
    # later modification of the input must not leak into the object
    d['A'] = 'lime'
    emit("no-leak", S.aminoAcidColorMap['A'])
    # map objects of two calls are distinct
    m1 = S.aminoAcidColorMap
    S.set_HTMLColorResiduePalette(d)
    m2 = S.aminoAcidColorMap
    emit("distinct-maps", m1 is m2, m1['A'], m2['A'])
    # failed call leaves old object in place
    bad = dict(DEFAULT); bad['Y'] = 'nope'
    emit("fail", outcome(S.set_HTMLColorResiduePalette, bad), S.aminoAcidColorMap is m2, S.aminoAcidColorMap['A'])

    # through the public front end
    SP = SequenceParameters("MKKLLEDDSTYWAC")
    emit("SP-default", outcome(SP.get_HTMLColorString))
    emit("SP-set", outcome(SP.set_HTMLColorResiduePalette, dict((a, 'teal') for a in AAS)))
    emit("SP-after", outcome(SP.get_HTMLColorString))
    emit("SP-set-bad", outcome(SP.set_HTMLColorResiduePalette, {'A': 'teal'}))
    emit("SP-set-bad2", outcome(SP.set_HTMLColorResiduePalette, dict((a, 'Teal') for a in AAS)))
    emit("SP-after2", outcome(SP.get_HTMLColorString))


def run_colorstring():
    rnd = random.Random(99)
    base = "".join(AAS)

    # every length 0..130 (covers the 10 / 50 boundaries)
    for n in range(0, 131):
        seq = "".join(rnd.choice(base) for _ in range(n))
        S = Sequence(seq)
        r = outcome(S.get_HTMLColorString)
        emit("STR", n, hashlib.sha256(repr(r).encode()).hexdigest()[:16], len(r[1]) if r[0] == "ok" else r)
        if n in (0, 1, 9, 10, 11, 49, 50, 51, 100, 101):
            emit("STRFULL", n, r)
        # repeated call gives the same thing, and the object is not changed
        r2 = outcome(S.get_HTMLColorString)
        emit("STR-again", n, r == r2, S.seq == seq.upper(), S.len)

    # longer ones
    for n in (199, 200, 201, 250, 251, 500, 1001):
        seq = "".join(rnd.choice(base) for _ in range(n))
        r = outcome(Sequence(seq).get_HTMLColorString)
        emit("STRLONG", n, hashlib.sha256(repr(r).encode()).hexdigest(), r[1].count("<br>"), r[1].count(" "))

    # lower / mixed case input
    for seq in ("acdefghiklmnpqrstvwy", "AcDeFgHiKlMnPqRsTvWy" * 3):
        emit("CASE", seq, outcome(Sequence(seq).get_HTMLColorString))

    # unusual residues at different positions
    for seq in ("X", "AX", "ACDEFGHIKX", "ACDEFGHIKLX", "B" + base, base + "Z", base * 2 + "U" + base,
                "A C", "A-C", "A*", "1234", "\n", " ", "ACD\tEF", base * 3 + "O", "XZ", "ZX",
                "ACDEFGHIK" + "J" + base * 5, "A" * 49 + "X", "A" * 50 + "X", "A" * 51 + "X"):
        # the constructor itself refuses unknown residues unless a charge pattern is handed in
        emit("ODD-ctor", repr(seq), outcome(lambda q: Sequence(q).get_HTMLColorString(), seq))
        emit("ODD", repr(seq), outcome(Sequence(seq, chargePattern=[0]).get_HTMLColorString))

    # colour maps put in place directly by the caller
    S = Sequence(base * 3 + "XB", chargePattern=[0])
    S.aminoAcidColorMap = dict((a, i) for i, a in enumerate(AAS))
    emit("MAP-int-missing", outcome(S.get_HTMLColorString))
    S.aminoAcidColorMap['X'] = ('t', 1)
    S.aminoAcidColorMap['B'] = None
    emit("MAP-int", outcome(S.get_HTMLColorString))
    S.aminoAcidColorMap['X'] = "%s%d%%"
    S.aminoAcidColorMap['B'] = b'bytes'
    emit("MAP-fmtchars", outcome(S.get_HTMLColorString))
    S.aminoAcidColorMap = collections.defaultdict(lambda: 'gray')
    emit("MAP-defaultdict", outcome(S.get_HTMLColorString), sorted(S.aminoAcidColorMap.items()))
    S.aminoAcidColorMap = {}
    emit("MAP-empty", outcome(S.get_HTMLColorString))
    S2 = Sequence("")
    S2.aminoAcidColorMap = {}
    emit("MAP-empty-emptyseq", outcome(S2.get_HTMLColorString))
    S2.aminoAcidColorMap = None
    emit("MAP-none-emptyseq", outcome(S2.get_HTMLColorString))
    del S2.aminoAcidColorMap
    emit("MAP-deleted-emptyseq", outcome(S2.get_HTMLColorString))
    S3 = Sequence("ACD")
    S3.aminoAcidColorMap = None
    emit("MAP-none", outcome(S3.get_HTMLColorString))
    del S3.aminoAcidColorMap
    emit("MAP-deleted", outcome(S3.get_HTMLColorString))

    # a value whose str() fails, placed after / before an unknown residue
    S4 = Sequence("ACDXE", chargePattern=[0])
    S4.aminoAcidColorMap = dict(DEFAULT)
    S4.aminoAcidColorMap['D'] = BadStr()
    emit("MAP-badstr-first", outcome(S4.get_HTMLColorString))
    S4 = Sequence("ACXDE", chargePattern=[0])
    S4.aminoAcidColorMap = dict(DEFAULT)
    S4.aminoAcidColorMap['D'] = BadStr()
    emit("MAP-keyerror-first", outcome(S4.get_HTMLColorString))

    # number and order of look-ups in the colour map
    S5 = Sequence(base * 6)
    cm = CountingDict(DEFAULT)
    S5.aminoAcidColorMap = cm
    r = outcome(S5.get_HTMLColorString)
    emit("MAP-counting", hashlib.sha256(repr(r).encode()).hexdigest(), cm.log)

    # sequence attribute replaced by other iterables
    S6 = Sequence("ACDEFGHIKLMN")
    full = S6.get_HTMLColorString()
    S6.seq = list("ACDEFGHIKLMN")
    emit("SEQ-list", outcome(S6.get_HTMLColorString)[1] == repr(full))
    S6.seq = tuple("ACDEFGHIKLMN")
    emit("SEQ-tuple", outcome(S6.get_HTMLColorString)[1] == repr(full))
    S6.seq = iter("ACDEFGHIKLMN")
    emit("SEQ-iter", outcome(S6.get_HTMLColorString)[1] == repr(full))
    S6.seq = (c for c in "ACDEFGHIKLMNX")
    emit("SEQ-gen", outcome(S6.get_HTMLColorString))
    S6.seq = None
    emit("SEQ-none", outcome(S6.get_HTMLColorString))
    S6.seq = ["AC", "D"]
    emit("SEQ-chunks", outcome(S6.get_HTMLColorString))
    S6.seq = [("A", "C"), "D"]
    S6.aminoAcidColorMap[("A", "C")] = 'red'
    emit("SEQ-tuples", outcome(S6.get_HTMLColorString))

    # after a palette change
    S7 = Sequence(base * 3)
    for c in COLORS:
        S7.set_HTMLColorResiduePalette(dict((a, c) for a in AAS))
        r = outcome(S7.get_HTMLColorString)
        emit("AFTERSET", c, hashlib.sha256(repr(r).encode()).hexdigest()[:16], r[1].count(c))

    # with a validated sequence and a charge pattern / dmax given
    S8 = Sequence("acd efg\nhik", validateSeq=True)
    emit("VALIDATED", outcome(S8.get_HTMLColorString))
    S9 = Sequence("EKEKEKEK", dmax=0.5, chargePattern=[1, -1] * 4)
    emit("CHARGEPAT", outcome(S9.get_HTMLColorString))


def main():
    run_palette()
    run_colorstring()
    blob = "\n".join(OUT)
    # a few raw lines, and a digest of everything
    for line in OUT[:5]:
        print(line[:300])
    print("lines:", len(OUT))
    print("digest:", hashlib.sha256(blob.encode("utf-8", "backslashreplace")).hexdigest())
    if os.environ.get("EQUIV_DUMP"):
        with open(os.environ["EQUIV_DUMP"], "w") as fh:
            fh.write(blob + "\n")


if __name__ == "__main__":
    main()
