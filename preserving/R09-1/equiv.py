"""
Differential script for R1 (seqfileparser.parseSeqFile / __validSeq control-flow
restructuring).  Run once with cwd=/tmp/seed/R09 (changed) and once with
cwd=/repo (unchanged); the printed output must be identical.
"""
import os
import sys
sys.path.insert(0, os.getcwd())

import contextlib
import hashlib
import io
import itertools
import random
import tempfile

from localcider.backend.seqfileparser import SequenceFileParser
from localcider.sequenceParameters import SequenceParameters

# messages are hushed by default (config.HUSH_ALL = True); switch them on so
# that the status / warning output is compared as well
import localcider.backend.backendtools as _bt
_bt.HUSH_ALL = False

results = []
TMPDIR = tempfile.mkdtemp()


def run(label, fn, *args, **kwargs):
    buf = io.StringIO()
    with contextlib.redirect_stdout(buf):
        try:
            out = ('OK', repr(fn(*args, **kwargs)))
        except BaseException as e:  # noqa
            out = ('EXC', type(e).__name__, str(e))
    out = tuple(o.replace(TMPDIR, '<TMP>') for o in out)
    results.append((label, out, buf.getvalue().replace(TMPDIR, '<TMP>')))


FILES = [
    "",
    "\n\n\n",
    ">header only\n",
    ">h\nACDEFGHIKLMNPQRSTVWY\n",
    "ACDEFGHIKLMNPQRSTVWY",
    "ACDEFGHIKLMNPQRSTVWY\n\n   \nAAAA\n",
    ">h\n  ACD EFG  \n\tKLM\n",
    ">h\n1 ACDEFGHIKL 11\n12 MNPQRSTVWY 21\n",
    ">h\nACD\n>second\nEFG\n",
    "ACD\n>late header\nEFG\n",
    "ACD\n>late header\nEFG\n>another\n",
    ">h\nACDEF*\n",
    ">h\nACDEF\n*\n",
    ">h\nAC*DEF\n",
    ">h\nAC*DEF*\n",
    ">h\n*\n",
    "*",
    "**",
    ">h\nacdef\n",
    ">h\nACDXEF\n",
    ">h\nACD-EF\n",
    ">h\nACD\tEF\n",
    ">h\nACDEF>\n",
    "ACDEF >x\n",
    " >indented header\nACD\n",
    ">\n>\n",
    ">h\nABCD\n",
    ">h\nACDéF\n",
    ">h\nAC٣DF\n",       # arabic-indic digit
    ">h\nAC DF\n",       # nbsp in the middle
    ">h\r\nACDEF\r\nGHIKL\r\n",
    "0123456789\n",
    "A 1 * \n",
    "A 1 *\nC\n",
    "   *   \nACD\n",
]

random.seed(1234)
ALPHA = "ACDEFGHIKLMNPQRSTVWY"
NOISE = ALPHA * 3 + " 0123456789*>\n\n\n xXb-\t"
for n in range(150):
    length = random.randint(0, 40)
    FILES.append("".join(random.choice(NOISE) for _ in range(length)))
for n in range(50):
    lines = []
    if random.random() < 0.7:
        lines.append(">hdr %i" % n)
    for k in range(random.randint(0, 5)):
        lines.append(" ".join(["%i" % (k * 10 + 1)] * random.randint(0, 1) +
                              ["".join(random.choice(ALPHA) for _ in range(random.randint(0, 10)))
                               for _ in range(random.randint(0, 4))]))
    if random.random() < 0.3:
        lines.append("*")
    FILES.append("\n".join(lines) + "\n" * random.randint(0, 2))

parser = SequenceFileParser()
tmpdir = TMPDIR
for idx, content in enumerate(FILES):
    fn = os.path.join(tmpdir, "f%i.fasta" % idx)
    with open(fn, "w", encoding="utf-8") as fh:
        fh.write(content)
    for silent in (True, False):
        run(("parse", idx, silent), parser.parseSeqFile, fn, silent)
        run(("parse-kw", idx, silent), parser.parseSeqFile, filename=fn, silent=silent)
    # repeated call on the same object
    run(("parse-again", idx), parser.parseSeqFile, fn)
    # via the public front-end
    run(("SeqParam", idx), lambda f=fn: SequenceParameters(sequenceFile=f).get_sequence())

# missing file / bad args
run("missing", parser.parseSeqFile, os.path.join(tmpdir, "does_not_exist"))
run("none", parser.parseSeqFile, None)
run("dir", parser.parseSeqFile, tmpdir)

# private helpers, called directly through the mangled name
valid = getattr(parser, "_SequenceFileParser__validSeq")
final = getattr(parser, "_SequenceFileParser__final_validation")
PIECES = ["", "A", "*", " ", "1", "ACD", "A C D", "A1C2D3", "AC*", "*AC", "A**", "ACx", "AC>", "AC\tD",
          "ac", "B", "١", "Aé"]
for a, b in itertools.product(PIECES, repeat=2):
    run(("valid", a, b), valid, a + b)
    run(("final", a, b), final, a + b)

import shutil
shutil.rmtree(TMPDIR, ignore_errors=True)

digest = hashlib.sha256(repr(results).encode("utf-8")).hexdigest()
n_exc = sum(1 for r in results if r[1][0] == 'EXC')
n_out = sum(1 for r in results if r[2])
print("cases=%i exceptions=%i with_stdout=%i" % (len(results), n_exc, n_out))
print("digest=" + digest)
