"""
Differential script for the WangLandauMachine refactorings.

Run once with cwd=/tmp/seed/R36 (changed tree) and once with cwd=/repo
(unchanged tree); the printed output (a digest plus a few counters) must be
identical.  Use  EQUIV_VERBOSE=1  to dump every record instead of the digest.
"""
import os
import sys

if os.environ.get("PYTHONHASHSEED") != "0" or not sys.dont_write_bytecode:
    # fixed string hashing (set printing order) and no .pyc files in the trees
    os.environ["PYTHONHASHSEED"] = "0"
    os.execv(sys.executable, [sys.executable, "-B"] + sys.argv)

sys.path.insert(0, os.getcwd())

import contextlib
import hashlib
import io
import shutil
import tempfile
import time
import warnings

warnings.simplefilter("ignore")

# ---------------------------------------------------------------------------
# make everything that is seeded from the clock deterministic
# ---------------------------------------------------------------------------
_clock = [1000.0]


def _fake_time():
    _clock[0] += 0.125
    return _clock[0]


time.time = _fake_time

import numpy as np

import localcider
from localcider.backend import wang_landau as wlmod
from localcider.backend.sequence import Sequence
from localcider.backend.wang_landau import WangLandauMachine as WLM

assert os.path.abspath(localcider.__file__).startswith(os.getcwd()), localcider.__file__

RECORDS = []
TMPROOT = tempfile.mkdtemp(prefix="wl_equiv_")
CWD = os.getcwd()


def scrub(text):
    return text.replace(TMPROOT, "<TMP>").replace(CWD, "<CWD>")


def rec(tag, value):
    RECORDS.append("%s => %s" % (scrub(tag), scrub(value)))


def show(v):
    """deterministic, type-revealing representation"""
    if isinstance(v, np.ndarray):
        return "ndarray(%s,%s,%s)" % (v.dtype, v.shape, [x.hex() if isinstance(x, float) else repr(x) for x in v.ravel().tolist()])
    if isinstance(v, float):
        return "float(%s)" % v.hex()
    if isinstance(v, np.generic):
        return "%s(%r)" % (type(v).__name__, v.item())
    if isinstance(v, (set, frozenset)):
        try:
            items = sorted(v)
        except TypeError:
            items = sorted(v, key=repr)
        return "%s(%s)" % (type(v).__name__, [show(x) for x in items])
    if isinstance(v, (list, tuple)):
        return "%s(%s)" % (type(v).__name__, [show(x) for x in v])
    if isinstance(v, Sequence):
        return "Sequence(%s,dmax=%s,sdm=%r)" % (v.seq, show(v.dmax), v.seqDeltaMax)
    if isinstance(v, dict):
        return "{%s}" % ", ".join("%s: %s" % (k, show(v[k])) for k in sorted(v))
    return "%s(%r)" % (type(v).__name__, v)


def state(obj):
    return show(dict(vars(obj)))


def call(tag, fn, *a, **k):
    """call fn, record result / exception and everything it printed"""
    buf = io.StringIO()
    try:
        with contextlib.redirect_stdout(buf):
            out = fn(*a, **k)
        rec(tag, "RET " + show(out))
    except BaseException as e:  # noqa
        out = None
        rec(tag, "EXC %s: %s" % (type(e).__name__, e))
    rec(tag + " [stdout]", repr(buf.getvalue()))
    return out


def dump_dir(tag, d):
    if not os.path.isdir(d):
        rec(tag + " [dir]", "MISSING")
        return
    for name in sorted(os.listdir(d)):
        with open(os.path.join(d, name), "rb") as fh:
            rec(tag + " [file %s]" % name, repr(fh.read()))


def newdir(name):
    d = os.path.join(TMPROOT, name)
    os.makedirs(d)
    return d


def build(tag, *a, **k):
    """construct through __new__/__init__ so that partial state is visible"""
    obj = WLM.__new__(WLM)
    call(tag, obj.__init__, *a, **k)
    rec(tag + " [state]", state(obj))
    return obj


def quiet(*a, **k):
    with contextlib.redirect_stdout(io.StringIO()):
        return WLM(*a, **k)


# ---------------------------------------------------------------------------
# 1. __init__
# ---------------------------------------------------------------------------
SEQS = {
    "short": "EEEKKKGGSS",
    "len30": "EKEKEKEKEKGGGGGSSSSSDDDDDRRRRR",
    "len31": "EKEKEKEKEKGGGGGSSSSSDDDDDRRRRRA",
    "long": "MEEEKKKDDDRRRGSGSGSQQNNPPAAVVLLIIFFWWYYHHCCMMTTEEKK",
    "lower": "eekkgsgs",
    "odd": "EKXZB-EK",
    "empty": "",
    "nocharge": "GSGSGSGS",
}

D0 = newdir("init")

for name, s in SEQS.items():
    build("init seq=%s" % name, s, D0)
    try:
        so = Sequence(s)
    except Exception as e:
        rec("init seqobj=%s" % name, "Sequence() itself fails: %s" % type(e).__name__)
    else:
        build("init seqobj=%s" % name, so, D0)
    build("init zoom seq=%s" % name, s, D0, WL_type="ZOOM")

for bad in (None, 12, ["E", "K"], b"EK"):
    build("init badseq=%r" % (bad,), bad, D0)


class Sequence2(str):
    """something that is not called Sequence"""


build("init strsubclass", Sequence2("EEKK"), D0)

FROZEN = {
    "set": set([1, 2]),
    "list": [3, 3, 1],
    "tuple": (0,),
    "range": range(2, 5),
    "gen": None,  # built fresh below
    "empty": [],
    "str": "abc",
    "frozenset": frozenset([7]),
    "none": None,
    "int": 5,
    "unhashable": [[1], [2]],
}
for name, fr in FROZEN.items():
    if name == "gen":
        fr = (i * i for i in range(4))
    build("init frozen=%s" % name, SEQS["short"], D0, fr)
    if name == "gen":
        fr = (i * i for i in range(4))
    build("init zoom frozen=%s" % name, SEQS["short"], D0, frozenResidues=fr, WL_type="ZOOM")

# the caller's container must not be aliased
mine = set([1, 2])
o = quiet(SEQS["short"], D0, mine)
o.frozen.add(99)
rec("init frozen alias", show(mine))
o1 = quiet(SEQS["short"], D0)
o1.frozen.add(5)
o2 = quiet(SEQS["short"], D0)
rec("init default frozen shared", show(o2.frozen))

NBINS = [10, 1, 2, 3, 7, 20, 100, 0, -4, "5", "x", 3.7, None, True, np.int64(4), 1e3]
RANGES = [(0, 1), (0.2, 0.6), (0.0, 0.5), (0.5, 1.0), (0.1, 0.15), (0.3, 0.3), (0.9, 0.1),
          ("0.1", "0.7"), (None, 1), (0, None), ("a", 1), (0, 2), (-1, 1), (0.25, 0.75),
          (0.05, 0.95), (float("nan"), 1), (0, float("inf")), (0.33, 0.66)]
for wl in ("NORMAL", "ZOOM", "other", None, ["NORMAL"], 0):
    for nb in NBINS:
        for (lo, hi) in RANGES if wl in ("NORMAL", "other") else RANGES[:3] + RANGES[7:10]:
            build("init wl=%r nb=%r lo=%r hi=%r" % (wl, nb, lo, hi), SEQS["short"], D0,
                  nbins=nb, binmin=lo, binmax=hi, WL_type=wl)

for fc in (10000, 20, 19, 5, 0, -50, "40", "x", None, 39.9, 1e6):
    build("init flatchk=%r" % (fc,), SEQS["short"], D0, flatchk=fc)
for crit in (.7, 1, "0.5", "x", None):
    build("init flatcrit=%r" % (crit,), SEQS["short"], D0, flatcrit=crit)
    build("init zoom flatcrit=%r" % (crit,), SEQS["short"], D0, flatcrit=crit, WL_type="ZOOM")
for conv in (np.exp(.000001), 3, "1.5", "x", None):
    build("init conv=%r" % (conv,), SEQS["short"], D0, convergence=conv)
for wd in (D0, ".", "", "rel/path", None, 5, os.path.join(D0, "nope")):
    build("init writedir=%r" % (wd,), SEQS["short"], wd)

# keyword / positional forms and missing args
build("init all-positional", SEQS["long"], D0, [1], 5, 0.1, 0.6, 100, .8, 1.2, "NORMAL")
build("init all-keyword", seq=SEQS["long"], writedir=D0, frozenResidues=[1], nbins=5, binmin=0.1,
      binmax=0.6, flatchk=100, flatcrit=.8, convergence=1.2, WL_type="ZOOM")
build("init missing")
build("init extra", SEQS["short"], D0, bogus=1)

# repeated __init__ on one object
obj = WLM.__new__(WLM)
call("reinit 1", obj.__init__, SEQS["short"], D0, [1], 5, 0.2, 0.7)
call("reinit 2", obj.__init__, SEQS["long"], D0, WL_type="ZOOM")
rec("reinit state", state(obj))
call("reinit 3 (fails)", obj.__init__, SEQS["long"], D0, nbins=4, binmin="q")
rec("reinit state after failure", state(obj))

# ---------------------------------------------------------------------------
# 2. getBinSize / getBinCenters / indexInsideRelevantRegion / setDotFreq
# ---------------------------------------------------------------------------
base = quiet(SEQS["short"], D0, nbins=5, binmin=0.2, binmax=0.7)
for nba in (10, 1, 3, 7, 1000, 0, -3, 2.5, 0.0, "4", None, np.int64(6), np.float64(3.2), True):
    base.nbins_actual = nba
    call("getBinSize nba=%r" % (nba,), base.getBinSize)
    call("getBinCenters nba=%r" % (nba,), base.getBinCenters)
    call("getBinCenters again nba=%r" % (nba,), base.getBinCenters)

IDX = [0, 1, 2, 3, 4, 5, 6, 7, -1, 100, 2.5, 3.0, float("nan"), np.int64(3), np.int64(9), np.float64(2.0),
       True, False, "3", None, np.array([3]), np.array([9]), np.array([1, 3]), np.array([]), [3], (3,),
       np.array(3), 3 + 0j]
BOUNDS = [(2, 6), (np.int64(2), np.int64(6)), (0, 0), (5, 2), (2.5, 3.5), (None, 3), (3, None), ("1", "5"),
          (np.array([2]), np.array([6])), (float("nan"), 5)]
for (lo, hi) in BOUNDS:
    base.relevant_min, base.relevant_max = lo, hi
    for idx in IDX:
        call("inside lo=%r hi=%r idx=%r" % (lo, hi, idx), base.indexInsideRelevantRegion, idx)
del base.relevant_max
call("inside no relevant_max", base.indexInsideRelevantRegion, 3)
base.relevant_max = 6
del base.relevant_min
call("inside no relevant_min, above", base.indexInsideRelevantRegion, 9)
call("inside no relevant_min, below", base.indexInsideRelevantRegion, 3)


class Chatty(object):
    """records the order in which comparisons happen"""
    log = []

    def __init__(self, v):
        self.v = v

    def __le__(self, o):
        Chatty.log.append("le %r" % (o,))
        return self.v <= o

    def __ge__(self, o):
        Chatty.log.append("ge %r" % (o,))
        return self.v >= o


base.relevant_min, base.relevant_max = 2, 6
for v in (1, 3, 8):
    Chatty.log = []
    call("inside chatty %r" % v, base.indexInsideRelevantRegion, Chatty(v))
    rec("inside chatty log %r" % v, repr(Chatty.log))

# after construction, for real geometries
for nb, lo, hi in [(10, 0, 1), (5, 0.2, 0.7), (4, 0.1, 0.3), (3, 0.5, 1.0), (7, 0.33, 0.66)]:
    o = quiet(SEQS["short"], D0, nbins=nb, binmin=lo, binmax=hi)
    call("geom centers %r" % ((nb, lo, hi),), o.getBinCenters)
    call("geom size %r" % ((nb, lo, hi),), o.getBinSize)
    rec("geom inside %r" % ((nb, lo, hi),), repr([o.indexInsideRelevantRegion(i) for i in range(-1, o.nbins_actual + 2)]))
    rec("geom inside types %r" % ((nb, lo, hi),), repr(sorted(set(type(o.indexInsideRelevantRegion(i)).__name__ for i in range(-1, o.nbins_actual + 2)))))

# ---------------------------------------------------------------------------
# 3. run(): dispatch
# ---------------------------------------------------------------------------
for wl in ("NORMAL", "ZOOM", "normal", "", None, 0, ["NORMAL"], np.array(["NORMAL"]), np.array(["NORMAL", "ZOOM"])):
    o = quiet(SEQS["short"], D0, nbins=4)
    o.WL_type = wl
    calls = []
    o.run_normal_WL = lambda calls=calls: (calls.append("normal"), "N-RESULT")[1]
    o.run_histogramZoomWL = lambda *a, calls=calls: (calls.append("zoom"), "Z-RESULT")[1]
    call("run stubbed wl=%r" % (wl,), o.run)
    rec("run stubbed calls wl=%r" % (wl,), repr(calls))
    o.run_histogramZoom_WL = lambda calls=calls: (calls.append("zoom_"), "Z_-RESULT")[1]
    call("run stubbed2 wl=%r" % (wl,), o.run)
    rec("run stubbed2 calls wl=%r" % (wl,), repr(calls))
    del o.WL_type
    call("run no WL_type", o.run)

# ---------------------------------------------------------------------------
# 4. log writers
# ---------------------------------------------------------------------------
D1 = newdir("logs")
lw = quiet(SEQS["short"], D1)
VECTORS = {
    "ints": [1, 2, 3],
    "empty": [],
    "floats": [0.5, 1.25, -3.14159, 1e10, 1e-10],
    "nparr": np.array([1.5, 2.5]),
    "npint": np.arange(4),
    "np2d": np.array([[1, 2], [3, 4]]),
    "tuple": (1, 2.9),
    "gen": None,
    "nan": [float("nan"), float("inf"), -float("inf")],
    "strs": ["a", "b"],
    "mixedbad": [1, 2, "x", 4],
    "tupleelem": [(1,), (2,)],
    "tuple2elem": [(1, 2)],
    "emptytuple": [()],
    "none": None,
    "int": 7,
    "str": "123",
    "bools": [True, False],
    "nonelem": [1, None],
    "dict": {1: 2, 3: 4},
    "big": list(range(300)),
    "npfloat": [np.float64(1.23456789), np.int64(2)],
}
for name, vec in VECTORS.items():
    for fname in ("fprintHVector", "fprintGVector", "fprintVertVector"):
        if name == "gen":
            vec = (x / 3.0 for x in range(5))
        call("%s %s" % (fname, name), getattr(lw, fname), vec)


class Exploding(object):
    """iterable which fails part way"""

    def __iter__(self):
        yield 1
        yield 2
        raise RuntimeError("boom")


for fname in ("fprintHVector", "fprintGVector", "fprintVertVector"):
    call("%s exploding" % fname, getattr(lw, fname), Exploding())

lf = os.path.join(D1, "a.txt")
call("mklog plain", lw.mklog, lf)
dump_dir("after mklog plain", D1)
call("mklog initial", lw.mklog, lf, "header\n")
call("mklog initial kw", lw.mklog, logfile=os.path.join(D1, "b.txt"), initial="hb\n")
dump_dir("after mklog initial", D1)
call("writeLog 1", lw.writeLog, lf, "line1\n")
call("writeLog 2", lw.writeLog, lf, "")
call("writeLog 3", lw.writeLog, logfile=lf, output="line3")
call("writeLog new file", lw.writeLog, os.path.join(D1, "c.txt"), "created by append\n")
dump_dir("after writeLog", D1)
call("writeLog bad output", lw.writeLog, lf, 5)
call("writeLog None output", lw.writeLog, lf, None)
call("writeLog bytes output", lw.writeLog, lf, b"x")
call("writeLog bad output new file", lw.writeLog, os.path.join(D1, "d.txt"), 5)
call("mklog bad initial", lw.mklog, os.path.join(D1, "e.txt"), 5)
call("mklog bad initial existing", lw.mklog, lf, None)
dump_dir("after bad writes", D1)
call("mklog missing dir", lw.mklog, os.path.join(D1, "nodir", "x.txt"))
call("writeLog missing dir", lw.writeLog, os.path.join(D1, "nodir", "x.txt"), "t")
call("mklog is a dir", lw.mklog, D1)
call("writeLog is a dir", lw.writeLog, D1, "t")
call("mklog None", lw.mklog, None)
call("writeLog None", lw.writeLog, None, "t")
call("mklog truncates", lw.mklog, lf)
dump_dir("after truncation", D1)
call("mklog no args", lw.mklog)
call("writeLog one arg", lw.writeLog, lf)

# ---------------------------------------------------------------------------
# 5. run_normal_WL / run()
# ---------------------------------------------------------------------------


def scrub_times(tagprefix, fn, *a, **k):
    return call(tagprefix, fn, *a, **k)


# (a) converged from the start: only the set-up part and the final write run
n = 0
for seqname in ("short", "long", "nocharge", "lower"):
    for (nb, lo, hi) in [(10, 0, 1), (5, 0.2, 0.7), (3, 0.5, 1.0), (4, 0.1, 0.3)]:
        n += 1
        d = newdir("setup%d" % n)
        o = quiet(SEQS[seqname], d, [1, 2], nb, lo, hi, 50, .7, 3.0)
        call("setup-only run_normal_WL %s %r" % (seqname, (nb, lo, hi)), o.run_normal_WL)
        dump_dir("setup-only files %s %r" % (seqname, (nb, lo, hi)), d)
        rec("setup-only state %s %r" % (seqname, (nb, lo, hi)), state(o))
        # again on the same object, through run()
        call("setup-only run() again %s %r" % (seqname, (nb, lo, hi)), o.run)
        dump_dir("setup-only files again %s %r" % (seqname, (nb, lo, hi)), d)
        rec("setup-only state again %s %r" % (seqname, (nb, lo, hi)), state(o))

# pre-existing content in the log files is overwritten
d = newdir("preexisting")
for name in ("hlog.txt", "glog.txt", "seqlog.txt", "histogram_bins.txt", "DOS.txt", "other.txt"):
    with open(os.path.join(d, name), "w") as fh:
        fh.write("OLD CONTENT\n")
o = quiet(SEQS["short"], d, nbins=4, convergence=5)
call("preexisting run", o.run)
dump_dir("preexisting files", d)

# write dir missing / unusable
o = quiet(SEQS["short"], os.path.join(TMPROOT, "does", "not", "exist"), nbins=4, convergence=5)
call("missing writedir run_normal_WL", o.run_normal_WL)
rec("missing writedir exists", repr(os.path.exists(os.path.join(TMPROOT, "does"))))
d = newdir("filedir")
fpath = os.path.join(d, "iamafile")
open(fpath, "w").close()
o = quiet(SEQS["short"], fpath, nbins=4, convergence=5)
call("writedir is file", o.run_normal_WL)
# a directory sits where a later log should go: earlier logs are created first
for blocker in ("hlog.txt", "glog.txt", "seqlog.txt", "histogram_bins.txt", "DOS.txt", "DOS_local.txt"):
    d = newdir("blocked_" + blocker)
    os.makedirs(os.path.join(d, blocker))
    o = quiet(SEQS["short"], d, nbins=4, convergence=5)
    call("blocked %s" % blocker, o.run_normal_WL)
    for name in sorted(os.listdir(d)):
        p = os.path.join(d, name)
        rec("blocked %s [%s]" % (blocker, name), "DIR" if os.path.isdir(p) else repr(open(p, "rb").read()))

# odd state on the object
d = newdir("oddstate")
o = quiet(SEQS["short"], d, nbins=4, convergence=5)
o.relevant_min, o.relevant_max = 3, 1
call("relevant reversed", o.run_normal_WL)
dump_dir("relevant reversed files", d)
o.relevant_min, o.relevant_max = 0, 100
call("relevant beyond", o.run_normal_WL)
dump_dir("relevant beyond files", d)
o.relevant_min = None
call("relevant_min None", o.run_normal_WL)
dump_dir("relevant_min None files", d)
o.relevant_min = "a"
call("relevant_min str", o.run_normal_WL)
dump_dir("relevant_min str files", d)
o.relevant_min = 0
o.nbins_actual = 0
call("nbins_actual 0", o.run_normal_WL)
dump_dir("nbins_actual 0 files", d)
o.nbins_actual = 4
o.seq = Sequence("GGGG")
call("uncharged seq", o.run_normal_WL)
dump_dir("uncharged seq files", d)
o.seq = "not a sequence object"
call("seq is str", o.run_normal_WL)
dump_dir("seq is str files", d)
o.seq = Sequence("EEKK")
o.writeDir = None
call("writeDir None", o.run_normal_WL)
o.writeDir = d
del o.convergence
call("no convergence attr", o.run_normal_WL)
dump_dir("no convergence files", d)
o.convergence = 5
del o.frozen
call("no frozen attr (never used when converged)", o.run_normal_WL)

# order of set-up events: trace the helper calls
d = newdir("trace")
o = quiet(SEQS["short"], d, nbins=4, binmin=0.25, binmax=0.75, convergence=5)
events = []
_mk, _wr, _sc = o.mklog, o.writeLog, o.sanity_check
o.mklog = lambda *a, **k: (events.append(("mklog", a, sorted(k.items()))), _mk(*a, **k))[1]
o.writeLog = lambda *a, **k: (events.append(("writeLog", a, sorted(k.items()))), _wr(*a, **k))[1]
o.sanity_check = lambda *a, **k: (events.append(("sanity", a, sorted(k.items()))), _sc(*a, **k))[1]
_dm = o.seq.deltaMax
o.seq.deltaMax = lambda *a, **k: (events.append(("deltaMax", a, sorted(k.items()))), _dm(*a, **k))[1]
call("traced run", o.run_normal_WL)
for i, e in enumerate(events):
    rec("trace event %02d" % i, repr(e))
dump_dir("trace files", d)

# (b) full deterministic runs through the main loop (clock is faked, so the
#     RNG seeds are reproducible)
RUNS = [
    ("short", [], 4, 0, 1, 40, .3, np.exp(0.3)),
    ("short", [0, 1], 3, 0.0, 0.6, 25, .2, np.exp(0.4)),
    ("len30", [2, 3, 4], 5, 0, 1, 60, .1, np.exp(0.5)),
]
for i, (seqname, fr, nb, lo, hi, fchk, crit, conv) in enumerate(RUNS):
    d = newdir("full%d" % i)
    _clock[0] = 5000.0 + 100 * i
    o = quiet(SEQS[seqname], d, fr, nb, lo, hi, fchk, crit, conv)
    call("full run %d" % i, o.run)
    dump_dir("full run files %d" % i, d)
    rec("full run state %d" % i, state(o))

# ---------------------------------------------------------------------------
# 6. through the public API layer
# ---------------------------------------------------------------------------
from localcider.sequencePermutants import SequencePermutants

sp = SequencePermutants(SEQS["long"])
buf = io.StringIO()
d = newdir("api")
with contextlib.redirect_stdout(buf):
    sp.initializeWangLandauParameters(d, nbins=6, binmin=0.1, binmax=0.7, flatchck=200, convergence=4)
rec("api stdout", repr(buf.getvalue()))
rec("api state", state(sp.WLM))
call("api run", sp.WLM.run)
dump_dir("api files", d)

# ---------------------------------------------------------------------------
shutil.rmtree(TMPROOT, ignore_errors=True)

if os.environ.get("EQUIV_VERBOSE"):
    for r in RECORDS:
        print(r)
h = hashlib.sha256()
for r in RECORDS:
    h.update(r.encode("utf-8", "backslashreplace"))
    h.update(b"\n")
print("records:", len(RECORDS))
print("exceptions:", sum(1 for r in RECORDS if "=> EXC" in r))
print("digest:", h.hexdigest())
