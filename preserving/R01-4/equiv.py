"""
Differential script: run once with cwd=/tmp/seed/R01 (changed tree) and once
with cwd=/repo (unchanged tree); the printed output must be identical.

    cd /tmp/seed/R01 && /venv/bin/python /tmp/seed/R01_out/<X>/equiv.py > new.txt
    cd /repo         && /venv/bin/python /tmp/seed/R01_out/<X>/equiv.py > old.txt
    diff old.txt new.txt
"""
import os
import sys
import io
import hashlib
import contextlib
import warnings

sys.dont_write_bytecode = True
sys.path.insert(0, os.getcwd())

import numpy as np  # noqa: E402
from localcider.backend.sequence import Sequence  # noqa: E402
from localcider.sequenceParameters import SequenceParameters  # noqa: E402
import localcider  # noqa: E402

assert os.path.realpath(localcider.__file__).startswith(os.path.realpath(os.getcwd())), localcider.__file__

SEQS = [
    "",
    "A",
    "P",
    "K",
    "E",
    "X",
    "ACDEFGHIKLMNPQRSTVWY",
    "acdefghiklmnpqrstvwy",
    "EEEEEEEEKKKKKKKK",
    "EKEKEKEKEKEKEKEK",
    "MDVFMKGLSKAKEGVVAAAEKTKQGVAEAAGKTKEGVLYVGSKTKEGVVHGVATVAEKTKEQVTNVGGAVVTGVTAVAQKTVEGAGSIAAATGFVKKDQLGKNEEGAPQEGILEDMPVDPDNEAYEMPSEEGYQDYEPEA",
    "PPPPPPPPGGGGSSSS",
    "GSGSGSGSGSGSGS",
    "HHHHHHCCCCYYYY",
    "RRRRRRRRRRRRRRRRRRRR",
    "DDDDDDDDDDDDDDDDDDDD",
    "AAAXAAA",
    "AB",
    "A A",
    "A-K",
    "KKBZ",
    "ﬁ",            # ligature: upper() -> 'FI' (len(seq) != len(seq.upper()))
    "AﬁK",
    "ßAK",          # sharp s: upper() -> 'SS'
    "WFYIMLVNC",
    "TAGRDHQKSEP",
    "QQQQQQQQQQNNNNNNNNNN",
    "MKKLLPTAAAGLLLLAAQPAMA" * 7,
]

CHARGE_PATTERNS = [
    None,
    [],
    [1, -1, 0],
    np.array([1, -1, 0]),
    np.array([1.0, -1.0, 0.0, 1.0]),
    np.array([[1, -1], [0, 1]]),
    np.array([]),
    (1, -1),
    "abc",
]

PHS = [None, 0, 0.0, 1, 3.5, 7, 7.4, 10.5, 14, 20, -3, "7", np.float64(6.0), [7.0], True]
MODES = ["hilser", "creamer", "kallenbach", "HILSER", "Creamer", "bad", "", None, 3]

NOARG = ["fraction_disorder_promoting", "amino_acid_fraction", "countPos", "countNeg",
         "countNeut", "Fplus", "Fminus", "FCR", "FER", "NCPR", "mean_net_charge",
         "meanHydropathy", "uverskyHydropathy", "meanWWHydropathy", "FPPII_chain",
         "molecular_weight"]
PHARG = ["FCR", "FER", "NCPR", "mean_net_charge"]

LINES = []


def fmt(v):
    if isinstance(v, dict):
        return "dict[" + ", ".join("%r: %s" % (k, fmt(x)) for k, x in v.items()) + "]"
    if isinstance(v, (list, tuple)):
        return type(v).__name__ + "[" + ", ".join(fmt(x) for x in v) + "]"
    if isinstance(v, np.ndarray):
        return "ndarray(%s,%s)%s" % (v.dtype, v.shape, [fmt(x) for x in v.ravel().tolist()])
    return "%s:%r" % (type(v).__name__, v)


def call(label, f, *a, **k):
    out = io.StringIO()
    with warnings.catch_warnings(record=True) as wlist:
        warnings.simplefilter("always")
        try:
            with contextlib.redirect_stdout(out):
                r = f(*a, **k)
            res = "OK " + fmt(r)
        except BaseException as e:  # noqa
            res = "EXC %s: %s" % (type(e).__name__, e)
    wtxt = ["%s:%s" % (w.category.__name__, w.message) for w in wlist]
    LINES.append("%s -> %s | stdout=%r | warnings=%r" % (label, res, out.getvalue(), wtxt))


def state(obj):
    cp = obj.chargePattern
    return "seq=%r len=%r cp=%s dmax=%r phos=%r" % (obj.seq, obj.len, fmt(cp), obj.dmax, obj.phosphosites)


def exercise(label, obj):
    LINES.append(label + " STATE0 " + state(obj))
    for rep in range(2):          # repeated calls on one object
        for name in NOARG:
            call("%s.%s()#%d" % (label, name, rep), getattr(obj, name))
    for name in PHARG:
        for ph in PHS:
            call("%s.%s(%r)" % (label, name, ph), getattr(obj, name), ph)
            call("%s.%s(pH=%r)" % (label, name, ph), getattr(obj, name), pH=ph)
    for m in MODES:
        call("%s.FPPII_chain(%r)" % (label, m), obj.FPPII_chain, m)
        call("%s.FPPII_chain(mode=%r)" % (label, m), obj.FPPII_chain, mode=m)
    # the dict returned must be a fresh object on every call
    try:
        a = obj.amino_acid_fraction()
        b = obj.amino_acid_fraction()
        a["A"] = 99
        LINES.append("%s fresh-dict %r %r" % (label, a is b, fmt(obj.amino_acid_fraction())))
    except BaseException as e:  # noqa
        LINES.append("%s fresh-dict EXC %s" % (label, type(e).__name__))
    LINES.append(label + " STATE1 " + state(obj))


def main():
    for si, s in enumerate(SEQS):
        for validate in (False, True):
            label = "S%d[%r,v=%s]" % (si, s[:12], validate)
            out = io.StringIO()
            try:
                with contextlib.redirect_stdout(out):
                    obj = Sequence(s, validateSeq=validate)
            except BaseException as e:  # noqa
                LINES.append("%s CTOR EXC %s: %s | %r" % (label, type(e).__name__, e, out.getvalue()))
                continue
            LINES.append("%s CTOR OK | %r" % (label, out.getvalue()))
            exercise(label, obj)

    # explicit charge patterns
    for ci, cpat in enumerate(CHARGE_PATTERNS):
        for s in ("", "EKA", "EKAP"):
            label = "C%d[%r]" % (ci, s)
            try:
                if cpat is None:
                    obj = Sequence(s)
                else:
                    obj = Sequence(s, chargePattern=cpat)
            except BaseException as e:  # noqa
                LINES.append("%s CTOR EXC %s: %s" % (label, type(e).__name__, e))
                continue
            exercise(label, obj)

    # objects whose state was changed after construction
    obj = Sequence("EKEKEKPPAAGG")
    obj.seq = "EKEK"            # len now larger than the sequence
    exercise("MUT-short", obj)
    obj = Sequence("EKEK")
    obj.seq = "EKEKEKPPAAGG"    # len now smaller than the sequence
    exercise("MUT-long", obj)
    obj = Sequence("EKEKAAPP")
    obj.len = 0
    exercise("MUT-len0", obj)
    obj = Sequence("EKEKAAPP")
    obj.setPhosPhoSites([]) if hasattr(obj, "setPhosPhoSites") else None
    exercise("PHOS-empty", obj)

    # through the public API class
    for s in ("EKEKEKEKAAPPGG", "MDVFMKGLSKAKEGVVAAAEKTKQGV", "ACDEFGHIKLMNPQRSTVWY"):
        try:
            sp = SequenceParameters(s)
        except BaseException as e:  # noqa
            LINES.append("SP[%r] CTOR EXC %s: %s" % (s, type(e).__name__, e))
            continue
        for name in ("get_fraction_disorder_promoting", "get_amino_acid_fractions", "get_countPos",
                     "get_countNeg", "get_countNeut", "get_fraction_positive", "get_fraction_negative",
                     "get_FCR", "get_fraction_expanding", "get_NCPR", "get_mean_net_charge",
                     "get_mean_hydropathy", "get_uversky_hydropathy", "get_WW_hydropathy",
                     "get_PPII_propensity", "get_molecular_weight", "get_phasePlotRegion",
                     "get_isoelectric_point"):
            if hasattr(sp, name):
                call("SP[%r].%s()" % (s, name), getattr(sp, name))
            else:
                LINES.append("SP[%r].%s MISSING" % (s, name))
        for ph in (None, 3, 7.4, 11):
            for name in ("get_FCR", "get_fraction_expanding", "get_NCPR", "get_mean_net_charge"):
                if hasattr(sp, name):
                    call("SP[%r].%s(pH=%r)" % (s, name, ph), getattr(sp, name), pH=ph)
        for m in ("hilser", "creamer", "kallenbach", "bad"):
            if hasattr(sp, "get_PPII_propensity"):
                call("SP[%r].get_PPII_propensity(%r)" % (s, m), sp.get_PPII_propensity, m)

    # class surface (names of attributes must be unchanged, modulo private helpers)
    LINES.append("PUBLIC " + ",".join(sorted(n for n in dir(Sequence) if not n.startswith("_"))))

    text = "\n".join(LINES)
    print("lines", len(LINES))
    print("sha256", hashlib.sha256(text.encode("utf-8", "backslashreplace")).hexdigest())
    if "--dump" in sys.argv:
        sys.stdout.write(text.encode("ascii", "backslashreplace").decode("ascii") + "\n")


main()
