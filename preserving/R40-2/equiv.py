"""Differential check for R2 (Sequence.validateSequence). Run with cwd=/tmp/seed/R40 and cwd=/repo; stdout must match."""
import os, sys, io, hashlib, contextlib, random
sys.path.insert(0, os.getcwd())
sys.dont_write_bytecode = True
import warnings
warnings.simplefilter('ignore')

import numpy as np
import localcider
from localcider.backend import backendtools as bt
from localcider.backend import sequence as seqmod
from localcider.backend.sequence import Sequence
from localcider.sequenceParameters import SequenceParameters

assert os.path.realpath(seqmod.__file__).startswith(os.path.realpath(os.getcwd())), seqmod.__file__

out = []
def rec(*a):
    out.append(repr(a))

def capture(fn, *a, **k):
    buf = io.StringIO()
    try:
        with contextlib.redirect_stdout(buf):
            r = fn(*a, **k)
        res = ('ok', r)
    except BaseException as e:
        res = ('exc', type(e).__name__, str(e), type(e.__context__).__name__)
    return res + (buf.getvalue(),)

class SubStr(str):
    pass
class EqAll(object):
    def __eq__(self, o): return True
    def __hash__(self): return 1
    def isspace(self): return False
    def __str__(self): return "EqAll"
class Spacey(object):
    calls = 0
    def isspace(self):
        Spacey.calls += 1
        return "yes"
class NotSpacey(object):
    def isspace(self): return 0
    def __str__(self): return "<NS>"
class BadStr(object):
    def isspace(self): return False
    def __str__(self): raise RuntimeError("no str")
def gen():
    for c in "AC D\tE":
        yield c

rng = random.Random(4040)
AA = "ACDEFGHIKLMNPQRSTVWY"
inputs = ["", " ", "   ", "\n\t ", "A", "P", "PA", "PPPA", "PPPPPPPPPPPPPPPPPPPP", "ACDEFGHIKLMNPQRSTVWY",
          "AC DE", " A C D E ", "A\nC\tD\x0bE\x0cF\rG", "A C", "A C　D", "acde", "aCdE", "ACDX", "XACD",
          "ACD*", "AC-DE", "AC1DE", " 1", "  Z", "B", "J", "O", "U", "Z", "ACDE.", "ACDé", "ß", "A\x00C",
          "PPPAAAAAAAAAAAAAAAAA", "PPPAAAAAAAAAAAAAAAAAA", "PPPPAAAAAAAAAAAAAAAAAAAAAAA", "PPP" + "A" * 17, "PPP" + "A" * 16,
          SubStr("ACD"), SubStr("AC D"), SubStr("ACx"), np.str_("ACD E"),
          ["A", "C", "D"], ["A", " ", "P"], ["AC", "D"], ["A", ""], ("A", "P", "\t", "\n"), [], (), ["A", 5], [None],
          ["A", SubStr("C")], [SubStr("P")], [EqAll()], ["A", EqAll()], [Spacey(), "A"], ["A", Spacey(), Spacey(), "P"],
          [NotSpacey()], ["A", "C", NotSpacey()], [BadStr()], b"ACD", bytearray(b"AC"), 5, None, 3.2, {"A": 1, "P": 2},
          {"A", }, np.array(["A", "C"]), np.array([1, 2])]
for _ in range(120):
    n = rng.randint(1, 40)
    pool = AA * 3 + "PPPPP" + " \t\n" + "xXbz*-1"
    inputs.append("".join(rng.choice(pool) for _ in range(n)))
for _ in range(60):
    n = rng.randint(1, 60)
    inputs.append("".join(rng.choice(AA + "PP ") for _ in range(n)))

saved = (bt.HUSH_WARNINGS, bt.HUSH_STATUS, bt.HUSH_ALL)
for flags in [(False, False, True), (False, False, False), (True, False, False), (False, True, False)]:
    bt.HUSH_WARNINGS, bt.HUSH_STATUS, bt.HUSH_ALL = flags
    host = Sequence("ACDEFGHIKL")
    for idx, s in enumerate(inputs):
        before = sorted(host.__dict__.keys())
        r = capture(host.validateSequence, s)
        rec('vs', flags, idx, r, type(r[1]).__name__ if r[0] == 'ok' else None)
        rec('state', host.seq, host.len, sorted(host.__dict__.keys()) == before)
        # repeated call on same object
        r2 = capture(host.validateSequence, s)
        rec('vs2', flags, idx, r2 == r or (r[0], r2[0]))
    # generator input (consumed once each)
    rec('gen', flags, capture(host.validateSequence, gen()))
    rec('iter', flags, capture(host.validateSequence, iter("ACDXE")))
    # through the constructors
    for idx, s in enumerate(inputs):
        if not isinstance(s, (str, list, tuple)):
            continue
        r = capture(Sequence, s, validateSeq=True) if isinstance(s, str) else None
        if r is not None:
            if r[0] == 'ok':
                o = r[1]
                rec('ctor', flags, idx, 'ok', o.seq, o.len, list(o.chargePattern), r[2])
            else:
                rec('ctor', flags, idx, r)
        if isinstance(s, str):
            r = capture(SequenceParameters, s)
            if r[0] == 'ok':
                o = r[1]
                rec('SP', flags, idx, 'ok', o.get_sequence(), o.get_length(), r[2])
            else:
                rec('SP', flags, idx, r)
bt.HUSH_WARNINGS, bt.HUSH_STATUS, bt.HUSH_ALL = saved
rec('spacey-calls', Spacey.calls)
rec('private-names', sorted(n for n in vars(Sequence) if 'validate' in n.lower()))

blob = "\n".join(out)
print(len(out), hashlib.sha256(blob.encode('utf-8', 'backslashreplace')).hexdigest())
for line in out[:2] + out[-3:]:
    print(line[:200].encode('ascii', 'backslashreplace').decode())
