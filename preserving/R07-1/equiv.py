"""Differential script for R1 (get_linear_complexity dispatch restructuring).

Run once with cwd=/tmp/seed/R07 (changed) and once with cwd=/repo (unchanged);
the printed output must be identical.
"""
import os, sys
sys.path.insert(0, os.getcwd())
import io, contextlib, hashlib, itertools
import numpy as np

import localcider
assert os.path.abspath(localcider.__file__).startswith(os.getcwd()), localcider.__file__
from localcider.sequenceParameters import SequenceParameters

LINES = []


def norm(x):
    if isinstance(x, np.ndarray):
        return ('nd', x.shape, [norm(v) for v in x.tolist()])
    if isinstance(x, (list, tuple)):
        return (type(x).__name__, [norm(v) for v in x])
    if isinstance(x, float):
        return repr(x)
    return repr(x)


def run(tag, fn):
    buf = io.StringIO()
    try:
        with contextlib.redirect_stdout(buf):
            out = ('OK', norm(fn()))
    except BaseException as e:  # noqa
        out = ('EXC', type(e).__name__, str(e))
    LINES.append(repr((tag, out, buf.getvalue())))


class EqAll(object):
    """pathological: no .upper(), equal to everything"""
    def __eq__(self, other):
        return True
    def __hash__(self):
        return 1
    def __repr__(self):
        return 'EqAll'


class EqLC(object):
    def __eq__(self, other):
        return other == 'LC'
    def __hash__(self):
        return 2
    def __repr__(self):
        return 'EqLC'


SEQS = [
    "MEEEKKKKSTTYQPPGNRDE",
    "A",
    "AAAAAAAAAAAAAAAAAAAAAAAA",
    "MKVLAAGIVALLLAAGCSSAQEDKRRSTYPNHWFMKVLAAGIVEEDDKKRRSTSTSYQQNNGG",
    "GSGSGSGSGSEKEKEKEKDRDRPPPPYYWWHHCC" * 3,
]
TYPES = ["WF", "wf", "Wf", "LC", "lc", "LZW", "lzw", "RHP", "rhp", "XX", "", None, 3, 2.5,
         ["WF"], ("LC",), b"WF", EqAll(), EqLC()]
WORDS = [3, 1, 2, 5, 3.0, None, "3", np.int64(3), np.array([3]), np.array([3, 4])]
ALPHA = [20, 2, 4, 11, 7, 0, 21, "20"]
BLOBS = [10, 1, 5, 25, 100, 0, -1]
STEPS = [1, 2, 7]   # NB: stepSize <= 0 loops forever in the (unchanged) backend
USER = [{}, {'A': 'X', 'E': 'X', 'K': 'Y'}]

for si, seq in enumerate(SEQS):
    SP = SequenceParameters(seq)
    # all defaults
    run(('default', si), lambda: SP.get_linear_complexity())
    # types x wordsizes
    for t, w in itertools.product(TYPES, WORDS):
        run(('tw', si, repr(t), repr(w)),
            lambda: SP.get_linear_complexity(complexityType=t, wordSize=w))
    # other arguments, positional forwarding
    for t in ["WF", "LC", "LZW", "bad"]:
        for a in ALPHA:
            run(('alpha', si, t, a), lambda: SP.get_linear_complexity(t, a))
        for b, st in itertools.product(BLOBS, STEPS):
            run(('blobstep', si, t, b, st),
                lambda: SP.get_linear_complexity(t, 20, {}, b, st))
            run(('blobstep-w', si, t, b, st),
                lambda: SP.get_linear_complexity(t, 4, {}, b, st, 2))
        for u in USER:
            run(('user', si, t, sorted(u.items())),
                lambda: SP.get_linear_complexity(t, 20, u, 5, 1, 4))
            run(('user-kw', si, t, sorted(u.items())),
                lambda: SP.get_linear_complexity(complexityType=t, userAlphabet=u, blobLen=8, stepSize=3))
    # repeated calls on the same object give stable answers
    run(('repeat', si), lambda: [SP.get_linear_complexity("LZW", wordSize=9) for _ in range(3)])
    # object state untouched
    run(('state', si), lambda: (SP.get_sequence(), sorted(k for k in vars(SP)), sorted(vars(SP.SeqObj).keys())))

# the helper must stay private: public attribute surface of the class is unchanged
LINES.append(repr(sorted(n for n in dir(SequenceParameters) if not n.startswith('_'))))

blob = "\n".join(LINES)
print("n_cases", len(LINES))
print("sha256", hashlib.sha256(blob.encode('utf-8')).hexdigest())
n_exc = sum(1 for l in LINES if "'EXC'" in l)
print("n_exceptions", n_exc)
for l in LINES[:4]:
    print(l[:300])
if os.environ.get("EQUIV_DUMP"):
    open(os.environ["EQUIV_DUMP"], "w").write(blob)
