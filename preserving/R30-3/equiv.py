"""
Differential script: run once with cwd=/tmp/seed/R30 (changed tree) and once
with cwd=/repo (unchanged tree); the printed output must be identical.
"""
import sys
import os

sys.dont_write_bytecode = True
sys.path.insert(0, os.getcwd())

import hashlib
import io
import contextlib
import warnings

warnings.simplefilter("ignore")

import numpy as np

from localcider.backend import sequence as seqmod
from localcider.backend import restable as rtmod
from localcider.backend.sequence import Sequence
from localcider.backend.restable import ResTable
from localcider.backend.data.aminoacids import ONE_TO_THREE, THREE_TO_ONE

LINES = []


def out(*parts):
    LINES.append(" | ".join(str(p) for p in parts))


def describe(value):
    """Deterministic description of a value (type, dtype, shape, content)."""
    if isinstance(value, np.ndarray):
        return "ndarray(%s,%s,%s)" % (value.dtype, value.shape, value.tolist())
    if isinstance(value, (np.generic,)):
        return "%s(%r)" % (type(value).__name__, value.item())
    if isinstance(value, dict):
        return "dict(%s)" % ", ".join(
            "%s: %s" % (describe(k), describe(v)) for k, v in value.items())
    if isinstance(value, (list, tuple)):
        return "%s[%s]" % (type(value).__name__, ", ".join(describe(v) for v in value))
    return "%s(%r)" % (type(value).__name__, value)


def run(fn):
    """Run fn capturing stdout; return (tag, description, printed text)."""
    buf = io.StringIO()
    try:
        with contextlib.redirect_stdout(buf):
            res = fn()
        return ("OK", res, buf.getvalue())
    except BaseException as e:  # noqa
        return ("EXC", "%s: %s" % (type(e).__name__, e), buf.getvalue())


def residue_desc(res):
    return "Residue(%s)" % ", ".join(
        "%s=%s" % (k, describe(v)) for k, v in vars(res).items())


def seq_state(s, passed=None):
    d = vars(s)
    parts = []
    for k in d:  # insertion order of attributes is part of the state
        v = d[k]
        if k == "ComplexityObject":
            parts.append("%s=<%s>" % (k, type(v).__name__))
        else:
            parts.append("%s=%s" % (k, describe(v)))
    if passed is not None:
        parts.append("cp_is_passed=%s" % (s.chargePattern is passed[0]))
    parts.append("cp_is_default=%s" % (s.chargePattern is Sequence.__init__.__defaults__[1]))
    return "; ".join(parts)


# ---------------------------------------------------------------------------
# ResTable
# ---------------------------------------------------------------------------
class MyStr(str):
    pass


class LenOnly(object):
    def __init__(self, n):
        self.n = n

    def __len__(self):
        return self.n

    def __repr__(self):
        return "LenOnly(%i)" % self.n


def restable_checks():
    t = ResTable()
    t2 = ResTable()
    out("RT attrs", sorted(vars(t).keys()))
    out("RT table type", type(t.residue_table).__name__, len(t.residue_table))
    out("RT key order", list(t.residue_table.keys()))
    for k, v in t.residue_table.items():
        out("RT entry", k, residue_desc(v))
    out("RT independent", t.residue_table is not t2.residue_table,
        all(t.residue_table[k] is not t2.residue_table[k] for k in t.residue_table))
    out("RT class attrs", sorted(k for k in vars(ResTable) if not k.startswith("__")))

    codes = []
    codes += list(ONE_TO_THREE.keys()) + list(THREE_TO_ONE.keys())
    codes += [c.lower() for c in ONE_TO_THREE] + [c.lower() for c in THREE_TO_ONE]
    codes += ["", "X", "B", "Z", "U", "O", "J", "*", " ", "-", "+", "0", "1",
              "AA", "AL", "XYZ", "Ala", "aLA", "ALAA", "ALA ", " AL", "A\n",
              "ß", "Α", "ALANINE", "A" * 50]
    codes += [MyStr("A"), MyStr("ALA"), MyStr("X"), MyStr("QQQ")]
    codes += [b"A", b"ALA", b"", bytearray(b"A")]
    codes += [["A"], ["ALA"], ["X"], [], ["A", "L", "A"], ["ALA", "A", "X"],
              ("A",), ("ALA",), ("A", "L", "A"), (), [1], [None], [["A"]]]
    codes += [{"A": 1}, {"ALA": 1}, {"A": 1, "B": 2, "C": 3}, {}, set(["A"]),
              frozenset(["ALA"]), frozenset(["A"])]
    codes += [None, 5, 3.0, True, 1, 3, object, len]
    codes += [np.array(["A"]), np.array(["ALA"]), np.array(["A", "L", "A"]),
              np.array([]), np.array([1]), np.array([1, 2, 3]), np.str_("A"),
              np.str_("ALA"), np.str_("X")]
    codes += [LenOnly(1), LenOnly(3), LenOnly(0), LenOnly(2), range(1), range(3)]

    for code in codes:
        label = describe(code) if not isinstance(code, (LenOnly, type, type(len))) else repr(code)
        tag, res, printed = run(lambda: t.lookForRes(code))
        if tag == "OK":
            res = residue_desc(res) + " same_obj=%s" % any(res is v for v in t.residue_table.values())
        out("lookForRes", label, tag, res, repr(printed))
        for name in ("lookUpHydropathy", "lookUpCharge"):
            tag, res, printed = run(lambda: getattr(t, name)(code))
            out(name, label, tag, describe(res) if tag == "OK" else res, repr(printed))
        for mode in ("hilser", "Creamer", "KALLENBACH", "bogus"):
            tag, res, printed = run(lambda: t.lookUpPPII(code, mode))
            out("lookUpPPII", label, mode, tag, describe(res) if tag == "OK" else res, repr(printed))

    # repeated calls on one object give the very same Residue objects
    out("RT repeat", t.lookForRes("A") is t.lookForRes("ALA"),
        t.lookForRes("K") is t.lookForRes("K"))
    # table is not changed by look-ups
    out("RT key order after", list(t.residue_table.keys()))
    # module-level table used by Sequence
    out("lkupTab", type(seqmod.lkupTab).__name__, list(seqmod.lkupTab.residue_table.keys()))
    # re-running __init__ on an existing table rebuilds it
    old = t.residue_table
    old_ala = t.residue_table["ALA"]
    t.residue_table["JUNK"] = 1
    t.__init__()
    out("RT reinit", t.residue_table is not old, "JUNK" in t.residue_table,
        t.residue_table["ALA"] is not old_ala, list(t.residue_table.keys()))


# ---------------------------------------------------------------------------
# Sequence.__init__
# ---------------------------------------------------------------------------
def sequence_checks():
    seqs = [
        "", "A", "K", "E", "D", "R", "H", "ACDEFGHIKLMNPQRSTVWY",
        "acdefghiklmnpqrstvwy", "KKKKEEEE", "kEkEkE", "EKEKEKEKEKEKEKEK",
        "MDVFMKGLSKAKEGVVAAAEKTKQGVAEAAGKTKEGVLYVGSKTKEGVVHGVATVAEKTKEQ",
        "PPPPPPPPPPKE", "PPPAAAAAAAAAAAAAAAAAAA", "GGGGGGGGGG",
        "AXA", "XAA", "AAX", "A A", " A", "A\tK\nE", "   ", "\n", "AK-E", "+-0",
        "A+", "+A", "0", "B", "Z", "U", "J", "O", "*", "A1", "1A",
        "ß", "Aß", "ßK", "ßKX", "KŉE", "ﬁ", "KﬃEX", "Α",
        "KEXß", "E" * 40 + "K" * 40, "Q" * 3,
    ]
    for s in seqs:
        for validate in (False, True, 0, 1, "yes", None):
            tag, res, printed = run(lambda: seq_state(Sequence(s, validateSeq=validate)))
            out("Seq", repr(s), repr(validate), tag, res, repr(printed))

    # non-string inputs
    for s in [None, 5, 1.5, b"AKE", ["A", "K"], ("A",), MyStr("AKE"), MyStr(""),
              np.str_("AKE"), bytearray(b"AK"), {"A": 1}, True]:
        for validate in (False, True):
            tag, res, printed = run(lambda: seq_state(Sequence(s, validateSeq=validate)))
            out("SeqType", describe(s), validate, tag, res, repr(printed))

    # dmax and positional arguments
    for args, kwargs in [(("AKE", 5), {}), (("AKE",), {"dmax": 0.25}), (("AKE", None), {}),
                         (("AKE", -1, [], True), {}), (("AKE", "x"), {}),
                         (("ake", 2, [1, 0, -1], False), {})]:
        tag, res, printed = run(lambda: seq_state(Sequence(*args, **kwargs)))
        out("SeqArgs", repr(args), repr(kwargs), tag, res, repr(printed))

    # charge pattern variants
    def patterns():
        return [
            [], (), "", b"", {}, set(), frozenset(), range(0), bytearray(),
            np.array([]), np.array([], dtype=int), np.array([], dtype=bool),
            np.array([], dtype="U1"), np.array([], dtype=np.int8),
            np.array([], dtype=np.uint64), np.array([], dtype=np.float16),
            np.array([], dtype=object), np.array([], dtype="datetime64[s]"),
            np.array([], dtype="timedelta64[s]"), np.array([], dtype=[("a", int)]),
            np.zeros((0, 3)), np.zeros((3, 0)), LenOnly(0),
            [1], [0, 0, 0], [1, -1, 0], (1, -1), "abc", np.array([1.0, -1.0]),
            np.array([1, 0, -1]), {"a": 1}, [[1, 2], [3]], LenOnly(2), range(3),
            None, 5, 0, 1.5, True, object(), len,
        ]

    for s in ["", "A", "AKE", "kde", "EEKK", "AKX", "XKA", "KAXE", "ßK", "KßX", "A E", "+-0A"]:
        for validate in (False, True):
            for cp in patterns():
                label = describe(cp) if not (isinstance(cp, LenOnly) or type(cp) is object or cp is len) else type(cp).__name__
                holder = [cp]
                tag, res, printed = run(
                    lambda: seq_state(Sequence(s, chargePattern=cp, validateSeq=validate), holder))
                out("SeqCP", repr(s), validate, label, tag, res, repr(printed))
                # the passed object is never modified
                if not (isinstance(cp, LenOnly) or type(cp) is object or cp is len):
                    out("SeqCP passed after", describe(cp))

    # the shared default list is never modified
    out("default", describe(Sequence.__init__.__defaults__))
    a = Sequence("")
    b = Sequence("")
    c = Sequence("AKE")
    d = Sequence("AKE")
    out("default sharing", a.chargePattern is b.chargePattern,
        c.chargePattern is d.chargePattern, describe(a.chargePattern),
        describe(c.chargePattern), describe(Sequence.__init__.__defaults__))

    # repeated __init__ on one object, including failing calls in between
    s = Sequence("AKEDR")
    s.phosphosites.append(3)
    s.extra = "kept"
    pal = s.__dict__.get("HTMLColorResiduePalette", None)
    steps = [
        lambda: s.__init__("EEKK", dmax=0.5),
        lambda: s.__init__("AKXE"),                       # fails in the loop
        lambda: s.__init__("AKE", chargePattern=None),    # fails at len()
        lambda: s.__init__(5),                            # fails at type check
        lambda: s.__init__("A X", validateSeq=True),      # fails in validation
        lambda: s.__init__("k e", validateSeq=True),
        lambda: s.__init__("AXA", chargePattern=[0, 0, 0]),
        lambda: s.__init__("KK", chargePattern=np.array([], dtype="datetime64[s]")),
        lambda: s.__init__("KX", chargePattern=np.array([], dtype="datetime64[s]")),
        lambda: s.__init__("XK", chargePattern=np.array([], dtype="datetime64[s]")),
        lambda: s.__init__(""),
    ]
    for i, step in enumerate(steps):
        tag, res, printed = run(step)
        out("reinit", i, tag, res, repr(printed), seq_state(s))

    # some derived values that depend on the state built in __init__
    for q in ["AKEDRKKEEDDAGSTPQ", "EKEKEKEKEKEKEKEK", "EEEEEEEEKKKKKKKK", "GSGSGSGSGS", "ßKEKE"]:
        for meth in ("FCR", "NCPR", "Fplus", "Fminus", "countPos", "countNeg",
                     "countNeut", "sigma", "kappa", "delta", "deltaMax", "mean_hydropathy",
                     "get_aa_sequence", "amino_acid_fraction"):
            obj = Sequence(q)
            if not hasattr(obj, meth):
                out("derived", repr(q), meth, "absent")
                continue
            tag, res, printed = run(lambda: getattr(obj, meth)())
            if tag == "OK":
                res = describe(np.round(res, 10)) if isinstance(res, (float, np.floating)) else describe(res)
            out("derived", repr(q), meth, tag, res, repr(printed))
            out("derived state", repr(q), meth, describe(obj.chargePattern), obj.len, obj.dmax)


restable_checks()
sequence_checks()

text = "\n".join(LINES)
if "--dump" in sys.argv:
    print(text)
print("lines:", len(LINES))
print("sha256:", hashlib.sha256(text.encode("utf-8", "backslashreplace")).hexdigest())
