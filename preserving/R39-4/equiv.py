"""Differential script: run once with cwd=/tmp/seed/R39 (changed) and once
with cwd=/repo (unchanged); the printed output must be identical."""
import os
import sys
sys.path.insert(0, os.getcwd())

import contextlib
import hashlib
import io
import warnings

warnings.simplefilter("ignore")

import numpy as np

import localcider
from localcider.backend.sequence import Sequence
from localcider.sequenceParameters import SequenceParameters

assert os.path.abspath(localcider.__file__).startswith(os.getcwd()), localcider.__file__

LINES = []


def show(x):
    if isinstance(x, float):
        return "float:" + repr(x)
    if isinstance(x, (np.floating, np.integer, np.bool_)):
        return type(x).__name__ + ":" + repr(x.item())
    if isinstance(x, np.ndarray):
        return "ndarray%s:%s:%s" % (x.shape, x.dtype, [show(v) for v in x.ravel().tolist()])
    if isinstance(x, (list, tuple)):
        return type(x).__name__ + "[" + ",".join(show(v) for v in x) + "]"
    if isinstance(x, dict):
        return "dict{" + ",".join("%s=%s" % (show(k), show(x[k])) for k in sorted(x, key=repr)) + "}"
    return type(x).__name__ + ":" + repr(x)


def state(obj):
    if isinstance(obj, SequenceParameters):
        obj = obj.SeqObj
    return "seq=%r len=%r cp=%s dmax=%r phos=%r" % (
        obj.seq, obj.len, show(obj.chargePattern), obj.dmax, obj.phosphosites)


def call(label, fn, *args, **kwargs):
    buf = io.StringIO()
    try:
        with contextlib.redirect_stdout(buf):
            res = fn(*args, **kwargs)
        out = "OK " + show(res)
    except BaseException as e:  # noqa
        out = "EXC %s: %s" % (type(e).__name__, e)
    LINES.append("%s -> %s | printed=%r" % (label, out, buf.getvalue()))


SEQS = [
    "",
    "A",
    "K",
    "E",
    "P",
    "KE",
    "KKKK",
    "EEEE",
    "EKEKEKEKEKEKEKEK",
    "EEEEEEEEKKKKKKKK",
    "KKKKKKKKKKGGGGGGGGGGGGGGGGGGGG",        # fcr = 1/3  region 2
    "KKKKKGGGGGGGGGGGGGGG",                  # fcr = .25  boundary
    "KKKKKKKGGGGGGGGGGGGG",                  # fcr = .35  boundary
    "EEEEEEEGGGGGGGGGGGGG",
    "KKKKEEEGGGGGGGGGGGGG",
    "KKKKKKKEEEEEEEGGGGGG",                  # region 3
    "KKKKKKKKGGGGGGGGGGGG",                  # region 5
    "DDDDDDDDGGGGGGGGGGGG",                  # region 4
    "KKKKKKKKKKKKKKDDDDDDDGGGGGGGGGGGGGGGGGGG",  # |ncpr| = .175
    "KKKKKKKKKKKKKKKKKKKKKDDDDDDDGGGGGGGGGGGG",  # |ncpr| = .35 exactly -> Fplus branch
    "DDDDDDDDDDDDDDDDDDDDDKKKKKKKGGGGGGGGGGGG",
    "MSTPQRSTYCHDEKRPPGAVLIFWNQ",
    "mstpqrstychdekrppgavlifwnq",
    "ACDEFGHIKLMNPQRSTVWY" * 3,
    "PPPPPPPPPPEK",
    "HHHHHHCCCCYYYY",
    "GSGSGSGSGSGS",
    "AXBZ",
    "A K\tE\nR",
    "A1K",
    "RRRRRRRRRRRRRRRRRRRRSSSSSSSSSSSSSSSSSSSS",
    "straße",
]

PHS = [None, 0, 0.0, -0.0, 1, 3.9, 7, 7.0, 7.4, 10.5, 14, 14.0, 14.000001, -0.0001,
       -1, 15, 100.5, float("nan"), float("inf"), float("-inf"), True, False,
       np.float64(7.2), np.int64(3), np.array([7.0]), np.array([6.0, 8.0]),
       np.array([-1.0]), "7", "", [7], (), {}, 7 + 0j, b"7"]

SEQ_NOARG = ["countPos", "countNeg", "countNeut", "Fplus", "Fminus", "FCR", "FER",
             "NCPR", "mean_net_charge", "sigma", "phasePlotRegion",
             "phasePlotAnnotation", "toFileString"]
SEQ_PH = ["FCR", "FER", "NCPR", "mean_net_charge"]

SP_NOARG = ["get_countPos", "get_countNeg", "get_countNeut", "get_fraction_positive",
            "get_fraction_negative", "get_FCR", "get_fraction_expanding", "get_NCPR",
            "get_mean_net_charge", "get_phasePlotRegion", "get_delta", "get_kappa",
            "get_isoelectric_point"]
SP_PH = ["get_FCR", "get_fraction_expanding", "get_NCPR", "get_mean_net_charge"]


def exercise_sequence(tag, obj):
    for name in SEQ_NOARG:
        call("%s.%s()" % (tag, name), getattr(obj, name))
    for name in SEQ_PH:
        for i, pH in enumerate(PHS):
            call("%s.%s(pH#%d)" % (tag, name, i), getattr(obj, name), pH)
            if i % 5 == 0:
                call("%s.%s(pH=pH#%d)" % (tag, name, i), getattr(obj, name), pH=pH)
    call("%s.FCR(1,2)" % tag, obj.FCR, 1, 2)
    call("%s.NCPR(ph=1)" % tag, obj.NCPR, ph=1)
    # repeated calls on one object + state unchanged
    for name in SEQ_NOARG[:-1]:
        call("%s.%s() again" % (tag, name), getattr(obj, name))
    LINES.append("%s state: %s" % (tag, state(obj)))


def exercise_sp(tag, obj):
    for name in SP_NOARG:
        call("%s.%s()" % (tag, name), getattr(obj, name))
    for name in SP_PH:
        for i, pH in enumerate(PHS):
            call("%s.%s(pH#%d)" % (tag, name, i), getattr(obj, name), pH)
            if i % 4 == 0:
                call("%s.%s(pH=pH#%d)" % (tag, name, i), getattr(obj, name), pH=pH)
    call("%s.get_FCR(1,2)" % tag, obj.get_FCR, 1, 2)
    call("%s.get_NCPR(ph=1)" % tag, obj.get_NCPR, ph=1)
    call("%s.private" % tag, lambda: sorted(
        n for n in dir(obj) if "verify_pH" in n))
    LINES.append("%s state: %s" % (tag, state(obj)))


# ---- backend Sequence objects, default construction
for n, s in enumerate(SEQS):
    for validate in (False, True):
        tag = "S%d/v%d" % (n, validate)
        holder = {}

        def build(s=s, validate=validate, holder=holder):
            holder["o"] = Sequence(s, validateSeq=validate)
            return state(holder["o"])
        call(tag + " build", build)
        if "o" in holder:
            exercise_sequence(tag, holder["o"])

# ---- backend Sequence objects with a supplied charge pattern
PATTERNS = [
    ("KKEEGG", np.array([1, 1, -1, -1, 0, 0])),
    ("KKEEGG", np.array([1.0, 0.5, -0.5, -2.0, 0.0, 3.0])),
    ("KKEEGG", [1, 1, -1, -1, 0, 0]),
    ("KKEEGG", (1, 1, -1, -1, 0, 0)),
    ("KKEEGG", np.array([1, -1])),
    ("GGGG", np.array([1, 1, 1, 1])),
    ("GGGG", np.array([0, 0, 0, 0])),
    ("KKKK", np.array([0, 0, 0, 0])),
    ("", np.array([1])),
    ("", np.array([0])),
    ("KEKE", np.array([[1, -1], [1, -1]])),
    ("KEKE", np.array([float("nan"), 1, -1, 0])),
    ("KEKE", "abcd"),
    ("KEKE", np.array([True, False, True, False])),
]
for n, (s, cp) in enumerate(PATTERNS):
    tag = "P%d" % n
    holder = {}

    def build(s=s, cp=cp, holder=holder):
        holder["o"] = Sequence(s, chargePattern=cp)
        return state(holder["o"])
    call(tag + " build", build)
    if "o" in holder:
        exercise_sequence(tag, holder["o"])

# ---- phasePlotAnnotation on odd region values (subclass overriding the region)
for n, region in enumerate([1, 2, 3, 4, 5, 0, 6, -1, 1.0, 2.5, True, False, None, "1",
                            np.int64(4), np.float64(5.0)]):
    class Forced(Sequence):
        def phasePlotRegion(self, region=region):
            return region
    call("forced-region#%d" % n, Forced("KEKEGG").phasePlotAnnotation)

# ---- phasePlotRegion decision surface with forced FCR/NCPR/F+/F- (subclass hooks),
#      including the two 'impossible' error branches and NaN
NAN = float("nan")
GRID = [0.0, 0.2, 0.25, 0.3, 0.35, 0.3500001, 0.5, 1.0, NAN]
n = 0
for fcr in GRID:
    for ncpr in [-1.0, -0.35, -0.2, 0.0, 0.2, 0.35, 0.36, NAN]:
        for fp in [0.0, 0.35, 0.36, NAN]:
            for fm in [0.0, 0.35, 0.36, NAN]:
                class Hooked(Sequence):
                    calls = []

                    def FCR(self, pH=None, v=fcr):
                        self.calls.append("FCR")
                        return v

                    def NCPR(self, pH=None, v=ncpr):
                        self.calls.append("NCPR")
                        return v

                    def Fplus(self, v=fp):
                        self.calls.append("F+")
                        return v

                    def Fminus(self, v=fm):
                        self.calls.append("F-")
                        return v
                h = Hooked("KEKEGG")
                call("hooked#%d region" % n, h.phasePlotRegion)
                call("hooked#%d annot" % n, h.phasePlotAnnotation)
                LINES.append("hooked#%d calls %s" % (n, ",".join(Hooked.calls)))
                n += 1

# ---- sigma with forced pieces (call order / laziness)
n = 0
for neut in [0, 3, 6]:
    for ncpr in [0.0, 0.5, NAN]:
        for fcr in [0.0, 0.5, NAN]:
            class HookedS(Sequence):
                calls = []

                def countNeut(self, v=neut):
                    self.calls.append("neut")
                    return v

                def FCR(self, pH=None, v=fcr):
                    self.calls.append("FCR")
                    return v

                def NCPR(self, pH=None, v=ncpr):
                    self.calls.append("NCPR")
                    return v
            call("hookedS#%d sigma" % n, HookedS("KEKEGG").sigma)
            LINES.append("hookedS#%d calls %s" % (n, ",".join(HookedS.calls)))
            n += 1

# ---- FCR/FER/NCPR/mean_net_charge with hooked building blocks (call order, arguments)
for n, pH in enumerate([None, 7, 0, "x"]):
    class HookedC(Sequence):
        calls = []

        def countPos(self):
            self.calls.append("pos")
            return 3

        def countNeg(self):
            self.calls.append("neg")
            return 2

        def charge_at_pH(self, *a, **k):
            self.calls.append("charge%r%r" % (a, sorted(k.items())))
            return 1.5
    hc = HookedC("KEKEGGPP")
    for name in SEQ_PH:
        call("hookedC#%d %s" % (n, name), getattr(hc, name), pH)
    LINES.append("hookedC#%d calls %s" % (n, ";".join(HookedC.calls)))

# ---- object mutated between calls (state is read live, not cached)
o = Sequence("KKKKEEGGGG")
call("mut before", lambda: [o.FCR(), o.NCPR(), o.FER(), o.sigma(), o.phasePlotRegion(), o.phasePlotAnnotation()])
o.chargePattern = np.array([0, 0, 0, 0, 0, 0, 0, 0, 0, -1])
call("mut cp", lambda: [o.FCR(), o.NCPR(), o.FER(), o.sigma(), o.phasePlotRegion(), o.phasePlotAnnotation()])
o.len = 2
call("mut len", lambda: [o.FCR(), o.NCPR(), o.FER(), o.FCR(7), o.NCPR(7), o.FER(7), o.Fplus(), o.Fminus()])
call("mut len sigma", o.sigma)
call("mut len region", o.phasePlotRegion)
o.len = 0
call("mut len0", o.FCR)
call("mut len0 ph", o.FCR, 7)
call("mut len0 sigma", o.sigma)
o.seq = "PPPPPPPPPP"
o.len = 10
call("mut seq", lambda: [o.FER(), o.FER(3), o.FCR(3), o.NCPR(3)])
LINES.append("mut state: " + state(o))

# ---- SequenceParameters wrappers
for n, s in enumerate(SEQS):
    tag = "SP%d" % n
    holder = {}

    def build(s=s, holder=holder):
        holder["o"] = SequenceParameters(s)
        return state(holder["o"])
    call(tag + " build", build)
    if "o" in holder:
        exercise_sp(tag, holder["o"])

# wrappers around a pre-built backend object (no validation path)
for n, (s, cp) in enumerate(PATTERNS[:6]):
    tag = "SPO%d" % n
    try:
        so = Sequence(s, chargePattern=cp)
    except Exception as e:
        LINES.append("%s build EXC %s" % (tag, e))
        continue
    exercise_sp(tag, SequenceParameters(SeqObj=so))

# wrapper whose backend object was tampered with: the pH check must still come first
sp = SequenceParameters("KEKEGGPP")
sp.SeqObj = None
for name in SP_PH:
    for pH in (None, -1, 15, 7, "7"):
        call("tampered %s(%r)" % (name, pH), getattr(sp, name), pH)

# wrapper forwarding seen from the backend side (value identity of the forwarded pH)
class Spy(Sequence):
    seen = []

    def charge_at_pH(self, pH=7.4, mode='', normalize=False):
        self.seen.append((type(pH).__name__, repr(pH), mode, normalize))
        return Sequence.charge_at_pH(self, pH, mode, normalize)
Spy.__module__ = "localcider.backend.sequence"
sp = SequenceParameters(SeqObj=Spy("KEKEGGPPHC"))
for name in SP_PH:
    for i, pH in enumerate(PHS):
        call("spy %s(pH#%d)" % (name, i), getattr(sp, name), pH)
LINES.append("spy seen: %r" % (Spy.seen,))

# name-mangled private helpers must not have leaked new *public* names
LINES.append("public Sequence: " + ",".join(sorted(n for n in dir(Sequence) if not n.startswith("_"))))
LINES.append("public SeqParams: " + ",".join(sorted(n for n in dir(SequenceParameters) if not n.startswith("_"))))

text = "\n".join(LINES)
if "--dump" in sys.argv:
    print(text)
print("cases:", len(LINES))
print("digest:", hashlib.sha256(text.encode("utf-8", "backslashreplace")).hexdigest())
