"""
Differential script for the localcider plotting front-ends.

Run it twice - once with cwd=/tmp/seed/R34 (changed tree) and once with cwd=/repo
(unchanged tree) - and compare the printed output:

    cd /tmp/seed/R34 && /venv/bin/python /tmp/seed/R34_out/R2/equiv.py > /tmp/a.txt
    cd /repo         && /venv/bin/python /tmp/seed/R34_out/R2/equiv.py > /tmp/b.txt
    diff /tmp/a.txt /tmp/b.txt

What is recorded for every call: return value, exception type + text, printed
text, warnings, the contents of every open matplotlib figure, plt.get_fignums()
and the files present in the (fresh, private) output directory.
"""
import os
import sys

sys.dont_write_bytecode = True
sys.path.insert(0, os.getcwd())
ROOT = os.getcwd()

import contextlib
import hashlib
import io
import shutil
import tempfile
import time
import warnings

import matplotlib
matplotlib.use('Agg')
import matplotlib.pyplot as plt
import numpy as np

import localcider
from localcider import plots
from localcider.sequenceParameters import SequenceParameters

assert os.path.abspath(localcider.__file__).startswith(ROOT + os.sep), localcider.__file__

FOCUS = 'R2'
TIMING = '-t' in sys.argv

# everything is written relative to a private scratch directory so that file
# names in messages do not depend on where the script runs
SCRATCH = tempfile.mkdtemp(prefix='equiv_')
os.chdir(SCRATCH)

LINES = []


def out(text):
    LINES.append(text)


def r(x):
    """deterministic rendering of numbers / arrays / nested containers"""
    if isinstance(x, (float, np.floating)):
        return '%.6g' % float(x)
    if isinstance(x, np.ndarray):
        return '[' + ','.join(r(v) for v in x.tolist()) + ']'
    if isinstance(x, (list, tuple)):
        return '[' + ','.join(r(v) for v in x) + ']'
    return str(x)


def artist_digest(ax):
    rows = []
    rows.append('title=%r xlabel=%r ylabel=%r' % (ax.get_title(), ax.get_xlabel(), ax.get_ylabel()))
    rows.append('title_left=%r' % ax.get_title(loc='left'))
    rows.append('xlim=%s ylim=%s' % (r(ax.get_xlim()), r(ax.get_ylim())))
    rows.append('title_font=%s/%s' % (ax.title.get_fontsize(), ax.title.get_fontweight()))
    for c in ax.collections:
        rows.append('coll offs=%s sizes=%s z=%s fc=%s' % (
            r(np.asarray(c.get_offsets())), r(c.get_sizes()), c.get_zorder(),
            r(np.asarray(c.get_facecolor()))))
    for t in ax.texts:
        rows.append('text %r pos=%s fs=%s' % (t.get_text(), r(getattr(t, 'xy', t.get_position())), t.get_fontsize()))
    for p in ax.patches:
        try:
            verts = p.get_path().vertices
            geo = r(np.asarray(p.get_patch_transform().transform(verts)))
        except Exception as e:   # pragma: no cover
            geo = 'ERR' + type(e).__name__
        rows.append('patch %s fc=%s ec=%s a=%s lw=%s z=%s' % (
            hashlib.md5(geo.encode()).hexdigest()[:12], r(p.get_facecolor()), r(p.get_edgecolor()),
            p.get_alpha(), r(p.get_linewidth()), p.get_zorder()))
    for l in ax.lines:
        xy = r(np.asarray(l.get_xydata()))
        rows.append('line %s n=%d c=%s lw=%s ls=%s label=%r' % (
            hashlib.md5(xy.encode()).hexdigest()[:12], len(l.get_xdata()), l.get_color(),
            r(l.get_linewidth()), l.get_linestyle(), l.get_label()))
    leg = ax.get_legend()
    if leg is None:
        rows.append('legend none')
    else:
        rows.append('legend %r' % ([t.get_text() for t in leg.get_texts()],))
    return rows


def figures_digest():
    rows = ['fignums=%s' % (plt.get_fignums(),)]
    for num in plt.get_fignums():
        fig = plt.figure(num)
        rows.append(' fig %d size=%s naxes=%d' % (num, r(fig.get_size_inches()), len(fig.axes)))
        for ax in fig.axes:
            for row in artist_digest(ax):
                rows.append('   ' + row)
    return rows


def files_digest():
    rows = []
    for root, dirs, files in os.walk('.'):
        dirs.sort()
        for name in sorted(files):
            path = os.path.join(root, name)
            with open(path, 'rb') as fh:
                data = fh.read()
            if data[:4] == b'\x89PNG':
                rows.append('file %s PNG %s' % (path, hashlib.sha256(data).hexdigest()[:16]))
            else:
                rows.append('file %s magic=%r nonempty=%s' % (path, data[:4], len(data) > 0))
    return rows


def clean_files():
    for name in os.listdir('.'):
        if os.path.isdir(name):
            shutil.rmtree(name)
        else:
            os.remove(name)


def render_result(res):
    if res is plt:
        return '<pyplot module>'
    if res is None:
        return 'None'
    return type(res).__name__ + ':' + r(res)


def call(_tag, _fn, *args, **kwargs):
    """run one call and record everything observable about it"""
    keep = kwargs.pop('_keep', False)
    buf = io.StringIO()
    t0 = time.time()
    with warnings.catch_warnings(record=True) as caught:
        warnings.simplefilter('always')
        with contextlib.redirect_stdout(buf):
            try:
                res = render_result(_fn(*args, **kwargs))
                exc = '-'
            except BaseException as e:   # noqa
                res = '-'
                exc = '%s: %s' % (type(e).__name__, e)
    if TIMING:
        sys.stderr.write('%7.2fs %s\n' % (time.time() - t0, _tag))
    out('CALL %s' % _tag)
    out('  ret=%s' % res)
    out('  exc=%s' % exc)
    out('  stdout=%r' % buf.getvalue())
    for w in caught:
        msg = str(w.message)
        if 'findfont' in msg or 'Glyph' in msg:
            continue
        out('  warn=%s: %s' % (w.category.__name__, msg[:120]))
    for row in figures_digest():
        out('  ' + row)
    for row in files_digest():
        out('  ' + row)
    if not keep:
        plt.close('all')
        clean_files()
    if TIMING:
        sys.stderr.write('%7.2fs TOTAL %s\n' % (time.time() - t0, _tag))


# ---------------------------------------------------------------------------
# inputs
# ---------------------------------------------------------------------------
SEQS = {
    'mixed': 'MEEEKKKRDSTAGILVFWYPNQHCEEKRKDDDSSGGAAPLLKKEE',
    'neg': 'EEEEEDDDDDEEEEEDDDDD',
    'pos': 'KKKKKRRRRRKKKKRRRR',
    'neutral': 'GSGSGSGSQNQNQNGSGSAAPP',
    'short': 'MK',
    'one': 'E',
    'long': ('MEEPQSDPSVEPPLSQETFSDLWKLLPENNVLSPLPSQAMDDLMLSPDDIEQWFTEDPGPDEAPRMPEAAPPVAPAPAAPTPAAPAPAPSWPL' * 3)[:130],
    'phos': 'MKKESTYEEDDRRKGG',
}
SP = dict((k, SequenceParameters(v)) for k, v in SEQS.items())

LOG = []


class Duck(object):
    """object that only quacks like a SequenceParameters; logs the call order"""

    def __init__(self, name, fp=0.1, fn=0.2, hyd=0.4, mnc=0.3, fail=None, missing=()):
        self.name = name
        self.vals = {'get_fraction_positive': fp, 'get_fraction_negative': fn,
                     'get_uversky_hydropathy': hyd, 'get_mean_net_charge': mnc}
        self.fail = fail
        self.missing = missing

    def __getattr__(self, attr):
        if attr in ('name', 'vals', 'fail', 'missing'):
            raise AttributeError(attr)
        if attr in self.missing or attr not in self.vals:
            LOG.append('%s.lookup-miss(%s)' % (self.name, attr))
            raise AttributeError("'Duck' object has no attribute %r" % attr)

        def getter():
            LOG.append('%s.%s' % (self.name, attr))
            if self.fail == attr:
                raise RuntimeError('boom in %s.%s' % (self.name, attr))
            return self.vals[attr]
        return getter


def with_log(fn):
    def inner(*a, **k):
        del LOG[:]
        try:
            return fn(*a, **k)
        finally:
            print('ORDER ' + ' '.join(LOG))
    return inner


def gen(items):
    for it in items:
        yield it


def seq_lists():
    a, b, c = SP['mixed'], SP['neg'], SP['pos']
    d1, d2, d3 = Duck('d1'), Duck('d2', fp=0.5, fn=0.05, hyd=0.9, mnc=0.95), Duck('d3', fp=0.0, fn=1.0)
    return [
        ('empty', [], []),
        ('empty-labels', [], ['x']),
        ('one', [a], []),
        ('one-l', [a], ['alpha']),
        ('three', [a, b, c], []),
        ('three-l', [a, b, c], ['a', 'b', 'c']),
        ('three-badl', [a, b, c], ['a', 'b']),
        ('tuple', (a, b), ('a', 'b')),
        ('gen', gen([a, b, c]), ['a', 'b', 'c']),
        ('same-twice', [a, a], ['x', 'y']),
        ('ducks', [d1, d2, d3], ['d1', 'd2', 'd3']),
        ('duck-out-of-range', [d1, Duck('big', fp=1.5, fn=-0.2, hyd=2.0, mnc=-1.0)], []),
        ('duck-str-values', [Duck('s', fp='0.25', fn='0.5', hyd='0.5', mnc='0.1')], ['s']),
        ('duck-bad-str', [Duck('s', fp='abc', fn='0.5', hyd='abc', mnc='q')], ['s']),
        ('duck-none-values', [Duck('n', fp=None, fn=None, hyd=None, mnc=None)], []),
        ('fail-first', [d1, Duck('f', fail='get_fraction_positive'), d3], []),
        ('fail-second', [d1, Duck('f', fail='get_fraction_negative'), d3], []),
        ('fail-hyd', [d1, Duck('f', fail='get_uversky_hydropathy'), d3], []),
        ('fail-mnc', [d1, Duck('f', fail='get_mean_net_charge'), d3], []),
        ('missing-second', [d1, Duck('m', missing=('get_fraction_negative', 'get_mean_net_charge')), d3], []),
        ('missing-first', [d1, Duck('m', missing=('get_fraction_positive', 'get_uversky_hydropathy')), d3], []),
        ('str-item', [a, 'notaseq', b], []),
        ('none-item', [None], []),
        ('int-item', [a, 3], []),
        ('not-iterable', 5, []),
        ('none-list', None, []),
        ('string-list', 'EK', []),
        ('dict-list', {a: 1}, ['k']),
    ]


# ---------------------------------------------------------------------------
# 1. plots.*2 functions (list building + forwarding)
# ---------------------------------------------------------------------------
def section_plots2():
    n = len(seq_lists())
    for i in range(n):
        tag, lst, labels = seq_lists()[i]
        call('show_multiple_phasePlot2/%s' % tag, with_log(plots.show_multiple_phasePlot2), lst, labels)
        tag, lst, labels = seq_lists()[i]
        call('show_multiple_phasePlot2/%s/getFig' % tag, with_log(plots.show_multiple_phasePlot2), lst, labels,
             'T', False, 0.5, 0.7, 12, True)
        tag, lst, labels = seq_lists()[i]
        call('show_multiple_uverskyPlot2/%s' % tag, with_log(plots.show_multiple_uverskyPlot2), lst, labels)
        tag, lst, labels = seq_lists()[i]
        call('show_multiple_uverskyPlot2/%s/getFig' % tag, with_log(plots.show_multiple_uverskyPlot2), lst,
             label_list=labels, title='U', legendOn=False, xLim=2, yLim=3, fontSize=6, getFig=True)
        tag, lst, labels = seq_lists()[i]
        call('save_multiple_phasePlot2/%s' % tag, with_log(plots.save_multiple_phasePlot2), lst, 'pp2.png', labels)
        tag, lst, labels = seq_lists()[i]
        call('save_multiple_uverskyPlot2/%s' % tag, with_log(plots.save_multiple_uverskyPlot2), lst, 'up2.png', labels)

    three = [SP['mixed'], SP['neg'], SP['pos']]
    for fmt in ('png', 'pdf', 'svg', 'bogus', None):
        call('save_multiple_phasePlot2/fmt=%s' % fmt, plots.save_multiple_phasePlot2, three, 'pp2_out',
             ['a', 'b', 'c'], 'title', True, 1, 1, 10, fmt)
        call('save_multiple_uverskyPlot2/fmt=%s' % fmt, plots.save_multiple_uverskyPlot2, three, 'up2_out',
             ['a', 'b', 'c'], 'title', True, 1, 1, 10, fmt)
        call('save_multiple_uverskyPlot2/kwfmt=%s' % fmt, plots.save_multiple_uverskyPlot2, three,
             filename='up2_kw', saveFormat=fmt)
    call('save_multiple_phasePlot2/missing-dir', plots.save_multiple_phasePlot2, three, 'nodir/x.png')
    call('save_multiple_uverskyPlot2/missing-dir', plots.save_multiple_uverskyPlot2, three, 'nodir/x.png')
    call('save_multiple_phasePlot2/no-filename', plots.save_multiple_phasePlot2, three)
    call('save_multiple_uverskyPlot2/no-filename', plots.save_multiple_uverskyPlot2, three)
    call('show_multiple_phasePlot2/too-many', plots.show_multiple_phasePlot2, three, [], 't', True, 1, 1, 10, False, 1)
    call('show_multiple_uverskyPlot2/bad-kw', plots.show_multiple_uverskyPlot2, three, saveFormat='png')
    call('show_multiple_phasePlot2/no-args', plots.show_multiple_phasePlot2)

    # repeated calls accumulate on the current figure
    call('accumulate/1', plots.show_multiple_phasePlot2, three, ['a', 'b', 'c'], getFig=True, _keep=True)
    call('accumulate/2', plots.show_multiple_uverskyPlot2, three[:2], ['a', 'b'], getFig=True, _keep=True)
    call('accumulate/3', plots.save_multiple_phasePlot2, three, 'acc.png', _keep=True)
    call('accumulate/4', plots.save_multiple_uverskyPlot2, three, 'acc2.png', _keep=True)
    call('accumulate/5', plots.show_multiple_phasePlot2, [], _keep=True)
    plt.close('all')
    clean_files()

    # the default label lists are shared mutable defaults: check they stay empty
    out('defaults %r %r %r %r' % (plots.show_multiple_phasePlot2.__defaults__, plots.save_multiple_phasePlot2.__defaults__,
                                  plots.show_multiple_uverskyPlot2.__defaults__, plots.save_multiple_uverskyPlot2.__defaults__))


# ---------------------------------------------------------------------------
# 2. plots.* single / multiple functions (pure forwarding)
# ---------------------------------------------------------------------------
def section_plots_forwarding():
    singles = [(0.1, 0.2), (0.0, 0.0), (1, 1), (0.9, 0.95), ('0.3', '0.4'), (1.2, 0.1), (0.1, -0.1),
               ('x', 0.1), (0.1, 'y'), (None, 0.1), ([0.1], 0.2), (True, False), (np.float64(0.33), np.float32(0.5))]
    for fp, fn in singles:
        t = '%r,%r' % (fp, fn)
        call('show_single_phasePlot/%s' % t, plots.show_single_phasePlot, fp, fn)
        call('show_single_phasePlot/%s/all' % t, plots.show_single_phasePlot, fp, fn, 'lab', 'ttl', False, 0.5, 0.6, 14, True)
        call('show_single_phasePlot/%s/kw' % t, plots.show_single_phasePlot, fn=fn, fp=fp, getFig=1, fontSize=3,
             yLim=2, xLim=3, legendOn=0, title='kw', label='a long label text')
        call('save_single_phasePlot/%s' % t, plots.save_single_phasePlot, fp, fn, 'sp.png')
        call('save_single_phasePlot/%s/all' % t, plots.save_single_phasePlot, fp, fn, 'sp_all', 'lab', 'ttl', False, 0.5, 0.6, 14, 'pdf')
        call('show_single_uverskyPlot/%s' % t, plots.show_single_uverskyPlot, fp, fn)
        call('show_single_uverskyPlot/%s/all' % t, plots.show_single_uverskyPlot, fp, fn, 'lab', 'ttl', False, 0.5, 0.6, 14, True)
        call('show_single_uverskyPlot/%s/kw' % t, plots.show_single_uverskyPlot, mean_net_charge=fn, hydropathy=fp,
             getFig='yes', fontSize=3, yLim=2, xLim=3, legendOn=None, title='kw', label='lbl')
        call('save_single_uverskyPlot/%s' % t, plots.save_single_uverskyPlot, fp, fn, 'su.png')
        call('save_single_uverskyPlot/%s/all' % t, plots.save_single_uverskyPlot, fp, fn, 'su_all', 'lab', 'ttl', False, 0.5, 0.6, 14, 'svg')

    multis = [([], [], []), ([0.1], [0.2], []), ([0.1, 0.5, 0.3], [0.2, 0.1, 0.6], ['a', 'b', 'c']),
              ([0.1, 0.5], [0.2], []), ([0.1, 0.5], [0.2, 0.3], ['only']), ((0.1, 0.2), (0.3, 0.4), ('p', 'q')),
              ([0.1, 1.5], [0.2, 0.3], []), (['0.1', 'z'], [0.2, 0.3], []), (np.array([0.1, 0.2]), np.array([0.3, 0.1]), []),
              (None, None, []), (0.1, 0.2, []), ([0.1], [0.2], None), ([0.1, 0.2], [0.2, 0.1], 'ab')]
    for i, (xs, ys, labels) in enumerate(multis):
        t = 'm%d' % i
        call('show_multiple_phasePlot/%s' % t, plots.show_multiple_phasePlot, xs, ys, labels)
        call('show_multiple_phasePlot/%s/all' % t, plots.show_multiple_phasePlot, xs, ys, labels, 'ttl', False, 0.5, 0.6, 14, True)
        call('show_multiple_phasePlot/%s/kw' % t, plots.show_multiple_phasePlot, fn_list=ys, fp_list=xs, label=labels,
             title='kw', legendOn=True, xLim=2, yLim=0.2, fontSize=20, getFig=True)
        call('save_multiple_phasePlot/%s' % t, plots.save_multiple_phasePlot, xs, ys, 'mp.png', labels)
        call('save_multiple_phasePlot/%s/all' % t, plots.save_multiple_phasePlot, xs, ys, 'mp_all', labels, 'ttl', False, 0.5, 0.6, 14, 'pdf')
        call('save_multiple_phasePlot/%s/kw' % t, plots.save_multiple_phasePlot, filename='mp_kw', fn_list=ys, fp_list=xs,
             label_list=labels, saveFormat='png', fontSize=2, yLim=1, xLim=1, legendOn=True, title='k')
        call('show_multiple_uverskyPlot/%s' % t, plots.show_multiple_uverskyPlot, xs, ys, labels)
        call('show_multiple_uverskyPlot/%s/all' % t, plots.show_multiple_uverskyPlot, xs, ys, labels, 'ttl', False, 0.5, 0.6, 14, True)
        call('show_multiple_uverskyPlot/%s/kw' % t, plots.show_multiple_uverskyPlot, mean_net_charge_list=ys, hydropathy_list=xs,
             label_list=labels, title='kw', legendOn=True, xLim=2, yLim=0.2, fontSize=20, getFig=True)
        call('save_multiple_uverskyPlot/%s' % t, plots.save_multiple_uverskyPlot, xs, ys, 'mu.png', labels)
        call('save_multiple_uverskyPlot/%s/all' % t, plots.save_multiple_uverskyPlot, xs, ys, 'mu_all', labels, 'ttl', False, 0.5, 0.6, 14, 'pdf')
        call('save_multiple_uverskyPlot/%s/kw' % t, plots.save_multiple_uverskyPlot, filename='mu_kw', mean_net_charge_list=ys,
             hydropathy_list=xs, label_list=labels, saveFormat='svg', fontSize=2, yLim=1, xLim=1, legendOn=True, title='k')

    # defaults (no optional argument at all) and wrong keywords / arity
    call('show_multiple_phasePlot/defaults', plots.show_multiple_phasePlot, [0.1], [0.2])
    call('show_multiple_phasePlot/defaults2', plots.show_multiple_phasePlot, [0.1, 0.2], [0.2, 0.3])
    call('show_multiple_uverskyPlot/defaults', plots.show_multiple_uverskyPlot, [0.1, 0.2], [0.2, 0.3])
    call('save_multiple_phasePlot/defaults', plots.save_multiple_phasePlot, [0.1, 0.2], [0.2, 0.3], 'd.png')
    call('save_multiple_uverskyPlot/defaults', plots.save_multiple_uverskyPlot, [0.1, 0.2], [0.2, 0.3], 'd.png')
    call('show_multiple_phasePlot/bad-kw', plots.show_multiple_phasePlot, [0.1], [0.2], label_list=['a'])
    call('show_multiple_uverskyPlot/bad-kw', plots.show_multiple_uverskyPlot, [0.1], [0.2], label=['a'])
    call('save_single_phasePlot/bad-kw', plots.save_single_phasePlot, 0.1, 0.2, 'f', getFig=True)
    call('show_single_phasePlot/bad-kw', plots.show_single_phasePlot, 0.1, 0.2, saveFormat='png')
    call('save_single_uverskyPlot/too-many', plots.save_single_uverskyPlot, 0.1, 0.2, 'f', 'l', 't', True, 1, 1, 10, 'png', 1)
    call('show_single_uverskyPlot/too-few', plots.show_single_uverskyPlot, 0.1)
    for fmt in ('png', 'pdf', 'svg', 'jpg', 'bogus', None, 5):
        call('save_single_phasePlot/fmt=%s' % fmt, plots.save_single_phasePlot, 0.2, 0.3, 'fmt_sp', saveFormat=fmt)
        call('save_single_uverskyPlot/fmt=%s' % fmt, plots.save_single_uverskyPlot, 0.2, 0.3, 'fmt_su', saveFormat=fmt)
        call('save_multiple_phasePlot/fmt=%s' % fmt, plots.save_multiple_phasePlot, [0.2], [0.3], 'fmt_mp', saveFormat=fmt)
        call('save_multiple_uverskyPlot/fmt=%s' % fmt, plots.save_multiple_uverskyPlot, [0.2], [0.3], 'fmt_mu', saveFormat=fmt)
    # saving over an existing file / into a missing directory / odd file names
    for fn in (plots.save_single_phasePlot, plots.save_single_uverskyPlot):
        call('%s/overwrite-1' % fn.__name__, fn, 0.2, 0.3, 'same.png', _keep=True)
        call('%s/overwrite-2' % fn.__name__, fn, 0.4, 0.1, 'same.png', 'second', _keep=True)
        plt.close('all')
        clean_files()
        call('%s/missing-dir' % fn.__name__, fn, 0.2, 0.3, 'nodir/x.png')
        call('%s/none-file' % fn.__name__, fn, 0.2, 0.3, None)
        call('%s/int-file' % fn.__name__, fn, 0.2, 0.3, 7)
    out('defaults %r' % ([getattr(plots, n).__defaults__ for n in sorted(dir(plots))
                          if n.startswith(('show_', 'save_'))],))


# ---------------------------------------------------------------------------
# 3. SequenceParameters show_* / save_* methods
# ---------------------------------------------------------------------------
def state(sp):
    return '%s|%s' % (sp.get_sequence(), sorted(k for k in sp.__dict__))


def section_methods():
    for name in sorted(SP):
        sp = SP[name]
        before = state(sp)
        call('%s.show_phaseDiagramPlot' % name, sp.show_phaseDiagramPlot)
        call('%s.show_phaseDiagramPlot/getFig' % name, sp.show_phaseDiagramPlot, 'lab', 'ttl', False, 0.5, 0.4, 8, True)
        call('%s.show_phaseDiagramPlot/kw' % name, sp.show_phaseDiagramPlot, getFig='x', title='kw', label=name)
        call('%s.show_phaseDiagramPlot/getFig0' % name, sp.show_phaseDiagramPlot, getFig=0)
        call('%s.show_phaseDiagramPlot/getFig[]' % name, sp.show_phaseDiagramPlot, getFig=[])
        call('%s.save_phaseDiagramPlot' % name, sp.save_phaseDiagramPlot, 'pd.png')
        call('%s.save_phaseDiagramPlot/all' % name, sp.save_phaseDiagramPlot, 'pd_all', 'lab', 'ttl', False, 0.5, 0.4, 8, 'pdf')
        call('%s.show_uverskyPlot' % name, sp.show_uverskyPlot)
        call('%s.show_uverskyPlot/getFig' % name, sp.show_uverskyPlot, 'lab', 'ttl', False, 0.5, 0.4, 8, True)
        call('%s.show_uverskyPlot/kw' % name, sp.show_uverskyPlot, getFig=2, title='kw', label=name, legendOn=False)
        call('%s.show_uverskyPlot/getFigNone' % name, sp.show_uverskyPlot, getFig=None)
        call('%s.save_uverskyPlot' % name, sp.save_uverskyPlot, 'uv.png')
        call('%s.save_uverskyPlot/all' % name, sp.save_uverskyPlot, 'uv_all', 'lab', 'ttl', False, 0.5, 0.4, 8, 'svg')

        heavy = name in ('mixed', 'short', 'one')
        for blob in ((1, 5, 7.0, 20, 1000, 0, -1, 'x', None) if heavy else (4, 1000)):
            for meth in ('NCPR', 'FCR', 'Sigma', 'Hydropathy'):
                call('%s.show_linear%s/blob=%r' % (name, meth, blob), getattr(sp, 'show_linear' + meth), blob)
                call('%s.show_linear%s/blob=%r/getFig' % (name, meth, blob), getattr(sp, 'show_linear' + meth), blob, True)
                call('%s.save_linear%s/blob=%r' % (name, meth, blob), getattr(sp, 'save_linear' + meth), 'lin_%s.png' % meth, blob)
        for meth in ('NCPR', 'FCR', 'Sigma', 'Hydropathy'):
            call('%s.show_linear%s/default' % (name, meth), getattr(sp, 'show_linear' + meth))
            call('%s.show_linear%s/kw' % (name, meth), getattr(sp, 'show_linear' + meth), getFig='y', blobLen=3)
            call('%s.save_linear%s/default' % (name, meth), getattr(sp, 'save_linear' + meth), 'lin_d')
            call('%s.save_linear%s/no-file' % (name, meth), getattr(sp, 'save_linear' + meth))
            for fmt in (('pdf', 'bogus', None) if heavy else ('bogus',)):
                call('%s.save_linear%s/fmt=%s' % (name, meth, fmt), getattr(sp, 'save_linear' + meth), 'lin_f', 3, fmt)
            call('%s.save_linear%s/kw' % (name, meth), getattr(sp, 'save_linear' + meth), saveFormat='svg', blobLen=2, filename='lin_kw')
            call('%s.save_linear%s/missing-dir' % (name, meth), getattr(sp, 'save_linear' + meth), 'nodir/lin.png', 2)
            call('%s.show_linear%s/bad-kw' % (name, meth), getattr(sp, 'show_linear' + meth), filename='x')

        for ctype in (('WF', 'LC', 'LZW', 'wf', 'lc', 'lzw', 'RHP', 'bogus', None, 3) if heavy else ('LC', 'lzw', 'bogus')):
            call('%s.show_linearComplexity/%r' % (name, ctype), sp.show_linearComplexity, ctype)
            call('%s.show_linearComplexity/%r/getFig' % (name, ctype), sp.show_linearComplexity, ctype, getFig=True)
            call('%s.save_linearComplexity/%r' % (name, ctype), sp.save_linearComplexity, 'cx.png', ctype)
        for extra in (dict(alphabetSize=2), dict(alphabetSize=7), dict(blobLen=3), dict(blobLen=1000), dict(blobLen=0),
                      dict(stepSize=3), dict(stepSize=2, blobLen=4), dict(wordSize=2), dict(complexityType='LC', wordSize=2),
                      dict(complexityType='LZW', wordSize=5, alphabetSize=4), dict(userAlphabet={'A': 'B'}),
                      dict(alphabetSize='x'))[:(12 if heavy else 3)]:
            t = ','.join('%s=%r' % kv for kv in sorted(extra.items()))
            call('%s.show_linearComplexity/%s' % (name, t), sp.show_linearComplexity, **extra)
            call('%s.show_linearComplexity/%s/getFig' % (name, t), sp.show_linearComplexity, getFig=True, **extra)
            call('%s.save_linearComplexity/%s' % (name, t), sp.save_linearComplexity, 'cx2', saveFormat='pdf', **extra)
        call('%s.show_linearComplexity/positional' % name, sp.show_linearComplexity, 'WF', 20, {}, 4, 1, 3, 1)
        call('%s.save_linearComplexity/positional' % name, sp.save_linearComplexity, 'cxp', 'LC', 20, {}, 4, 1, 3, 'png')
        call('%s.save_linearComplexity/no-file' % name, sp.save_linearComplexity)
        call('%s.save_linearComplexity/missing-dir' % name, sp.save_linearComplexity, 'nodir/c.png')
        call('%s.save_linearComplexity/bogus-fmt' % name, sp.save_linearComplexity, 'cxb', saveFormat='bogus')

        for extra in (dict(), dict(blobLen=3), dict(blobLen=1000), dict(blobLen=0), dict(saveFormat='pdf'),
                      dict(title='my title', plot_data=True), dict(line_thickness=[1, 2, 3]),
                      dict(line_thickness=[]), dict(line_thickness=[1] * 7), dict(line_thickness=(1, 2, 3, 4, 5, 6, 7)),
                      dict(line_thickness=None), dict(blobLen=1000, line_thickness=[1]), dict(saveFormat='bogus'),
                      dict(title=None))[:(14 if heavy or name == 'long' else 7)]:
            t = ','.join('%s=%r' % kv for kv in sorted(extra.items()))
            call('%s.save_linearComposition/%s' % (name, t), sp.save_linearComposition, 'comp', **extra)
        call('%s.save_linearComposition/positional' % name, sp.save_linearComposition, 'comp_p', 4, 'png', 'T', True, [2] * 7)
        call('%s.save_linearComposition/no-file' % name, sp.save_linearComposition)
        call('%s.save_linearComposition/missing-dir' % name, sp.save_linearComposition, 'nodir/comp.png')
        out('STATE %s unchanged=%s' % (name, before == state(sp)))

    # accumulation over repeated calls on one object without closing figures
    sp = SP['mixed']
    call('acc/1', sp.show_phaseDiagramPlot, 'a', getFig=True, _keep=True)
    call('acc/2', sp.show_uverskyPlot, 'b', getFig=True, _keep=True)
    call('acc/3', sp.show_linearNCPR, 3, True, _keep=True)
    call('acc/4', sp.show_linearComplexity, 'LC', getFig=True, _keep=True)
    call('acc/5', sp.show_linearComplexity, 'bad', getFig=True, _keep=True)
    call('acc/6', sp.show_linearComplexity, 'lzw', _keep=True)
    call('acc/7', sp.save_linearComplexity, 'acc_c.png', _keep=True)
    call('acc/8', sp.save_linearFCR, 'acc_f.png', _keep=True)
    call('acc/9', sp.save_linearComposition, 'acc_comp.png', _keep=True)
    call('acc/10', sp.save_phaseDiagramPlot, 'acc_pd.png', _keep=True)
    call('acc/11', sp.show_linearHydropathy, _keep=True)
    plt.close('all')
    clean_files()
    out('method defaults %r' % ([(n, getattr(SequenceParameters, n).__defaults__) for n in sorted(dir(SequenceParameters))
                                 if n.startswith(('show_', 'save_'))],))
    out('rc font %r %r' % (matplotlib.rcParams['font.family'], matplotlib.rcParams['font.size']))


# ---------------------------------------------------------------------------
# 4. unusual getFig values for the show_* methods (truthiness evaluation order,
#    what is returned when the backend is replaced)
# ---------------------------------------------------------------------------
class Truthy(object):
    def __init__(self, value, fail_at=None):
        self.value = value
        self.fail_at = fail_at
        self.count = 0

    def __bool__(self):
        self.count += 1
        LOG.append('bool#%d' % self.count)
        if self.fail_at is not None and self.count >= self.fail_at:
            raise RuntimeError('bool failed at evaluation %d' % self.count)
        return self.value

    __nonzero__ = __bool__

    def __repr__(self):
        return 'Truthy(%r, %r)' % (self.value, self.fail_at)


class Spy(SequenceParameters):
    """logs when the coordinates are read, relative to the getFig evaluation"""

    def get_fraction_positive(self):
        LOG.append('fp')
        return SequenceParameters.get_fraction_positive(self)

    def get_fraction_negative(self):
        LOG.append('fn')
        return SequenceParameters.get_fraction_negative(self)

    def get_uversky_hydropathy(self):
        LOG.append('hyd')
        return SequenceParameters.get_uversky_hydropathy(self)

    def get_mean_net_charge(self):
        LOG.append('mnc')
        return SequenceParameters.get_mean_net_charge(self)

    def get_linear_complexity(self, *a, **k):
        LOG.append('cx')
        return SequenceParameters.get_linear_complexity(self, *a, **k)


class Broken(Spy):
    def get_fraction_positive(self):
        LOG.append('fp!')
        raise KeyError('broken fp')

    def get_uversky_hydropathy(self):
        LOG.append('hyd!')
        raise KeyError('broken hyd')

    def get_linear_complexity(self, *a, **k):
        LOG.append('cx!')
        raise KeyError('broken cx')


def section_getfig():
    from localcider.backend import plotting as backend
    spy = Spy(SEQS['mixed'])
    broken = Broken(SEQS['mixed'])
    values = [
        ('True', lambda: True), ('False', lambda: False), ('None', lambda: None), ('0', lambda: 0), ('1', lambda: 1),
        ('empty-str', lambda: ''), ('str', lambda: 'no'), ('empty-list', lambda: []), ('list', lambda: [0]),
        ('np0', lambda: np.array([0])), ('np1', lambda: np.array([1])), ('np-empty', lambda: np.array([])),
        ('np-two', lambda: np.array([1, 2])), ('nan', lambda: float('nan')),
        ('truthy', lambda: Truthy(True)), ('falsy', lambda: Truthy(False)),
        ('truthy-fail1', lambda: Truthy(True, 1)), ('truthy-fail2', lambda: Truthy(True, 2)),
        ('falsy-fail1', lambda: Truthy(False, 1)), ('falsy-fail2', lambda: Truthy(False, 2)),
        ('falsy-fail3', lambda: Truthy(False, 3)),
    ]
    for obj_name, obj in (('spy', spy), ('broken', broken)):
        for vname, make in values:
            call('%s.show_phaseDiagramPlot/getFig=%s' % (obj_name, vname), with_log(obj.show_phaseDiagramPlot), 'l', getFig=make())
            call('%s.show_uverskyPlot/getFig=%s' % (obj_name, vname), with_log(obj.show_uverskyPlot), 'l', getFig=make())
            call('%s.show_linearComplexity/getFig=%s' % (obj_name, vname), with_log(obj.show_linearComplexity), getFig=make())
            call('%s.show_linearComplexity/lc/getFig=%s' % (obj_name, vname), with_log(obj.show_linearComplexity), 'lc', getFig=make())
            call('%s.show_linearNCPR/getFig=%s' % (obj_name, vname), with_log(obj.show_linearNCPR), 3, make())
            call('%s.show_linearHydropathy/getFig=%s' % (obj_name, vname), with_log(obj.show_linearHydropathy), 3, make())

    # replace the backend functions: what do the methods hand back?
    saved = {}
    names = ('show_single_phasePlot', 'show_single_uverskyPlot', 'show_linearComplexity', 'show_linearplot')

    def fake(name):
        def inner(*a, **k):
            LOG.append('backend:%s nargs=%d kw=%s last=%r' % (name, len(a), sorted(k), a[-1]))
            return 'sentinel-' + name
        return inner
    for n in names:
        saved[n] = getattr(backend, n)
        setattr(backend, n, fake(n))
    try:
        for vname, make in values[:8] + values[14:18]:
            call('fake/show_phaseDiagramPlot/getFig=%s' % vname, with_log(spy.show_phaseDiagramPlot), getFig=make())
            call('fake/show_uverskyPlot/getFig=%s' % vname, with_log(spy.show_uverskyPlot), getFig=make())
            call('fake/show_linearComplexity/getFig=%s' % vname, with_log(spy.show_linearComplexity), getFig=make())
            call('fake/show_linearFCR/getFig=%s' % vname, with_log(spy.show_linearFCR), getFig=make())
            call('fake/show_linearSigma/getFig=%s' % vname, with_log(spy.show_linearSigma), 4, make())
    finally:
        for n in names:
            setattr(backend, n, saved[n])


def main():
    section_getfig()
    section_plots2()
    section_plots_forwarding()
    section_methods()
    text = '\n'.join(LINES)
    verbose = '-v' in sys.argv
    if verbose:
        print(text)
    print('focus %s' % FOCUS)
    print('records %d' % sum(1 for l in LINES if l.startswith('CALL ')))
    print('exceptions %d' % sum(1 for l in LINES if l.startswith('  exc=') and l != '  exc=-'))
    print('digest %s' % hashlib.sha256(text.encode('utf-8')).hexdigest())
    os.chdir(ROOT)
    shutil.rmtree(SCRATCH, ignore_errors=True)


if __name__ == '__main__':
    main()
