import os, sys; sys.path.insert(0, os.getcwd())
import hashlib, time, random
import numpy as np
import localcider
assert os.path.abspath(localcider.__file__).startswith(os.path.abspath(os.getcwd()) + os.sep), localcider.__file__
from localcider.backend import sequence as S
from localcider.backend.sequence import Sequence

# make the time-seeded generator reproducible and count the clock reads
CLOCK = {'n': 0, 'base': 1000.0}
def fake_time():
    CLOCK['n'] += 1
    return CLOCK['base'] + CLOCK['n'] * 0.123
time.time = fake_time
assert S.time.time is fake_time

OUT = []
def emit(*a):
    OUT.append(repr(a))

def cpat(cp):
    return (type(cp).__name__, [repr(x) for x in cp])

def snap(o):
    if not isinstance(o, Sequence):
        return ('NOTSEQ', repr(o))
    return (o.seq, o.len, repr(o.dmax), cpat(o.chargePattern), repr(o.seqDeltaMax), repr(o.phosphosites))

def run(tag, fn):
    c0 = CLOCK['n']
    try:
        r = fn()
        emit(tag, 'OK', snap(r), CLOCK['n'] - c0)
        return r
    except BaseException as e:
        emit(tag, 'EXC', type(e).__name__, str(e), CLOCK['n'] - c0)
        return None

class Odd:
    """container whose membership and iteration disagree"""
    def __init__(self, it, member): self.it, self.member = it, member
    def __iter__(self): return iter(self.it)
    def __contains__(self, x): return x in self.member

def frozen_inputs(n):
    yield 'default', None
    mk = [
        ('set()', lambda: set()), ('frozenset()', lambda: frozenset()), ('[]', lambda: []), ('()', lambda: ()),
        ('{}', lambda: {}), ('""', lambda: ""), ('"01"', lambda: "01"), ('None', lambda: None), ('5', lambda: 5),
        ('0', lambda: 0), ('False', lambda: False), ('{0}', lambda: {0}), ('[0,0,0]', lambda: [0, 0, 0]),
        ('{n-1}', lambda: {n - 1}), ('{-1}', lambda: {-1}), ('{n}', lambda: {n}), ('{n,n+1,-5}', lambda: {n, n + 1, -5}),
        ('all', lambda: set(range(n))), ('all-list', lambda: list(range(n))), ('all-range', lambda: range(n)),
        ('all-but-0', lambda: set(range(1, n))), ('all-but-last', lambda: set(range(n - 1))),
        ('evens', lambda: set(range(0, n, 2))), ('odds-tuple', lambda: tuple(range(1, n, 2))),
        ('first-half', lambda: list(range(n // 2))), ('superset', lambda: set(range(-3, n + 40))),
        ('big-superset', lambda: set(range(0, 20 * n + 50))),
        ('floats', lambda: {0.0, 2.0, 3.5}), ('np-ints', lambda: {np.int64(1), np.int32(2)}),
        ('np-array', lambda: np.array([0, 2, 3])), ('np-empty', lambda: np.array([], dtype=int)),
        ('np-2d', lambda: np.array([[0, 1], [2, 3]])), ('strs', lambda: {'0', '1'}), ('bools', lambda: [True, False]),
        ('dict', lambda: {0: 'x', 3: 'y'}), ('gen', lambda: (i for i in range(0, n, 3))), ('gen-empty', lambda: (i for i in ())),
        ('iter', lambda: iter([1, 2])), ('unhashable', lambda: [[1], [2]]), ('nested-set', lambda: [frozenset([1])]),
        ('odd1', lambda: Odd([1, 2], [3, 4])), ('odd2', lambda: Odd([], range(100))), ('odd3', lambda: Odd(range(100), [])),
        ('mixed', lambda: [0, 'a', None, 2.0, (1, 2)]), ('nan', lambda: {float('nan'), 1}),
        ('str-digits', lambda: "0123456789"), ('bytes', lambda: b"\x00\x01"),
    ]
    for name, f in mk:
        yield name, f

seqs = ["", "A", "KE", "KEKE", "AAAAAA", "KKKKEEEE", "MKDESTYAGRPQWHHC", "kEdRa", "EEEEKKKKGGGGSSSSPPPP",
        "ßKKEE", "ßKEßEK", "ŉKE",
        "MEEPQSDPSVEPPLSQETFSDLWKLLPENNVLSPLPSQAMDDLMLSPDDIEQWFTEDPGPDEAPRMPEAAPPVAPAPAAPTPAAPAPAPSWPL",
        "GSTNQKRDEY" * 40]

for s in seqs:
    for dmax in (-1, 0.42):
        o = run(('ctor', s, dmax), lambda: Sequence(s, dmax))
        if o is None:
            continue
        before = snap(o)
        for name, mk in frozen_inputs(o.len):
            for rep in range(2):
                if mk is None:
                    r = run(('fs', s, dmax, name, rep), lambda: o.full_shuffle())
                else:
                    fz = mk()
                    r = run(('fs', s, dmax, name, rep), lambda: o.full_shuffle(fz))
                    try:
                        emit('frozen-after', type(fz).__name__, repr(sorted(fz, key=repr)) if not isinstance(fz, Odd) else None)
                    except BaseException as e:
                        emit('frozen-after-exc', type(e).__name__)
                if r is not None:
                    emit('alias', r is o, r.chargePattern is o.chargePattern)
        emit('parent-unchanged', snap(o) == before)

# random frozen subsets, many lengths (exercises the set-ordering dependent path)
r_ = random.Random(20240101)
alphabet = "ACDEFGHIKLMNPQRSTVWY"
for t in range(1500):
    n = r_.choice([0, 1, 2, 3, 4, 5, 7, 8, 9, 15, 16, 17, 31, 33, 64, 100, 129, 257])
    s = "".join(r_.choice(alphabet) for _ in range(n))
    k = r_.randint(0, n + 2)
    fz = [r_.randint(-2, n + 3) for _ in range(k)]
    typ = r_.choice([set, list, tuple, frozenset])
    o = Sequence(s, r_.choice([-1, 0.1]))
    child = run(('rnd', t, s, repr(sorted(set(fz))), typ.__name__), lambda: o.full_shuffle(typ(fz)))
    if child is not None:
        run(('rnd-again', t), lambda: child.full_shuffle(typ(fz)))

# the mutable default argument must not accumulate anything
emit('default-arg', repr(Sequence.full_shuffle.__defaults__))

# chained use with other methods
o = Sequence("EEEEEKKKKKGGGGGSTYAQ")
o.deltaMax()
cur = o
for k in range(10):
    cur = run(('chain', k), lambda: cur.full_shuffle({k, 19 - k}))
    emit('chain-vals', repr(cur.kappa()), repr(cur.delta()), repr(cur.dmax))

if os.environ.get("EQUIV_DUMP"):
    open(os.environ["EQUIV_DUMP"], "w").write("\n".join(OUT))
print(len(OUT), hashlib.sha256("\n".join(OUT).encode()).hexdigest())
