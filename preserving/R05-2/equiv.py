"""
Differential script for refactorings of localcider/backend/sequence.py

Usage (same script, two trees):
    cd /tmp/seed/R05 && /venv/bin/python /tmp/seed/R05_out/R2/equiv.py     # changed tree
    cd /repo         && /venv/bin/python /tmp/seed/R05_out/R2/equiv.py     # unchanged tree
and compare stdout. The library is imported from the current working directory.

Every probe records: return value (repr, with type info for numpy objects),
exception type + message, everything printed to stdout while it ran, and the
complete object state afterwards. A per-section sha256 digest and a total digest
are printed; pass -v to dump every record.
"""
import os
import sys

sys.path.insert(0, os.getcwd())
sys.dont_write_bytecode = True

import contextlib
import hashlib
import io
import random

import numpy as np

import localcider
from localcider.backend import sequence as seqmod
from localcider.backend.sequence import Sequence
from localcider.backend.data import aminoacids

# the library ships with all status / warning messages silenced (config.HUSH_ALL = True);
# switch them on so that printed messages are part of the compared behaviour
from localcider.backend import backendtools
if "--hushed" not in sys.argv[1:]:
    backendtools.HUSH_ALL = False
    backendtools.HUSH_STATUS = False
    backendtools.HUSH_WARNINGS = False

assert os.path.abspath(seqmod.__file__).startswith(os.path.abspath(os.getcwd()) + os.sep), \
    "library was not imported from cwd: %s" % seqmod.__file__
sys.stderr.write("using " + seqmod.__file__ + "\n")

VERBOSE = "-v" in sys.argv[1:]
random.seed(12345)
np.random.seed(12345)

RECORDS = []
SECTIONS = []


def canon(x):
    """Deterministic, type-revealing description of a value"""
    if isinstance(x, np.ndarray):
        return "ndarray<%s,%s>%s" % (x.dtype, x.shape, canon(x.tolist()))
    if isinstance(x, np.generic):
        return "np.%s(%r)" % (type(x).__name__, x.item())
    if isinstance(x, float):
        return "float(%r)" % x
    if isinstance(x, bool):
        return "bool(%r)" % x
    if isinstance(x, int):
        return "int(%r)" % x
    if isinstance(x, str):
        return "%s(%r)" % (type(x).__name__, str(x))
    if isinstance(x, (list, tuple)):
        return "%s[%s]" % (type(x).__name__, ", ".join(canon(v) for v in x))
    if isinstance(x, dict):
        return "%s{%s}" % (type(x).__name__, ", ".join(
            "%s: %s" % (canon(k), canon(v)) for k, v in sorted(x.items(), key=lambda kv: repr(kv[0]))))
    if isinstance(x, Sequence):
        return "Sequence<%s>" % state(x)
    if x is None:
        return "None"
    return "%s:%r" % (type(x).__name__, x)


def state(obj):
    """Full observable state of a Sequence object"""
    parts = []
    for name in sorted(obj.__dict__):
        val = obj.__dict__[name]
        if name == "ComplexityObject":
            parts.append("%s=%s" % (name, type(val).__name__))
        else:
            parts.append("%s=%s" % (name, canon(val)))
    return "; ".join(parts)


def probe(label, fn, obj=None):
    """Run fn(), capture result / exception / stdout / state"""
    buf = io.StringIO()
    try:
        with contextlib.redirect_stdout(buf):
            res = fn()
        outcome = "RET " + canon(res)
    except BaseException as e:  # noqa
        if isinstance(e, (KeyboardInterrupt, SystemExit)):
            raise
        outcome = "EXC %s: %s" % (type(e).__name__, e)
        res = None
    rec = "%s => %s | OUT %r" % (label, outcome, buf.getvalue())
    if obj is not None:
        rec += " | STATE " + state(obj)
    RECORDS.append(rec)
    return res


def section(name):
    SECTIONS.append((name, len(RECORDS)))


def finish():
    SECTIONS.append(("<end>", len(RECORDS)))
    total = hashlib.sha256()
    for (name, start), (_, end) in zip(SECTIONS, SECTIONS[1:]):
        h = hashlib.sha256()
        for rec in RECORDS[start:end]:
            h.update(rec.encode("utf-8", "backslashreplace"))
            h.update(b"\n")
            total.update(rec.encode("utf-8", "backslashreplace"))
            total.update(b"\n")
            if VERBOSE:
                print("   ", rec.encode("ascii", "backslashreplace").decode())
        print("%-28s %4d records  %s" % (name, end - start, h.hexdigest()))
    print("%-28s %4d records  %s" % ("TOTAL", len(RECORDS), total.hexdigest()))


class MyStr(str):
    pass


# ------------------------------------------------------------------------------------
# input pools
# ------------------------------------------------------------------------------------
GOOD_SEQS = [
    "",
    "A",
    "S",
    "KKKYKKK",
    "MSTYSTYEEKKDDRR",
    "EEEEEKKKKK",
    "EKEKEKEKEK",
    "GSGSGSGSGSGSGSGSGSGS",
    "MDVFMKGLSKAKEGVVAAAEKTKQGVAEAAGKTKEGVLYVGSKTKEGVVHGVATVAEKTKEQVTNVGGAVVTGVTAVAQKTVEGAGSIAAATGFVKKDQLGKNEEGAPQEGILEDMPVDPDNEAYEMPSEEGYQDYEPEA",
    "sstyekd",
    "SsTtYy",
    "PPPPPGSTY",
    "STYSTYSTYSTYSTYSTYSTYSTYSTYSTYSTYSTYSTYSTYSTYSTYSTYSTYSTY",
    "ACDEFGHIKLMNPQRSTVWY" * 6,
    "RRRRRRRRRR",
    "DDDDDDDDDDSSSS",
    "GGGGGGSGGGGGG",
]

ODD_SEQS = [
    "+-0+-0",
    "++++0000",
    "AX",
    "ABZ",
    "A S T",
    " \tS\nT ",
    "   ",
    "A-S",
    "AS*",
    "a1",
    "ßST",          # upper() -> 'SSST' : len(seq) != len(seq.upper())
    "STß",
    "ŉA",           # upper() is two code points, invalid residue
    "S T",          # non breaking space, isspace() True
    "S​T",          # zero width space, isspace() False
    "PPPP",
    "PAAAAA",
    "PPAAAAAAAAAAA",      # 2/13 > 0.15
    "PPPAAAAAAAAAAAAAAAAA",  # exactly 0.15
    MyStr("STY"),
]

NON_STR = [None, 5, 3.2, b"STY", ["S", "T"], ("S",), np.str_("STY"), True]


def make(seq, **kw):
    buf = io.StringIO()
    with contextlib.redirect_stdout(buf):
        return Sequence(seq, **kw)


# ------------------------------------------------------------------------------------
# sections
# ------------------------------------------------------------------------------------
def sec_constructor():
    section("constructor")
    for s in GOOD_SEQS + ODD_SEQS + NON_STR:
        for validate in (False, True, 1, 0, "yes", None):
            holder = {}

            def build():
                holder["o"] = Sequence(s, validateSeq=validate)
                return holder["o"]
            probe("Sequence(%r, validateSeq=%r)" % (s, validate), build)
            if "o" in holder:
                o = holder["o"]
                probe("  str", lambda: str(o))
                probe("  chargePattern", lambda: o.chargePattern)
                probe("  dmax/len", lambda: (o.dmax, o.len, o.seqDeltaMax, o.phosphosites))

    # positional / keyword variants and explicit charge patterns
    cps = [[], (), np.array([]), np.array([], dtype=int), np.zeros(0, dtype=np.int8),
           [1, 0, -1], (1, 0, -1), np.array([1, 0, -1]), [1], "", "abc", None, 7, {}, {1: 2},
           np.array([[]]), np.zeros((0, 3))]
    for cp_ in cps:
        for s in ("EKS", "", "ekS", "+0-", "AX"):
            for dm in (-1, 0.25):
                holder = {}

                def build():
                    holder["o"] = Sequence(s, dm, cp_)
                    return holder["o"]
                probe("Sequence(%r, %r, %s)" % (s, dm, canon(cp_)), build)
                if "o" in holder:
                    probe("  identity", lambda: holder["o"].chargePattern is cp_)
    # the mutable default must not have been modified, and is shared for empty seqs
    probe("default untouched", lambda: Sequence.__init__.__defaults__)
    a, b = make(""), make("")
    probe("default shared", lambda: (a.chargePattern is b.chargePattern, a.chargePattern))
    probe("missing arg", lambda: Sequence())
    probe("kw", lambda: Sequence(seq="EK", dmax=3, chargePattern=[1, -1], validateSeq=True))
    # repeated construction gives independent state
    x, y = make("STY"), make("STY")
    x.setPhosPhoSites([1]) if False else None
    probe("independent phosphosites", lambda: x.phosphosites is y.phosphosites)
    probe("independent colormap", lambda: x.aminoAcidColorMap is y.aminoAcidColorMap)
    probe("colormap not default obj", lambda: x.aminoAcidColorMap is aminoacids.DEFAULT_COLOR_PALETTE)


def sec_validate():
    section("validateSequence")
    o = make("AAAA")
    inputs = GOOD_SEQS + ODD_SEQS + NON_STR + [
        [], (), ["A", "C"], ["A", " ", "C"], ["AB"], ["A", "AB"], ["A", 1], [1], [None],
        ["A", ["C"]], [["A"]], [("A",)], [b"A"], ["A", b" "], "ac", "A C D E", "A  C\t\tD\n",
        " A", "A ", "AX ", " XA", "X", " X", iter("ACD"), iter("A X"), {"A": 1, "C": 2}, {"A", },
        [MyStr("A"), MyStr("P")], [" ", " ", "Q"], "P", "PA", "P" * 3 + "A" * 17, "P" * 4 + "A" * 17,
        range(3), 0, "ACDEFGHIKLMNPQRSTVWY", "acdefghiklmnpqrstvwy", "BJOUXZ", "A\x00", "A\rC\x0bD\x0cE",
        "A\x1cC", "A C", "A　C", "å", [""], ["", "A"], ["A", ""],
    ]
    for inp in inputs:
        if hasattr(inp, "__next__"):
            lab = "iter"
        else:
            lab = canon(inp)
        probe("validateSequence(%s)" % lab, lambda: o.validateSequence(inp), o)
    # called repeatedly on one object: the 'warn once' flag is per call
    probe("twice-1", lambda: o.validateSequence("A C D"), o)
    probe("twice-2", lambda: o.validateSequence("A C D"), o)
    probe("noarg", lambda: o.validateSequence())
    probe("kwarg", lambda: o.validateSequence(seq="AC D"))


PHOS_ARGS = [
    1, 4, 0, -1, 100, True, False, [], [1], [4], [1, 2, 3], [3, 2, 1], [1, 1, 1], [0], [-1], [-5, 2, 99],
    (2, 3), range(1, 5), range(0), "1", "12", "123", ["1", "2"], [" 2 "], ["x"], [1, "x", 2], [2.0], [2.9],
    [1.2, 2.7], 2.5, None, [None], [[1]], [True, False], np.array([1, 2]), np.int64(2), [np.int64(2)],
    np.array(3), {1: "a", 3: "b"}, {2, 3}, iter([1, 2]), [1e3], [float("nan")], [float("inf")],
    ["0x2"], [b"2"], ["-2"], ["+2"], ["2_0"], "", [10 ** 30], [-10 ** 30], [7], [8], [6, 7, 8],
]

PHOS_SEQS = ["", "S", "A", "KKKYKKK", "MSTYSTYEEKKDDRR", "sstyekd", "EESEESEE", "STYSTY", "GSGSGS", "+S-T0Y"]


def phos_queries(o, tag, heavy=True):
    probe(tag + " get_phosphosites", lambda: o.get_phosphosites(), o)
    probe(tag + " get_phosphosequence", lambda: o.get_phosphosequence(), o)
    probe(tag + " get_STY_residues", lambda: o.get_STY_residues(), o)
    probe(tag + " nstates", lambda: o.calculateNumberDifferentPhosphoStates(), o)
    if heavy:
        probe(tag + " kappa_at_maxPhos", lambda: o.kappa_at_maxPhos(), o)
        probe(tag + " kappaDist", lambda: o.calculateKappaDistOfPhosphoStates(), o)


def sec_phospho():
    section("phospho")
    for s in PHOS_SEQS:
        try:
            base = make(s)
        except Exception as e:
            RECORDS.append("cannot build %r: %s" % (s, e))
            continue
        phos_queries(base, "fresh %r" % s)
        for arg in PHOS_ARGS:
            o = make(s)
            lab = "iter" if hasattr(arg, "__next__") else canon(arg)
            if hasattr(arg, "__next__"):
                arg = iter([1, 2])
            probe("setPhosPhoSites(%r, %s)" % (s, lab), lambda: o.setPhosPhoSites(arg), o)
            phos_queries(o, "   after", heavy=(len(o.phosphosites) <= 3))
        # repeated / accumulating calls on one object
        o = make(s)
        for arg in (1, [2, 3], [3, 2], 4, [5, 6, 7], "7", [1]):
            probe("accumulate(%r, %r)" % (s, arg), lambda: o.setPhosPhoSites(arg), o)
            phos_queries(o, "   acc", heavy=False)
        probe("acc kappa_at_maxPhos", lambda: o.kappa_at_maxPhos(), o)
        probe("acc kappa_at_maxPhos again", lambda: o.kappa_at_maxPhos(), o)
        probe("acc kappaDist", lambda: o.calculateKappaDistOfPhosphoStates(), o)
        probe("acc kappaDist again", lambda: o.calculateKappaDistOfPhosphoStates(), o)
        old = o.phosphosites
        probe("clear", lambda: o.clear_phosphosites(), o)
        probe("clear new list", lambda: (o.phosphosites is old, old))
        probe("clear twice", lambda: o.clear_phosphosites(), o)
        phos_queries(o, "   cleared")
        probe("set after clear", lambda: o.setPhosPhoSites([1, 2, 3, 4]), o)
        phos_queries(o, "   reset", heavy=False)

    # returned lists are fresh objects, not aliases of the internal state
    o = make("STYSTY")
    o.setPhosPhoSites([1, 2]) if False else None
    with contextlib.redirect_stdout(io.StringIO()):
        o.setPhosPhoSites([1, 2])
    r1, r2 = o.get_phosphosites(), o.get_phosphosites()
    probe("fresh lists", lambda: (r1 is r2, r1 is o.phosphosites, type(r1).__name__))
    s1, s2 = o.get_STY_residues(), o.get_STY_residues()
    probe("fresh sty", lambda: (s1 is s2, type(s1).__name__))

    # >50 states so that the progress message fires more than once (6 sites = 64 states)
    o = make("KSKTKYESESET")
    probe("six sites", lambda: o.setPhosPhoSites([2, 4, 6, 8, 10, 12]), o)
    probe("six sites dist", lambda: o.calculateKappaDistOfPhosphoStates(), o)
    probe("six sites max", lambda: o.kappa_at_maxPhos(), o)
    probe("six sites pseq", lambda: o.get_phosphosequence(), o)
    # with a pre-set dmax on the parent
    o = Sequence("KSKTKYESESET", dmax=0.5)
    probe("dmax parent", lambda: o.setPhosPhoSites([2, 4]), o)
    probe("dmax parent max", lambda: o.kappa_at_maxPhos(), o)
    probe("dmax parent dist", lambda: o.calculateKappaDistOfPhosphoStates(), o)
    probe("dmax parent none-set", lambda: Sequence("KSKTKYESESET", dmax=0.5).kappa_at_maxPhos())

    # direct tampering with the state attribute (users of the backend can do this)
    tampered = [
        ("KKKYKKK", [0]), ("KKKYKKK", [3, 0]), ("KKKYKKK", [99]), ("KKKYKKK", [-1]), ("KKKYKKK", [-4]),
        ("KKKYKKK", (3,)), ("KKKYKKK", np.array([3])), ("KKKYKKK", np.array([], dtype=int)),
        ("KKKYKKK", [3.0]), ("KKKYKKK", ["3"]), ("KKKYKKK", [3, 3]), ("KKKYKKK", None), ("KKKYKKK", 3),
        ("KKKYKKK", {3}), ("KKKYKKK", {3: 1}), ("STY", [2, 1, 0]), ("STY", [True]), ("STY", [None]),
        ("", [0]), ("STY", "ab"), ("STY", [np.int64(1)]), ("STY", [1, "x"]), ("STY", range(2)),
    ]
    for s, sites in tampered:
        o = make(s)
        o.phosphosites = sites
        phos_queries(o, "tamper(%r, %s)" % (s, canon(sites)))
        probe("   tamper then set", lambda: o.setPhosPhoSites([1, 2, 3]), o)
        probe("   tamper then clear", lambda: o.clear_phosphosites(), o)
    # tampering with seq / len
    o = make("KKSYKK")
    o.seq = "KKSY"
    probe("short seq set", lambda: o.setPhosPhoSites([3, 4, 5, 6]), o)
    phos_queries(o, "short seq")
    o = make("KKSY")
    o.seq = "KKSYKSK"
    probe("long seq set", lambda: o.setPhosPhoSites([3, 4, 5, 6]), o)
    phos_queries(o, "long seq")
    o = make("ßST")   # len 3, seq 'SSST'
    probe("eszett set", lambda: o.setPhosPhoSites([1, 2, 3, 4, 5]), o)
    phos_queries(o, "eszett")
    o = make("KSK")
    o.seq = ["K", "S", "K"]
    probe("list seq set", lambda: o.setPhosPhoSites([2]), o)
    phos_queries(o, "list seq")
    o = make("KSK")
    o.seq = ["K", "Ser", "K"]
    o.phosphosites = [1]
    phos_queries(o, "list seq3")


def palette(**changes):
    d = dict(aminoacids.DEFAULT_COLOR_PALETTE)
    for k, v in changes.items():
        if v is KeyError:
            del d[k]
        else:
            d[k] = v
    return d


ALL_COLORS = ['aqua', 'black', 'blue', 'fuchsia', 'gray', 'green', 'lime', 'maroon', 'navy', 'olive',
              'orange', 'purple', 'red', 'silver', 'teal', 'white', 'yellow']


def sec_html():
    section("html")
    import collections
    for s in GOOD_SEQS + ["A" * n for n in (9, 10, 11, 49, 50, 51, 99, 100, 101)]:
        o = make(s)
        probe("html(%r)" % s, lambda: o.get_HTMLColorString(), o)
        probe("html again", lambda: o.get_HTMLColorString(), o)
    for s in ("+-0", "A+", "ßST"):
        o = make(s)
        probe("html odd(%r)" % s, lambda: o.get_HTMLColorString(), o)

    rot = {aa: ALL_COLORS[i % 17] for i, aa in enumerate(sorted(aminoacids.DEFAULT_COLOR_PALETTE))}
    palettes = [
        ("default", aminoacids.DEFAULT_COLOR_PALETTE),
        ("copy", palette()),
        ("rot", rot),
        ("all-lime", {aa: "lime" for aa in aminoacids.DEFAULT_COLOR_PALETTE}),
        ("missing A", palette(A=KeyError)),
        ("missing Y", palette(Y=KeyError)),
        ("missing A,Y", palette(A=KeyError, Y=KeyError)),
        ("bad color A", palette(A="pink")),
        ("bad color Y", palette(Y="pink")),
        ("bad color + missing", palette(C="pink", A=KeyError)),
        ("missing + bad color", palette(A="pink", C=KeyError)),
        ("upper", palette(A="RED")),
        ("mixed", palette(A="Red")),
        ("space", palette(A=" red")),
        ("empty color", palette(A="")),
        ("None color", palette(A=None)),
        ("int color", palette(A=3)),
        ("list color", palette(A=["red"])),
        ("bytes color", palette(A=b"red")),
        ("tuple color", palette(A=("red",))),
        ("mystr color", palette(A=MyStr("red"), Y=MyStr("teal"))),
        ("npstr color", palette(A=np.str_("red"))),
        ("grey", palette(A="grey")),
        ("extra keys", palette(X="red", a="blue", B="nonsense")),
        ("lower keys", {k.lower(): v for k, v in aminoacids.DEFAULT_COLOR_PALETTE.items()}),
        ("empty", {}),
        ("None", None),
        ("list", list(aminoacids.DEFAULT_COLOR_PALETTE)),
        ("list pairs", list(aminoacids.DEFAULT_COLOR_PALETTE.items())),
        ("str", "ACDEFGHIKLMNPQRSTVWY"),
        ("int", 5),
        ("ordered", collections.OrderedDict(sorted(rot.items(), reverse=True))),
        ("defaultdict", collections.defaultdict(lambda: "red")),
        ("defaultdict full", collections.defaultdict(lambda: "red", rot)),
        ("chainmap", collections.ChainMap({"A": "teal"}, palette())),
        ("three-letter", {aminoacids.ONE_TO_THREE[k]: v for k, v in aminoacids.DEFAULT_COLOR_PALETTE.items()}),
    ]
    for seq in ("MSTYSTYEEKKDDRRACDEFGHIKLMNPQRSTVWY", ""):
        for name, pal in palettes:
            o = make(seq)
            before = o.aminoAcidColorMap
            probe("palette[%s]" % name, lambda: o.set_HTMLColorResiduePalette(pal), o)
            probe("   alias", lambda: (o.aminoAcidColorMap is before, o.aminoAcidColorMap is pal,
                                       list(o.aminoAcidColorMap.keys()), type(o.aminoAcidColorMap).__name__,
                                       [type(v).__name__ for v in o.aminoAcidColorMap.values()]))
            if isinstance(pal, dict):
                probe("   input untouched", lambda: pal)
            probe("   html", lambda: o.get_HTMLColorString(), o)
            # second call on the same object (good after bad, bad after good)
            probe("   then rot", lambda: o.set_HTMLColorResiduePalette(rot), o)
            probe("   then bad", lambda: o.set_HTMLColorResiduePalette(palette(W="pink")), o)
            probe("   html2", lambda: o.get_HTMLColorString(), o)
    # tampering with the map
    o = make("ASTY")
    o.aminoAcidColorMap = {"A": "x", "S": 3, "T": None, "Y": ("a", "b")}
    probe("tampered map", lambda: o.get_HTMLColorString(), o)
    o.aminoAcidColorMap = {"A": "x"}
    probe("tampered map missing", lambda: o.get_HTMLColorString(), o)
    del o.aminoAcidColorMap
    probe("no map", lambda: o.get_HTMLColorString(), o)
    o = make("ASTY")
    o.seq = ["A", "S"]
    probe("list seq html", lambda: o.get_HTMLColorString(), o)
    o.seq = ["A", ("S", "T")]
    o.aminoAcidColorMap[("S", "T")] = "red"
    probe("tuple residue html", lambda: o.get_HTMLColorString(), o)
    probe("noarg", lambda: o.set_HTMLColorResiduePalette())
    probe("kwarg", lambda: o.set_HTMLColorResiduePalette(colorDict=palette()), o)


def sec_api():
    """Through the public SequenceParameters API, which is what users call"""
    section("SequenceParameters API")
    from localcider.sequenceParameters import SequenceParameters
    for s in ["MSTYSTYEEKKDDRR", "m s t y\nEEKK", "KKKYKKK", "AX", "", "  ", "PPPPSTY", "GSGSGSGSGS"]:
        holder = {}

        def build():
            holder["o"] = SequenceParameters(s)
            return holder["o"].get_sequence()
        probe("SequenceParameters(%r)" % s, build)
        if "o" not in holder:
            continue
        sp = holder["o"]
        so = sp.SeqObj
        probe("  all sites", lambda: sp.get_all_phosphorylatable_sites(), so)
        probe("  set", lambda: sp.set_phosphosites([2, 3, 4, 99]), so)
        probe("  get", lambda: sp.get_phosphosites(), so)
        probe("  kappa after", lambda: sp.get_kappa_after_phosphorylation(), so)
        probe("  pseq", lambda: sp.get_phosphosequence(), so)
        probe("  dist", lambda: sp.get_full_phosphostatus_kappa_distribution(), so)
        probe("  html", lambda: sp.get_HTMLColorString() if hasattr(sp, "get_HTMLColorString") else None, so)
        probe("  clear", lambda: sp.clear_phosphosites(), so)
        probe("  kappa after clear", lambda: sp.get_kappa_after_phosphorylation(), so)
        probe("  kappa", lambda: sp.get_kappa(), so)


def run(sections):
    for fn in sections:
        fn()
    finish()


ALL = [sec_constructor, sec_validate, sec_phospho, sec_html, sec_api]

if __name__ == "__main__":
    run(ALL)
