import os, sys; sys.path.insert(0, os.getcwd())
"""
Differential script: run once with cwd=/tmp/seed/R48 (changed tree) and once
with cwd=/repo (unchanged tree); the printed output must be identical.

It exercises sequence_charge_decoration, FCR/NCPR/Fplus/Fminus/countPos/
countNeg/countNeut, phasePlotRegion, fraction_disorder_promoting and
amino_acid_fraction of localcider.backend.sequence.Sequence (directly and
through the SequenceParameters API) on a spread of ordinary and odd inputs and
prints a canonical rendering of every result / exception / object state, plus
a digest.
"""
import hashlib
import io
import random
import contextlib
import warnings

import numpy as np

import localcider
assert os.path.realpath(os.path.dirname(os.path.dirname(localcider.__file__))) == \
    os.path.realpath(os.getcwd()), (localcider.__file__, os.getcwd())

from localcider.backend.sequence import Sequence
from localcider.sequenceParameters import SequenceParameters

LINES = []


def canon(v):
    """ Canonical, type-preserving, bit-exact rendering of a value """
    if isinstance(v, (bool, np.bool_)):
        return "%s:%s" % (type(v).__name__, bool(v))
    if isinstance(v, (float, np.floating)):
        return "%s:%s" % (type(v).__name__, float(v).hex())
    if isinstance(v, (int, np.integer)):
        return "%s:%d" % (type(v).__name__, int(v))
    if isinstance(v, str):
        return "str:%r" % v
    if v is None:
        return "None"
    if isinstance(v, np.ndarray):
        return "ndarray[%s,%s](%s)" % (v.dtype, v.shape, ",".join(canon(x) for x in v.ravel().tolist()))
    if isinstance(v, dict):
        # keep insertion order: it is observable
        return "%s{%s}" % (type(v).__name__, ",".join("%s=>%s" % (canon(k), canon(x)) for k, x in v.items()))
    if isinstance(v, (list, tuple)):
        return "%s(%s)" % (type(v).__name__, ",".join(canon(x) for x in v))
    if type(v).__name__ == "Sequence":
        return "Sequence<%s>" % state(v)
    return "%s:%r" % (type(v).__name__, v)


def state(obj):
    return "seq=%r len=%r cp=%s dmax=%r sdm=%r phos=%r" % (
        obj.seq, obj.len, canon(obj.chargePattern), obj.dmax, obj.seqDeltaMax, obj.phosphosites)


def call(label, fn, *args, **kwargs):
    out = io.StringIO()
    with contextlib.redirect_stdout(out), contextlib.redirect_stderr(out), \
            warnings.catch_warnings(record=True) as wlist:
        warnings.simplefilter("always")
        try:
            res = "OK " + canon(fn(*args, **kwargs))
        except BaseException as e:  # noqa
            res = "EXC %s %r" % (type(e).__name__, str(e))
    # python warnings: category and text only (the reported source line moves)
    warned = [(w.category.__name__, str(w.message)) for w in wlist]
    LINES.append("%s -> %s | printed=%r warned=%r" % (label, res, out.getvalue(), warned))


METHODS = [
    ("countPos", ()), ("countNeg", ()), ("countNeut", ()),
    ("Fplus", ()), ("Fminus", ()),
    ("FCR", ()), ("FCR", (None,)), ("FCR", (7.0,)), ("FCR", (2,)), ("FCR", (0,)), ("FCR", (13.5,)),
    ("NCPR", ()), ("NCPR", (None,)), ("NCPR", (7.0,)), ("NCPR", (2,)), ("NCPR", (0,)), ("NCPR", (13.5,)),
    ("FER", ()), ("FER", (7.4,)),
    ("mean_net_charge", ()), ("mean_net_charge", (5.5,)),
    ("phasePlotRegion", ()), ("phasePlotAnnotation", ()),
    ("fraction_disorder_promoting", ()), ("amino_acid_fraction", ()),
    ("sequence_charge_decoration", ()),
]


def exercise(tag, obj):
    LINES.append("## %s :: %s" % (tag, state(obj)))
    for rep in range(2):       # repeated calls on one object
        for name, args in METHODS:
            call("%s.%s%r#%d" % (tag, name, args, rep), getattr(obj, name), *args)
    # keyword form of pH
    call("%s.FCR(pH=4.2)" % tag, obj.FCR, pH=4.2)
    call("%s.NCPR(pH=4.2)" % tag, obj.NCPR, pH=4.2)
    LINES.append("## %s after :: %s" % (tag, state(obj)))


def make(tag, *args, **kwargs):
    out = io.StringIO()
    with contextlib.redirect_stdout(out), contextlib.redirect_stderr(out):
        try:
            obj = Sequence(*args, **kwargs)
        except BaseException as e:  # noqa
            LINES.append("make %s -> EXC %s %r | printed=%r" % (tag, type(e).__name__, str(e), out.getvalue()))
            return None
    LINES.append("make %s ok | printed=%r" % (tag, out.getvalue()))
    return obj


# ------------------------------------------------------------------ inputs
AA = "ACDEFGHIKLMNPQRSTVWY"
rnd = random.Random(20240611)

seqs = [
    "", "A", "K", "E", "D", "R", "P", "KE", "EK", "KK", "EE", "AK", "KA",
    "KEK", "EKE", "AAA", "KAE", AA, AA[::-1], AA.lower(), "kEkE",
    "EEEEEKKKKK", "EKEKEKEKEK", "KKKKKKKKKK", "EEEEEEEEEE", "GGGGGGGGGG",
    "DDDDDRRRRRAAAAAAAAAA", "GSGSGSGSKEGSGSGSGSGS",
    # unusual residues
    "X", "AXA", "KXE", "B", "Z", "AU", "EK*KE", "A A", "E K", "A1B2", "-", "KE-KE",
    "ß", "KßE", "ıK",
    "MKVLAAGIEEKRRDDSPQWTYHNCFGGKKEEDD",
]
# fractions around the region boundaries (fcr = .25, .35 ; |ncpr| = .35)
for npos, nneg, n in [(5, 0, 20), (0, 5, 20), (3, 2, 20), (4, 0, 20), (7, 0, 20), (0, 7, 20),
                      (4, 3, 20), (8, 0, 20), (0, 8, 20), (7, 1, 20), (1, 7, 20), (8, 1, 20),
                      (4, 4, 20), (10, 10, 20), (14, 6, 20), (6, 14, 20), (7, 7, 20),
                      (35, 0, 100), (36, 0, 100), (0, 36, 100), (25, 0, 100), (24, 0, 100),
                      (18, 17, 100), (18, 18, 100), (40, 5, 100), (5, 40, 100), (41, 6, 100),
                      (7, 0, 19), (7, 0, 21), (1, 0, 4), (1, 0, 3), (0, 1, 3), (2, 1, 3)]:
    lst = list("K" * npos + "E" * nneg + "G" * (n - npos - nneg))
    rnd.shuffle(lst)
    seqs.append("".join(lst))
for L in (2, 3, 5, 8, 13, 21, 34, 55, 89):
    seqs.append("".join(rnd.choice(AA) for _ in range(L)))
    seqs.append("".join(rnd.choice("KRDE") for _ in range(L)))
    seqs.append("".join(rnd.choice("KRDEGSTQNPHYC") for _ in range(L)))
    seqs.append("".join(rnd.choice("KEGGG") for _ in range(L)))
seqs.append("".join(rnd.choice(AA) for _ in range(160)))

for k, s in enumerate(seqs):
    obj = make("S%03d" % k, s)
    if obj is not None:
        exercise("S%03d" % k, obj)

# validateSeq=True
for k, s in enumerate(["ACDK EKR", "acdkekr", "PPPPKE", "AXK", "", "   ", "KE\tKE\n"]):
    obj = make("V%02d" % k, s, validateSeq=True)
    if obj is not None:
        exercise("V%02d" % k, obj)

# non-string constructor arguments
for k, s in enumerate([None, 5, ["K", "E"], b"KE"]):
    make("N%02d" % k, s)

# user supplied charge patterns (consistent, inconsistent, lists, odd dtypes)
custom = [
    ("KEKEG", np.array([1, -1, 1, -1, 0])),
    ("KEKEG", np.array([1.0, -1.0, 1.0, -1.0, 0.0])),
    ("KEKEG", np.array([0.5, -2.5, 3.0, -0.25, 0.0])),
    ("KEKEG", [1, -1, 1, -1, 0]),
    ("KEKEG", (1, -1, 1, -1, 0)),
    ("KEKEG", np.array([1, -1, 1])),
    ("KEKEG", np.array([1, -1, 1, -1, 0, 1, 1, 1])),
    ("AAAA", np.array([1] * 10 + [-1] * 5)),
    ("AAAA", np.array([1] * 5 + [-1] * 10)),
    ("AAAAAAAAAA", np.array([1, 1, 1, 1, -1, -1, -1, -1, 0, 0])),
    ("", np.array([1])),
    ("", np.array([1, -1])),
    ("GG", np.array([[1, -1], [0, 1]])),
    ("GG", np.array([True, False])),
    ("GG", np.array(["1", "-1"])),
    ("GGG", np.array([1, -1, 1], dtype=object)),
    ("GGG", np.array([np.nan, 1.0, -1.0])),
    ("GGG", np.array([np.inf, 1.0, -np.inf])),
    ("G", np.float64(1.0)) if False else ("G", np.array([2])),
    ("GGGG", np.array([1, -1, 1, -1], dtype=np.int8)),
    ("GGGG", np.array([1, -1, 1, -1], dtype=np.float32)),
    # unusual residues can only get in when the charge pattern is supplied
    ("AXA", np.array([0, 0, 0])),
    ("XAK", np.array([0, 0, 1])),
    ("KE*B", np.array([1, -1, 0, 0])),
    ("TAGZ", np.array([0, 0, 0, 0])),
    ("a b", np.array([0, 0, 0])),
    ("\u00dfK", np.array([0, 1])),       # upper() changes the length: seq 'SSK', len 2
    ("K\u00dfE\u00df", np.array([1, 0, -1, 0])),
    ("12", np.array([1, -1])),
    ("ke", np.array([1, -1])),
]
for k, (s, cp) in enumerate(custom):
    obj = make("C%02d" % k, s, chargePattern=cp)
    if obj is not None:
        exercise("C%02d" % k, obj)

# positional dmax / chargePattern
obj = make("P00", "KEKKEEGGKE", 0.5, np.array([1, -1, 1, 1, -1, -1, 0, 0, 1, -1]))
if obj is not None:
    exercise("P00", obj)

# objects whose state was changed by other public methods first
obj = make("M00", "MKSTEEDKRSTYGGKEESTKR")
if obj is not None:
    call("M00.setPhos", obj.setPhosPhoSites, [3, 4, 11])
    exercise("M00", obj)
    call("M00.clear", obj.clear_phosphosites)
    exercise("M00b", obj)
obj = make("M01", "KKKKEEEEGGGGKEKE")
if obj is not None:
    call("M01.swapRes", obj.swapRes, 0, 5)
    exercise("M01", obj)
    call("M01.kappa", obj.kappa)
    exercise("M01b", obj)
obj = make("M02", "KKEEGG")
if obj is not None:
    obj.chargePattern = np.array([0, 0, 1, 1, -1, -1])
    exercise("M02", obj)
    obj.seq = "WWFFYY"
    exercise("M02b", obj)
    obj.seq = ""
    exercise("M02c", obj)
    obj.len = 0
    exercise("M02d", obj)


# control flow of phasePlotRegion: stub the four quantities it reads, record
# which are called, how often and in which order
def stubbed(tag, fcr, ncpr, fplus, fminus):
    obj = Sequence("KEKEGG")
    log = []

    def mk(name, val):
        def f(*a, **k):
            log.append((name, a, tuple(sorted(k.items()))))
            if isinstance(val, BaseException):
                raise val
            return val
        return f
    obj.FCR = mk("FCR", fcr)
    obj.NCPR = mk("NCPR", ncpr)
    obj.Fplus = mk("Fplus", fplus)
    obj.Fminus = mk("Fminus", fminus)
    call("%s.phasePlotRegion" % tag, obj.phasePlotRegion)
    call("%s.phasePlotAnnotation" % tag, obj.phasePlotAnnotation)
    LINES.append("%s calls=%r" % (tag, log))


vals = [-1.0, 0.0, 0.1, 0.2499999, 0.25, 0.2500001, 0.3, 0.35, 0.35000000000000003,
        0.36, 0.5, 1.0, 2.0, float("nan"), float("inf"), -0.35, -0.36, -0.34]
k = 0
for fcr in vals:
    for ncpr in (0.0, 0.34, 0.35, -0.35, 0.36, -0.36, -0.2, float("nan")):
        for fplus, fminus in ((0.0, 0.0), (0.36, 0.0), (0.0, 0.36), (0.36, 0.36), (0.35, 0.35),
                              (float("nan"), 0.5), (0.5, float("nan"))):
            stubbed("T%04d" % k, fcr, ncpr, fplus, fminus)
            k += 1
stubbed("TE1", ValueError("fcr"), 0.0, 0.0, 0.0)
stubbed("TE2", 0.1, ValueError("ncpr"), 0.0, 0.0)
stubbed("TE3", 0.5, 0.5, ValueError("fplus"), 0.0)
stubbed("TE4", 0.5, 0.5, 0.1, ValueError("fminus"))
stubbed("TE5", 0.5, 0.5, 0.5, ValueError("fminus"))
stubbed("TE6", np.float64(0.3), np.float64(0.1), np.float64(0.1), np.float64(0.1))
stubbed("TE7", 1, 1, 1, 0)
stubbed("TE8", 1, 1, 0, 1)


# FCR/NCPR/Fplus/Fminus read the counts through the public count methods and
# the pH path through charge_at_pH: stub those and log the calls
def stubbed_counts(tag, pos, neg, length):
    obj = Sequence("KEKEGG")
    log = []

    def mk(name, val):
        def f(*a, **k):
            log.append((name, a, tuple(sorted(k.items()))))
            if isinstance(val, BaseException):
                raise val
            return val
        return f
    obj.countPos = mk("countPos", pos)
    obj.countNeg = mk("countNeg", neg)
    obj.charge_at_pH = mk("charge_at_pH", 1.25)
    obj.len = length
    for name, args in [("Fplus", ()), ("Fminus", ()), ("FCR", ()), ("NCPR", ()), ("FCR", (6.5,)), ("NCPR", (6.5,)),
                       ("FCR", (0,)), ("NCPR", (0,)), ("phasePlotRegion", ())]:
        call("%s.%s%r" % (tag, name, args), getattr(obj, name), *args)
    LINES.append("%s calls=%r" % (tag, log))


stubbed_counts("K0", 3, 2, 6)
stubbed_counts("K1", 3, 2, 0)
stubbed_counts("K2", np.int64(3), np.int64(2), 7)
stubbed_counts("K3", 3, 2, 7.0)
stubbed_counts("K4", 3, 2, np.int64(7))
stubbed_counts("K5", ValueError("pos"), 2, 7)
stubbed_counts("K6", 3, ValueError("neg"), 7)
stubbed_counts("K7", 2 ** 70, 1, 3)
stubbed_counts("K8", 3, 1, 10 ** 400)

# through the public API class
for k, s in enumerate(["", "KEKEKEGGGG", AA, "EEEEEEEEKKGG", "KKKKKKKKEEGG", "GGGGGGGGGK", "AXA",
                       "MKVLAAGIEEKRRDDSPQWTYHNCFGGKKEEDD"]):
    out = io.StringIO()
    with contextlib.redirect_stdout(out), contextlib.redirect_stderr(out):
        try:
            sp = SequenceParameters(s)
        except BaseException as e:  # noqa
            LINES.append("SP%02d make EXC %s %r" % (k, type(e).__name__, str(e)))
            continue
    for name, args in [("get_SCD", ()), ("get_FCR", ()), ("get_FCR", (5.0,)), ("get_NCPR", ()), ("get_NCPR", (5.0,)),
                       ("get_countPos", ()), ("get_countNeg", ()), ("get_countNeut", ()),
                       ("get_fraction_positive", ()), ("get_fraction_negative", ()),
                       ("get_phasePlotRegion", ()), ("get_fraction_disorder_promoting", ()),
                       ("get_amino_acid_fractions", ()), ("get_mean_net_charge", ()), ("get_fraction_expanding", ())]:
        if hasattr(sp, name):
            call("SP%02d.%s%r" % (k, name, args), getattr(sp, name), *args)
        else:
            LINES.append("SP%02d no attr %s" % (k, name))

# returned dict of amino_acid_fraction is a fresh object each call
o = Sequence(AA * 2)
d1 = o.amino_acid_fraction()
d2 = o.amino_acid_fraction()
LINES.append("aaf fresh=%r type=%s keys=%r" % (d1 is not d2, type(d1).__name__, list(d1.keys())))
d1["A"] = 99
LINES.append("aaf indep=%s" % canon(o.amino_acid_fraction()))

# class surface: no public names added or removed
LINES.append("public=%r" % sorted(n for n in dir(Sequence) if not n.startswith("_")))

text = "\n".join(LINES)
if os.environ.get("EQUIV_DUMP"):
    print(text)
print("lines", len(LINES))
print("digest", hashlib.sha256(text.encode("utf-8", "backslashreplace")).hexdigest())
