import os, sys; sys.path.insert(0, os.getcwd())
import hashlib, itertools
import numpy as np
import localcider
assert os.path.abspath(localcider.__file__).startswith(os.path.abspath(os.getcwd()) + os.sep), localcider.__file__
from localcider.backend import sequence as S
from localcider.backend.sequence import Sequence

OUT = []
def emit(*a):
    OUT.append(repr(a))

def cpat(cp):
    try:
        vals = [repr(x) for x in cp]
    except Exception as e:
        vals = 'ERR' + type(e).__name__
    return (type(cp).__name__, getattr(getattr(cp, 'dtype', None), 'name', None), vals)

def snap(o):
    if not isinstance(o, Sequence):
        return ('NOTSEQ', repr(o))
    return (o.seq, o.len, repr(o.dmax), cpat(o.chargePattern), repr(o.seqDeltaMax),
            repr(o.phosphosites), type(o.ComplexityObject).__name__)

def run(tag, fn):
    try:
        r = fn()
        emit(tag, 'OK', snap(r))
        return r
    except BaseException as e:
        emit(tag, 'EXC', type(e).__name__, str(e))
        return None

seqs = ["", "A", "KE", "KEKE", "AAAA", "KKKKEEEE", "MKDESTYAGRPQWHHC", "kEdRa", "EEEEKKKKGGGGSSSSPPPP",
        "XZBK-E*", "K E\tR", "MEEPQSDPSVEPPLSQETFSDLWKLLPENNVLSPLPSQAMDDLMLSPDDIEQWFTEDPGPDEAPRMPEAAPPVAPAPAAPTPAAPAPAPSWPL"]

# --- all index pairs (in range, negative, out of range) on normal objects
for s in seqs:
    for dmax in (-1, 0.37):
        o = run(('ctor', s, dmax), lambda: Sequence(s, dmax))
        if o is None:
            continue
        before = snap(o)
        n = len(s)
        idxs = list(range(-n - 2, n + 3)) if n <= 8 else [-n - 1, -n, -3, -1, 0, 1, 2, 5, n // 2, n - 2, n - 1, n, n + 4]
        for i, j in itertools.product(idxs, idxs):
            r = run(('pair', s, dmax, i, j), lambda: o.swapRes(i, j))
            if r is not None:
                emit('alias', r is o, r.chargePattern is o.chargePattern)
        emit('parent-unchanged', snap(o) == before)

# --- unusual index types
weird = [0, 1, 2, True, False, 1.0, 2.0, 1.5, np.int64(1), np.int32(3), np.float64(2.0), "1", "a", None,
         (1,), [1], slice(0, 2), 10**30, -10**30, np.array(1), np.array([1]), np.array([0, 1]), b"1", 1j]
for s in ["KEKEAAAA", "A", ""]:
    o = Sequence(s, 0.5)
    for i, j in itertools.product(weird, weird):
        run(('weird', s, repr(i), repr(j)), lambda: o.swapRes(i, j))

# --- user supplied charge patterns of various containers / lengths
pats = [np.array([1., -1., 0., 1.]), np.array([1, -1, 0, 1]), [1, -1, 0, 1], (1, -1, 0, 1), [1, -1],
        np.array([1., -1.]), np.array([1., -1., 0., 1., 1., -1., 0.]), "+-0+", {0: 1, 1: -1, 2: 0, 3: 1},
        {0: 1, 3: -1}, [[1], [-1], [0], [1]], range(4), np.array([[1., 2.], [3., 4.], [5., 6.], [7., 8.]])]
for p in pats:
    for s in ["KEAK", "KEAKKE"]:
        try:
            o = Sequence(s, 0.25, p)
        except BaseException as e:
            emit('ctor', type(e).__name__, str(e)); continue
        for i, j in itertools.product(range(-7, 8), repeat=2):
            r = run(('pat', repr(p), s, i, j), lambda: o.swapRes(i, j))
            if isinstance(r, Sequence):
                cp_ = r.chargePattern
                emit('identity', cp_ is p,
                     [any(a is b for b in p) if isinstance(p, list) else None for a in (cp_ if isinstance(cp_, list) else [])])
        emit('pat-after', cpat(o.chargePattern))

# --- chained / repeated calls and derived values
o = Sequence("EEEEEKKKKKGGGGGSTYAQ")
o.deltaMax()
cur = o
for k in range(30):
    i, j = (7 * k) % 20, (11 * k + 3) % 20
    cur = run(('chain', k, i, j), lambda: cur.swapRes(i, j))
    emit('chain-vals', repr(cur.kappa()), repr(cur.delta()), repr(cur.countPos()), repr(cur.NCPR()))
emit('orig', snap(o))

# --- validated / phosphosite carrying parent
o = Sequence("ksteyrd", validateSeq=True)
o.setPhosPhoSites([2, 3])
run('phos', lambda: o.swapRes(1, 5))
emit('phos-parent', snap(o))

if os.environ.get("EQUIV_DUMP"):
    open(os.environ["EQUIV_DUMP"], "w").write("\n".join(OUT))
print(len(OUT), hashlib.sha256("\n".join(OUT).encode()).hexdigest())
