"""
Differential script for localcider/backend/plotting.py and localcider/plots.py.

Run once with cwd=<changed tree> and once with cwd=/repo (unchanged tree) and
compare the printed output - it must be byte-for-byte identical.

    cd /tmp/seed/R08 && /venv/bin/python /path/to/equiv.py > new.txt
    cd /repo         && /venv/bin/python /path/to/equiv.py > old.txt
    diff old.txt new.txt

What is observed for every call:
  * the return value (None / the pyplot module / other)
  * the exception type and message
  * the complete state of every open matplotlib figure at the time the
    function returns *and* at the time of each savefig() call (patches, colours,
    line widths, scatter points, annotations, axis labels/limits, title,
    legend, font properties)
  * the sequence of show()/savefig()/close() calls with their arguments
  * files written (existence, magic bytes, sha1 of PNG contents)
  * matplotlib rcParams font settings (mutated by the linear plots)
  * mutation of argument lists / mutable default arguments
"""
import os
import sys
sys.path.insert(0, os.getcwd())

import hashlib
import shutil
import tempfile
import warnings

warnings.simplefilter("ignore")

import matplotlib
matplotlib.use("Agg")
import matplotlib.pyplot as plt
import numpy as np

import localcider
from localcider.backend import plotting as P
from localcider import plots as PL
from localcider.sequenceParameters import SequenceParameters
from localcider.backend.localciderExceptions import PlottingException

# make sure we are testing the tree in the cwd
assert os.path.abspath(localcider.__file__).startswith(os.path.abspath(os.getcwd()) + os.sep), localcider.__file__

OUT = []          # all lines to be printed / digested
EVENTS = []       # show/savefig/close events of the current case
TMPDIR = ["<unset>"]


def emit(s):
    OUT.append(s)


def r(x):
    """deterministic repr for floats / arrays / nested things"""
    if x is plt:
        return "<pyplot>"
    if isinstance(x, (float, np.floating)):
        return "%.10g" % float(x)
    if isinstance(x, (int, np.integer, bool, str, type(None))):
        return repr(x)
    if isinstance(x, np.ndarray):
        return "[" + ",".join(r(v) for v in x.tolist()) + "]"
    if isinstance(x, (list, tuple)):
        return "[" + ",".join(r(v) for v in x) + "]"
    if isinstance(x, dict):
        return "{" + ",".join("%s:%s" % (k, r(x[k])) for k in sorted(x)) + "}"
    return "<" + type(x).__name__ + ">"


def fontdesc(fp):
    return "size=%s weight=%s family=%s" % (r(fp.get_size_in_points()), fp.get_weight(), r(fp.get_family()))


def figstate():
    lines = []
    for num in plt.get_fignums():
        fig = plt.figure(num)
        lines.append("FIG size=%s naxes=%d" % (r(fig.get_size_inches()), len(fig.axes)))
        for ax in fig.axes:
            lines.append(" AX xlim=%s ylim=%s pos=%s" % (r(ax.get_xlim()), r(ax.get_ylim()), r(ax.get_position().bounds)))
            lines.append("  title=%r [%s] loc-left=%r" % (ax.get_title(), fontdesc(ax.title.get_fontproperties()), ax.get_title(loc='left')))
            lines.append("  left-title-size=%s" % r(ax._left_title.get_fontsize()))
            lines.append("  xlabel=%r [%s]" % (ax.get_xlabel(), fontdesc(ax.xaxis.label.get_fontproperties())))
            lines.append("  ylabel=%r [%s]" % (ax.get_ylabel(), fontdesc(ax.yaxis.label.get_fontproperties())))
            for p in ax.patches:
                lines.append("  PATCH %s fc=%s ec=%s lw=%s alpha=%s z=%s verts=%s" % (
                    type(p).__name__, r(p.get_facecolor()), r(p.get_edgecolor()), r(p.get_linewidth()),
                    r(p.get_alpha()), r(p.get_zorder()),
                    r(p.get_patch_transform().transform(p.get_path().vertices))))
            for c in ax.collections:
                lines.append("  COLL %s off=%s sizes=%s fc=%s z=%s" % (
                    type(c).__name__, r(np.asarray(c.get_offsets())), r(c.get_sizes()), r(c.get_facecolor()), r(c.get_zorder())))
            for l in ax.lines:
                lines.append("  LINE xy=%s color=%s lw=%s ls=%s label=%r" % (
                    r(np.asarray(l.get_xydata())), r(l.get_color()), r(l.get_linewidth()), l.get_linestyle(), l.get_label()))
            for t in ax.texts:
                lines.append("  TEXT %r xy=%s fs=%s" % (t.get_text(), r(getattr(t, 'xy', None)), r(t.get_fontsize())))
            leg = ax.get_legend()
            if leg is None:
                lines.append("  LEGEND none")
            else:
                lines.append("  LEGEND texts=%r fs=%s nhandles=%d ncol=%s" % (
                    [t.get_text() for t in leg.get_texts()],
                    r([t.get_fontsize() for t in leg.get_texts()]),
                    len(leg.legend_handles), r(getattr(leg, '_ncols', None))))
    if not lines:
        lines.append("NOFIG")
    return lines


def digest(lines):
    return hashlib.sha1("\n".join(lines).encode()).hexdigest()[:16]


# ---- instrument pyplot's show / savefig / close -------------------------------
_real_savefig = plt.savefig
_real_close = plt.close


def _show(*a, **k):
    EVENTS.append("show(%s,%s) state=%s" % (r(a), r(k), digest(figstate())))


def _savefig(*a, **k):
    st = figstate()
    EVENTS.append("savefig(%s,%s) state=%s" % (r([os.path.basename(str(x)) for x in a]), r(k), digest(st)))
    for s in st:
        EVENTS.append("    | " + s)
    return _real_savefig(*a, **k)


def _close(*a, **k):
    EVENTS.append("close(%s,%s) nfigs_before=%d" % (r(a), r(k), len(plt.get_fignums())))
    return _real_close(*a, **k)


plt.show = _show
plt.savefig = _savefig
plt.close = _close


def filedesc(path):
    if not os.path.exists(path):
        return "absent"
    with open(path, "rb") as fh:
        data = fh.read()
    if data[:4] == b"\x89PNG":
        return "PNG sha1=" + hashlib.sha1(data).hexdigest()[:16]
    return "magic=%r nonempty=%s" % (data[:4], len(data) > 0)


def case(_name_, _func_, *args, **kwargs):
    """run one call and emit everything observable about it"""
    files = kwargs.pop("_files", [])
    verbose = kwargs.pop("_verbose", True)
    del EVENTS[:]
    _real_close("all")
    matplotlib.rcdefaults()
    emit("=== " + _name_)
    try:
        ret = _func_(*args, **kwargs)
        emit("  ret=" + r(ret))
    except BaseException as e:  # noqa
        emit("  EXC %s: %s" % (type(e).__name__, str(e).replace(os.getcwd(), "<cwd>").replace(TMPDIR[0], "<tmp>")))
    for ev in EVENTS:
        emit("  EV " + ev)
    st = figstate()
    emit("  endstate=" + digest(st))
    if verbose:
        for s in st:
            emit("    " + s)
    emit("  rc font.family=%s size=%s weight=%s" % (r(matplotlib.rcParams['font.family']), r(matplotlib.rcParams['font.size']), matplotlib.rcParams['font.weight']))
    for f in files:
        emit("  FILE %s: %s" % (os.path.basename(f), filedesc(f)))
    _real_close("all")


class FakeSeqParam(object):
    """records the order in which the getters are called"""
    log = []

    def __init__(self, name, fp, fn, hyd, mnc, broken=None):
        self.name, self.fp, self.fn, self.hyd, self.mnc, self.broken = name, fp, fn, hyd, mnc, broken

    def _get(self, what, val):
        FakeSeqParam.log.append(self.name + "." + what)
        if self.broken == what:
            raise RuntimeError("broken " + self.name + "." + what)
        return val

    def get_fraction_positive(self):
        return self._get("fp", self.fp)

    def get_fraction_negative(self):
        return self._get("fn", self.fn)

    def get_uversky_hydropathy(self):
        return self._get("hyd", self.hyd)

    def get_mean_net_charge(self):
        return self._get("mnc", self.mnc)


def main():
    tmp = tempfile.mkdtemp(prefix="equiv_")
    TMPDIR[0] = tmp
    try:
        run(tmp)
    except BaseException:
        import traceback
        emit("HARNESS FAILURE " + traceback.format_exc())
    finally:
        shutil.rmtree(tmp, ignore_errors=True)
    text = "\n".join(OUT)
    print(text)
    print("TOTAL-LINES", len(OUT))
    print("DIGEST", hashlib.sha1(text.encode()).hexdigest())


def run(tmp):
    def T(name):
        return os.path.join(tmp, name)

    # ------------------------------------------------------------------ #
    # phase plots / uversky plots, backend and API                        #
    # ------------------------------------------------------------------ #
    points = [(0.1, 0.2), (0.0, 0.0), (1, 1), (0.85, 0.95), (0.81, 0.2), (0.3, 0.91), ("0.25", "0.5"), (0.8, 0.9),
              (float('nan'), 0.2), (0.2, float('nan'))]
    bad_points = [(-0.1, 0.2), (0.2, 1.5), ("abc", 0.1), (0.1, "x"), (None, 0.2), (0.2, None), (1.0001, 0.1), (0.1, -1e-9),
                  ("abc", "def"), (2, 3), ([0.1], 0.2), (float('inf'), 0.1)]
    labels = ["", "lab", "a much longer label for the point"]

    for mod, modname in ((P, "P"), (PL, "PL")):
        for (a, b) in points + bad_points:
            for lab in labels:
                case("%s.show_single_phasePlot(%r,%r,%r)" % (modname, a, b, lab), mod.show_single_phasePlot, a, b, lab,
                     _verbose=(lab != ""))
                case("%s.show_single_phasePlot(%r,%r,%r,getFig)" % (modname, a, b, lab), mod.show_single_phasePlot, a, b,
                     label=lab, getFig=True, legendOn=False, title="T1", xLim=0.5, yLim=0.7, fontSize=14, _verbose=False)
                case("%s.show_single_uverskyPlot(%r,%r,%r)" % (modname, a, b, lab), mod.show_single_uverskyPlot, a, b, lab,
                     _verbose=(lab == "lab"))
                case("%s.show_single_uverskyPlot(%r,%r,%r,getFig)" % (modname, a, b, lab), mod.show_single_uverskyPlot, a, b,
                     lab, "UT", False, 0.6, 0.9, 7, True, _verbose=False)
        # truthy / falsy non-bool getFig and legendOn
        for gf in (0, 1, "", "yes", None, [], [0]):
            case("%s.show_single_phasePlot getFig=%r" % (modname, gf), mod.show_single_phasePlot, 0.3, 0.3, "q", getFig=gf, legendOn=gf, _verbose=False)
            case("%s.show_multiple_phasePlot getFig=%r" % (modname, gf), mod.show_multiple_phasePlot, [0.3], [0.3], ["q"], getFig=gf, legendOn=gf, _verbose=False)
            case("%s.show_single_uverskyPlot getFig=%r" % (modname, gf), mod.show_single_uverskyPlot, 0.3, 0.3, "q", getFig=gf, legendOn=gf, _verbose=False)
            case("%s.show_multiple_uverskyPlot getFig=%r" % (modname, gf), mod.show_multiple_uverskyPlot, [0.3], [0.3], ["q"], getFig=gf, legendOn=gf, _verbose=False)

        # save single
        for fmt in ("png", "pdf", "PNG", "nonsense", None):
            for (a, b) in [(0.1, 0.2), (-1, 0.2), ("zz", 0.1)]:
                f = T("single_%s_%s" % (modname, fmt))
                with open(f, "w") as fh:
                    fh.write("pre-existing")          # must be removed first
                case("%s.save_single_phasePlot(%r,%r,fmt=%r)" % (modname, a, b, fmt), mod.save_single_phasePlot, a, b, f, "L", "TT", True, 1, 1, 10, fmt, _files=[f], _verbose=False)
                with open(f, "w") as fh:
                    fh.write("pre-existing")
                case("%s.save_single_uverskyPlot(%r,%r,fmt=%r)" % (modname, a, b, fmt), mod.save_single_uverskyPlot, a, b, f, "L", "TT", False, 0.5, 2, 3, fmt, _files=[f], _verbose=False)
                if os.path.exists(f):
                    os.remove(f)
        # defaults of save single (backend default is pdf, API default is png)
        f = T("single_default_%s" % modname)
        case("%s.save_single_phasePlot default fmt" % modname, mod.save_single_phasePlot, 0.2, 0.3, f, _files=[f], _verbose=False)
        os.path.exists(f) and os.remove(f)
        case("%s.save_single_uverskyPlot default fmt" % modname, mod.save_single_uverskyPlot, 0.2, 0.3, f, _files=[f], _verbose=False)
        os.path.exists(f) and os.remove(f)
        case("%s.save_single_phasePlot bad dir" % modname, mod.save_single_phasePlot, 0.2, 0.3, T("nodir/x"), _verbose=False)

        # multiple
        lists = [
            ([0.1, 0.2, 0.3], [0.3, 0.2, 0.1], []),
            ([0.1, 0.2, 0.3], [0.3, 0.2, 0.1], ["a", "b", "c"]),
            ([0.1, 0.2, 0.3], [0.3, 0.2, 0.1], ["a", "b"]),
            ([0.1, 0.2, 0.3], [0.3, 0.2], []),
            ([0.1, 0.2], [0.3, 0.2, 0.5], ["a", "b"]),
            ([], [], []),
            ([], [], ["a"]),
            ([0.1], [0.2], [""]),
            ((0.1, 0.9), (0.2, 0.05), ("x", "y")),
            ([0.1, 1.2], [0.2, 0.1], []),
            ([0.1, "k"], [0.2, 0.1], []),
            (np.array([0.1, 0.4]), np.array([0.2, 0.1]), []),
            ([0.1, 0.4], [0.2, 0.1], "ab"),
        ]
        for (xs, ys, labs) in lists:
            tag = "(%s,%s,%s)" % (r(xs), r(ys), r(labs))
            labs_copy = list(labs) if isinstance(labs, list) else labs
            case("%s.show_multiple_phasePlot%s" % (modname, tag), mod.show_multiple_phasePlot, xs, ys, labs)
            emit("  labels-after=%s" % r(labs))
            assert labs == labs_copy or True
            case("%s.show_multiple_phasePlot%s getFig" % (modname, tag), mod.show_multiple_phasePlot, xs, ys, labs, "MT", False, 0.4, 0.5, 5, True, _verbose=False)
            case("%s.show_multiple_uverskyPlot%s" % (modname, tag), mod.show_multiple_uverskyPlot, xs, ys, labs)
            case("%s.show_multiple_uverskyPlot%s getFig" % (modname, tag), mod.show_multiple_uverskyPlot, xs, ys, labs, "MT", False, 0.4, 0.5, 5, True, _verbose=False)
            for fmt in (("png", "pdf", "bad") if len(xs) == 3 else ("png",)):
                f = T("multi_%s" % modname)
                case("%s.save_multiple_phasePlot%s fmt=%s" % (modname, tag, fmt), mod.save_multiple_phasePlot, xs, ys, f, labs, "MT", True, 1, 1, 10, fmt, _files=[f], _verbose=False)
                os.path.exists(f) and os.remove(f)
                case("%s.save_multiple_uverskyPlot%s fmt=%s" % (modname, tag, fmt), mod.save_multiple_uverskyPlot, xs, ys, f, labs, "MT", True, 1, 1, 10, fmt, _files=[f], _verbose=False)
                os.path.exists(f) and os.remove(f)
        # default-argument calls
        case("%s.show_multiple_phasePlot defaults" % modname, mod.show_multiple_phasePlot, [0.1, 0.2], [0.2, 0.3])
        case("%s.show_multiple_phasePlot defaults one point" % modname, mod.show_multiple_phasePlot, [0.1], [0.2])
        case("%s.show_multiple_uverskyPlot defaults" % modname, mod.show_multiple_uverskyPlot, [0.1, 0.2], [0.2, 0.3])
        f = T("multi_def_%s" % modname)
        case("%s.save_multiple_phasePlot defaults" % modname, mod.save_multiple_phasePlot, [0.1, 0.2], [0.2, 0.3], f, _files=[f], _verbose=False)
        os.path.exists(f) and os.remove(f)
        case("%s.save_multiple_uverskyPlot defaults" % modname, mod.save_multiple_uverskyPlot, [0.1, 0.2], [0.2, 0.3], f, _files=[f], _verbose=False)
        os.path.exists(f) and os.remove(f)
        # keyword calls using the public parameter names
        if mod is PL:
            case("PL.show_multiple_phasePlot kw", PL.show_multiple_phasePlot, fp_list=[0.1], fn_list=[0.2], label=["k"], title="kw", legendOn=False, xLim=2, yLim=3, fontSize=4, getFig=True)
            case("PL.save_multiple_phasePlot kw", PL.save_multiple_phasePlot, fp_list=[0.1], fn_list=[0.2], filename=f, label_list=["k"], title="kw", legendOn=False, xLim=2, yLim=3, fontSize=4, saveFormat='png', _files=[f])
            os.path.exists(f) and os.remove(f)
            case("PL.show_multiple_uverskyPlot kw", PL.show_multiple_uverskyPlot, hydropathy_list=[0.1], mean_net_charge_list=[0.2], label_list=["k"], title="kw", legendOn=False, xLim=2, yLim=3, fontSize=4, getFig=True)
            case("PL.save_multiple_uverskyPlot kw", PL.save_multiple_uverskyPlot, hydropathy_list=[0.1], mean_net_charge_list=[0.2], filename=f, label_list=["k"], title="kw", legendOn=False, xLim=2, yLim=3, fontSize=4, saveFormat='png', _files=[f])
            os.path.exists(f) and os.remove(f)
            case("PL.show_single_uverskyPlot kw", PL.show_single_uverskyPlot, hydropathy=0.4, mean_net_charge=0.1, label="k", title="kw", legendOn=False, xLim=2, yLim=3, fontSize=4, getFig=True)
            case("PL.save_single_uverskyPlot kw", PL.save_single_uverskyPlot, hydropathy=0.4, mean_net_charge=0.1, filename=f, label="k", title="kw", legendOn=False, xLim=2, yLim=3, fontSize=4, saveFormat='png', _files=[f])
            os.path.exists(f) and os.remove(f)
            case("PL.save_single_phasePlot kw", PL.save_single_phasePlot, fp=0.4, fn=0.1, filename=f, label="k", title="kw", legendOn=False, xLim=2, yLim=3, fontSize=4, saveFormat='png', _files=[f])
            os.path.exists(f) and os.remove(f)
            case("PL.show_single_phasePlot kw", PL.show_single_phasePlot, fp=0.4, fn=0.1, label="k", title="kw", legendOn=False, xLim=2, yLim=3, fontSize=4, getFig=True)

    # the *2 API functions taking SequenceParameter-like objects
    real = [SequenceParameters("MEEEKKKRRDDDSSGGAAPPQQNNLLVVIIFFWWYYHHCCMMTT"),
            SequenceParameters("KKKKKKKKKK"), SequenceParameters("GSGSGSGSEEEE")]
    fakes = [FakeSeqParam("s1", 0.1, 0.2, 0.4, 0.1), FakeSeqParam("s2", 0.3, 0.1, 0.5, 0.2), FakeSeqParam("s3", 0.5, 0.5, 0.6, 0.0)]
    broken1 = [FakeSeqParam("b1", 0.1, 0.2, 0.4, 0.1), FakeSeqParam("b2", 0.3, 0.1, 0.5, 0.2, broken="fn"), FakeSeqParam("b3", 0.5, 0.5, 0.6, 0.0, broken="fp")]
    broken2 = [FakeSeqParam("c1", 0.1, 0.2, 0.4, 0.1, broken="mnc"), FakeSeqParam("c2", 0.3, 0.1, 0.5, 0.2, broken="hyd")]
    outofrange = [FakeSeqParam("o1", 0.1, 0.2, 0.4, 0.1), FakeSeqParam("o2", 1.3, 0.1, 0.5, 0.2)]
    f = T("multi2")
    for nm, lst in (("real", real), ("fakes", fakes), ("broken1", broken1), ("broken2", broken2), ("outofrange", outofrange),
                    ("empty", []), ("gen", None), ("notseq", [1, 2]), ("tuple", tuple(fakes))):
        for labs in ([], ["a", "b", "c"], ["a"]):
            def mk():
                return (x for x in fakes) if lst is None else lst
            for fname, fn_ in (("show_multiple_phasePlot2", PL.show_multiple_phasePlot2), ("show_multiple_uverskyPlot2", PL.show_multiple_uverskyPlot2)):
                del FakeSeqParam.log[:]
                case("PL.%s(%s,%r)" % (fname, nm, labs), fn_, mk(), labs)
                emit("  getter-order=%s" % ",".join(FakeSeqParam.log))
                del FakeSeqParam.log[:]
                case("PL.%s(%s,%r) getFig" % (fname, nm, labs), fn_, mk(), labs, "T2", False, 0.9, 0.8, 6, True, _verbose=False)
                emit("  getter-order=%s" % ",".join(FakeSeqParam.log))
            for fname, fn_ in (("save_multiple_phasePlot2", PL.save_multiple_phasePlot2), ("save_multiple_uverskyPlot2", PL.save_multiple_uverskyPlot2)):
                for fmt in (("png", "pdf", "bad") if nm in ("fakes", "broken1") else ("pdf",)):
                    del FakeSeqParam.log[:]
                    case("PL.%s(%s,%r,%s)" % (fname, nm, labs, fmt), fn_, mk(), f, labs, "T2", True, 1, 1, 10, fmt, _files=[f], _verbose=False)
                    emit("  getter-order=%s" % ",".join(FakeSeqParam.log))
                    os.path.exists(f) and os.remove(f)
                case("PL.%s(%s,%r) kw" % (fname, nm, labs), fn_, SeqParam_list=mk(), filename=f, label_list=labs, title="kw2", legendOn=False, xLim=0.5, yLim=0.4, fontSize=3, saveFormat="png", _files=[f], _verbose=False)
                os.path.exists(f) and os.remove(f)
                case("PL.%s(%s,%r) defaults" % (fname, nm, labs), fn_, mk(), f, _files=[f], _verbose=False)
                os.path.exists(f) and os.remove(f)
    case("PL.show_multiple_phasePlot2 kw", PL.show_multiple_phasePlot2, SeqParam_list=fakes, label_list=["1", "2", "3"], title="kw2", legendOn=False, xLim=0.5, yLim=0.4, fontSize=3, getFig=True)
    case("PL.show_multiple_uverskyPlot2 kw", PL.show_multiple_uverskyPlot2, SeqParam_list=fakes, label_list=["1", "2", "3"], title="kw2", legendOn=False, xLim=0.5, yLim=0.4, fontSize=3, getFig=True)

    # ------------------------------------------------------------------ #
    # internal building blocks                                            #
    # ------------------------------------------------------------------ #
    for (x, y) in [(0.1, 0.1), (0.8, 0.9), (0.80001, 0.90001), (0.95, 0.99), ("0.5", "0.5"), (5, -3), ("a", 1), (None, 1), (float('nan'), float('nan'))]:
        for lab in ("", "Z", "longer label"):
            case("P.single_plot(%r,%r,%r)" % (x, y, lab), P.single_plot, x, y, lab, 8)
        case("P.single_plot(%r,%r) defaults" % (x, y), P.single_plot, x, y, _verbose=False)
    for lab in (None, 0, [], ["a"], ("t",)):
        case("P.single_plot odd label %r" % (lab,), P.single_plot, 0.9, 0.95, lab)
    for (xs, ys, labs) in [([0.1], [0.2], []), ([0.1, 0.2], [0.2], []), ([], [], []), ([0.1, 0.2], [0.2, 0.4], ["a", "b"]), ([0.1, 0.2], [0.2, 0.4], ["a"]),
                           ([0.1, 0.2], [0.2, 0.4], ()), ([0.1, 0.2], [0.2, 0.4], ""), ("ab", [0.2, 0.4], []), ([0.1, 0.2], [0.2, 0.4], None), (None, [0.1], []), ([0.1, 0.2], None, [])]:
        orig = labs
        case("P.multiple_plot(%s,%s,%s)" % (r(xs), r(ys), r(labs)), P.multiple_plot, xs, ys, labs, 9)
        emit("  labels-after=%s same-object-unchanged=%s" % (r(labs), labs is orig))
    for (a, b) in points + bad_points:
        case("P.phaseplot_validate(%r,%r)" % (a, b), P.phaseplot_validate, a, b, _verbose=False)
    for args in [(True, "t", 1, 1), (False, "", 0.5, 2), (0, None, 0, 0), ("x", "y", -1, 3), (True, "t", None, None), (True, "t", "a", 1)]:
        case("P.finalize_DasPappu%r" % (args,), P.finalize_DasPappu, plt, *args)
        case("P.finalize_uversky%r" % (args,), P.finalize_uversky, plt, *args)
    case("P.finalize_DasPappu(None)", P.finalize_DasPappu, None, True, "t", 1, 1)
    case("P.finalize_uversky(None)", P.finalize_uversky, None, True, "t", 1, 1)

    gbw = getattr(P, "__get_bar_edge_width")
    for n in list(range(-3, 4)) + [50, 108, 109, 110, 111, 150, 219, 220, 221, 222, 300, 440, 1000, 109.5, 110.0, 220.0, 219.9, 220.5, float('nan'), float('inf'), -float('inf'), True, np.int64(110), np.int64(230), np.float64(220)]:
        try:
            v = gbw(n)
            emit("bar_edge_width(%r) -> %s %s" % (n, type(v).__name__, repr(v)))
        except Exception as e:
            emit("bar_edge_width(%r) EXC %s %s" % (n, type(e).__name__, e))
    try:
        emit("bar_edge_width('a') -> %r" % (gbw("a"),))
    except Exception as e:
        emit("bar_edge_width('a') EXC %s %s" % (type(e).__name__, e))

    # ------------------------------------------------------------------ #
    # linear plots                                                        #
    # ------------------------------------------------------------------ #
    rng = np.random.RandomState(7)
    aas = "ACDEFGHIKLMNPQRSTVWY"
    seqs = {
        "short": "MEEKKRDDSG",
        "s40": "MEEEKKKRRDDDSSGGAAPPQQNNLLVVIIFFWWYYHHCC",
        "neutral109": "G" * 109,
        "mixed110": "".join(aas[i] for i in rng.randint(0, 20, 110)),
        "mixed150": "".join(aas[i] for i in rng.randint(0, 20, 150)),
        "mixed219": "".join(aas[i] for i in rng.randint(0, 20, 219)),
        "mixed220": "".join(aas[i] for i in rng.randint(0, 20, 220)),
        "blocky230": ("G" * 30 + "E" * 10 + "S" * 25 + "K" * 12) * 3,
        "mixed300": "".join(aas[i] for i in rng.randint(0, 20, 300)),
        "neg": "EEEEEDDDDDEEEEE",
    }
    builders = [("NCPR", P.build_NCPR_plot, P.show_linearNCPR, P.save_linearNCPR),
                ("FCR", P.build_FCR_plot, P.show_linearFCR, P.save_linearFCR),
                ("Sigma", P.build_sigma_plot, P.show_linearSigma, P.save_linearSigma),
                ("Hydropathy", P.build_hydropathy_plot, P.show_linearHydropathy, P.save_linearHydropathy)]
    f = T("linear")
    for sname in sorted(seqs):
        spobj = SequenceParameters(seqs[sname])
        so = spobj.SeqObj
        for blob in (1, 2, 5, 10, 5.0, len(seqs[sname]), len(seqs[sname]) + 1, 0, -1, "5", None):
            full = sname in ("short", "blocky230", "mixed220") and blob in (5, 10)
            for bname, build, show, save in builders:
                tag = "%s(%s,blob=%r)" % (bname, sname, blob)
                case("P.build_" + tag, build, so, blob, _verbose=full)
                if blob in (5, len(seqs[sname]) + 1) and sname in ("short", "mixed220", "neutral109"):
                    for gf in (False, True, 0, 1, None, "x"):
                        case("P.show_linear%s getFig=%r" % (tag, gf), show, so, blob, gf, _verbose=False)
                        case("P.show_linearplot %s getFig=%r" % (tag, gf), P.show_linearplot, build, so, blob, gf, _verbose=False)
                    case("P.show_linear%s default" % tag, show, so, blob, _verbose=False)
                    case("P.show_linearplot %s default" % tag, P.show_linearplot, build, so, blob, _verbose=False)
                    for fmt in ("png", "pdf", "bad"):
                        case("P.save_linear%s fmt=%s" % (tag, fmt), save, so, blob, f, fmt, _files=[f], _verbose=False)
                        os.path.exists(f) and os.remove(f)
                        case("P.save_linearplot %s fmt=%s" % (tag, fmt), P.save_linearplot, build, so, blob, f, fmt, _files=[f], _verbose=False)
                        os.path.exists(f) and os.remove(f)
                    case("P.save_linear%s default" % tag, save, so, blob, f, _files=[f], _verbose=False)
                    os.path.exists(f) and os.remove(f)
                    case("P.save_linearplot %s default" % tag, P.save_linearplot, build, so, blob, f, _files=[f], _verbose=False)
                    os.path.exists(f) and os.remove(f)
        # through the public SequenceParameters API as well
        for blob in ((5, 9) if sname in ("s40", "blocky230") else ()):
            for meth in ("show_linearNCPR", "show_linearFCR", "show_linearSigma", "show_linearHydropathy"):
                case("SP.%s(%s,%d)" % (meth, sname, blob), getattr(spobj, meth), blob, _verbose=False)
                case("SP.%s(%s,%d) getFig" % (meth, sname, blob), getattr(spobj, meth), blob, True, _verbose=False)
            for meth in ("save_linearNCPR", "save_linearFCR", "save_linearSigma", "save_linearHydropathy"):
                case("SP.%s(%s,%d)" % (meth, sname, blob), getattr(spobj, meth), f, blob, _files=[f, f + ".png"], _verbose=False)
                for ff in (f, f + ".png"):
                    os.path.exists(ff) and os.remove(ff)
    # non-sequence objects
    for bad in ("ABC", None, 5, object()):
        for bname, build, show, save in builders:
            case("P.build_%s(bad %s)" % (bname, type(bad).__name__), build, bad, 5, _verbose=False)
            case("P.show_linear%s(bad %s)" % (bname, type(bad).__name__), show, bad, 5, True, _verbose=False)
            case("P.save_linear%s(bad %s)" % (bname, type(bad).__name__), save, bad, 5, f, _verbose=False)
    case("P.show_linearplot bad builder", P.show_linearplot, None, None, 5, _verbose=False)
    case("P.save_linearplot bad builder", P.save_linearplot, None, None, 5, f, _verbose=False)

    # __build_linear_plot directly with hand-made data (incl. zero values with LW==0)
    blp = getattr(P, "__build_linear_plot")
    datasets = {
        "tiny": np.vstack((np.arange(1, 6), [0.5, -0.5, 0, 0.25, -0.0])),
        "one": np.vstack(([1], [0.3])),
        "empty": np.vstack((np.array([]), np.array([]))),
        "n230": np.vstack((np.arange(1, 231), np.where(np.arange(230) % 7 == 0, 0, np.sin(np.arange(230))))),
        "n180": np.vstack((np.arange(1, 181), np.where(np.arange(180) % 5 == 0, 0, np.cos(np.arange(180))))),
        "nan": np.vstack((np.arange(1, 4), [float('nan'), 0.1, -0.1])),
        "list": [[1, 2, 3], [0.1, 0.2, 0.3]],
    }
    for dname in sorted(datasets):
        d = datasets[dname]
        for pn in (False, True, 0, 1):
            case("blp(%s,pn=%r)" % (dname, pn), blp, d, title="t", ylabel="yl", ylimits=[-1, 1], setPositiveNegativeBars=pn, _verbose=(dname in ("tiny", "n230", "nan", "empty")))
        case("blp(%s) defaults" % dname, blp, d, _verbose=False)
        case("blp(%s) positional" % dname, blp, d, "tt", "xx", "yy", [0, 2], [0.1], True, _verbose=False)

    # complexity plots
    for n in (5, 60, 115, 230):
        cv = np.vstack((np.arange(1, n + 1), np.abs(np.sin(np.arange(n)))))
        for ct in ("WF", "LC", "LZW", "XX", None):
            case("P.show_linearComplexity(n=%d,%r)" % (n, ct), P.show_linearComplexity, cv, ct, n, _verbose=(n == 5))
            case("P.show_linearComplexity(n=%d,%r) getFig" % (n, ct), P.show_linearComplexity, cv, ct, n + 3, True, _verbose=False)
            for fmt in (("png", "pdf", "bad") if n == 115 else ("png",)):
                case("P.save_linearComplexity(n=%d,%r,%s)" % (n, ct, fmt), P.save_linearComplexity, cv, ct, n, f, fmt, _files=[f], _verbose=False)
                os.path.exists(f) and os.remove(f)
            case("P.save_linearComplexity(n=%d,%r) default" % (n, ct), P.save_linearComplexity, cv, ct, n, f, _files=[f], _verbose=False)
            os.path.exists(f) and os.remove(f)
    case("P.show_linearComplexity bad vector", P.show_linearComplexity, [[1, 2], [3, 4]], "WF", 2, _verbose=False)
    sp = SequenceParameters(seqs["mixed150"])
    for ct in ("WF", "LC", "LZW"):
        case("SP.show_linearComplexity %s" % ct, sp.show_linearComplexity, ct, _verbose=False)
        case("SP.save_linearComplexity %s" % ct, sp.save_linearComplexity, f, ct, _files=[f, f + ".png"], _verbose=False)
        for ff in (f, f + ".png"):
            os.path.exists(ff) and os.remove(ff)

    # ------------------------------------------------------------------ #
    # local composition plot (mutable default argument is part of state)  #
    # ------------------------------------------------------------------ #
    def lcp_defaults():
        return r(list(P.save_local_composition_plot.__defaults__[2]))

    emit("lcp defaults before: " + lcp_defaults())
    for n in (40, 249, 250):
        res = np.arange(1, n + 1)
        for ng in ((2, 3, 1) if n != 249 else (2,)):
            dens = np.abs(np.vstack([np.sin(res / (3.0 + g)) * (0.2 + 0.1 * g) for g in range(ng)]))
            cols = ["r", "g", "b"][:ng]
            names = ["g0", "g1", "g2"][:ng]
            for kw in ({}, {"max_val": 0.5}, {"max_val": 2}, {"max_val": -3}, {"max_val": 0}, {"max_val": 1},
                       {"line_thickness": [1.0, 2.0, 3.0]}, {"line_thickness": [1.0]}, {"line_thickness": []},
                       {"title": "A title", "plot_data": True}, {"saveFormat": "pdf"}, {"saveFormat": "bad"}):
                kw = dict(kw)
                lt = kw.get("line_thickness")
                case("P.save_local_composition_plot(n=%d,ng=%d,%s)" % (n, ng, r(kw)), P.save_local_composition_plot, res, dens, cols, names, f, _files=[f], _verbose=False, **kw)
                emit("  lt-after=%s defaults-after=%s" % (r(lt), lcp_defaults()))
                os.path.exists(f) and os.remove(f)
            case("lcp mismatch names", P.save_local_composition_plot, res, dens, cols, names + ["x"], f, _verbose=False)
            case("lcp mismatch colors", P.save_local_composition_plot, res, dens, cols + ["k"], names, f, _verbose=False)
            case("lcp mismatch both", P.save_local_composition_plot, res, dens, cols + ["k"], names + ["x"], f, _verbose=False)
    case("lcp 1-d density", P.save_local_composition_plot, np.arange(1, 11), np.arange(10) / 10.0, ["r"], ["a"], f, _verbose=False)
    case("lcp too few residues", P.save_local_composition_plot, np.arange(1, 3), np.array([[0.1, 0.2]]), ["r"], ["a"], f, _verbose=False)
    case("lcp list density", P.save_local_composition_plot, [1, 2, 3], [[0.1, 0.2, 0.3]], ["r"], ["a"], f, _verbose=False)
    emit("lcp defaults end: " + lcp_defaults())
    sp = SequenceParameters(seqs["mixed300"])
    for kw in ({}, {"plot_data": True, "title": "x"}, {"line_thickness": [1, 2, 3, 4]}, {"line_thickness": [1, 2, 3, 4, 5, 6, 7]}):
        case("SP.save_linearComposition %s" % r(kw), sp.save_linearComposition, f, **kw)
        for ff in (f, f + ".png"):
            os.path.exists(ff) and os.remove(ff)
    emit("lcp defaults end2: " + lcp_defaults())

    # module surface
    emit("P names: " + ",".join(sorted(n for n in dir(P) if not n.startswith("_") and callable(getattr(P, n)) and getattr(getattr(P, n), "__module__", None) == P.__name__)))
    emit("PL names: " + ",".join(sorted(n for n in dir(PL) if not n.startswith("_") and callable(getattr(PL, n)))))
    import inspect
    for mod in (P, PL):
        for n in sorted(dir(mod)):
            o = getattr(mod, n)
            if inspect.isfunction(o) and o.__module__ == mod.__name__ and (not n.startswith("_") or n.startswith("__")):
                emit("SIG %s.%s%s" % (mod.__name__, n, inspect.signature(o)))


if __name__ == "__main__":
    main()
