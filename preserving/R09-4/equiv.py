"""
Differential script for R4 (ResTable lookups flattened to early returns /
keyword arguments, and the three SequenceComplexity.get_*_complexity wrappers
merged onto one private helper).  Run once
with cwd=/tmp/seed/R09 (changed) and once with cwd=/repo (unchanged); the
printed output must be identical.
"""
import os
import sys
sys.path.insert(0, os.getcwd())

import collections
import contextlib
import copy
import hashlib
import io
import random

import numpy as np

import localcider.backend.backendtools as _bt
_bt.HUSH_ALL = False

from localcider.backend.sequenceComplexity import SequenceComplexity
from localcider.backend.data import aminoacids
from localcider.backend.restable import ResTable
from localcider.sequenceParameters import SequenceParameters

results = []


def canon(x):
    if isinstance(x, np.ndarray):
        return ('ndarray', str(x.dtype), x.shape, canon(x.tolist()))
    if isinstance(x, (list, tuple)):
        return (type(x).__name__, [canon(i) for i in x])
    if isinstance(x, dict):
        # keep the insertion order: it is observable
        return (type(x).__name__, [(canon(k), canon(v)) for k, v in x.items()])
    if isinstance(x, (float, np.floating)):
        return (type(x).__name__, repr(float(x)))
    return (type(x).__name__, repr(x))


def run(label, fn, *args, **kwargs):
    buf = io.StringIO()
    with contextlib.redirect_stdout(buf):
        try:
            out = ('OK', canon(fn(*args, **kwargs)))
        except BaseException as e:  # noqa
            out = ('EXC', type(e).__name__, str(e))
    results.append((label, out, buf.getvalue()))


random.seed(4321)
AAS = "ACDEFGHIKLMNPQRSTVWY"
SEQS = ["", "A", "AC", "AAAAAAAAAAAA", "ACDEFGHIKLMNPQRSTVWY", "ACDEFGHIKLMNPQRSTVWY" * 3,
        "EKEKEKEKEKEKEKEKEKEKEKEK", "GSGSGSGSGSPPPPPPGSGSQQQQQNNNNKKKKRRRDDDEEE",
        "MDVFMKGLSKAKEGVVAAAEKTKQGVAEAAGKTKEGVLYVGSKTKEGVVHGVATVAEKTKEQVTNVGGAVVTGVTAVAQKTVEGAGSIAAATGFVKKDQLGKNEEGAPQEGILEDMPVDPDNEAYEMPSEEGYQDYEPEA",
        "ACDXZ", "acdef", "AC DE", "A*"]
for n in (5, 13, 31, 60):
    SEQS.append("".join(random.choice(AAS) for _ in range(n)))
    SEQS.append("".join(random.choice("EKG") for _ in range(n)))
LIST_SEQS = [list("ACDEFGHIKLMNPQRSTVWY"), ["A", "", "CD", "E", "H", "K"], [], ["A", 1, "C"], tuple("GSGSEKEK")]

SC = SequenceComplexity()


from localcider.backend.residue import Residue
from localcider.backend import sequence as backend_sequence

two_state = {a: ('E' if a in 'EDKR' else 'G') for a in AAS}
rev = {a: b for a, b in zip(AAS, reversed(AAS))}
missing = {a: a for a in AAS[:-1]}

# ---------------------------------------------------------------- ResTable
RT = ResTable()


def dump_table(rt):
    out = []
    for code3, res in rt.residue_table.items():
        out.append((code3, type(res).__name__, sorted(vars(res).items(), key=lambda kv: kv[0])))
    return out


run("restable-dump", dump_table, RT)
run("restable-dump-shared", dump_table, backend_sequence.lkupTab)
run("restable-attrs", lambda: sorted(vars(RT).keys()))

CODES = list(AAS) + [c for c in aminoacids.THREE_TO_ONE] + \
    ["", "a", "ala", "Ala", "X", "B", "Z", "*", "+", "-", "0", "1", " ", "AL", "ALAA", "XXX", "XYZ", "A A", "++", "+-0",
     "é", "ААА",  # cyrillic
     None, 0, 1, -1, 1.0, True, ["A"], ["ALA"], ["A", "L", "A"], ("A",), ("ALA",), ("+",), ["+"], [], (), {},
     {"A": 1}, {"ALA"}, {"A"}, b"A", b"ALA", b"+", np.str_("A"), np.str_("ALA"), np.array(["A"]), np.array(["ALA"]),
     np.array(["A", "L", "A"]), np.array("+"), np.array(["+"]), np.array(["+", "-"]), frozenset(["A"]), range(1), range(3)]
MODES = ['hilser', 'creamer', 'kallenbach', 'Hilser', 'CREAMER', 'KallenBach', '', 'other', ' hilser', None, 1,
         ['hilser'], b'hilser']
for ci, code in enumerate(CODES):
    run(("lookForRes", ci), lambda c=code: vars(RT.lookForRes(c)))
    run(("lookForRes-identity", ci), lambda c=code: RT.lookForRes(c) is RT.lookForRes(c))
    run(("hydropathy", ci), RT.lookUpHydropathy, code)
    run(("charge", ci), RT.lookUpCharge, code)
    run(("ppii-default", ci), RT.lookUpPPII, code)
    for mi, mode in enumerate(MODES):
        run(("ppii", ci, mi), RT.lookUpPPII, code, mode)
        run(("ppii-kw", ci, mi), RT.lookUpPPII, resCode=code, mode=mode)
run("lookForRes-kw", lambda: vars(RT.lookForRes(resCode="GLY")))
run("charge-kw", RT.lookUpCharge, resCode="K")
run("hydropathy-kw", RT.lookUpHydropathy, resCode="TRP")


class StrSub(str):
    pass


class Weird:
    """object whose len() and == are observable"""
    def __init__(self, n):
        self.n = n
        self.log = []

    def __len__(self):
        self.log.append('len')
        return self.n

    def __eq__(self, other):
        self.log.append(('eq', other))
        return False

    def __hash__(self):
        self.log.append('hash')
        return 1

    def __str__(self):
        return "weird%i" % self.n


for n in (0, 1, 2, 3, 4):
    for meth in (RT.lookForRes, RT.lookUpCharge, RT.lookUpHydropathy, RT.lookUpPPII):
        w = Weird(n)
        run(("weird", n, meth.__name__), meth, w)
        # number/order of == comparisons is kept; len() may be called fewer times
        results.append(("weird-eqs", n, meth.__name__, [repr(e) for e in w.log if e != 'len']))
run("strsub", lambda: [vars(RT.lookForRes(StrSub("A"))), RT.lookUpCharge(StrSub("+")), RT.lookUpCharge(StrSub("ASP"))])

# a second table is independent and a table can be mutated by the user
rt2 = ResTable()
run("independent", lambda: rt2.residue_table is not RT.residue_table and rt2.residue_table['ALA'] is not RT.residue_table['ALA'])
del rt2.residue_table['ALA']
for code in ("A", "ALA", "C"):
    run(("deleted", code), rt2.lookUpHydropathy, code)
    run(("deleted-charge", code), rt2.lookUpCharge, code)
rt2.residue_table['GLY'].charge = 5
rt2.residue_table['GLY'].PPII = {'hilser': 9}
run("mutated-charge", rt2.lookUpCharge, "G")
run("mutated-ppii", rt2.lookUpPPII, "G")
run("mutated-ppii-creamer", rt2.lookUpPPII, "G", "creamer")

run("Residue-positional", lambda: vars(Residue("n", "L3", "L1", 1.5, -1, 0.1, 0.2, 0.3)))
run("Residue-sig", lambda: Residue.__init__.__code__.co_varnames[:Residue.__init__.__code__.co_argcount])

# ---------------------------------------------------------------- get_*_complexity wrappers
USER = [{}, two_state, rev, missing, None, [("A", "A")], "AC"]
PARAMS = [(10, 1, 3), (5, 2, 2), (3, 1, 3), (3, 1, 5), (50, 1, 3), (1, 1, 1), (4, 3, 1), (0, 1, 1), (2, 7, 2),
          (-1, 1, 1), (5, 0.5, 2), (5.0, 1, 2), ("5", 1, 2), (5, None, 2), (5, 1, None), (None, 1, 2)]
SIZES = [20, 18, 12, 8, 5, 3, 2, 9, "6", "x", None, 4.9]
for s in SEQS + LIST_SEQS:
    for size in SIZES:
        for ui, ua in enumerate(USER if size in (20, 9, "x") else USER[:2]):
            for (w, st, wd) in PARAMS if len(s) < 40 else PARAMS[:6]:
                lab = (repr(s), repr(size), ui, repr(w), repr(st), repr(wd))
                run(("get_WF",) + lab, SC.get_WF_complexity, s, size, ua, w, st)
                run(("get_LZW",) + lab, SC.get_LZW_complexity, s, size, ua, w, st)
                run(("get_LC",) + lab, SC.get_LC_complexity, s, size, ua, w, st, wd)
    run(("get_WF-default", repr(s)), SC.get_WF_complexity, s)
    run(("get_LZW-default", repr(s)), SC.get_LZW_complexity, s)
    run(("get_LC-default", repr(s)), SC.get_LC_complexity, s)
    run(("get_WF-kw", repr(s)), SC.get_WF_complexity, sequence=s, stepSize=2, windowSize=6, userAlphabet=two_state, alphabetSize=3)
    run(("get_LZW-kw", repr(s)), SC.get_LZW_complexity, sequence=s, stepSize=2, windowSize=6, userAlphabet={}, alphabetSize=3)
    run(("get_LC-kw", repr(s)), SC.get_LC_complexity, sequence=s, wordSize=2, stepSize=2, windowSize=6, alphabetSize=11)
    run(("get_LC-partial", repr(s)), SC.get_LC_complexity, s, 20, {}, 7)

# wrong call signatures must still be rejected
run("get_WF-toomany", SC.get_WF_complexity, "ACDEFGHIKLMN", 20, {}, 5, 1, 3)
run("get_LZW-toomany", SC.get_LZW_complexity, "ACDEFGHIKLMN", 20, {}, 5, 1, 3)
run("get_LC-toomany", SC.get_LC_complexity, "ACDEFGHIKLMN", 20, {}, 5, 1, 3, 4)
run("get_WF-badkw", SC.get_WF_complexity, "ACDEFGHIKLMN", wordSize=3)
run("get_WF-noseq", SC.get_WF_complexity)
for name in ("get_WF_complexity", "get_LC_complexity", "get_LZW_complexity"):
    f = getattr(SequenceComplexity, name)
    run(("signature", name), lambda f=f: (f.__code__.co_varnames[:f.__code__.co_argcount], f.__defaults__))

# the mutable default userAlphabet must stay empty / untouched
run("defaults-after", lambda: [SequenceComplexity.get_WF_complexity.__defaults__,
                               SequenceComplexity.get_LC_complexity.__defaults__,
                               SequenceComplexity.get_LZW_complexity.__defaults__,
                               SequenceComplexity.reduce_alphabet.__defaults__])
run("stateless", lambda: vars(SC))


# subclass overriding the kernels / reduce_alphabet is still honoured by the wrappers
class Sub(SequenceComplexity):
    def __init__(self):
        SequenceComplexity.__init__(self)
        self.calls = []

    def reduce_alphabet(self, sequence, alphabetSize=20, userAlphabet={}):
        self.calls.append(('reduce', sequence, alphabetSize, userAlphabet))
        return SequenceComplexity.reduce_alphabet(self, sequence, alphabetSize, userAlphabet)

    def CWF(self, sequence, alphabet, windowSize, stepSize):
        self.calls.append(('CWF', sequence, alphabet, windowSize, stepSize))
        return SequenceComplexity.CWF(self, sequence, alphabet, windowSize, stepSize)

    def LC(self, sequence, alphabet, windowSize, stepSize, wordSize):
        self.calls.append(('LC', sequence, alphabet, windowSize, stepSize, wordSize))
        return SequenceComplexity.LC(self, sequence, alphabet, windowSize, stepSize, wordSize)

    def LZW(self, sequence, alphabet, windowSize, stepSize):
        self.calls.append(('LZW', sequence, alphabet, windowSize, stepSize))
        return SequenceComplexity.LZW(self, sequence, alphabet, windowSize, stepSize)

    def get_indexed_complexity_vector(self, complexity_vector, seq_len):
        self.calls.append(('index', list(complexity_vector), seq_len))
        return SequenceComplexity.get_indexed_complexity_vector(self, complexity_vector, seq_len)


sub = Sub()
for s in SEQS[:9]:
    run(("sub-WF", s), sub.get_WF_complexity, s, 5, {}, 4, 2)
    run(("sub-LC", s), sub.get_LC_complexity, s, 8, {}, 6, 1, 2)
    run(("sub-LZW", s), sub.get_LZW_complexity, s, userAlphabet=two_state)
results.append(("sub-calls", canon(sub.calls)))

# ---------------------------------------------------------------- front end
for s in SEQS:
    def front(s=s):
        sp = SequenceParameters(s)
        out = []
        for ctype in ("LC", "WF", "LZW"):
            out.append(sp.get_linear_complexity(complexityType=ctype, alphabetSize=8, blobLen=6, wordSize=2))
            out.append(sp.get_linear_complexity(complexityType=ctype, userAlphabet=two_state))
            out.append(sp.get_linear_complexity(complexityType=ctype))
            out.append(sp.get_linear_complexity(complexityType=ctype, blobLen=3, stepSize=4))
        out += [sp.get_mean_hydropathy(), sp.get_uversky_hydropathy(), sp.get_NCPR(), sp.get_FCR(),
                sp.get_mean_net_charge(), sp.get_PPII_propensity(), sp.get_PPII_propensity(mode='creamer'),
                sp.get_kappa(), sp.get_countPos(), sp.get_countNeg(), sp.get_linear_NCPR(blobLen=3),
                sp.get_linear_hydropathy(blobLen=3), sp.get_isoelectric_point()]
        return out
    run(("frontend", s), front)

digest = hashlib.sha256(repr(results).encode("utf-8")).hexdigest()
n_exc = sum(1 for r in results if len(r) == 3 and isinstance(r[1], tuple) and r[1][0] == 'EXC')
print("cases=%i exceptions=%i" % (len(results), n_exc))
print("digest=" + digest)
