"""
Differential script for the plotting refactorings.

Run once with cwd=/tmp/seed/R20 (changed tree) and once with cwd=/repo
(unchanged tree); the printed output must be identical.

Figures are compared by CONTENT (axes limits, titles, labels, patches and
their vertices / colours / line widths, scatter offsets, annotation texts,
lines, legend entries), never by pixels.
"""
import os
import sys

sys.dont_write_bytecode = True
sys.path.insert(0, os.getcwd())

import contextlib
import hashlib
import io
import logging
import shutil
import tempfile
import warnings

import matplotlib
matplotlib.use('Agg')
warnings.filterwarnings('ignore')
logging.getLogger('matplotlib').setLevel(logging.CRITICAL)
logging.getLogger('matplotlib.font_manager').setLevel(logging.CRITICAL)

import numpy as np
import matplotlib.pyplot as plt
from matplotlib.patches import Rectangle, Polygon

import localcider
from localcider import plots
from localcider.backend import plotting
from localcider.sequenceParameters import SequenceParameters
from localcider.backend.sequence import Sequence

assert os.path.abspath(localcider.__file__).startswith(os.path.abspath(os.getcwd())), localcider.__file__

TMP = tempfile.mkdtemp(prefix='equivR20_')
LINES = []
SUMMARY = []


# ---------------------------------------------------------------- helpers
def num(x):
    try:
        x = float(x)
    except Exception:
        return repr(x)
    if x != x:
        return 'nan'
    return '%.10g' % x


def nums(seq):
    return '[' + ','.join(num(v) for v in np.asarray(seq, dtype=float).ravel()) + ']'


def col(c):
    # colours compared by VALUE (an rgba 4-tuple)
    try:
        return nums(matplotlib.colors.to_rgba(c))
    except Exception:
        return repr(c)


def fontdesc(fp):
    return '(%s|%s|%s|%s|%s)' % (fp.get_family(), fp.get_style(), fp.get_weight(),
                                 num(fp.get_size_in_points()), fp.get_variant())


def describe_axes(ax):
    out = []
    out.append('xlim=' + nums(ax.get_xlim()) + ' ylim=' + nums(ax.get_ylim()))
    out.append('title=%r %s' % (ax.get_title(), fontdesc(ax.title.get_fontproperties())))
    out.append('lefttitle=%r' % (ax.get_title(loc='left'),))
    out.append('xlabel=%r %s' % (ax.get_xlabel(), fontdesc(ax.xaxis.label.get_fontproperties())))
    out.append('ylabel=%r %s' % (ax.get_ylabel(), fontdesc(ax.yaxis.label.get_fontproperties())))
    out.append('pos=' + nums(ax.get_position().bounds))
    out.append('npatches=%d' % len(ax.patches))
    for p in ax.patches:
        if isinstance(p, Rectangle):
            geo = 'R' + nums([p.get_x(), p.get_y(), p.get_width(), p.get_height()])
        elif isinstance(p, Polygon):
            geo = 'P' + nums(p.get_xy())
        else:
            geo = type(p).__name__ + nums(p.get_path().vertices)
        out.append(' patch %s fc=%s ec=%s lw=%s a=%r z=%s' % (
            geo, col(p.get_facecolor()), col(p.get_edgecolor()), num(p.get_linewidth()),
            p.get_alpha(), num(p.get_zorder())))
    out.append('ncollections=%d' % len(ax.collections))
    for c in ax.collections:
        out.append(' coll off=%s sizes=%s fc=%s z=%s' % (
            nums(np.ma.filled(c.get_offsets(), np.nan)), nums(c.get_sizes()),
            nums(c.get_facecolors()), num(c.get_zorder())))
    out.append('ntexts=%d' % len(ax.texts))
    for t in ax.texts:
        xy = getattr(t, 'xy', t.get_position())
        out.append(' text %r xy=%s pos=%s fs=%s' % (t.get_text(), nums(xy), nums(t.get_position()),
                                                   num(t.get_fontsize())))
    out.append('nlines=%d' % len(ax.lines))
    for l in ax.lines:
        out.append(' line x=%s y=%s c=%s lw=%s ls=%s label=%r' % (
            nums(l.get_xdata()), nums(l.get_ydata()), col(l.get_color()),
            num(l.get_linewidth()), l.get_linestyle(), l.get_label()))
    leg = ax.get_legend()
    if leg is None:
        out.append('legend=None')
    else:
        out.append('legend=%r prop=%s' % ([t.get_text() for t in leg.get_texts()], fontdesc(leg.prop)))
        handles = getattr(leg, 'legend_handles', None)
        if handles is None:
            handles = leg.legendHandles
        for h in handles:
            fc = h.get_facecolor() if hasattr(h, 'get_facecolor') else h.get_color()
            out.append(' lh %s %s' % (type(h).__name__, col(fc)))
    return out


def describe_state():
    """Describe every open figure, then close them all."""
    out = ['fignums=%r' % (plt.get_fignums(),)]
    for n in plt.get_fignums():
        fig = plt.figure(n)
        out.append('fig %d size=%s naxes=%d' % (n, nums(fig.get_size_inches()), len(fig.axes)))
        for ax in fig.axes:
            out.extend(describe_axes(ax))
    out.append('rc font=%r/%r/%s' % (matplotlib.rcParams['font.family'],
                                     matplotlib.rcParams['font.weight'],
                                     num(matplotlib.rcParams['font.size'])))
    plt.close('all')
    return out


def filedesc(path):
    if not os.path.exists(path):
        return 'nofile'
    with open(path, 'rb') as fh:
        head = fh.read(4)
    return 'file(%r,nonempty=%s)' % (head, os.path.getsize(path) > 0)


def retdesc(r):
    if r is None:
        return 'None'
    if r is plt:
        return '<pyplot>'
    if isinstance(r, np.ndarray):
        return 'nd' + str(r.shape) + nums(r)
    return repr(r)


def case(name, fn, *args, **kwargs):
    """Run fn, record return value / exception / stdout / resulting figures."""
    files = kwargs.pop('_files', [])
    buf = io.StringIO()
    rec = []
    try:
        with contextlib.redirect_stdout(buf):
            r = fn(*args, **kwargs)
        rec.append('ret=' + retdesc(r))
    except BaseException as e:  # noqa
        rec.append('exc=%s:%s' % (type(e).__name__, e))
    rec.append('stdout=%r' % buf.getvalue())
    rec.extend(describe_state())
    for f in files:
        rec.append(os.path.basename(f) + '=' + filedesc(f))
    text = '\n'.join(rec).replace(TMP, '<TMP>')
    rec[0] = rec[0].replace(TMP, '<TMP>')
    h = hashlib.sha256(text.encode()).hexdigest()[:16]
    first = rec[0] if len(rec[0]) < 150 else rec[0][:150] + '...'
    SUMMARY.append('%-58s %s %s' % (name, h, first))
    LINES.append('### ' + name)
    LINES.append(text)


def tmp(name):
    return os.path.join(TMP, name)


# ---------------------------------------------------------------- inputs
SEQS = {
    'mixed': 'MKKEEDDRRKKSTSTGGGPPPLLLIVVEEDKRKRKAAAAWWFYHCNQ',
    'short': 'KE',
    'one': 'K',
    'neutral': 'GSGSGSGSQQNNAAPPLLGS',
    'allpos': 'KKKKKRRRRRKKKKK',
    'allneg': 'EEEEEDDDDDEEEEE',
    'lower': 'mkkeeddrrkkstst',
    'mid150': ('GSEEKK' * 30)[:150],
    'len219': ('GGSEKGGGDR' * 30)[:219],
    'len220': ('GGSEKGGGDR' * 30)[:220],
    'len221': ('GGGGGGGGGGGGSEKGGGDRGGGGGGGGGGG' * 30)[:221],
    'len300': ('GGGGGGGGGGEEEEGGGGGGGGGKKKKGGGGGGGGG' * 30)[:300],
    'len500neutral': 'GS' * 250,
}
SP = {}
for k, v in SEQS.items():
    SP[k] = SequenceParameters(v)

# ---------------------------------------------------------------- phaseplot_validate
VALS = [0, 1, 0.0, 1.0, 0.5, -0.0, -0.1, 1.1, 1.0000001, -1e-300, float('nan'), float('inf'),
        float('-inf'), '0.5', ' 0.25 ', 'abc', '', '2', True, False, None, [0.5], (0.1,),
        np.float64(0.3), np.float64(1.5), np.float32(0.25), np.int64(1), np.int64(2),
        np.array(0.5), np.array([0.5]), np.array([0.5, 0.1]), 1e-320, 3, -3, b'0.5', 0.1 + 0.2j]
for a in VALS:
    for b in (0.5, 0.0, 1.0, -0.2, 7, 'x', '0.1', float('nan'), None, np.float64(0.2)):
        case('validate(%r,%r)' % (a, b), plotting.phaseplot_validate, a, b)
        case('validate(%r,%r)' % (b, a), plotting.phaseplot_validate, b, a)


class MyFloat(float):
    def __float__(self):
        return 5.0


case('validate(MyFloat)', plotting.phaseplot_validate, MyFloat(0.5), 0.5)
case('validate(MyFloat)b', plotting.phaseplot_validate, 0.5, MyFloat(0.5))

# ---------------------------------------------------------------- bar edge width
gw = getattr(plotting, '__get_bar_edge_width')
for n in [0, 1, 50, 109, 110, 111, 150, 219, 220, 221, 300, 1000, 109.5, 220.0]:
    case('edgewidth(%r)' % n, lambda n=n: repr(gw(n)))

# ---------------------------------------------------------------- single phase / uversky plots
POINTS = [(0.1, 0.2), (0.0, 0.0), (1.0, 1.0), (0.85, 0.95), (0.8, 0.9), (0.81, 0.91),
          ('0.3', '0.4'), (1, 0), (True, False), (np.float64(0.33), np.float64(0.5))]
for (x, y) in POINTS:
    for label in ('', 'lab', 'a much longer label'):
        for getFig in (True, False):
            case('plotting.show_single_phase(%r,%r,%r,%r)' % (x, y, label, getFig),
                 plotting.show_single_phasePlot, x, y, label=label, getFig=getFig)
        case('plotting.show_single_uversky(%r,%r,%r)' % (x, y, label),
             plotting.show_single_uverskyPlot, x, y, label=label, getFig=True)
        case('plots.show_single_phase(%r,%r,%r)' % (x, y, label),
             plots.show_single_phasePlot, x, y, label, 'T', False, 0.5, 0.7, 14, True)
        case('plots.show_single_uversky(%r,%r,%r)' % (x, y, label),
             plots.show_single_uverskyPlot, x, y, label, 'T2', True, 2, 3, 8, True)
case('plots.show_single_uversky noFig', plots.show_single_uverskyPlot, 0.4, 0.2)
case('plotting.show_single_uversky bad', plotting.show_single_uverskyPlot, 'abc', 0.2, getFig=True)
case('plotting.show_single_uversky >1', plotting.show_single_uverskyPlot, 4.0, -2, 'L', getFig=True)
for bad in [(-0.1, 0.5), (0.5, 1.5), ('abc', 0.5), (0.5, 'abc'), (None, 0.5), (float('nan'), 0.5)]:
    case('plotting.show_single_phase bad %r' % (bad,), plotting.show_single_phasePlot,
         bad[0], bad[1], getFig=True)
    case('plots.save_single_phase bad %r' % (bad,), plots.save_single_phasePlot,
         bad[0], bad[1], tmp('bad.png'), _files=[tmp('bad.png')])

# saving: formats, overwrite of an existing file
for fmt in ('png', 'pdf', 'svg', 'bogus'):
    f = tmp('single_phase.' + fmt)
    with open(f, 'w') as fh:
        fh.write('old contents')
    case('plotting.save_single_phase ' + fmt, plotting.save_single_phasePlot, 0.2, 0.3, f,
         label='q', saveFormat=fmt, _files=[f])
    f = tmp('single_phase_b.' + fmt)
    case('plots.save_single_phase ' + fmt, plots.save_single_phasePlot, 0.2, 0.3, f, 'q', 'tt',
         False, 1, 1, 10, fmt, _files=[f])
    f = tmp('single_uv.' + fmt)
    with open(f, 'w') as fh:
        fh.write('old contents')
    case('plotting.save_single_uversky ' + fmt, plotting.save_single_uverskyPlot, 0.2, 0.3, f,
         label='q', saveFormat=fmt, _files=[f])
    f = tmp('single_uv_b.' + fmt)
    case('plots.save_single_uversky ' + fmt, plots.save_single_uverskyPlot, 0.2, 0.3, f, 'q', 'tt',
         True, 1, 1, 10, fmt, _files=[f])
case('plotting.save_single_phase default fmt', plotting.save_single_phasePlot, 0.2, 0.3,
     tmp('dflt_out'), _files=[tmp('dflt_out')])
case('plotting.save_single_phase baddir', plotting.save_single_phasePlot, 0.2, 0.3,
     tmp('nodir/x.png'), _files=[tmp('nodir/x.png')])
case('plotting.save_single_uversky baddir', plotting.save_single_uverskyPlot, 0.2, 0.3,
     tmp('nodir/x.png'), _files=[tmp('nodir/x.png')])

# ---------------------------------------------------------------- multiple plots
MULTI = [
    ([0.1, 0.2, 0.9], [0.3, 0.1, 0.05], []),
    ([0.1, 0.2, 0.9], [0.3, 0.1, 0.05], ['a', 'b', 'c']),
    ([0.1, 0.2, 0.9], [0.3, 0.1, 0.05], ['a', 'b']),
    ([0.1, 0.2, 0.9], [0.3, 0.1, 0.05], ('a', 'b', 'c')),
    ([0.1, 0.2, 0.9], [0.3, 0.1, 0.05], ''),
    ([0.1, 0.2, 0.9], [0.3, 0.1, 0.05], 'abc'),
    ([0.1, 0.2], [0.3, 0.1, 0.05], []),
    ([0.1, 0.2, 0.3], [0.3, 0.1], []),
    ([], [], []),
    ([], [], ['a']),
    ([0.1], [0.2], ['']),
    ([0.1, 1.2], [0.2, 0.2], []),
    ([0.1, 'abc'], [0.2, 0.2], []),
    ((0.1, 0.5), (0.2, 0.3), []),
    (np.array([0.1, 0.5]), np.array([0.2, 0.3]), []),
    (np.array([0.1, 0.5]), np.array([0.2, 0.3]), np.array(['u', 'v'])),
    (['0.1', '0.5'], ['0.2', '0.3'], ['s', 't']),
]
for i, (xs, ys, labs) in enumerate(MULTI):
    case('plotting.show_multiple_phase #%d' % i, plotting.show_multiple_phasePlot, xs, ys, labs, getFig=True)
    case('plotting.show_multiple_phase #%d nofig' % i, plotting.show_multiple_phasePlot, xs, ys, labs)
    case('plots.show_multiple_phase #%d' % i, plots.show_multiple_phasePlot, xs, ys, labs, 'T', True, 1, 1, 12, True)
    case('plotting.show_multiple_uversky #%d' % i, plotting.show_multiple_uverskyPlot, xs, ys, labs, getFig=True)
    case('plots.show_multiple_uversky #%d' % i, plots.show_multiple_uverskyPlot, xs, ys, labs, 'T', False, 2, 2, 9, True)
    for fmt in ('png', 'pdf'):
        f = tmp('multi_phase_%d.%s' % (i, fmt))
        case('plotting.save_multiple_phase #%d %s' % (i, fmt), plotting.save_multiple_phasePlot,
             xs, ys, f, labs, saveFormat=fmt, _files=[f])
        f = tmp('multi_phase_b_%d.%s' % (i, fmt))
        case('plots.save_multiple_phase #%d %s' % (i, fmt), plots.save_multiple_phasePlot,
             xs, ys, f, labs, 'T', True, 1, 1, 10, fmt, _files=[f])
        f = tmp('multi_uv_%d.%s' % (i, fmt))
        case('plotting.save_multiple_uversky #%d %s' % (i, fmt), plotting.save_multiple_uverskyPlot,
             xs, ys, f, labs, saveFormat=fmt, _files=[f])
        f = tmp('multi_uv_b_%d.%s' % (i, fmt))
        case('plots.save_multiple_uversky #%d %s' % (i, fmt), plots.save_multiple_uverskyPlot,
             xs, ys, f, labs, 'T', True, 1, 1, 10, fmt, _files=[f])
case('plots.show_multiple_phase default label', plots.show_multiple_phasePlot, [0.1], [0.2], getFig=True)
case('plots.show_multiple_phase default label2', plots.show_multiple_phasePlot, [0.1, 0.3], [0.2, 0.2], getFig=True)
case('plotting.multiple_plot direct', plotting.multiple_plot, [0.1, 0.2], [0.3, 0.4], [], 10)
case('plotting.multiple_plot direct2', plotting.multiple_plot, [0.1, 0.2], [0.3, 0.4], ['a', 'b'], 7)
case('plotting.single_plot direct', plotting.single_plot, 0.9, 0.95, 'zz')
case('plotting.single_plot direct2', plotting.single_plot, '0.9', 0.1)
case('plotting.single_plot bad', plotting.single_plot, 'q', 0.1)

# the *2 variants taking SequenceParameters objects
SPL = [SP['mixed'], SP['neutral'], SP['allpos'], SP['allneg'], SP['one']]
for labs in ([], ['a', 'b', 'c', 'd', 'e'], ['a']):
    case('plots.show_multiple_phase2 %r' % (labs,), plots.show_multiple_phasePlot2, SPL, labs, getFig=True)
    case('plots.show_multiple_phase2 nofig %r' % (labs,), plots.show_multiple_phasePlot2, SPL, labs)
    case('plots.show_multiple_uversky2 %r' % (labs,), plots.show_multiple_uverskyPlot2, SPL, labs, getFig=True)
    for fmt in ('png', 'pdf'):
        f = tmp('m2_phase_%d.%s' % (len(labs), fmt))
        case('plots.save_multiple_phase2 %r %s' % (labs, fmt), plots.save_multiple_phasePlot2, SPL, f,
             labs, saveFormat=fmt, _files=[f])
        f = tmp('m2_uv_%d.%s' % (len(labs), fmt))
        case('plots.save_multiple_uversky2 %r %s' % (labs, fmt), plots.save_multiple_uverskyPlot2, SPL, f,
             labs, saveFormat=fmt, _files=[f])
case('plots.show_multiple_phase2 empty', plots.show_multiple_phasePlot2, [], getFig=True)
case('plots.show_multiple_uversky2 empty', plots.show_multiple_uverskyPlot2, [], getFig=True)
case('plots.show_multiple_phase2 notseq', plots.show_multiple_phasePlot2, [SP['mixed'], 'str'], getFig=True)

# ---------------------------------------------------------------- SequenceParameters methods
for k in ('mixed', 'short', 'one', 'neutral', 'allpos', 'allneg', 'lower', 'len300'):
    sp = SP[k]
    for getFig in (True, False):
        case('SP[%s].show_phaseDiagramPlot(%r)' % (k, getFig), sp.show_phaseDiagramPlot, 'L' + k,
             getFig=getFig)
        case('SP[%s].show_uverskyPlot(%r)' % (k, getFig), sp.show_uverskyPlot, 'L' + k, getFig=getFig)
    case('SP[%s].show_phaseDiagramPlot opts' % k, sp.show_phaseDiagramPlot, '', 'ti', False, 0.6, 0.4, 20, True)
    case('SP[%s].show_uverskyPlot opts' % k, sp.show_uverskyPlot, '', 'ti', False, 0.6, 0.4, 20, True)
    # repeated call on the same object
    case('SP[%s].show_phaseDiagramPlot again' % k, sp.show_phaseDiagramPlot, getFig=True)
    for fmt in ('png', 'pdf'):
        f = tmp('sp_phase_%s.%s' % (k, fmt))
        case('SP[%s].save_phaseDiagramPlot %s' % (k, fmt), sp.save_phaseDiagramPlot, f, 'lab',
             saveFormat=fmt, _files=[f])
        f = tmp('sp_uv_%s.%s' % (k, fmt))
        case('SP[%s].save_uverskyPlot %s' % (k, fmt), sp.save_uverskyPlot, f, 'lab',
             saveFormat=fmt, _files=[f])

LINEAR = ['NCPR', 'FCR', 'Sigma', 'Hydropathy']
for k in SEQS:
    sp = SP[k]
    for blob in (1, 2, 5, 6, 15, 47, 1000):
        if blob in (6, 15, 47) and k not in ('mixed', 'len220', 'len300'):
            continue
        for what in LINEAR:
            case('SP[%s].show_linear%s(%d,True)' % (k, what, blob), getattr(sp, 'show_linear' + what),
                 blob, True)
            if blob in (5,):
                case('SP[%s].show_linear%s(%d,False)' % (k, what, blob),
                     getattr(sp, 'show_linear' + what), blob, False)
                f = tmp('lin_%s_%s.png' % (k, what))
                case('SP[%s].save_linear%s(%d)' % (k, what, blob), getattr(sp, 'save_linear' + what), f,
                     blob, _files=[f])
for what in LINEAR:
    sp = SP['mixed']
    f = tmp('lin_pdf_%s.pdf' % what)
    case('SP.save_linear%s pdf' % what, getattr(sp, 'save_linear' + what), f, 7, 'pdf', _files=[f])
    f = tmp('lin_err_%s.png' % what)
    case('SP.save_linear%s toolong' % what, getattr(sp, 'save_linear' + what), f, 700, _files=[f])
    case('SP.show_linear%s default' % what, getattr(sp, 'show_linear' + what))
    case('SP.show_linear%s float blob' % what, getattr(sp, 'show_linear' + what), 5.0, True)
    case('SP.show_linear%s zero blob' % what, getattr(sp, 'show_linear' + what), 0, True)
    case('SP.show_linear%s neg blob' % what, getattr(sp, 'show_linear' + what), -2, True)
    case('SP.show_linear%s str blob' % what, getattr(sp, 'show_linear' + what), 'a', True)

# backend module-level linear functions, called directly with Sequence objects
for k in ('mixed', 'neutral', 'len220', 'len300', 'one'):
    so = Sequence(SEQS[k])
    for what in LINEAR:
        for getFig in (True, False):
            case('plotting.show_linear%s(%s,%r)' % (what, k, getFig), getattr(plotting, 'show_linear' + what),
                 so, 3, getFig)
        case('plotting.show_linear%s(%s) dflt' % (what, k), getattr(plotting, 'show_linear' + what), so, 1)
        f = tmp('blin_%s_%s.png' % (k, what))
        case('plotting.save_linear%s(%s)' % (what, k), getattr(plotting, 'save_linear' + what), so, 3, f,
             _files=[f])
        f = tmp('blin_%s_%s.svg' % (k, what))
        case('plotting.save_linear%s(%s) svg' % (what, k), getattr(plotting, 'save_linear' + what), so, 3, f,
             'svg', _files=[f])
for what in ('NCPR', 'FCR', 'sigma', 'hydropathy'):
    b = getattr(plotting, 'build_%s_plot' % what)
    case('build_%s notseq' % what, b, 'notaseq', 3)
    case('build_%s None' % what, b, None, 3)
    case('build_%s ok' % what, b, Sequence('KEKEGGGGDD'), 4)
    case('show_linearplot(%s)' % what, plotting.show_linearplot, b, Sequence('KEKEGGGGDD'), 2, True)
    case('show_linearplot(%s) noFig' % what, plotting.show_linearplot, b, Sequence('KEKEGGGGDD'), 2)
    f = tmp('slp_%s.png' % what)
    case('save_linearplot(%s)' % what, plotting.save_linearplot, b, Sequence('KEKEGGGGDD'), 2, f, _files=[f])
    f = tmp('slp_%s.pdf' % what)
    case('save_linearplot(%s) pdf' % what, plotting.save_linearplot, b, Sequence('KEKEGGGGDD'), 2, f, 'pdf',
         _files=[f])

# __build_linear_plot directly with hand-made data
blp = getattr(plotting, '__build_linear_plot')
rng = np.random.RandomState(7)


def mkdata(n, kind):
    x = np.arange(1, n + 1)
    if kind == 'rand':
        y = rng.randint(-3, 4, size=n) / 3.0
    elif kind == 'zeros':
        y = np.zeros(n)
    elif kind == 'neg':
        y = -np.ones(n) * 0.5
    elif kind == 'nan':
        y = rng.randint(-2, 3, size=n) / 2.0
        y[::3] = np.nan
    elif kind == 'negzero':
        y = np.array([-0.0, 0.0, -1e-300, 1e-300] * n)[:n]
    elif kind == 'int':
        return np.vstack((x, rng.randint(-2, 3, size=n)))
    return np.vstack((x, y))


for n in (0, 1, 2, 10, 109, 110, 150, 219, 220, 221, 260, 500):
    for kind in ('rand', 'zeros', 'neg', 'nan', 'negzero', 'int'):
        for pn in (True, False):
            case('blp(n=%d,%s,pn=%r)' % (n, kind, pn), blp, mkdata(n, kind), title='t', ylabel='y',
                 ylimits=[-1, 1], setPositiveNegativeBars=pn)
case('blp defaults', blp, mkdata(5, 'rand'))
case('blp list data', blp, [[1, 2, 3], [0.1, -0.2, 0]], setPositiveNegativeBars=True)
case('blp 3 rows', blp, np.vstack((np.arange(1, 6), [0, -1, 1, 0, -0.5], [9, 9, 9, 9, 9])),
     setPositiveNegativeBars=True)
case('blp object dtype', blp, np.array([[1, 2, 3], [0.5, -0.5, 0]], dtype=object),
     setPositiveNegativeBars=True)
case('blp 1d', blp, np.arange(5), setPositiveNegativeBars=True)
# two builds on the same (unclosed) figure
def two_builds():
    blp(mkdata(230, 'rand'), ylimits=[-1, 1], setPositiveNegativeBars=True)
    return blp(mkdata(12, 'rand'), ylimits=[-1, 1], setPositiveNegativeBars=True)
case('blp twice same fig', two_builds)

# ---------------------------------------------------------------- complexity plots
for k in ('mixed', 'len220', 'neutral'):
    sp = SP[k]
    for ct in ('WF', 'LC', 'LZW', 'bogus', 'wf', None):
        for getFig in (True, False):
            case('SP[%s].show_linearComplexity(%r,%r)' % (k, ct, getFig), sp.show_linearComplexity,
                 complexityType=ct, getFig=getFig)
        f = tmp('cx_%s_%s.png' % (k, ct))
        case('SP[%s].save_linearComplexity(%r)' % (k, ct), sp.save_linearComplexity, f, complexityType=ct,
             _files=[f])
    f = tmp('cx_%s.pdf' % k)
    case('SP[%s].save_linearComplexity pdf' % k, sp.save_linearComplexity, f, 'LC', 8, {}, 6, 2, 2, 'pdf',
         _files=[f])
    case('SP[%s].show_linearComplexity alpha' % k, sp.show_linearComplexity, 'WF', 4, {}, 5, 1, 3, True)
    case('SP[%s].show_linearComplexity toolong' % k, sp.show_linearComplexity, 'WF', 20, {}, 5000, 1, 3, True)
cv = np.vstack((np.arange(1, 31), rng.rand(30)))
for ct in ('WF', 'LC', 'LZW', 'bogus', '', None, 5, ['WF'], {'a': 1}, ('WF',), np.str_('LC'), b'WF',
           np.array(['WF']), np.array(['WF', 'LC'])):
    for getFig in (True, False):
        case('plotting.show_linearComplexity(%r,%r)' % (ct, getFig), plotting.show_linearComplexity, cv, ct, 30,
             getFig)
    f = tmp('pcx.png')
    if os.path.exists(f):
        os.remove(f)
    case('plotting.save_linearComplexity(%r)' % (ct,), plotting.save_linearComplexity, cv, ct, 30, f,
         _files=[f])
    f = tmp('pcx.pdf')
    if os.path.exists(f):
        os.remove(f)
    case('plotting.save_linearComplexity(%r) pdf' % (ct,), plotting.save_linearComplexity, cv, ct, 30, f, 'pdf',
         _files=[f])
for n in (0, 1, 115, 240):
    cvn = np.vstack((np.arange(1, n + 1), rng.rand(n)))
    case('plotting.show_linearComplexity n=%d' % n, plotting.show_linearComplexity, cvn, 'WF', n, True)
case('plotting.show_linearComplexity bad vector', plotting.show_linearComplexity, [1, 2, 3], 'WF', 3, True)

# ---------------------------------------------------------------- composition plot
for k in ('mixed', 'len300'):
    f = tmp('comp_%s.png' % k)
    case('SP[%s].save_linearComposition' % k, SP[k].save_linearComposition, f, _files=[f])
    case('SP[%s].save_linearComposition again' % k, SP[k].save_linearComposition, f, 7, 'png', 'ttl', True,
         _files=[f])
    case('SP[%s].save_linearComposition badlt' % k, SP[k].save_linearComposition, f, 5, 'png', '', False, [1, 2],
         _files=[f])
dens = rng.rand(3, 40)
f = tmp('comp_direct.png')
case('save_local_composition_plot default lt', plotting.save_local_composition_plot, np.arange(1, 41), dens,
     ['red', 'blue', 'green'], ['a', 'b', 'c'], f, _files=[f])
case('save_local_composition_plot default lt 2', plotting.save_local_composition_plot, np.arange(1, 41),
     dens[:2], ['red', 'blue'], ['a', 'b'], f, _files=[f])
case('save_local_composition_plot mismatch', plotting.save_local_composition_plot, np.arange(1, 41), dens,
     ['red', 'blue'], ['a', 'b', 'c'], f, _files=[f])
case('save_local_composition_plot mismatch2', plotting.save_local_composition_plot, np.arange(1, 41), dens,
     ['red', 'blue', 'green'], ['a', 'b'], f, _files=[f])

# ---------------------------------------------------------------- module surface
names = sorted(n for n in dir(plotting) if not n.startswith('__') or n in ('__build_linear_plot', '__get_bar_edge_width'))
public = [n for n in names if not n.startswith('_')]
LINES.append('plotting public names: %r' % public)
LINES.append('plots public names: %r' % sorted(n for n in dir(plots) if not n.startswith('_')))

shutil.rmtree(TMP, ignore_errors=True)

blob = '\n'.join(LINES)
if '--full' in sys.argv:
    print(blob)
else:
    for l in SUMMARY:
        print(l)
print('cases: %d' % len(SUMMARY))
print('DIGEST ' + hashlib.sha256(blob.encode()).hexdigest())
