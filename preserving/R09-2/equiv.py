"""
Differential script for R2 (loops -> comprehensions in SequenceComplexity.LC,
SequenceComplexity.reduce_alphabet and backend/data/aminoacids.py).  Run once
with cwd=/tmp/seed/R09 (changed) and once with cwd=/repo (unchanged); the
printed output must be identical.
"""
import os
import sys
sys.path.insert(0, os.getcwd())

import collections
import contextlib
import copy
import hashlib
import io
import random

import numpy as np

import localcider.backend.backendtools as _bt
_bt.HUSH_ALL = False

from localcider.backend.sequenceComplexity import SequenceComplexity
from localcider.backend.data import aminoacids
from localcider.backend.restable import ResTable
from localcider.sequenceParameters import SequenceParameters

results = []


def canon(x):
    if isinstance(x, np.ndarray):
        return ('ndarray', str(x.dtype), x.shape, canon(x.tolist()))
    if isinstance(x, (list, tuple)):
        return (type(x).__name__, [canon(i) for i in x])
    if isinstance(x, dict):
        # keep the insertion order: it is observable
        return (type(x).__name__, [(canon(k), canon(v)) for k, v in x.items()])
    if isinstance(x, (float, np.floating)):
        return (type(x).__name__, repr(float(x)))
    return (type(x).__name__, repr(x))


def run(label, fn, *args, **kwargs):
    buf = io.StringIO()
    with contextlib.redirect_stdout(buf):
        try:
            out = ('OK', canon(fn(*args, **kwargs)))
        except BaseException as e:  # noqa
            out = ('EXC', type(e).__name__, str(e))
    results.append((label, out, buf.getvalue()))


random.seed(4321)
AAS = "ACDEFGHIKLMNPQRSTVWY"
SEQS = ["", "A", "AC", "AAAAAAAAAAAA", "ACDEFGHIKLMNPQRSTVWY", "ACDEFGHIKLMNPQRSTVWY" * 3,
        "EKEKEKEKEKEKEKEKEKEKEKEK", "GSGSGSGSGSPPPPPPGSGSQQQQQNNNNKKKKRRRDDDEEE",
        "MDVFMKGLSKAKEGVVAAAEKTKQGVAEAAGKTKEGVLYVGSKTKEGVVHGVATVAEKTKEQVTNVGGAVVTGVTAVAQKTVEGAGSIAAATGFVKKDQLGKNEEGAPQEGILEDMPVDPDNEAYEMPSEEGYQDYEPEA",
        "ACDXZ", "acdef", "AC DE", "A*"]
for n in (5, 13, 31, 60):
    SEQS.append("".join(random.choice(AAS) for _ in range(n)))
    SEQS.append("".join(random.choice("EKG") for _ in range(n)))
LIST_SEQS = [list("ACDEFGHIKLMNPQRSTVWY"), ["A", "", "CD", "E", "H", "K"], [], ["A", 1, "C"], tuple("GSGSEKEK")]

SC = SequenceComplexity()

# ---------------------------------------------------------------- reduce_alphabet
SIZES = [2, 3, 4, 5, 6, 8, 10, 11, 12, 15, 18, 20, 7, 0, -1, 1, 21, "5", "20", " 8 ", "abc", "", 5.7, 5.0, 2.0,
         True, None, [2], np.int64(10), np.float64(12.0)]
for s in SEQS + LIST_SEQS:
    for size in SIZES:
        run(("reduce", repr(s), repr(size)), SC.reduce_alphabet, s, size)
    run(("reduce-default", repr(s)), SC.reduce_alphabet, s)

identity = {a: a for a in AAS}
two_state = {a: ('E' if a in 'EDKR' else 'G') for a in AAS}
rev = {a: b for a, b in zip(AAS, reversed(AAS))}
missing = {a: a for a in AAS[:-1]}
lower = dict(identity, A='a')
badval = dict(identity, C='X')
nonstr = dict(identity, D=1)
extra = dict(identity, X='A', **{'*': 'G'})
od = collections.OrderedDict((a, 'A') for a in reversed(AAS))


class CountingDict(dict):
    """dict subclass which records every lookup, so lookup order is observable"""
    def __init__(self, *a, **k):
        dict.__init__(self, *a, **k)
        self.log = []

    def __getitem__(self, key):
        self.log.append(key)
        return dict.__getitem__(self, key)


USER = [identity, two_state, rev, missing, lower, badval, nonstr, extra, od,
        [("A", "A")], "AC", ("A",), {1: 2}, collections.defaultdict(lambda: 'A'),
        collections.defaultdict(lambda: 'A', two_state)]
for ui, ua in enumerate(USER):
    for s in SEQS + LIST_SEQS:
        for size in (20, 3, "abc"):
            run(("reduce-user", ui, repr(s), size), SC.reduce_alphabet, s, size, copy.deepcopy(ua) if not isinstance(ua, collections.defaultdict) else ua)
        run(("reduce-user-kw", ui, repr(s)), SC.reduce_alphabet, s, userAlphabet=ua)
    if isinstance(ua, collections.defaultdict):
        results.append(("defaultdict-state", ui, canon(dict(ua))))

for s in SEQS:
    cd = CountingDict(two_state)
    run(("reduce-counting", s), SC.reduce_alphabet, s, 20, cd)
    results.append(("counting-log", s, list(cd.log)))

# the returned alphabet for predefined sizes / user alphabets must be a fresh or
# shared object exactly as before: check mutation isolation between calls
r1 = SC.reduce_alphabet("ACDE", 5)
r1[1].append("ZZ")
run("reduce-after-mutation-5", SC.reduce_alphabet, "ACDE", 5)
r2 = SC.reduce_alphabet("ACDE", userAlphabet=two_state)
r2[1].append("ZZ")
run("reduce-after-mutation-user", SC.reduce_alphabet, "ACDE", userAlphabet=two_state)
run("default-arg-unchanged", lambda: SC.reduce_alphabet.__defaults__)

# ---------------------------------------------------------------- LC
ALPHABETS = [list(AAS), ['L', 'E'], ['L', 'A', 'F', 'E', 'K'], [], "EKG", ('E', 'K')]
WINDOWS = [0, 1, 2, 3, 5, 10, 20, 25, 1000, -1, -5]
STEPS = [1, 2, 3, 7, 100]
WORDS = [0, 1, 2, 3, 4, 10, 11, 30, -1, -3]
for s in SEQS + LIST_SEQS:
    for al in ALPHABETS[:3] if len(s) > 30 else ALPHABETS:
        for w in WINDOWS:
            for st in STEPS:
                for wd in WORDS:
                    run(("LC", repr(s), repr(al), w, st, wd), SC.LC, s, al, w, st, wd)

# odd argument types (must raise / behave identically)
for oi, args in enumerate([("ACDEFGHIKL", list(AAS), 5.0, 1, 3), ("ACDEFGHIKL", list(AAS), 5, 1.0, 3),
             ("ACDEFGHIKL", list(AAS), 5, 1, 3.0), ("ACDEFGHIKL", list(AAS), 5, 1.5, 2),
             ("ACDEFGHIKL", list(AAS), "5", 1, 3), ("ACDEFGHIKL", None, 5, 1, 3),
             (None, list(AAS), 5, 1, 3), ("ACDEFGHIKL", list(AAS), 5, 1, None),
             ("ACDEFGHIKL", list(AAS), None, 1, 3), ("ACDEFGHIKL", list(AAS), 5, None, 3),
             ("ACDEFGHIKL", list(AAS), np.int64(5), np.int64(2), np.int64(3)),
             ("ACDEFGHIKL", 5, 5, 1, 3), ("ACDEFGHIKL", iter(AAS), 5, 1, 3),
             (np.array(list("ACDEFGHIKL")), list(AAS), 5, 1, 3),
             ([["A"], ["C"], ["D"], ["E"]], list(AAS), 3, 1, 1),
             ("ACDEFGHIKL", list(AAS), True, True, False)]):
    run(("LC-odd", oi), SC.LC, *args)

# ---------------------------------------------------------------- wrappers
for s in SEQS:
    for size in (20, 5, 2, 9):
        for w, st, wd in [(10, 1, 3), (5, 2, 2), (3, 1, 3), (3, 1, 5), (50, 1, 3), (1, 1, 1), (4, 3, 1)]:
            run(("get_LC", s, size, w, st, wd), SC.get_LC_complexity, s, size, {}, w, st, wd)
    run(("get_LC-default", s), SC.get_LC_complexity, s)
    run(("get_LC-user", s), SC.get_LC_complexity, s, userAlphabet=two_state, windowSize=6, wordSize=2)

for s in SEQS:
    def front(s=s):
        sp = SequenceParameters(s)
        out = []
        for ctype in ("LC", "WF", "LZW"):
            out.append(sp.get_linear_complexity(complexityType=ctype, alphabetSize=8, blobLen=6, wordSize=2))
            out.append(sp.get_linear_complexity(complexityType=ctype, userAlphabet=two_state))
            out.append(sp.get_linear_complexity(complexityType=ctype))
        out.append(sp.get_reduced_alphabet_sequence(alphabetSize=6))
        out.append(sp.get_reduced_alphabet_sequence(userAlphabet=rev))
        return out
    run(("frontend", s), front)

# ---------------------------------------------------------------- aminoacids
run("KD_original", aminoacids.get_KD_original)
run("KD_shifted", aminoacids.get_KD_shifted)
run("KD_uversky", aminoacids.get_KD_uversky)
run("KD_shifted-fresh", lambda: aminoacids.get_KD_shifted() is aminoacids.get_KD_shifted())
run("buildTable", aminoacids.buildTable)
run("skeleton", aminoacids.build_amino_acids_skeleton)
run("skeleton-fresh", lambda: aminoacids.buildTable()[0] is aminoacids.buildTable()[0])


def upd(scale, table=None):
    t = aminoacids.buildTable() if table is None else table
    try:
        r = aminoacids.update_hydrophobicity(t, scale)
        return (r is t, r)
    except BaseException as e:
        # partially updated state is observable through the argument
        return ('EXC', type(e).__name__, str(e), t)


SCALES = [aminoacids.get_KD_original(), aminoacids.get_WW_original(), aminoacids.get_KD_uversky(),
          {}, {'ALA': 1.0, 'CYS': 2.0}, aminoacids.get_pKa(), collections.defaultdict(int), None, []]
for si, sc in enumerate(SCALES):
    run(("update_hydrophobicity", si), upd, sc)
run("update_hydrophobicity-empty", upd, aminoacids.get_KD_original(), [])
run("update_hydrophobicity-short", upd, aminoacids.get_KD_original(), [["x", "ALA"], ["y", "CYS", "C", 0]])
run("update_hydrophobicity-tuple", upd, aminoacids.get_KD_original(), [("x", "ALA", "A", 0)])
run("update_hydrophobicity-unknown", upd, aminoacids.get_KD_original(), [["x", "ALA", "A", 0], ["y", "XXX", "X", 0], ["z", "CYS", "C", 0]])
run("update_hydrophobicity-gen", upd, aminoacids.get_KD_original(), None)


def restable_dump():
    rt = ResTable()
    out = []
    for code3, res in rt.residue_table.items():
        out.append((code3, res.name, res.letterCode3, res.letterCode1, res.hydropathy, res.charge, res.PPII))
    for a in AAS:
        out.append((a, rt.lookUpHydropathy(a), rt.lookUpCharge(a), rt.lookUpPPII(a), rt.lookUpPPII(a, 'Creamer')))
    return out


run("restable", restable_dump)

for s in SEQS:
    def hydro(s=s):
        sp = SequenceParameters(s)
        return [sp.get_mean_hydropathy(), sp.get_uversky_hydropathy(), sp.get_linear_hydropathy(blobLen=3)]
    run(("hydropathy", s), hydro)

digest = hashlib.sha256(repr(results).encode("utf-8")).hexdigest()
n_exc = sum(1 for r in results if len(r) == 3 and isinstance(r[1], tuple) and r[1][0] == 'EXC')
print("cases=%i exceptions=%i" % (len(results), n_exc))
print("digest=" + digest)
