"""
Differential script: run once with cwd=/tmp/seed/R31 (changed tree) and once
with cwd=/repo (unchanged tree); the printed output must be identical.

Covers the thin forwarding wrappers of SequenceParameters.
"""
import os
import sys
sys.path.insert(0, os.getcwd())

import io
import hashlib
import contextlib
import warnings
warnings.filterwarnings('ignore')

import numpy as np

import localcider
from localcider.sequenceParameters import SequenceParameters

assert os.path.abspath(localcider.__file__).startswith(os.path.abspath(os.getcwd())), localcider.__file__

LINES = []


def norm(x):
    """ deterministic, type-revealing representation of a result """
    if isinstance(x, np.ndarray):
        return 'ndarray%s%s[%s]' % (x.dtype, x.shape, ','.join(norm(v) for v in x.ravel().tolist()))
    if isinstance(x, (float, np.floating)):
        return '%s:%r' % (type(x).__name__, float(x))
    if isinstance(x, (tuple, list)):
        return '%s(%s)' % (type(x).__name__, ','.join(norm(v) for v in x))
    if isinstance(x, dict):
        return 'dict{%s}' % ','.join('%s=%s' % (norm(k), norm(x[k])) for k in sorted(x, key=repr))
    if isinstance(x, SequenceParameters):
        return 'SP<%s>' % x.get_sequence()
    return '%s:%r' % (type(x).__name__, x)


def state(sp):
    so = sp.SeqObj
    out = []
    for name in sorted(vars(so)):
        v = getattr(so, name)
        if isinstance(v, (int, float, str, list, tuple, dict, type(None), np.ndarray, np.floating)):
            out.append('%s=%s' % (name, norm(v)))
    return hashlib.md5('|'.join(out).encode()).hexdigest()[:10]


def call(label, sp, fn, *args, **kwargs):
    buf = io.StringIO()
    try:
        with contextlib.redirect_stdout(buf):
            res = fn(*args, **kwargs)
        r = 'OK ' + norm(res)
    except BaseException as e:
        r = 'EXC %s: %s' % (type(e).__name__, e)
    line = '%s -> %s | out=%r | state=%s' % (label, r, buf.getvalue(), state(sp) if sp is not None else '-')
    LINES.append(line)


SEQS = [
    'A',
    'P',
    'E',
    'K',
    'EK',
    'KKKKK',
    'EEEEEE',
    'GSGSGSGSGS',
    'EKEKEKEKEKEKEKEK',
    'EEEEEEEEKKKKKKKK',
    'MEEPQSDPSVEPPLSQETFSDLWKLLPENNVLSPLPSQAMDDLMLSPDDIEQWFTEDPGPDEAPRMPEAAPPVAPAPAAPTPAAPAPAPSWPL',
    'HHHHCCCCYYYYDDDDRRRR',
    'PPPPPEPPPPKPPPP',
    'ACDEFGHIKLMNPQRSTVWY',
    'ACDEFGHIKLMNPQRSTVWYACDEFGHIKLMNPQRSTVWYAAAAAAAAAA',
    'mkde rrpq\nSTY',
]

PHS = [None, 0, 0.0, -0.0, 3.9, 7, 7.4, 14, 14.0, 14.0000001, -0.0001, -1, 15, 1e9,
       float('nan'), float('inf'), float('-inf'), True, False, np.float64(6.5),
       np.int64(3), '7', '', [7], (7,), 3 + 0j, np.array([7.0]), np.array([1.0, 20.0]),
       np.array([-1.0])]

GRPS = [
    (['E', 'D'], ['K', 'R']),
    (['P', 'E', 'D', 'K', 'R'], None),
    (['P', 'E', 'D', 'K', 'R'],),
    (['E'], ['E']),
    ([], None),
    ([], []),
    (['A'], []),
    ('ED', 'KR'),
    (['X'], None),
    (['ED'], None),
    (None, None),
    (['G', 'S'], ['G']),
    (5, None),
]

BLOBS = [1, 2, 5, 6, 10, 16, 17, 50, 51, 1000, 0, -1, 2.0, 2.5, '5', None, True]

COMP_GRPS = [
    None,  # marker: use the default
    [],
    [['E', 'D'], ['K', 'R']],
    [['E', 'D']],
    ['ED', 'KR'],
    [['X']],
    [[]],
    [['E', 'D'], []],
    'ED',
    [5],
    5,
]


def fresh(seq):
    return SequenceParameters(seq)


def run():
    # construction failures first
    for bad in ['', 'AXA', 'A1', 5, None]:
        call('ctor %r' % (bad,), None, lambda b=bad: SequenceParameters(b))

    for seq in SEQS:
        try:
            sp = fresh(seq)
        except BaseException as e:
            LINES.append('ctor %r EXC %s: %s' % (seq, type(e).__name__, e))
            continue
        tag = seq[:12]

        # ---- pH family, on one shared object (repeated calls) and in both orders
        for pH in PHS:
            for name in ('get_FCR', 'get_NCPR', 'get_mean_net_charge', 'get_fraction_expanding'):
                call('%s.%s(%r)' % (tag, name, pH), sp, getattr(sp, name), pH)
                call('%s.%s(pH=%r)' % (tag, name, pH), sp, getattr(sp, name), pH=pH)
        for name in ('get_FCR', 'get_NCPR', 'get_mean_net_charge', 'get_fraction_expanding'):
            call('%s.%s()' % (tag, name), sp, getattr(sp, name))
            call('%s.%s(1,2)' % (tag, name), sp, getattr(sp, name), 1, 2)
            call('%s.%s(ph=1)' % (tag, name), sp, getattr(sp, name), ph=1)

        # ---- patterning family; fresh object and repeated calls, different orders
        for order in (('get_kappa', 'get_delta', 'get_deltaMax', 'get_Omega', 'get_SCD'),
                      ('get_deltaMax', 'get_SCD', 'get_Omega', 'get_delta', 'get_kappa', 'get_kappa')):
            sp2 = fresh(seq)
            for name in order:
                call('%s.%s()' % (tag, name), sp2, getattr(sp2, name))
            for flag in (True, False, 1, 0, None, 'yes', '', [], [0]):
                call('%s.get_deltaMax(%r)' % (tag, flag), sp2, sp2.get_deltaMax, flag)
                call('%s.get_deltaMax(returnSeqDeltaMax=%r)' % (tag, flag), sp2, sp2.get_deltaMax, returnSeqDeltaMax=flag)
            call('%s.get_kappa() again' % tag, sp2, sp2.get_kappa)
        sp3 = fresh(seq)
        call('%s.get_deltaMax(True) first' % tag, sp3, sp3.get_deltaMax, True)
        call('%s.get_deltaMax() second' % tag, sp3, sp3.get_deltaMax)
        call('%s.get_deltaMax(1,2)' % tag, sp3, sp3.get_deltaMax, 1, 2)
        call('%s.get_deltaMax(flag=1)' % tag, sp3, sp3.get_deltaMax, flag=1)

        sp4 = fresh(seq)
        for g in GRPS:
            call('%s.get_kappa_X%r' % (tag, g), sp4, sp4.get_kappa_X, *g)
            if len(g) == 2:
                call('%s.get_kappa_X(kw)%r' % (tag, g), sp4, sp4.get_kappa_X, grp1=g[0], grp2=g[1])
                call('%s.get_kappa_X(kw-rev)%r' % (tag, g), sp4, sp4.get_kappa_X, grp2=g[1], grp1=g[0])
        call('%s.get_kappa_X()' % tag, sp4, sp4.get_kappa_X)
        call('%s.get_kappa_X(grp2)' % tag, sp4, sp4.get_kappa_X, grp2=['K'])
        call('%s.get_kappa_X(3 args)' % tag, sp4, sp4.get_kappa_X, ['E'], ['K'], ['R'])
        # mutation of passed groups?
        g1, g2 = ['E', 'D'], ['K', 'R']
        call('%s.get_kappa_X(mut)' % tag, sp4, sp4.get_kappa_X, g1, g2)
        LINES.append('groups after: %r %r' % (g1, g2))

        # ---- linear tracks
        sp5 = fresh(seq)
        for name in ('get_linear_sigma', 'get_linear_NCPR', 'get_linear_FCR', 'get_linear_hydropathy'):
            call('%s.%s()' % (tag, name), sp5, getattr(sp5, name))
            for b in BLOBS:
                call('%s.%s(%r)' % (tag, name, b), sp5, getattr(sp5, name), b)
                call('%s.%s(blobLen=%r)' % (tag, name, b), sp5, getattr(sp5, name), blobLen=b)
            call('%s.%s(bloblen=5)' % (tag, name), sp5, getattr(sp5, name), bloblen=5)
            call('%s.%s(5,5)' % (tag, name), sp5, getattr(sp5, name), 5, 5)

        # ---- linear composition (note: the default list is shared and mutated)
        sp6 = fresh(seq)
        call('%s.get_linear_sequence_composition()' % tag, sp6, sp6.get_linear_sequence_composition)
        call('%s.get_linear_sequence_composition() again' % tag, sp6, sp6.get_linear_sequence_composition)
        for b in BLOBS[:12]:
            for g in COMP_GRPS:
                if g is None:
                    call('%s.comp(%r)' % (tag, b), sp6, sp6.get_linear_sequence_composition, b)
                    call('%s.comp(blobLen=%r)' % (tag, b), sp6, sp6.get_linear_sequence_composition, blobLen=b)
                else:
                    import copy
                    gg = copy.deepcopy(g)
                    call('%s.comp(%r,%r)' % (tag, b, g), sp6, sp6.get_linear_sequence_composition, b, gg)
                    LINES.append('grps after: %r' % (gg,))
                    gg = copy.deepcopy(g)
                    call('%s.comp(kw %r,%r)' % (tag, b, g), sp6, sp6.get_linear_sequence_composition, grps=gg, blobLen=b)
                    LINES.append('grps after: %r' % (gg,))
        LINES.append('default grps now: %r' % (SequenceParameters.get_linear_sequence_composition.__defaults__,))
        call('%s.comp(3 args)' % tag, sp6, sp6.get_linear_sequence_composition, 5, [], 1)
        call('%s.comp(bloblen=)' % tag, sp6, sp6.get_linear_sequence_composition, bloblen=5)

        # ---- reduced alphabets and complexity
        sp7 = fresh(seq)
        ident = dict((a, a) for a in 'ACDEFGHIKLMNPQRSTVWY')
        two = dict((a, ('A' if a in 'LVIMCAGSTPFYW' else 'E')) for a in 'ACDEFGHIKLMNPQRSTVWY')
        partial = {'A': 'G'}
        ALPHAS = [20, 18, 15, 12, 11, 10, 8, 6, 5, 4, 3, 2, 1, 0, 7, 21, -2, 2.0, '5', None]
        UALPHAS = [{}, ident, two, partial, None, [], 'x', {'A': 'GG'}]
        for a in ALPHAS:
            call('%s.reduced(%r)' % (tag, a), sp7, sp7.get_reduced_alphabet_sequence, a)
            call('%s.reduced(alphabetSize=%r)' % (tag, a), sp7, sp7.get_reduced_alphabet_sequence, alphabetSize=a)
        for u in UALPHAS:
            call('%s.reduced(20,%r)' % (tag, u), sp7, sp7.get_reduced_alphabet_sequence, 20, u)
            call('%s.reduced(userAlphabet=%r)' % (tag, u), sp7, sp7.get_reduced_alphabet_sequence, userAlphabet=u)
            call('%s.reduced(5,userAlphabet=%r)' % (tag, u), sp7, sp7.get_reduced_alphabet_sequence, 5, userAlphabet=u)
        call('%s.reduced()' % tag, sp7, sp7.get_reduced_alphabet_sequence)
        call('%s.reduced(3 args)' % tag, sp7, sp7.get_reduced_alphabet_sequence, 20, {}, 1)
        LINES.append('default ualpha now: %r' % (SequenceParameters.get_reduced_alphabet_sequence.__defaults__,))

        CTYPES = ['WF', 'LC', 'LZW', 'wf', 'lc', 'lzw', 'Lzw', 'RHP', 'rhp', 'XX', '', ' WF',
                  None, 5, 2.5, ['WF'], ('WF',), {'WF': 1}, b'WF', b'wf', ('WF', 'LC', 'LZW'), True]
        for ct in CTYPES:
            call('%s.cplx(%r)' % (tag, ct), sp7, sp7.get_linear_complexity, ct)
            call('%s.cplx(complexityType=%r, wordSize=2)' % (tag, ct), sp7, sp7.get_linear_complexity, complexityType=ct, wordSize=2)
        call('%s.cplx()' % tag, sp7, sp7.get_linear_complexity)
        for ct in ('WF', 'LC', 'LZW', 'lzw'):
            for a in (20, 5, 2, 7, 0):
                for u in ({}, two, partial):
                    call('%s.cplx(%r,%r,%r)' % (tag, ct, a, u), sp7, sp7.get_linear_complexity, ct, a, u)
            for b in (1, 2, 3, 10, 16, 17, 94, 95, 0, -1, 2.5, '3', None):
                call('%s.cplx(%r,blobLen=%r)' % (tag, ct, b), sp7, sp7.get_linear_complexity, ct, blobLen=b)
                call('%s.cplx(%r,20,{},%r)' % (tag, ct, b), sp7, sp7.get_linear_complexity, ct, 20, {}, b)
            for st in (1, 2, 3, 100, 1.5, '1', None):  # 0 and negative steps never terminate in the backend
                call('%s.cplx(%r,stepSize=%r)' % (tag, ct, st), sp7, sp7.get_linear_complexity, ct, stepSize=st)
                call('%s.cplx(%r,20,{},5,%r)' % (tag, ct, st), sp7, sp7.get_linear_complexity, ct, 20, {}, 5, st)
            for w in (3, 1, 2, 4, 10, 11, 0, -1, 3.0, 3.5, '3', None, True):
                call('%s.cplx(%r,wordSize=%r)' % (tag, ct, w), sp7, sp7.get_linear_complexity, ct, wordSize=w)
                call('%s.cplx(%r,20,{},10,1,%r)' % (tag, ct, w), sp7, sp7.get_linear_complexity, ct, 20, {}, 10, 1, w)
                call('%s.cplx(%r,5,{},4,2,%r)' % (tag, ct, w), sp7, sp7.get_linear_complexity, ct, 5, {}, 4, 2, w)
            call('%s.cplx(%r, windowSize=5)' % (tag, ct), sp7, sp7.get_linear_complexity, ct, windowSize=5)
            call('%s.cplx(%r, 7 args)' % (tag, ct), sp7, sp7.get_linear_complexity, ct, 20, {}, 10, 1, 3, 9)
        LINES.append('default cplx now: %r' % (SequenceParameters.get_linear_complexity.__defaults__,))

        # phosphosites then the wrappers again on the same object
        sp8 = fresh(seq)
        call('%s.set_phosphosites' % tag, sp8, sp8.set_phosphosites, [1])
        for name in ('get_kappa', 'get_FCR', 'get_NCPR', 'get_delta', 'get_deltaMax', 'get_Omega', 'get_SCD',
                     'get_linear_NCPR', 'get_linear_sequence_composition', 'get_reduced_alphabet_sequence',
                     'get_linear_complexity'):
            call('%s.phos.%s()' % (tag, name), sp8, getattr(sp8, name))
        call('%s.phos.get_FCR(5.5)' % tag, sp8, sp8.get_FCR, 5.5)

    # public surface of the class must not change
    pub = sorted(n for n in dir(SequenceParameters) if not n.startswith('_'))
    LINES.append('public: ' + ','.join(pub))
    import inspect
    for n in pub:
        try:
            LINES.append('sig %s%s' % (n, inspect.signature(getattr(SequenceParameters, n))))
        except (TypeError, ValueError):
            pass


run()

digest = hashlib.sha256('\n'.join(LINES).encode()).hexdigest()
nexc = sum(1 for l in LINES if '-> EXC' in l)
print('cases: %d  exceptions: %d' % (len(LINES), nexc))
# a few chunked digests to make a mismatch easy to localise
for i in range(0, len(LINES), 2000):
    print('%6d %s' % (i, hashlib.sha256('\n'.join(LINES[i:i + 2000]).encode()).hexdigest()[:16]))
print('sha256', digest)
if os.environ.get('EQUIV_DUMP'):
    with open(os.environ['EQUIV_DUMP'], 'w') as fh:
        fh.write('\n'.join(LINES) + '\n')
