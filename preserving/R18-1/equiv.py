"""
Differential check for R1 (permute_cluster_charges: hoisted counts / index lists,
slice arithmetic instead of membership scans, list+join instead of string growth).

Run once with cwd=/tmp/seed/R18 (changed) and once with cwd=/repo (unchanged);
the printed output (including the final digest) must be identical.
"""
import os
import sys
sys.path.insert(0, os.getcwd())

import contextlib
import hashlib
import io
import signal
import time

import numpy as np

import localcider.backend.sequence as S
from localcider.backend.sequence import Sequence

assert os.path.abspath(S.__file__).startswith(os.path.abspath(os.getcwd())), S.__file__

# --- make the time-seeded moves deterministic ------------------------------
_NOW = [0.0]
time.time = lambda: _NOW[0]


class _Timeout(Exception):
    pass


def _alarm(signum, frame):
    raise _Timeout()


signal.signal(signal.SIGALRM, _alarm)


def describe(obj):
    if isinstance(obj, Sequence):
        cpat = obj.chargePattern
        return ("Sequence", obj.seq, obj.len, type(cpat).__name__,
                str(getattr(cpat, "dtype", None)), [float(x) for x in cpat],
                repr(obj.dmax), obj.seqDeltaMax, list(obj.phosphosites))
    return (type(obj).__name__, repr(obj))


def run(fn, limit=20):
    buf = io.StringIO()
    signal.alarm(limit)
    try:
        with contextlib.redirect_stdout(buf):
            res = fn()
        out = ("ok", describe(res))
    except _Timeout:
        out = ("timeout",)
    except Exception as e:  # noqa
        out = ("exc", type(e).__name__, str(e))
    finally:
        signal.alarm(0)
    return out, buf.getvalue()


LINES = []


def emit(*parts):
    LINES.append(repr(parts))


SEQS = [
    "MKKEEDDRRKKSSTTEEDDKKRRAAGG",
    "EEEEEKKKKKEEEEEKKKKK",
    "KKKKKKKKKKAAAAAAAAAAEEEEEEEEEE",
    "AKAKAKAEAEAEAGSGSGSKEKEKE",
    "DDDDDDDDAAAAAAAAAAGGGGGGGGK",          # only one positive -> negative clusters only
    "RRRRRRRRAAAAAAAAAAGGGGGGGGE",          # only one negative -> positive clusters only
    "KRKRKRAAAAAAAAAAAAAAAAAAAA",           # no negatives at all
    "DEDEDEAAAAAAAAAAAAAAAAAAAAA",          # no positives at all
    "GSGSGSKGSGSGSEGSGSGSKGSGSGSEGSGSGS",
    "mkkeeddrrkksstteeddkkrraagg",          # lower case input
    "HHHHKKKKEEEEHHHHDDDDRRRRYYYYCCCC",
    "KEKEKEKEKEKEKEKEKEKEKEKEKEKEKEKEKEKEKEKE",
    "AAAAAAAAAAAAAAAAAAAAAAAAKKEE",
    "QQQQKQQQQEQQQQKQQQQEQQQQRQQQQD",
]

# sequences for which the routine has to fail before any random search starts
FAILING = [
    "",                    # empty: chargePattern stays a list -> TypeError
    "A",
    "AAAAAAAAAAAA",        # no charges
    "AAAAAKAAAAAEAAAA",    # one of each
    "K",
    "KE",
]

for seq in FAILING:
    for seed in (0.0, 3.5):
        _NOW[0] = seed
        try:
            so = Sequence(seq)
        except Exception as e:  # noqa
            emit("ctor-exc", seq, type(e).__name__, str(e))
            continue
        emit("fail", seq, seed, run(so.permute_cluster_charges), describe(so))

for seq in SEQS:
    so = Sequence(seq)
    before = describe(so)
    for seed in range(25):
        _NOW[0] = 1000.0 + seed * 17.25
        r = run(so.permute_cluster_charges)
        emit("move", seq, seed, r)
        # repeated calls on the same object, and with a frozen argument (ignored)
        r2 = run(lambda: so.permute_cluster_charges(frozen={0, 1, 2}))
        emit("move-frozen", seq, seed, r2)
        assert r == r2
    assert describe(so) == before, "parent object was modified"
    emit("parent", before)

# parents carrying a pre-set dmax and phosphosites: dmax is handed to the child
so = Sequence("MKKEEDDRRKKSSTTEEDDKKRRAAGG", dmax=0.37)
for seed in range(10):
    _NOW[0] = 77.0 + seed
    emit("dmax", seed, run(so.permute_cluster_charges))

so = Sequence("SKKEEDDRRKKSSTTEEDDKKRRAAGGSTY")
so.setPhosPhoSites([1, 13, 14])
for seed in range(10):
    _NOW[0] = 5.0 + seed
    emit("phos", seed, run(so.permute_cluster_charges), describe(so))

# a reduced (+/-/0) sequence as parent: '+' counts for both cluster kinds
so = Sequence("++++00000----00000++--0000")
for seed in range(15):
    _NOW[0] = 300.0 + seed
    emit("reduced", seed, run(so.permute_cluster_charges))

# user supplied charge patterns that do not match the residues
cases = [
    ("KK", np.array([1.0] * 10)),                       # more charges than residues -> randint ValueError
    ("KKKKEEEEAAAAKKKKEEEE", np.array([1.0, 1.0] + [0.0] * 18)),
    ("KKKKEEEEAAAAKKKKEEEE", np.array([-1.0, -1.0, -1.0] + [0.0] * 17)),
    ("KKKKEEEEAAAAKKKKEEEE", np.array([1, 1, -1, -1] + [0] * 16)),   # integer pattern
    ("KKKKEEEEAAAAKKKKEEEE", [1, 1, -1, -1] + [0] * 16),             # a plain list -> TypeError
    ("", np.array([1.0, 1.0])),
]
for seq, cpat in cases:
    for seed in range(6):
        _NOW[0] = 40.0 + seed
        so = Sequence(seq, -1, cpat)
        emit("custom", seq, [float(x) for x in cpat], seed, run(so.permute_cluster_charges, limit=5))

for line in LINES:
    print(line)
print("DIGEST", hashlib.sha256("\n".join(LINES).encode()).hexdigest(), len(LINES))
