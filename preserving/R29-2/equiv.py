"""
Differential script for Sequence.kappa / Sequence.deltaMax refactorings.

Run once with cwd=/tmp/seed/R29 (changed tree) and once with cwd=/repo
(unchanged tree); the printed output must be identical.
"""
import os
import sys

sys.path.insert(0, os.getcwd())

import contextlib
import hashlib
import io
import random

import numpy as np

from localcider.backend import sequence as seqmod
from localcider.backend.sequence import Sequence
from localcider.backend import backendtools

# the library hushes all messages by default; switch them on so that the
# warning printed by kappa() is part of the compared behaviour
backendtools.HUSH_ALL = False
backendtools.HUSH_WARNINGS = False
backendtools.HUSH_STATUS = False

assert os.path.abspath(seqmod.__file__).startswith(os.path.abspath(os.getcwd())), seqmod.__file__

RESULTS = []


def norm(v):
    """Deterministic, type-aware text form of a result."""
    if isinstance(v, tuple):
        return "T(" + ",".join(norm(x) for x in v) + ")"
    if isinstance(v, list):
        return "L[" + ",".join(norm(x) for x in v) + "]"
    if isinstance(v, np.ndarray):
        return "A" + str(v.dtype) + norm(v.tolist())
    if isinstance(v, Sequence):
        return "Sequence<" + state(v) + ">"
    if isinstance(v, (float, np.floating)):
        return type(v).__name__ + ":" + repr(float(v))
    return type(v).__name__ + ":" + repr(v)


def state(obj):
    return "dmax=%s seqDeltaMax=%s seq=%s len=%s cp=%s phos=%s" % (
        norm(obj.dmax), norm(obj.seqDeltaMax), obj.seq, obj.len,
        norm(obj.chargePattern), norm(obj.phosphosites))


def call(label, fn, *args, **kwargs):
    """Run fn, record return value / exception and captured stdout."""
    buf = io.StringIO()
    try:
        with contextlib.redirect_stdout(buf):
            out = fn(*args, **kwargs)
        rec = "ret " + norm(out)
    except BaseException as e:  # noqa - we want everything
        rec = "exc %s: %s" % (type(e).__name__, e)
    RESULTS.append("%s -> %s | out=%r" % (label, rec, buf.getvalue()))
    return rec


def make(label, *args, **kwargs):
    buf = io.StringIO()
    try:
        with contextlib.redirect_stdout(buf):
            obj = Sequence(*args, **kwargs)
    except BaseException as e:  # noqa
        RESULTS.append("%s ctor exc %s: %s | out=%r" % (label, type(e).__name__, e, buf.getvalue()))
        return None
    return obj


def snap(label, obj):
    RESULTS.append("%s state %s" % (label, state(obj)))


# ---------------------------------------------------------------------------
# call scripts: each is a list of steps performed on ONE fresh object so that
# every cache state of dmax / seqDeltaMax is visited
SCRIPTS = {
    "k": ["kappa"],
    "kk": ["kappa", "kappa"],
    "d": ["dm"],
    "D": ["dmT"],
    "dD": ["dm", "dmT", "dm", "dmT"],
    "Dd": ["dmT", "dm", "dmT"],
    "kD": ["kappa", "dmT", "kappa"],
    "Dk": ["dmT", "kappa", "dm"],
    "dk": ["dm", "kappa", "dmT"],
    "kw": ["dmKwF", "dmKwT", "dmPos1", "dmPos0", "dmStr", "dmNone"],
    "odd": ["dmStr", "dm", "dmList", "dmT"],
    "odd2": ["dmNone", "dmEmptyStr", "dmT", "dmArr"],
}


def step(obj, name):
    if name == "kappa":
        return obj.kappa()
    if name == "dm":
        return obj.deltaMax()
    if name == "dmT":
        return obj.deltaMax(True)
    if name == "dmKwF":
        return obj.deltaMax(returnSeqDeltaMax=False)
    if name == "dmKwT":
        return obj.deltaMax(returnSeqDeltaMax=True)
    if name == "dmPos1":
        return obj.deltaMax(1)
    if name == "dmPos0":
        return obj.deltaMax(0)
    if name == "dmStr":
        return obj.deltaMax("yes")
    if name == "dmEmptyStr":
        return obj.deltaMax("")
    if name == "dmNone":
        return obj.deltaMax(None)
    if name == "dmList":
        return obj.deltaMax([])
    if name == "dmArr":
        # ambiguous truth value -> exception wherever it is first tested
        return obj.deltaMax(np.array([1, 0]))
    raise ValueError(name)


def run_scripts(label, ctor_args, ctor_kwargs=None, scripts=None):
    ctor_kwargs = ctor_kwargs or {}
    for sname in (scripts or sorted(SCRIPTS)):
        obj = make("%s/%s" % (label, sname), *ctor_args, **ctor_kwargs)
        if obj is None:
            continue
        snap("%s/%s/init" % (label, sname), obj)
        for i, st in enumerate(SCRIPTS[sname]):
            call("%s/%s/%d:%s" % (label, sname, i, st), step, obj, st)
            snap("%s/%s/%d" % (label, sname, i), obj)


# ---------------------------------------------------------------------------
# 1. hand-picked sequences covering every regime of deltaMax
HAND = [
    "",                                   # empty
    "A", "K", "E", "KE", "EK", "AK", "GGGG", "KKKK", "EEEE", "KEKE",
    "AKAE", "KAAAA", "AAAAK", "GGGGG", "GGGGGG", "KKKKK", "KKKKKK", "EEEEEEE",
    "KEKEK", "KEKEKE", "EEEKKK", "KKKEEE",
    # no charged residues
    "GSGSGSGSGSGSGSGSGSGS", "AAAAAAAAAAAAAAAAAAAAAAAAAAAAAA", "PPPPPPP",
    # only positive / only negative, charged block shorter than neutral block
    "GGGKGGGGGGGG", "KGGGGGGGGRGG", "GSGSGSEGSGSGSGD", "AAAAAAAAAAAAAAAAAAAAAK",
    "QQQQQQQQQQQQQQQQQQQQQQQQQQQQQQQQQQKRK",
    # only positive / only negative, neutral block shorter or equal
    "KKKKKKGKKKKK", "RKRKRKRKGGRKRK", "EEEEEDDDDDGS", "EDEDEDSSSSSS", "KKKGGG", "GGGKKK",
    "KRKRKRKRKRKRKRKRKRKRKRKRKRKRKRKRKG", "EEEEA", "AEEEE",
    # no neutral residues, pos > neg, neg > pos, equal
    "KKKKKKKKEE", "EEEEEEEEKK", "KEKEKEKEKE", "RRRRRDDDDD", "KKKKKKE", "EKKKKKKKKKKKKKKKKKKKKKKKK",
    "DEDEDEDEDEDEDEDEDEDEDEDEDER", "KKKKKKKKKKKKKKKEEEEEEEEEEEEEEE",
    # >= 18 neutral residues, both charge types
    "GSGSGSGSGSGSGSGSGSKE", "KEGSGSGSGSGSGSGSGSGS", "GSGSGSKGSGSGSGSEGSGSGS",
    "AAAAAAAAAKKKKKAAAAAAAAAEEEEEAAAAAAAAA", "MKTAYIAKQRQISFVKSHFSRQLEERLGLIEVQAPILSRVGDGTQDNLSGAEKAVQ",
    "GGGGGGGGGGGGGGGGGGKE", "GGGGGGGGGGGGGGGGGKEG", "SSSSSSSSSSSSSSSSSSSSSSSSSSSSSSKKKKKKKKKKEEEEEEEEEE",
    "KESSSSSSSSSSSSSSSSSSS", "QQQQQQQQQQQQQQQQQQKKKKKKKKKKKKKKKE",
    # < 18 neutral residues, both charge types (general search)
    "GKE", "GKEG", "GKEGG", "GGKEGG", "EKGGGGG", "KGEGKGEG", "GSGSGSGSGSGSGSGSGKE", "GSGSGSGSGSGSGSGSKE",
    "MEEPQSDPSVEPPLSQETFSDLWKLLPEN", "DKRHESTNQCGPAVILMFYW", "EEEEEEEEEEGKKKKKKKKKK",
    "KKKKKGGGGGGGGGGGGGGGGGEEEEE", "ACDEFGHIKLMNPQRSTVWY", "HHHHHHKE", "KDCYHHHHHHE",
    # lower case / mixed case input
    "gkegkegsgs", "GsGsKkEeDdRr", "kkkk",
    # phospho-able
    "SSSKESSSTTYYKE", "STYSTYSTYSTYSTYSTYKE", "EESTYKK",
]

for i, s in enumerate(HAND):
    run_scripts("hand%02d[%s]" % (i, s), (s,))

# ---------------------------------------------------------------------------
# 2. random compositions: (npos, nneg, nneut) grid incl. boundaries 17/18/19
rng = random.Random(20240611)
NEUT = "GSAQNTPLVIMFWYCH"
grid = []
for npos in (0, 1, 2, 3, 5, 6, 9):
    for nneg in (0, 1, 2, 4, 6, 7):
        for nneut in (0, 1, 2, 4, 5, 6, 7, 11, 12, 13, 17, 18, 19, 25):
            grid.append((npos, nneg, nneut))
rng.shuffle(grid)
# the general search regime is quadratic; a sample of the grid is plenty
for (npos, nneg, nneut) in grid[:230]:
    res = [rng.choice("KR") for _ in range(npos)] + \
          [rng.choice("DE") for _ in range(nneg)] + \
          [rng.choice(NEUT) for _ in range(nneut)]
    rng.shuffle(res)
    s = "".join(res)
    sc = rng.choice([["k", "D"], ["dD", "kD"], ["Dd", "Dk"], ["kk", "d", "dk"], ["D", "k"]])
    run_scripts("rnd(%d,%d,%d)[%s]" % (npos, nneg, nneut, s), (s,), scripts=sc)

# reduced alphabet sequences given directly (+ / - / 0 are legal residues)
for s in ["+++000---", "000+000", "++++0", "0000000000000000000+-", "+-+-+-", "00000", "+", "-", "0",
          "++--00", "0+0-0+0-0+0-", "-----0000000", "+++++++000"]:
    run_scripts("red[%s]" % s, (s,), scripts=["k", "dD", "Dk"])

# ---------------------------------------------------------------------------
# 3. constructor supplied dmax / chargePattern (cache pre-filled, odd values,
#    charge pattern whose length differs from the sequence length)
nan = float("nan")
_D12 = Sequence("KKKKKKEEEEEE").delta()
CT = [
    (("GKEGKEGSGS",), {"dmax": 0.25}),
    (("GKEGKEGSGS",), {"dmax": 0}),
    (("GKEGKEGSGS",), {"dmax": 0.0}),
    (("GKEGKEGSGS",), {"dmax": -1.0}),
    (("GKEGKEGSGS",), {"dmax": -2}),
    (("GKEGKEGSGS",), {"dmax": nan}),
    (("GKEGKEGSGS",), {"dmax": float("inf")}),
    (("GKEGKEGSGS",), {"dmax": 1e-300}),
    (("GKEGKEGSGS",), {"dmax": None}),
    (("GKEGKEGSGS",), {"dmax": "x"}),
    (("GKEGKEGSGS",), {"dmax": np.float64(0.05)}),
    (("GKEGKEGSGS",), {"dmax": np.array([0.1, 0.2])}),
    (("GKEGKEGSGS",), {"dmax": True}),
    (("GSGSGS",), {"dmax": 0.5}),
    (("GSGSGS",), {"dmax": 0}),
    (("",), {"dmax": 3.0}),
    (("",), {"dmax": 0}),
    (("KKKKKKEEEEEE",), {"dmax": 0.2}),      # delta/dmax > 1.1
    (("KKKKKKEEEEEE",), {"dmax": 0.52}),     # 1.0 < ratio < 1.1 -> clipped
    (("KKKKKKEEEEEE",), {"dmax": 0.5}),
    (("KKKKKKEEEEEE",), {"dmax": 0.54}),
    (("KKKKKKEEEEEE",), {"dmax": 0.55}),
    (("KKKKKKEEEEEE",), {"dmax": 0.6}),
    (("KKKKKKEEEEEE",), {"dmax": -0.5}),
    # ratios around the (1.0, 1.1) clipping window, incl. both open ends
    (("KKKKKKEEEEEE",), {"dmax": _D12 / 1.05}),
    (("KKKKKKEEEEEE",), {"dmax": _D12 / 1.0999}),
    (("KKKKKKEEEEEE",), {"dmax": _D12 / 1.1}),
    (("KKKKKKEEEEEE",), {"dmax": _D12 / 1.1001}),
    (("KKKKKKEEEEEE",), {"dmax": _D12}),
    (("KKKKKKEEEEEE",), {"dmax": _D12 / 1.0000001}),
    (("KKKKKKEEEEEE",), {"dmax": _D12 * 1.0000001}),
    (("KKKKKKEEEEEE",), {"dmax": np.float64(_D12 / 1.05)}),
    (("KKKKKKEEEEEE",), {"dmax": -_D12 / 1.05}),
    # explicit charge patterns
    (("GKEGKEGSGS",), {"chargePattern": np.array([0, 1, -1, 0, 1, -1, 0, 0, 0, 0])}),
    (("GKEGKEGSGS",), {"chargePattern": np.array([1, 1, 1, 1, 1, -1, -1, -1, -1, -1])}),
    (("GKEGKEGSGS",), {"chargePattern": np.array([0, 0, 0, 0, 0, 0, 0, 0, 0, 0])}),
    (("GKEGKEGSGS",), {"chargePattern": np.array([1, 0, 0, 0, 0, 0, 0, 0, 0, 0])}),
    (("GKEGKEGSGS",), {"chargePattern": np.array([1, 1, 1, 1, 1, 1, 0, 0, 1, 1])}),
    (("GKEGKEGSGS",), {"chargePattern": np.array([2, -3, 0.5, 0, 0, 0, 0, 0, 0, 0])}),
    # length mismatches (longer and shorter than the sequence)
    (("GKE",), {"chargePattern": np.array([1, 0, 0, 0, 0, 0])}),
    (("GKE",), {"chargePattern": np.array([1, 1, 1, 1, 0, 0])}),
    (("GKE",), {"chargePattern": np.array([1, 1, -1, -1, -1, -1])}),
    (("GKE",), {"chargePattern": np.array([1, -1, 0, 0, 0, 0, 0, 0, 0, 0, 0, 0, 0, 0, 0, 0, 0, 0, 0, 0, 0])}),
    (("GKE",), {"chargePattern": np.array([1, -1, 0, 0, 0, 0])}),
    (("GKEGKEGSGSGKEGKEGSGS",), {"chargePattern": np.array([1, 0, 0])}),
    (("GKEGKEGSGSGKEGKEGSGS",), {"chargePattern": np.array([1, 1, 0])}),
    (("GKEGKEGSGSGKEGKEGSGS",), {"chargePattern": np.array([1, -1, 1])}),
    (("GKEGKEGSGSGKEGKEGSGS",), {"chargePattern": np.array([1, -1, 0])}),
    (("GKEGKEGSGSGKEGKEGSGS",), {"chargePattern": np.array([0, 0])}),
    (("K",), {"chargePattern": np.array([1, 1, 1, 1, 1, 1, 1, 1, 0])}),
    (("K",), {"chargePattern": np.array([-1, 0, 0, 0, 0, 0, 0, 0, 0])}),
    (("KKKKKKKKKKKK",), {"chargePattern": np.array([-1])}),
    (("KKKKKKKKKKKK",), {"chargePattern": np.array([0])}),
    # mismatches for which the candidate loops do not run at all (dmax stays -1)
    (("GKE",), {"chargePattern": np.array([1, 1, 1, 1, 0, 0, 0, 0, 0])}),
    (("GKE",), {"chargePattern": np.array([-1, -1, -1, -1, -1, 0, 0, 0, 0, 0, 0])}),
    (("GKE",), {"chargePattern": np.array([0, 0, 0, 0, 1, 1, 1, 1, 1, 1])}),
    (("GKE",), {"chargePattern": np.array([1, 1, 1, 1, 1, -1, -1, -1, -1, -1, -1])}),
    (("GKE",), {"chargePattern": np.array([-1, -1, -1, -1, -1, 1, 1, 1, 1, 1, 1])}),
    (("GK",), {"chargePattern": np.array([1, 1, 1, 1, 1, 1, 1, 1])}),
    # a plain list as charge pattern -> comparison with int fails
    (("GKE",), {"chargePattern": [0, 1, -1]}),
    # both
    (("GKEGKEGSGS",), {"dmax": 0.3, "chargePattern": np.array([0, 0, 0, 0, 0, 0, 0, 0, 0, 0])}),
    (("GKE",), {"dmax": 0.3, "chargePattern": np.array([1, 0, 0, 0, 0, 0])}),
    # validateSeq path
    (("gke gke*sgs",), {"validateSeq": True}),
    # unusual residues
    (("GKEXB",), {}),
    (("GKE1",), {}),
    ((123,), {}),
]
for i, (a, kw) in enumerate(CT):
    run_scripts("ct%02d%r%r" % (i, a, sorted(kw)), a, kw,
                scripts=["k", "kk", "dD", "Dd", "Dk", "kD", "kw"])

# ---------------------------------------------------------------------------
# 4. state tampering between calls (stale / partial caches)
def tamper(seq):
    o = make("tamper[%s]" % seq, seq)
    call("tamper[%s]/dm" % seq, o.deltaMax); snap("t1", o)
    o.seqDeltaMax = "STALE"
    call("tamper[%s]/dmT stale" % seq, o.deltaMax, True); snap("t2", o)
    o.dmax = -1
    call("tamper[%s]/dm reset" % seq, o.deltaMax); snap("t3", o)
    call("tamper[%s]/dmT after reset" % seq, o.deltaMax, True); snap("t4", o)
    o.seqDeltaMax = None
    call("tamper[%s]/kappa" % seq, o.kappa); snap("t5", o)
    call("tamper[%s]/dmT none" % seq, o.deltaMax, True); snap("t6", o)
    o.dmax = 123.0
    call("tamper[%s]/dmT big" % seq, o.deltaMax, True); snap("t7", o)
    o.dmax = 123.0
    call("tamper[%s]/kappa big" % seq, o.kappa); snap("t8", o)
    o.seqDeltaMax = ""
    call("tamper[%s]/dmT emptystr" % seq, o.deltaMax, True); snap("t9", o)
    o.dmax = 0
    o.seqDeltaMax = None
    call("tamper[%s]/kappa zero" % seq, o.kappa); snap("t10", o)
    call("tamper[%s]/dmT zero" % seq, o.deltaMax, True); snap("t11", o)
    # swap residues on a live object (seq changes, caches do not)
    if o.len > 3:
        call("tamper[%s]/swapRes" % seq, o.swapRes, 0, o.len - 1)
        call("tamper[%s]/kappa after swap" % seq, o.kappa); snap("t12", o)
        call("tamper[%s]/dmT after swap" % seq, o.deltaMax, True); snap("t13", o)


for s in ["GKEGKEGSGS", "GSGSGS", "KKKKGGGGGGG", "KKKKKKKG", "KKKEEEEE", "GSGSGSGSGSGSGSGSGSKEKE", ""]:
    try:
        tamper(s)
    except BaseException as e:  # noqa
        RESULTS.append("tamper[%s] aborted %s: %s" % (s, type(e).__name__, e))

# ---------------------------------------------------------------------------
# 5. public callers of kappa / deltaMax
for s in ["GKEGKEGSGSPPLLKKEE", "GSGSGS", "PPPPGGGG", "KKKKKK", "ACDEFGHIKLMNPQRSTVWY",
          "SSSKESSSTTYYKE", "EESTYKK", ""]:
    o = make("pub[%s]" % s, s)
    if o is None:
        continue
    call("pub[%s]/Omega" % s, o.Omega)
    call("pub[%s]/kappa_X(ED,KR)" % s, o.kappa_X, ["E", "D"], ["K", "R"])
    call("pub[%s]/kappa_X(PEDKR)" % s, o.kappa_X, ["P", "E", "D", "K", "R"])
    call("pub[%s]/kappa_X(G)" % s, o.kappa_X, ["G"], ["S"])
    call("pub[%s]/kappa_X(bad)" % s, o.kappa_X, ["Z"])
    call("pub[%s]/kappa_at_maxPhos" % s, o.kappa_at_maxPhos)
    call("pub[%s]/setPhos" % s, o.setPhosPhoSites, [1, 2, 3])
    call("pub[%s]/kappaDistPhos" % s, o.calculateKappaDistOfPhosphoStates)
    call("pub[%s]/kappa" % s, o.kappa)
    snap("pub[%s]" % s, o)

# permutation helpers use random numbers; make sure the stream is untouched
random.seed(7)
np.random.seed(7)
o = Sequence("GKEGKEGSGSPPLLKKEEDDRR")
call("rng/kappa", o.kappa)
call("rng/dmT", o.deltaMax, True)
RESULTS.append("rng py=%r np=%r" % (random.random(), float(np.random.rand())))

# class surface (public names only)
RESULTS.append("public=" + ",".join(sorted(n for n in dir(Sequence) if not n.startswith("_"))))

# ---------------------------------------------------------------------------
blob = "\n".join(RESULTS)
print("records:", len(RESULTS))
print("sha256:", hashlib.sha256(blob.encode("utf-8")).hexdigest())
# a few human-readable lines as well
for line in RESULTS[:6] + RESULTS[-6:]:
    print(line[:300])
if os.environ.get("EQUIV_DUMP"):
    with open(os.environ["EQUIV_DUMP"], "w") as fh:
        fh.write(blob + "\n")
