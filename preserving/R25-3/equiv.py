"""Differential check for plotting.single_plot / multiple_plot /
finalize_DasPappu / finalize_uversky and their public callers.

Run once with cwd=/tmp/seed/R25 (changed tree) and once with cwd=/repo
(unchanged tree); the printed output must be identical.
"""
import os
import sys
sys.path.insert(0, os.getcwd())

import hashlib
import tempfile
import warnings

import matplotlib
matplotlib.use("Agg")
import matplotlib.pyplot as plt
import numpy as np

warnings.simplefilter("ignore")

from localcider.backend import plotting
from localcider import plots
from localcider.sequenceParameters import SequenceParameters

assert os.path.abspath(plotting.__file__).startswith(os.getcwd()), plotting.__file__


def r(v):
    """deterministic repr of numbers / arrays"""
    if v is None:
        return "None"
    a = np.asarray(v, dtype=float)
    return np.array2string(a, precision=12, floatmode="fixed", threshold=10**6)


def fontdesc(fp):
    return (fp.get_size(), fp.get_weight(), fp.get_style(), tuple(fp.get_family()))


def textdesc(t):
    return (t.get_text(), r(t.get_position()), fontdesc(t.get_fontproperties()))


def describe_figure():
    """Describe every open figure (contents only, no rendering)."""
    out = []
    for num in plt.get_fignums():
        fig = plt.figure(num)
        out.append(("fig", num, len(fig.axes)))
        for ax in fig.axes:
            out.append(("xlim", r(ax.get_xlim()), "ylim", r(ax.get_ylim())))
            out.append(("title", textdesc(ax.title)))
            out.append(("xlabel", textdesc(ax.xaxis.label)))
            out.append(("ylabel", textdesc(ax.yaxis.label)))
            for p in ax.patches:
                out.append(("patch", type(p).__name__, r(p.get_xy()),
                            r(p.get_facecolor()), r(p.get_edgecolor()),
                            p.get_alpha(), p.get_zorder(), p.get_fill()))
            for c in ax.collections:
                out.append(("coll", type(c).__name__, r(c.get_offsets()),
                            r(c.get_sizes()), r(c.get_facecolor()),
                            r(c.get_edgecolor()), c.get_zorder(),
                            len(c.get_paths()), r(c.get_paths()[0].vertices[:3])))
            for t in ax.texts:
                out.append(("text", type(t).__name__, textdesc(t),
                            r(getattr(t, "xy", None)), t.get_fontsize(),
                            t.get_zorder()))
            out.append(("nlines", len(ax.lines), "nimages", len(ax.images)))
            # order of all children (draw order bookkeeping)
            out.append(("children", [type(ch).__name__ for ch in ax.get_children()]))
            leg = ax.get_legend()
            if leg is None:
                out.append(("legend", None))
            else:
                out.append(("legend",
                            [(t.get_text(), fontdesc(t.get_fontproperties()))
                             for t in leg.get_texts()],
                            [(type(h).__name__, r(h.get_facecolor()), h.get_alpha())
                             for h in leg.legend_handles]))
    return out


LINES = []


def emit(tag, payload):
    s = repr(payload)
    LINES.append(tag + " " + s)
    print(tag, hashlib.sha256(s.encode()).hexdigest()[:16], s[:150].replace("\n", " "))


def run(tag, fn, *a, **k):
    """call fn, record result identity/exception + figure contents"""
    plt.close("all")
    try:
        res = fn(*a, **k)
        if res is plt:
            status = "returned pyplot"
        else:
            status = "returned " + repr(res)
    except BaseException as e:  # noqa
        status = "raised %s: %s" % (type(e).__name__, e)
    emit(tag, (status, describe_figure()))
    plt.close("all")


class Noisy(object):
    """a fake pyplot that records every call in order"""

    def __init__(self, nfill=1):
        self.log = []
        self.nfill = nfill

    def __getattr__(self, name):
        def f(*a, **k):
            def norm(v):
                if isinstance(v, matplotlib.font_manager.FontProperties):
                    return ("FP",) + fontdesc(v)
                if isinstance(v, (list, tuple)):
                    return type(v).__name__, [norm(x) for x in v]
                return v
            self.log.append((name, [norm(x) for x in a],
                             sorted((kk, norm(vv)) for kk, vv in k.items())))
            if name == "fill":
                return ["patch%d" % len(self.log)] * self.nfill
            return None
        return f


# ---------------------------------------------------------------- single_plot
xs = [0, 0.0, 0.1, 0.5, 0.79, 0.8, 0.8000001, 0.81, 0.9, 1, 1.0, 1.7, -0.2,
      "0.3", "0.85", np.float64(0.95), True, float("nan"), float("inf")]
ys = [0, 0.3, 0.89, 0.9, 0.9000001, 0.95, 1, -0.5, "0.92", np.float32(0.9),
      float("nan")]
labels = ["", "a", "label", "a much longer label than usual " * 2, " ", 0, None,
          ("x",), u"κ"]
k = 0
for i, x in enumerate(xs):
    for j, y in enumerate(ys):
        lab = labels[(i + j) % len(labels)]
        for fs in ((10, 3) if (i + j) % 4 == 0 else (10,)):
            k += 1
            run("single_plot#%d" % k, plotting.single_plot, x, y, lab, fs)
run("single_plot.defaults", plotting.single_plot, 0.2, 0.3)
run("single_plot.kw", plotting.single_plot, y=0.95, x=0.85, fontSize=14, label="kw")
for bad in [("abc", 0.2), (0.2, "abc"), (None, 0.2), (0.2, None), ([1], 2),
            ("abc", "def"), (None, "abc")]:
    run("single_plot.bad%r" % (bad,), plotting.single_plot, bad[0], bad[1], "lab")
    run("single_plot.bad-nolab%r" % (bad,), plotting.single_plot, bad[0], bad[1])
# label with no len() and extreme / non-extreme x
run("single_plot.intlabel.hi", plotting.single_plot, 0.9, 0.5, 5)
run("single_plot.intlabel.lo", plotting.single_plot, 0.5, 0.5, 5)
run("single_plot.nonelabel.hi", plotting.single_plot, 0.9, 0.95, None)
# repeated calls accumulate on the same axes
plt.close("all")
plotting.single_plot(0.1, 0.2, "one")
plotting.single_plot(0.9, 0.95, "two", 7)
plotting.single_plot(0.4, 0.4)
emit("single_plot.repeated", describe_figure())

# -------------------------------------------------------------- multiple_plot
cases = [
    ([], [], [], 10),
    ([0.1], [0.2], [], 10),
    ([0.1], [0.2], ["a"], 10),
    ([0.1, 0.5, 0.9], [0.2, 0.3, 0.95], [], 8),
    ([0.1, 0.5, 0.9], [0.2, 0.3, 0.95], ["a", "b", "c"], 8),
    ([0.1, 0.5, 0.9], [0.2, 0.3, 0.95], ("a", "", "c"), 12),
    ((0.1, 0.5), (0.2, 0.3), (), 10),
    (np.array([0.1, 0.5]), np.array([0.2, 0.3]), [], 10),
    (np.array([0.1, 0.5]), np.array([0.2, 0.3]), np.array(["p", "q"]), 10),
    (np.array([0.1, 0.5]), [0.2, 0.3], np.array([]), 10),
    ([0.1, 0.5], [0.2], [], 10),
    ([0.1], [0.2, 0.4], [], 10),
    ([0.1, 0.5], [0.2, 0.3], ["a"], 10),
    ([0.1, 0.5], [0.2, 0.3], ["a", "b", "c"], 10),
    ([0.1, 0.5], [0.2], ["a"], 10),
    ([0.1, 0.5], [0.2], ["a", "b"], 10),
    ([], [], ["a"], 10),
    ([], [0.3], [], 10),
    ([0.3], [], [], 10),
    ([0.1, 0.2], [0.3, 0.4], "", 10),
    ([0.1, 0.2], [0.3, 0.4], "ab", 10),
    ([0.1, 0.2], [0.3, 0.4], "abc", 10),
    ({0.1: 1, 0.2: 2}, [0.3, 0.4], {}, 10),
    ([0.1, 0.2], [0.3, 0.4], {"a": 1, "b": 2}, 10),
    (["0.1", 0.2], [0.3, 0.4], [], 10),
    ([0.1, 0.2], ["0.3", 0.4], [], 10),
    ([0.1, 0.2], [0.3, None], [], 10),
    ([None, 0.2], [0.3, 0.4], ["n", "m"], 10),
    ([0.1, 0.2], [0.3, 0.4], [1, None], 10),
    (None, [0.3], [], 10),
    ([0.3], None, [], 10),
    ([0.3], [0.3], None, 10),
    (None, None, None, 10),
    (None, None, [], 10),
    (5, [0.3], ["a"], 10),
    ([0.3], 5, ["a"], 10),
    (None, [0.3], ["a"], 10),
    (None, 5, ["a"], 10),
    (iter([0.1]), [0.2], ["a"], 10),
    ([0.1], iter([0.2]), ["a"], 10),
    ([0.1], [0.2], iter(["a"]), 10),
    (range(2), range(2), [], 10),
    ([1.5, -0.5], [2.0, -1.0], ["out", "neg"], 10),
    ([0.5, 0.5], [0.5, 0.5], ["dup", "dup"], 0),
    ([0.5], [0.5], ["fs"], None),
    ([0.5], [0.5], ["fs"], "large"),
]
for n, (a, b, c, fs) in enumerate(cases):
    run("multiple_plot#%d" % n, plotting.multiple_plot, a, b, c, fs)


# the default (empty) label list must not be aliased / mutated
class L(list):
    pass


shared = []
run("multiple_plot.shared1", plotting.multiple_plot, [0.1, 0.2], [0.3, 0.4], shared, 10)
emit("multiple_plot.shared-after", shared)
shared2 = L()
run("multiple_plot.shared2", plotting.multiple_plot, [0.1, 0.2], [0.3, 0.4], shared2, 10)
emit("multiple_plot.shared2-after", (list(shared2), type(shared2).__name__))
plt.close("all")
plotting.multiple_plot([0.1], [0.2], ["x"], 10)
plotting.multiple_plot([0.3, 0.4], [0.2, 0.9], [], 6)
plotting.single_plot(0.85, 0.95, "mixed")
emit("multiple_plot.repeated", describe_figure())


# objects that log how often / in which order len() and iter() are used
class Spy(object):
    def __init__(self, name, data, log):
        self.name, self.data, self.log = name, data, log

    def __len__(self):
        self.log.append("len:" + self.name)
        return len(self.data)

    def __iter__(self):
        self.log.append("iter:" + self.name)
        return iter(self.data)


for n, (a, b, c) in enumerate([
        ([0.1, 0.2], [0.3, 0.4], []),
        ([0.1, 0.2], [0.3, 0.4], ["a", "b"]),
        ([0.1, 0.2], [0.3], []),
        ([0.1, 0.2], [0.3, 0.4], ["a"]),
        ([0.1], [0.3, 0.4], ["a"]),
        ([], [], [])]):
    log = []
    run("multiple_plot.spy#%d" % n, plotting.multiple_plot,
        Spy("x", a, log), Spy("y", b, log), Spy("l", c, log), 10)
    emit("multiple_plot.spylog#%d" % n, log)

# ------------------------------------------------------------- finalize_*
for fin in (plotting.finalize_DasPappu, plotting.finalize_uversky):
    name = fin.__name__
    n = 0
    for legendOn in (True, False, 1, 0, "yes", "", None, [], [0]):
        for title in ("Diagram of states", "", "T\nwo"):
            for lims in ((1, 1), (0.5, 0.7), (2, 3), (0, 1), (1, 0), (-1, 1)):
                n += 1
                if n % 3 and legendOn not in (True, False):
                    continue
                run("%s#%d" % (name, n), fin, plt, legendOn, title, lims[0], lims[1])
    for bad in (("a", 1), (1, "b"), (None, 1), (1, None), ([1], 1),
                (float("nan"), 1), (1, float("inf"))):
        run("%s.badlim%r" % (name, bad), fin, plt, True, "t", bad[0], bad[1])
        run("%s.badlim-nolegend%r" % (name, bad), fin, plt, False, "t", bad[0], bad[1])
    for badtitle in (None, 5, ["x"]):
        run("%s.badtitle%r" % (name, badtitle), fin, plt, True, badtitle, 1, 1)
    # on top of existing content, and twice
    plt.close("all")
    plotting.single_plot(0.3, 0.4, "pt")
    r1 = fin(plt, True, "first", 1, 1)
    emit(name + ".after-single", (r1 is plt, describe_figure()))
    r2 = fin(plt, False, "second", 0.5, 0.5)
    emit(name + ".twice", (r2 is plt, describe_figure()))
    plt.close("all")
    # exact call sequence made on the plotting object that is passed in
    for legendOn in (True, False, 0, "x"):
        for nfill in (1, 2, 0):
            fake = Noisy(nfill)
            try:
                res = fin(fake, legendOn, "ttl", 0.4, 0.6)
                st = "same object" if res is fake else repr(res)
            except BaseException as e:  # noqa
                st = "raised %s: %s" % (type(e).__name__, e)
            emit("%s.calls legendOn=%r nfill=%d" % (name, legendOn, nfill),
                 (st, fake.log))

    # a truthiness object: how many times is legendOn tested?
    class Flag(object):
        def __init__(self, v):
            self.v, self.n = v, 0

        def __bool__(self):
            self.n += 1
            return self.v
    for v in (True, False):
        fl = Flag(v)
        run("%s.flag%r" % (name, v), fin, plt, fl, "t", 1, 1)
        emit("%s.flagcount%r" % (name, v), fl.n)

# --------------------------------------------------- public callers (getFig)
pub = [
    ("show_single_phasePlot", plots.show_single_phasePlot, [
        ((0.1, 0.2), {}), ((0.9, 0.95, "lab"), {}), ((0.5, 0.5, "x", "My title", False), {}),
        ((0.3, 0.3), dict(xLim=0.5, yLim=0.6, fontSize=14, label="q")),
        ((1.2, 0.3), {}), ((0.3, -0.1), {}), (("a", 0.3), {}), ((0.3, "b"), {}),
        ((1, 1, "corner"), {}), ((0, 0, "origin"), {})]),
    ("show_multiple_phasePlot", plots.show_multiple_phasePlot, [
        (([0.1, 0.5], [0.2, 0.3]), {}), (([0.1, 0.5], [0.2, 0.3], ["a", "b"]), {}),
        (([0.1, 0.5], [0.2, 0.3], ["a"]), {}), (([0.1, 0.5], [0.2]), {}),
        (([], []), {}), (([0.1, 1.5], [0.2, 0.3]), {}),
        (([0.1], [0.2], ["z"], "T", False, 0.6, 0.7, 5), {})]),
    ("show_single_uverskyPlot", plots.show_single_uverskyPlot, [
        ((0.4, 0.1), {}), ((0.95, 0.85, "lab"), {}),
        ((0.5, 0.5, "x", "My title", False), {}),
        ((0.3, 0.3), dict(xLim=0.5, yLim=0.6, fontSize=14, label="q")),
        ((1.2, 0.3), {}), (("a", 0.3), {})]),
    ("show_multiple_uverskyPlot", plots.show_multiple_uverskyPlot, [
        (([0.4, 0.5], [0.2, 0.3]), {}), (([0.4, 0.5], [0.2, 0.3], ["a", "b"]), {}),
        (([0.4, 0.5], [0.2, 0.3], ["a"]), {}), (([0.4, 0.5], [0.2]), {}),
        (([], []), {}),
        (([0.4], [0.2], ["z"], "T", False, 0.6, 0.7, 5), {})]),
]
for name, fn, calls in pub:
    for n, (a, kw) in enumerate(calls):
        kw = dict(kw)
        kw["getFig"] = True
        run("%s#%d" % (name, n), fn, *a, **kw)

# backend show_* directly (argument order differs for uversky)
run("backend.show_single_uverskyPlot", plotting.show_single_uverskyPlot,
    0.4, 0.1, "bk", getFig=True)
run("backend.show_multiple_uverskyPlot", plotting.show_multiple_uverskyPlot,
    [0.4, 0.45], [0.1, 0.2], ["b1", "b2"], getFig=True)

# save_* : file must be written, figure closed
tmp = tempfile.mkdtemp()
for name, fn, a, kw in [
        ("save_single_phasePlot", plots.save_single_phasePlot, (0.2, 0.3), dict(label="s")),
        ("save_multiple_phasePlot", plots.save_multiple_phasePlot, ([0.2, 0.7], [0.3, 0.1]), dict(label=["s", "t"])),
        ("save_multiple_phasePlot.badlen", plots.save_multiple_phasePlot, ([0.2, 0.7], [0.3, 0.1]), dict(label=["s"])),
        ("save_single_uverskyPlot", plots.save_single_uverskyPlot, (0.4, 0.3), dict(label="s", legendOn=False)),
        ("save_multiple_uverskyPlot", plots.save_multiple_uverskyPlot, ([0.4, 0.5], [0.3, 0.1]), {})]:
    plt.close("all")
    fname = os.path.join(tmp, name.replace(".", "_"))
    try:
        res = fn(*a, filename=fname, **kw)
        st = "returned %r" % (res,)
    except BaseException as e:  # noqa
        st = "raised %s: %s" % (type(e).__name__, e)
    written = sorted(os.listdir(tmp))
    sizes = [os.path.getsize(os.path.join(tmp, w)) for w in written]
    emit(name, (st, written, sizes, plt.get_fignums()))
    plt.close("all")

# SequenceParameters front-ends
for seq in ("MEEEKKKKSSTTPPGQQNNDDRRAAWWFFYY", "KKKKKKKKKKEEEEEEEEEE", "GSGSGSGSGS",
            "DDDDDDDDDDDDDDDDDDDDA", "RRRRRRRRRRRRRRRRRRRRA"):
    sp = SequenceParameters(seq)
    for lab in ("", "protein"):
        run("SP.phase %s %r" % (seq[:6], lab), sp.show_phaseDiagramPlot,
            label=lab, getFig=True)
        run("SP.uversky %s %r" % (seq[:6], lab), sp.show_uverskyPlot,
            label=lab, getFig=True)
    run("SP.phase.nolegend " + seq[:6], sp.show_phaseDiagramPlot, legendOn=False,
        title="x", xLim=0.5, yLim=0.5, fontSize=6, getFig=True)

print("TOTAL", len(LINES), hashlib.sha256("\n".join(LINES).encode()).hexdigest())
