"""Differential script for R3 (write_compfile via sorted()/comprehension/writelines;
get_kappa_after_phosphorylation emptiness test).

Run once with cwd=/tmp/seed/R07 (changed) and once with cwd=/repo (unchanged);
the printed output must be identical.
"""
import os, sys
sys.path.insert(0, os.getcwd())
import io, contextlib, hashlib, tempfile, shutil

import localcider
assert os.path.abspath(localcider.__file__).startswith(os.getcwd()), localcider.__file__
from localcider.sequenceParameters import SequenceParameters
from localcider.backend.sequence import Sequence
import localcider.sequenceParameters as spmod

# status messages are silenced by backend/config.py (HUSH_ALL); make the calls observable.
# 'status_message' is a module global of sequenceParameters in both trees.
def _loud_status(message):
    print('STATUS: %s' % message)
spmod.status_message = _loud_status

LINES = []


def run(tag, fn):
    buf = io.StringIO()
    try:
        with contextlib.redirect_stdout(buf):
            out = ('OK', repr(fn()))
    except BaseException as e:  # noqa
        out = ('EXC', type(e).__name__, str(e))
    LINES.append(repr((tag, out, buf.getvalue())))


def slurp(path):
    with open(path, 'rb') as fh:
        return fh.read()


def listing():
    out = []
    for root, dirs, files in os.walk('.'):
        dirs.sort()
        for f in sorted(files):
            p = os.path.join(root, f)
            out.append((p, slurp(p)))
    return out


SEQS = {
    'mixed': "MEEEKKKKSTTYQPPGNRDE",
    'single': "A",
    'polyA': "A" * 24,
    'all20': "ACDEFGHIKLMNPQRSTVWY",
    'thirds': "ACD" * 7 + "E",            # fractions needing rounding
    'long': "MKVLAAGIVALLLAAGCSSAQEDKRRSTYPNHWFMKVLAAGIVEEDDKKRRSTSTSYQQNNGG" * 5,
    'lower+ws': "mkv laag\tiveedd\nkkrr",
    'neutral': "GSGSGSQNQNQNTTTT",
    'posonly': "KKKKGGGGRRRRSSSS",
    'phos': "MSSTTYYEEKKGSTYGSTYEEKK",
}

workdir = tempfile.mkdtemp(prefix='r3equiv')
os.chdir(workdir)
try:
    os.mkdir('adir')
    for name, seq in sorted(SEQS.items()):
        sp = SequenceParameters(seq)
        before = sp.get_amino_acid_fractions()
        run(('default-name', name), lambda: sp.write_compfile())
        run(('content-default', name), lambda: slurp('compfile'))
        run(('named', name), lambda: sp.write_compfile('out_%s.txt' % name))
        run(('kw', name), lambda: sp.write_compfile(compfile_name=os.path.join('adir', name)))
        # overwriting a longer, pre-existing file truncates it
        with open('pre_%s' % name, 'w') as fh:
            fh.write("x" * 5000)
        run(('overwrite', name), lambda: sp.write_compfile('pre_%s' % name))
        # repeated call on one object
        run(('again', name), lambda: [sp.write_compfile('twice_%s' % name), sp.write_compfile('twice_%s' % name)])
        # failure modes
        run(('missing-dir', name), lambda: sp.write_compfile(os.path.join('nodir', 'f')))
        run(('is-dir', name), lambda: sp.write_compfile('adir'))
        run(('none', name), lambda: sp.write_compfile(None))
        run(('empty', name), lambda: sp.write_compfile(''))
        run(('bytes', name), lambda: sp.write_compfile(b'bytesname_' + name.encode()))
        run(('list', name), lambda: sp.write_compfile(['a']))
        # no effect on object state / on later fraction queries
        run(('fractions-unchanged', name), lambda: (before == sp.get_amino_acid_fractions(), sorted(sp.get_amino_acid_fractions().items())))
        run(('vars', name), lambda: (sorted(vars(sp)), sorted(vars(sp.SeqObj))))

        # ---- get_kappa_after_phosphorylation
        run(('kap-none', name), lambda: sp.get_kappa_after_phosphorylation())
        sites = sp.get_all_phosphorylatable_sites()
        run(('sites', name), lambda: sites)
        run(('set-empty', name), lambda: sp.set_phosphosites([]))
        run(('kap-empty', name), lambda: sp.get_kappa_after_phosphorylation())
        if sites:
            run(('set-1', name), lambda: sp.set_phosphosites(sites[:1]))
            run(('kap-1', name), lambda: (sp.get_kappa_after_phosphorylation(), sp.get_phosphosites()))
            run(('set-all', name), lambda: sp.set_phosphosites(sites))
            run(('kap-all', name), lambda: (sp.get_kappa_after_phosphorylation(), sp.get_kappa_after_phosphorylation(), sp.get_phosphosites()))
            run(('compfile-with-phos', name), lambda: sp.write_compfile('phos_%s' % name))
            run(('clear', name), lambda: sp.clear_phosphosites())
            run(('kap-cleared', name), lambda: (sp.get_kappa_after_phosphorylation(), sp.get_phosphosites(), sp.get_kappa()))
        run(('bad-sites', name), lambda: sp.set_phosphosites([1000]))
        run(('kap-after-bad', name), lambda: sp.get_kappa_after_phosphorylation())

    # hand-installed Sequence objects (what sequencePermutants does), incl. residues outside the 20
    for name, raw in [('manual-ok', 'mkvlaagiv'), ('manual-X', 'ACDXX'), ('manual-empty', ''), ('manual-B', 'BZ')]:
        sp = SequenceParameters("A")
        run(('mk', name), lambda: setattr(sp, 'SeqObj', Sequence(raw)))
        run(('write', name), lambda: sp.write_compfile('manual_%s' % name))
        run(('kap', name), lambda: sp.get_kappa_after_phosphorylation())
    # SeqObj route and shuffled copies (composition is permutation invariant)
    sp = SequenceParameters(SeqObj=Sequence("GSGSEKEKDRDRPPYYWWHHCC"))
    run(('seqobj',), lambda: sp.write_compfile('seqobj'))
    run(('shuffled',), lambda: sp.get_shuffled_sequence().write_compfile('shuffled'))
    run(('same',), lambda: slurp('seqobj') == slurp('shuffled'))

    # every file that now exists, with exact bytes
    for p, content in listing():
        LINES.append(repr(('file', p, content)))
finally:
    os.chdir('/')
    shutil.rmtree(workdir, ignore_errors=True)

LINES.append(repr(sorted(n for n in dir(SequenceParameters) if not n.startswith('_'))))
blob = "\n".join(LINES)
print("n_cases", len(LINES))
print("sha256", hashlib.sha256(blob.encode('utf-8')).hexdigest())
print("n_exceptions", sum(1 for l in LINES if "('EXC'" in l))
for l in [l for l in LINES if l.startswith("('file'")][:2] + LINES[:3]:
    print(l[:500])
if os.environ.get("EQUIV_DUMP"):
    open(os.environ["EQUIV_DUMP"], "w").write(blob)
