"""
Differential script. Run once with cwd = changed tree and once with cwd = unchanged tree
and compare the printed output (must be identical).

    cd /tmp/seed/R14 && /venv/bin/python /tmp/seed/R14_out/<X>/equiv.py > /tmp/new.txt
    cd /repo         && /venv/bin/python /tmp/seed/R14_out/<X>/equiv.py > /tmp/old.txt
    diff /tmp/old.txt /tmp/new.txt
"""
import os
import sys
sys.path.insert(0, os.getcwd())

import copy
import hashlib
import random
import warnings

warnings.simplefilter('ignore')

import numpy as np

import localcider
from localcider.backend import sequence as seqmod
from localcider.backend.sequence import Sequence
from localcider.backend.restable import ResTable
from localcider.backend.data import aminoacids
from localcider.sequenceParameters import SequenceParameters

assert os.path.realpath(localcider.__file__).startswith(os.path.realpath(os.getcwd())), localcider.__file__


# ---------------------------------------------------------------- canonical form
def canon(x):
    if isinstance(x, (bool, np.bool_)):
        return ('bool', type(x).__name__, bool(x))
    if isinstance(x, (float, np.floating)):
        return (type(x).__name__, float(x).hex())
    if isinstance(x, (int, np.integer)):
        return (type(x).__name__, int(x))
    if isinstance(x, np.ndarray):
        return ('ndarray', str(x.dtype), x.shape, [canon(v) for v in x.ravel().tolist()])
    if isinstance(x, dict):
        return ('dict', [(canon(k), canon(v)) for k, v in x.items()])   # order matters
    if isinstance(x, (list, tuple)):
        return (type(x).__name__, [canon(v) for v in x])
    if isinstance(x, (Sequence, SequenceParameters)):
        return ('obj', type(x).__name__)
    if hasattr(x, '__dict__') and type(x).__name__ == 'Residue':
        return ('Residue', canon(dict(vars(x))))
    return (type(x).__name__, repr(x))


def call(f, *a, **kw):
    try:
        return ('ok', canon(f(*a, **kw)))
    except BaseException as e:    # noqa
        ctx = type(e.__context__).__name__ if e.__context__ is not None else None
        return ('exc', type(e).__name__, str(e), repr(e.args), ctx)


def state(obj):
    d = vars(obj)
    out = []
    for k in sorted(d):
        v = d[k]
        if k in ('ComplexityObject',):
            out.append((k, type(v).__name__))
        else:
            out.append((k, canon(v)))
    return out


SECTIONS = []


def section(name, records):
    h = hashlib.sha256(repr(records).encode('utf-8', 'surrogatepass')).hexdigest()
    SECTIONS.append(h)
    print("%-28s n=%-6d %s" % (name, len(records), h))


# ---------------------------------------------------------------- inputs
class MyStr(str):
    pass


rnd = random.Random(20240614)
AA = 'ACDEFGHIKLMNPQRSTVWY'


def rseq(n, alphabet=AA):
    return ''.join(rnd.choice(alphabet) for _ in range(n))


seqs = ['', 'A', 'K', 'D', 'P', 'Y', 'C', 'H', 'G', 'W',
        'AAAAAAAA', 'GGSGGSGGS', 'PPPPPPPP', 'QQQQNNNN',
        'KKKKKKKKKK', 'RRRRRRRRRRRRRRRRRRRRRRRRR', 'R' * 200, 'K' * 120,
        'DDDDDDDDDD', 'E' * 150, 'D' * 77, 'Y' * 30, 'C' * 30, 'H' * 40,
        'EKEKEKEKEKEKEKEK', 'EEEEEEEEKKKKKKKK', 'KR' * 40 + 'Y', 'DE' * 40 + 'H',
        'RY' * 25, 'RC' * 25, 'KY' * 25, 'HD' * 31, 'RRRRRRRRRD', 'DDDDDDDDDR',
        'acdefghiklmnpqrstvwy', 'AcDeFgHiKl', AA, AA[::-1], AA * 7,
        'MEEPQSDPSVEPPLSQETFSDLWKLLPENNVLSPLPSQAMDDLMLSPDDIEQWFTEDPGPDEAPRMPEAAPPVAPAPAAPTPAAPAPAPSWPLSSSVPSQKTYQGSYGFRLGFLHSGTAKSVTCTYSPALNKMFCQLAKTCPVQLWVDSTPPPGTRVRAMAIYKQSQHMTEVVRRCPHHERCSDSDGLAPPQHLIRVEGNLRVEYLDDRNTFRHSVVVPYEPPEVGSDCTTIHYNYMCNSSCMGGMNRRPILTIITLEDSSGNLLGRNSFEVRVCACPGRDRRTEEENLRKKGEPHHELPPGSTKRALPNNTSSSPQPKKKPLDGEYFTLQIRGRERFEMFRELNEALELKDAQAGKEPGGSRAHSSHLKSKKGQSTSRHKKLMFKTEGPDSD',
        ]
for n in (2, 3, 5, 7, 8, 9, 15, 16, 17, 33, 64, 100, 257, 1000):
    seqs.append(rseq(n))
for n in (6, 20, 50, 120):
    seqs.append(rseq(n, 'AGSTNQPVILMFW'))       # nothing titratable
    seqs.append(rseq(n, 'KRH'))
    seqs.append(rseq(n, 'EDYC'))
    seqs.append(rseq(n, 'KRHEDYC'))
    seqs.append(rseq(n, 'RRRRRRRRRY'))
    seqs.append(rseq(n, 'GKE'))

# sequences with unusual residues - only constructable with an explicit charge pattern
odd = ['AXA', 'XAAK', 'AKDEX', 'B', 'KZ', 'A A', 'A-K', 'A+D0', 'AK*', 'J' * 5, 'KDU', 'ACDEFGHIKLMNPQRSTVWYX',
       'XACDEFGHIKLMNPQRSTVWY', 'AC1', 'ßA', 'Aß', 'KKO', 'a b', 'AKD\n', 'ZX', 'AXZ', 'AZX']
# upper() changes the length of these (self.len != len(self.seq))
lenchange = ['ß', 'AßK', 'KDß', 'ßßß', 'EßEßR']

PHS = [None, 0, 0.0, 1, 2.5, 3.9, 4.1, 6.5, 7, 7.0, 7.4, 8.5, 10, 10.0, 10.1, 12.5, 14, 14.0, -3, -3.5, 20.25,
       400, 400.0, -400.0, 1e6, np.float64(7.4), np.float32(6.5), np.int64(7), True, float('nan'), float('inf'),
       -float('inf'), '7.4', [7.4], (7,), np.array([3.0, 7.0, 11.0]), np.array([]), np.array(7.4), 7 + 0j, b'7']
MODES = ['', 'TOTAL', 'total', 'NET', None, 0, 'TOTAL ']
PPII_MODES = ['hilser', 'creamer', 'kallenbach', 'HILSER', 'Creamer', 'KallenBach', 'hilser ', '', 'xyz', None, 3,
              ['hilser'], b'hilser']


def build(s):
    """ returns list of (label, object-or-exception-record) """
    out = []
    r = call(lambda: None)
    try:
        out.append(('plain', Sequence(s)))
    except BaseException as e:    # noqa
        out.append(('plain', None))
        r = ('exc', type(e).__name__, str(e))
    try:
        out.append(('cp', Sequence(s, chargePattern=np.zeros(len(s.upper()) if len(s) else 1))))
    except BaseException as e:    # noqa
        out.append(('cp', None))
    return out, r


def exercise(obj, full=True):
    rec = []
    rec.append(('state0', state(obj)))
    for name in ('fraction_disorder_promoting', 'amino_acid_fraction', 'molecular_weight', 'isoelectric_point',
                 'meanHydropathy', 'uverskyHydropathy', 'meanWWHydropathy', 'cumMeanHydropathy',
                 'FCR', 'FER', 'NCPR', 'mean_net_charge', 'charge_at_pH', 'FPPII_chain',
                 'countPos', 'countNeg', 'Fplus', 'Fminus', 'toString'):
        rec.append((name, call(getattr(obj, name))))
        rec.append((name + '/again', call(getattr(obj, name))))
    rec.append(('state1', state(obj)))
    for m in PPII_MODES:
        rec.append(('FPPII', repr(m), call(obj.FPPII_chain, m)))
        rec.append(('FPPIIkw', repr(m), call(obj.FPPII_chain, mode=m)))
    phs = PHS if full else PHS[:12]
    for pH in phs:
        for fn in ('FCR', 'FER', 'NCPR', 'mean_net_charge'):
            rec.append((fn, repr(pH), call(getattr(obj, fn), pH)))
        rec.append(('cpH', repr(pH), call(obj.charge_at_pH, pH)))
        for mode in (MODES if full else MODES[:3]):
            for norm in (False, True, 0, 1, None, 'x'):
                rec.append(('cpH', repr(pH), repr(mode), repr(norm), call(obj.charge_at_pH, pH, mode, norm)))
                rec.append(('cpHkw', repr(pH), repr(mode), repr(norm),
                            call(obj.charge_at_pH, pH=pH, mode=mode, normalize=norm)))
    rec.append(('pI/3', call(obj.isoelectric_point)))
    rec.append(('state2', state(obj)))
    return rec


# ---------------------------------------------------------------- 1. Sequence objects
records = []
for s in seqs + odd + lenchange:
    objs, r = build(s)
    records.append(('build', s, r))
    for label, o in objs:
        if o is None:
            records.append((s, label, 'unbuildable'))
            continue
        records.append((s, label, exercise(o, full=(len(s) < 70))))
section('sequence objects', records)

# validated sequences (whitespace stripping, messages)
records = []
for s in ['ACDK', ' A C D K ', 'ac dk\n', 'AXK', 'PPPPA', '   ', 'KKKK\tDDDD']:
    def mk(s=s):
        o = Sequence(s, validateSeq=True)
        return exercise(o, full=False)
    try:
        records.append((s, mk()))
    except BaseException as e:    # noqa
        records.append((s, 'exc', type(e).__name__, str(e)))
section('validated sequences', records)

# ---------------------------------------------------------------- 2. memo / repeated use / mutation of results
records = []
base = 'MEEPQSDPSVEPPLSQETFSDLWKLLPENNVLSPLPSQAMDDLMLSPDDIEQWFTEDPGPDEAPRMPEAAPPVAPAPAAPTPAAPAPAPSWPLSS'
o1 = Sequence(base)
o2 = Sequence(base)
o3 = Sequence(base.lower())
for o in (o1, o2, o3, o1):
    d = o.amino_acid_fraction()
    records.append(canon(d))
    d['A'] = 99.0
    d['ZZ'] = 1
    del d['C']
    records.append(canon(o.amino_acid_fraction()))
    records.append(call(o.isoelectric_point))
    records.append(call(o.molecular_weight))
    records.append(call(o.fraction_disorder_promoting))
    records.append(call(o.charge_at_pH, 7.4))
    records.append(state(o))
# derived objects (new sequence, same/different composition)
rnd2 = random.Random(7)
cur = Sequence('EEEEEKKKKKGGGGGSSSSSYYCCHH')
for k in range(40):
    i, j = rnd2.randrange(cur.len), rnd2.randrange(cur.len)
    cur = cur.swapRes(i, j)
    records.append((cur.seq, call(cur.isoelectric_point), call(cur.amino_acid_fraction), call(cur.charge_at_pH, 5.5),
                    call(cur.FPPII_chain), call(cur.meanHydropathy), call(cur.isoelectric_point)))
c = copy.copy(cur)
dc = copy.deepcopy(cur)
for o in (c, dc):
    records.append((call(o.isoelectric_point), call(o.amino_acid_fraction), state(o)))
# many different sequences, interleaved and repeated -> any cache must separate them
pool = [rseq(rnd.choice((5, 12, 30)), 'KRHEDYCAG') for _ in range(300)]
pool = pool + pool[::-1] + pool[::3]
for s in pool:
    o = Sequence(s)
    records.append((s, call(o.isoelectric_point), call(o.charge_at_pH, 6.0, 'TOTAL', True), call(o.amino_acid_fraction),
                    call(o.molecular_weight), call(o.FCR, 3.3), call(o.NCPR, 9.1), call(o.FER, 7)))
# changing attributes by hand (public attributes) between calls
o = Sequence('KKDDEEHHYYCCAAGG')
records.append((call(o.isoelectric_point), call(o.amino_acid_fraction), call(o.charge_at_pH, 7)))
o.seq = 'RRRRRRRRAA'
records.append((call(o.isoelectric_point), call(o.amino_acid_fraction), call(o.charge_at_pH, 7), call(o.FCR, 7),
                call(o.meanHydropathy), call(o.FPPII_chain), call(o.molecular_weight), call(o.fraction_disorder_promoting)))
o.len = 4
records.append((call(o.isoelectric_point), call(o.amino_acid_fraction), call(o.charge_at_pH, 7), call(o.FCR, 7),
                call(o.meanHydropathy), call(o.uverskyHydropathy), call(o.meanWWHydropathy), call(o.FPPII_chain),
                call(o.molecular_weight), call(o.fraction_disorder_promoting)))
o.len = 0
records.append((call(o.meanHydropathy), call(o.uverskyHydropathy), call(o.meanWWHydropathy), call(o.FPPII_chain),
                call(o.FPPII_chain, 'bad'), call(o.FPPII_chain, None), call(o.FCR, 7), call(o.isoelectric_point)))
o.len = 50
records.append((call(o.meanHydropathy), call(o.uverskyHydropathy), call(o.meanWWHydropathy), call(o.FPPII_chain),
                call(o.FPPII_chain, 'bad'), call(o.FCR, 7)))
o.seq = 'AXA'
o.len = 3
records.append((call(o.isoelectric_point), call(o.amino_acid_fraction), call(o.charge_at_pH, 7), call(o.meanHydropathy),
                call(o.uverskyHydropathy), call(o.meanWWHydropathy), call(o.FPPII_chain), call(o.FPPII_chain, 'bad'),
                call(o.molecular_weight), call(o.fraction_disorder_promoting)))
# a sequence attribute which is not a plain string
for weird in (list('KKDDEEHAG'), tuple('RRYYC'), MyStr('KDKDHHY'), np.str_('EEKKC'), [], ()):
    o = Sequence('KKDDEEHHYYCCAAGG')
    o.seq = weird
    o.len = len(weird)
    records.append((repr(weird), call(o.isoelectric_point), call(o.isoelectric_point), call(o.charge_at_pH, 7),
                    call(o.amino_acid_fraction), call(o.fraction_disorder_promoting), call(o.molecular_weight),
                    call(o.FPPII_chain), call(o.meanHydropathy), call(o.FCR, 7.2)))
# if there is a bounded memo somewhere, make it tiny so eviction is exercised as well
for name in dir(seqmod):
    if name.startswith('_') and name.upper().endswith(('MAXSIZE', 'MAX', 'LIMIT')) and isinstance(getattr(seqmod, name), int):
        setattr(seqmod, name, 5)
for s in pool[:400] + pool[:50] + pool[40:60] * 3:
    o = Sequence(s)
    records.append((s, call(o.isoelectric_point), call(o.isoelectric_point), call(o.amino_acid_fraction)))
section('repeated use / aliasing', records)

# ---------------------------------------------------------------- 3. ResTable
records = []
codes = (list(AA) + list(AA.lower()) + list(aminoacids.THREE_TO_ONE) + [c.lower() for c in aminoacids.THREE_TO_ONE] +
         ['', ' ', 'X', 'B', 'Z', 'U', 'O', 'J', '+', '-', '0', '1', 'AL', 'ALAA', 'XXX', 'Ala', 'aLA', 'AAA', '+++',
          'ß', 'A ', ' A', 'ALA ', '\n', 'AA'] +
         [None, 0, 1, 3, 1.0, True, b'A', b'ALA', ['A'], ['ALA'], ('A',), ('A', 'L', 'A'), ['A', 'L', 'A'], {'A'}, {'A': 1},
          np.array(['A']), np.array(['ALA']), np.array(['A', 'L', 'A']), np.str_('A'), np.str_('ALA'), np.str_('X'),
          np.str_('+'), frozenset(['A']), range(1), range(3), bytearray(b'A')])


codes += [MyStr('A'), MyStr('ALA'), MyStr('X'), MyStr('-'), MyStr('XYZ')]

for tab_label, tab in (('fresh', ResTable()), ('module', seqmod.lkupTab), ('fresh2', ResTable())):
    for c in codes:
        records.append((tab_label, repr(c), 'res', call(tab.lookForRes, c)))
        records.append((tab_label, repr(c), 'hyd', call(tab.lookUpHydropathy, c)))
        records.append((tab_label, repr(c), 'chg', call(tab.lookUpCharge, c)))
        records.append((tab_label, repr(c), 'ppii', call(tab.lookUpPPII, c)))
        for m in PPII_MODES:
            records.append((tab_label, repr(c), 'ppii', repr(m), call(tab.lookUpPPII, c, m)))
            records.append((tab_label, repr(c), 'ppiikw', repr(m), call(tab.lookUpPPII, c, mode=m)))
    records.append((tab_label, 'keys', list(tab.residue_table.keys())))
    records.append((tab_label, 'public', sorted(k for k in vars(tab) if not k.startswith('_'))))
# identity: lookups hand out the objects held in residue_table
t = ResTable()
records.append(('ident', [t.lookForRes(c) is t.residue_table[aminoacids.ONE_TO_THREE[c]] for c in AA]))
records.append(('ident3', [t.lookForRes(c) is t.residue_table[c] for c in aminoacids.THREE_TO_ONE]))
# mutation of the public table / residues is seen by later lookups
t.residue_table['ALA'].hydropathy = 123.5
t.residue_table['GLY'] = t.residue_table['TRP']
del t.residue_table['LYS']
for c in ('A', 'ALA', 'G', 'GLY', 'K', 'LYS', 'W'):
    records.append(('mut', c, call(t.lookUpHydropathy, c), call(t.lookUpCharge, c), call(t.lookUpPPII, c, 'creamer')))
section('ResTable', records)

# ---------------------------------------------------------------- 4. via the public SequenceParameters API
records = []
for s in ['ACDEFGHIKLMNPQRSTVWY', 'EKEKEKEKEKEKEK', 'GGGGGGG', 'RRRRRRRRRRRRRRRRRRRRRRRRRRRR', base, rseq(80)]:
    sp = SequenceParameters(s)
    for name, args in (('get_fraction_disorder_promoting', ()), ('get_amino_acid_fractions', ()),
                       ('get_isoelectric_point', ()), ('get_molecular_weight', ()), ('get_mean_hydropathy', ()),
                       ('get_uversky_hydropathy', ()), ('get_WW_hydropathy', ()), ('get_PPII_propensity', ()),
                       ('get_PPII_propensity', ('creamer',)), ('get_PPII_propensity', ('bad',)),
                       ('get_FCR', ()), ('get_FCR', (7.0,)), ('get_NCPR', (4.2,)), ('get_FER', (9,)),
                       ('get_mean_net_charge', (6.1,)), ('get_countPos', ()), ('get_kappa', ()),
                       ('get_isoelectric_point', ())):
        if hasattr(sp, name):
            records.append((s, name, repr(args), call(getattr(sp, name), *args)))
        else:
            records.append((s, name, 'missing'))
section('SequenceParameters', records)

# ---------------------------------------------------------------- 5. data tables untouched
records = []
for fn in ('get_KD_original', 'get_residue_charge', 'get_KD_shifted', 'get_KD_uversky', 'get_WW_original',
           'get_PPII_Hilser', 'get_PPII_Creamer', 'get_PPII_Kallenbach', 'get_pKa', 'get_molecular_weight_Da',
           'buildTable'):
    a = getattr(aminoacids, fn)()
    b = getattr(aminoacids, fn)()
    records.append((fn, canon(a), a is b))
records.append(canon(aminoacids.ONE_TO_THREE))
records.append(canon(aminoacids.THREE_TO_ONE))
records.append(canon(aminoacids.TWENTY_AAs))
section('data tables', records)

print("TOTAL", hashlib.sha256(''.join(SECTIONS).encode()).hexdigest())
