import os, sys; sys.path.insert(0, os.getcwd())
"""
Differential script for refactorings of localcider/backend/plotting.py
(finalize_DasPappu, finalize_uversky, single_plot, multiple_plot,
__build_linear_plot).

Run once with cwd = changed tree and once with cwd = unchanged tree and compare
the printed output (it must be identical).

Three kinds of observation are taken for every case:
  * the return value / exception (type and message),
  * the ordered log of every call made on the pyplot object (arguments rendered
    at call time, so mutation of a FontProperties object after the call is seen),
  * a dump of what is really on the matplotlib figure afterwards (patches,
    scatter collections, lines, texts, legend, limits, labels, title).
"""
import hashlib
import io
import contextlib
import warnings

warnings.simplefilter("ignore")

import matplotlib
matplotlib.use("Agg")
import matplotlib.pyplot as real_plt
from matplotlib.font_manager import FontProperties
import numpy as np

import localcider
assert os.path.abspath(localcider.__file__).startswith(os.path.abspath(os.getcwd()) + os.sep), \
    (localcider.__file__, os.getcwd())

from localcider.backend import plotting as P
from localcider import plots
from localcider.sequenceParameters import SequenceParameters

import logging
logging.disable(logging.CRITICAL)

OUT = []


def emit(*parts):
    OUT.append(" ".join(str(p) for p in parts))


# ----------------------------------------------------------------------------
# rendering helpers
def R(o):
    """deterministic rendering of an argument / value"""
    if isinstance(o, FontProperties):
        return "FP(size=%r,weight=%r,family=%r)" % (o.get_size(), o.get_weight(), o.get_family())
    if o is real_plt:
        return "<pyplot>"
    if isinstance(o, PltProxy):
        return "<pyplot-proxy>"
    if isinstance(o, FakePlt):
        return "<fakeplt>"
    if isinstance(o, FakeArtist):
        return "<fake-artist %s>" % o.tag
    if isinstance(o, matplotlib.artist.Artist):
        return "<%s>" % type(o).__name__
    if isinstance(o, np.ndarray):
        return "nd%s%s" % (o.shape, [R(v) for v in o.ravel().tolist()])
    if isinstance(o, (float, np.floating)):
        return repr(float(o))
    if isinstance(o, (list, tuple)):
        b = "[%s]" if isinstance(o, list) else "(%s)"
        return b % ",".join(R(v) for v in o)
    if isinstance(o, dict):
        return "{%s}" % ",".join("%s:%s" % (R(k), R(o[k])) for k in sorted(o, key=repr))
    r = repr(o)
    if " at 0x" in r:
        return "<%s>" % type(o).__name__
    return r


class PltProxy(object):
    """forwards everything to the real pyplot module and logs the calls"""

    def __init__(self):
        self.log = []

    def __getattr__(self, name):
        target = getattr(real_plt, name)
        if not callable(target):
            return target

        def call(*a, **k):
            self.log.append("%s(%s)" % (name, ",".join([R(x) for x in a] +
                                                      ["%s=%s" % (kk, R(k[kk])) for kk in sorted(k)])))
            return target(*a, **k)
        return call


class FakeArtist(object):
    def __init__(self, tag):
        self.tag = tag


class FakePlt(object):
    """pure recorder, no matplotlib behind it; fill() returns nfill artists"""

    def __init__(self, nfill=1, fail_on=None):
        self.log = []
        self.nfill = nfill
        self.fail_on = fail_on
        self.count = 0

    def __getattr__(self, name):
        if name.startswith("__"):
            raise AttributeError(name)

        def call(*a, **k):
            self.log.append("%s(%s)" % (name, ",".join([R(x) for x in a] +
                                                      ["%s=%s" % (kk, R(k[kk])) for kk in sorted(k)])))
            if self.fail_on == name:
                raise RuntimeError("boom in " + name)
            if name == "fill":
                self.count += 1
                return [FakeArtist("fill%d_%d" % (self.count, i)) for i in range(self.nfill)]
            return None
        return call


def rgba(c):
    try:
        return [round(float(v), 6) for v in matplotlib.colors.to_rgba(c)]
    except Exception:
        return repr(c)


def text_info(t):
    return (t.get_text(), R(list(t.get_position())), t.get_fontsize(), t.get_fontweight(),
            t.get_fontfamily())


def fig_dump():
    lines = []
    for num in real_plt.get_fignums():
        fig = real_plt.figure(num)
        lines.append("FIG %d naxes=%d" % (num, len(fig.axes)))
        for ax in fig.axes:
            lines.append(" xlim=%s ylim=%s" % (R(list(ax.get_xlim())), R(list(ax.get_ylim()))))
            lines.append(" title=%s" % (text_info(ax.title),))
            lines.append(" xlabel=%s" % (text_info(ax.xaxis.label),))
            lines.append(" ylabel=%s" % (text_info(ax.yaxis.label),))
            for p in ax.patches:
                if hasattr(p, "get_xy") and not hasattr(p, "get_width"):
                    geom = R(np.asarray(p.get_xy()))
                else:
                    geom = R([p.get_x(), p.get_y(), p.get_width(), p.get_height()])
                lines.append(" patch %s %s fc=%s ec=%s lw=%s z=%s a=%s" % (
                    type(p).__name__, geom, rgba(p.get_facecolor()), rgba(p.get_edgecolor()),
                    R(p.get_linewidth()), p.get_zorder(), p.get_alpha()))
            for c in ax.collections:
                lines.append(" coll %s off=%s sizes=%s fc=%s z=%s" % (
                    type(c).__name__, R(np.asarray(c.get_offsets())), R(np.asarray(c.get_sizes())),
                    R(np.asarray(c.get_facecolor())), c.get_zorder()))
            for l in ax.lines:
                lines.append(" line x=%s y=%s c=%s lw=%s ls=%s" % (
                    R(np.asarray(l.get_xdata())), R(np.asarray(l.get_ydata())), rgba(l.get_color()),
                    l.get_linewidth(), l.get_linestyle()))
            for t in ax.texts:
                lines.append(" text %s xy=%s" % (text_info(t), R(getattr(t, "xy", None))))
            leg = ax.get_legend()
            if leg is None:
                lines.append(" legend None")
            else:
                lines.append(" legend texts=%s" % ([text_info(t)[0::2] for t in leg.get_texts()],))
                hs = getattr(leg, "legend_handles", None)
                if hs is None:
                    hs = leg.legendHandles
                lines.append(" legend handles=%s" % (
                    [(type(h).__name__, rgba(h.get_facecolor())) for h in hs],))
    return lines


def case(name, fn, dump=True):
    """run fn() on a fresh pyplot state with P.plt replaced by a logging proxy"""
    real_plt.close("all")
    matplotlib.rcdefaults()
    proxy = PltProxy()
    P.plt = proxy
    buf = io.StringIO()
    try:
        with contextlib.redirect_stdout(buf):
            ret = fn(proxy)
        res = "RET " + R(ret)
    except BaseException as e:       # noqa
        res = "EXC %s: %s" % (type(e).__name__, e)
    finally:
        P.plt = real_plt
    emit("== CASE", name)
    emit("  ", res)
    if buf.getvalue():
        emit("   STDOUT", repr(buf.getvalue()))
    for l in proxy.log:
        emit("   call", l)
    if dump:
        for l in fig_dump():
            emit("   ", l)
    emit("   rc font.size=%r family=%r" % (matplotlib.rcParams["font.size"], matplotlib.rcParams["font.family"]))
    real_plt.close("all")


def fake_case(name, fn, **kw):
    fake = FakePlt(**kw)
    try:
        ret = fn(fake)
        res = "RET " + R(ret)
    except BaseException as e:       # noqa
        res = "EXC %s: %s" % (type(e).__name__, e)
    emit("== FAKE", name)
    emit("  ", res)
    for l in fake.log:
        emit("   call", l)


class Truthy(object):
    def __init__(self, v, log):
        self.v = v
        self.log = log

    def __bool__(self):
        self.log.append("bool()")
        return self.v

    def __repr__(self):
        return "Truthy(%r)" % self.v


class Label(object):
    """label-like object with odd equality"""

    def __init__(self, eq, n):
        self.eq = eq
        self.n = n

    def __eq__(self, other):
        return self.eq

    def __ne__(self, other):
        return self.eq          # deliberately NOT the complement

    def __len__(self):
        return self.n

    def __str__(self):
        return "LBL"

    def __repr__(self):
        return "Label(%r,%r)" % (self.eq, self.n)

    __hash__ = object.__hash__


# ----------------------------------------------------------------------------
# 1. finalize_DasPappu / finalize_uversky
LEGEND_VALUES = [True, False, 1, 0, None, "", "no", [], [0], 2.5, np.array([1]), np.array([0]),
                 np.array([1, 2]), np.array([])]
LIMS = [(1, 1), (0.5, 0.25), (2, 3), (0, 0), (-1, 1), (1, None), (None, None), ("a", 1), (1, "b"),
        (float("nan"), 1), (float("inf"), 1)]
TITLES = ["Diagram of states", "", "T\nwo", None, 12, u"été"]

for fname in ("finalize_DasPappu", "finalize_uversky"):
    f = getattr(P, fname)
    for lg in LEGEND_VALUES:
        case("%s legend=%s" % (fname, R(lg)), lambda p, f=f, lg=lg: f(p, lg, "Title", 1, 1))
        fake_case("%s legend=%s" % (fname, R(lg)), lambda p, f=f, lg=lg: f(p, lg, "Title", 1, 1))
    for xl, yl in LIMS:
        for lg in (True, False):
            case("%s lims=%s,%s legend=%s" % (fname, R(xl), R(yl), lg),
                 lambda p, f=f, xl=xl, yl=yl, lg=lg: f(p, lg, "T", xl, yl))
    for t in TITLES:
        for lg in (True, False):
            case("%s title=%s legend=%s" % (fname, R(t), lg),
                 lambda p, f=f, t=t, lg=lg: f(p, lg, t, 1, 1))
            fake_case("%s title=%s legend=%s" % (fname, R(t), lg),
                      lambda p, f=f, t=t, lg=lg: f(p, lg, t, 0.7, 0.9))
    # truthiness evaluated how often / when
    for v in (True, False):
        def run(p, f=f, v=v):
            t = Truthy(v, p.log)
            return f(p, t, "T", 1, 1)
        fake_case("%s truthy=%s" % (fname, v), run)
    # fill returning the wrong number of artists, and failures at each step
    for n in (0, 2):
        fake_case("%s nfill=%d" % (fname, n), lambda p, f=f: f(p, True, "T", 1, 1), nfill=n)
    for step in ("fill", "xlim", "ylim", "xlabel", "ylabel", "title", "legend"):
        for lg in (True, False):
            fake_case("%s fail_on=%s legend=%s" % (fname, step, lg),
                      lambda p, f=f, lg=lg: f(p, lg, "T", 1, 1), fail_on=step)
    # something that is not a pyplot at all
    for bad in (None, 3, "plt"):
        try:
            emit("== BAD", fname, R(bad), "RET", R(f(bad, True, "T", 1, 1)))
        except BaseException as e:   # noqa
            emit("== BAD", fname, R(bad), "EXC %s: %s" % (type(e).__name__, e))
    # twice on the same figure
    def twice(p, f=f):
        f(p, True, "first", 1, 1)
        return f(p, False, "second", 0.5, 0.5)
    case("%s twice" % fname, twice)


# ----------------------------------------------------------------------------
# 2. single_plot
XS = [0, 0.1, 0.8, 0.8000001, 0.81, 1, 1.5, -0.2, "0.3", "0.95", np.float64(0.85), True,
      float("nan"), float("inf"), "abc", None, [0.1], np.array([0.9]), np.array([0.1, 0.2])]
YS = [0, 0.5, 0.9, 0.9000001, 0.95, 1, -1, "0.92", "zz", None, float("nan"), np.array([0.95])]
LABELS = ["", "A", "a long label for the point", " ", None, 5, 0, [], ["x"], ("a", "b"), b"", b"by",
          np.array([]), np.array([""]), np.array(["q"]), np.array(["a", "b"]),
          Label(True, 3), Label(False, 3)]

for x in XS:
    for y in (0.5, 0.95):
        for lab in ("", "lbl"):
            case("single_plot x=%s y=%s label=%r" % (R(x), R(y), lab),
                 lambda p, x=x, y=y, lab=lab: P.single_plot(x, y, lab), dump=True)
for y in YS:
    for x in (0.2, 0.9):
        for lab in ("", "lbl"):
            case("single_plot x=%s y=%s label=%r" % (R(x), R(y), lab),
                 lambda p, x=x, y=y, lab=lab: P.single_plot(x, y, lab))
for lab in LABELS:
    for x, y in ((0.2, 0.2), (0.9, 0.2), (0.2, 0.95), (0.9, 0.95)):
        case("single_plot x=%s y=%s label=%s" % (x, y, R(lab)),
             lambda p, x=x, y=y, lab=lab: P.single_plot(x, y, lab))
for fs in (10, 3, 0, -1, None, "large", "bogus", 12.5):
    case("single_plot fontsize=%s" % R(fs), lambda p, fs=fs: P.single_plot(0.85, 0.95, "QQ", fs))
    case("single_plot fontsize=%s nolabel" % R(fs), lambda p, fs=fs: P.single_plot(0.85, 0.95, "", fs))
case("single_plot defaults", lambda p: P.single_plot(0.3, 0.4))
case("single_plot keywords", lambda p: P.single_plot(y=0.3, x=0.95, fontSize=7, label="kw"))
def twice_single(p):
    P.single_plot(0.1, 0.2, "one")
    return P.single_plot(0.9, 0.95, "two")
case("single_plot twice", twice_single)


# ----------------------------------------------------------------------------
# 3. multiple_plot
def gen(v):
    return (i for i in v)

MULTI = [
    ([], [], []),
    ([], [], ["a"]),
    ([0.1], [0.2], []),
    ([0.1], [0.2], [""]),
    ([0.1, 0.5, 0.9], [0.2, 0.3, 0.95], []),
    ([0.1, 0.5, 0.9], [0.2, 0.3, 0.95], ["a", "b", "c"]),
    ([0.1, 0.5, 0.9], [0.2, 0.3, 0.95], ["a", "b"]),
    ([0.1, 0.5, 0.9], [0.2, 0.3], []),
    ([0.1, 0.5], [0.2, 0.3, 0.4], []),
    ([0.1, 0.5], [0.2, 0.3, 0.4], ["a", "b"]),
    ([0.1, 0.5], [0.2, 0.3, 0.4], ["a", "b", "c"]),
    ((0.1, 0.5), (0.2, 0.3), ()),
    ((0.1, 0.5), (0.2, 0.3), ("x", "y")),
    (np.array([0.1, 0.5]), np.array([0.2, 0.3]), np.array([])),
    (np.array([0.1, 0.5]), np.array([0.2, 0.3]), np.array(["p", "q"])),
    ([0.1, "abc"], [0.2, 0.3], []),
    ([0.1, 0.4], [0.2, "zz"], ["a", "b"]),
    ([0.1, 0.4], [None, 0.2], ["a", "b"]),
    (["0.1", "0.4"], ["0.2", "0.3"], []),
    ([0.1, 0.4], [0.2, 0.3], "ab"),
    ([0.1, 0.4], [0.2, 0.3], ""),
    ("ab", [0.2, 0.3], []),
    ({0.1: 1, 0.4: 2}, [0.2, 0.3], []),
    ({0.1: 1, 0.4: 2}, {0.2: 1, 0.3: 2}, {"k": 1, "m": 2}),
    ([0.1, 0.4], [0.2, 0.3], {}),
    ([0.1, 0.4], [0.2, 0.3], None),
    (None, [0.2, 0.3], None),
    (None, [0.2, 0.3], []),
    (None, None, ["a"]),
    ([0.1], None, ["a"]),
    ([0.1], None, []),
    (3, [1], []),
    ([0.1, 0.4], [0.2, 0.3], [1, None]),
    ([[0.1, 0.2], [0.3, 0.4]], [[0.5, 0.6], [0.7, 0.8]], []),
    (range(3), range(3), []),
    (range(0), range(0), []),
    ([-0.5, 2.0], [5, -5], ["neg", "big"]),
    ([float("nan")], [float("inf")], ["odd"]),
]
for i, (xl, yl, ll) in enumerate(MULTI):
    case("multiple_plot #%d x=%s y=%s l=%s" % (i, R(xl), R(yl), R(ll)),
         lambda p, xl=xl, yl=yl, ll=ll: P.multiple_plot(xl, yl, ll, 10))
case("multiple_plot generators", lambda p: P.multiple_plot(gen([0.1]), gen([0.2]), [], 10))
case("multiple_plot generator labels", lambda p: P.multiple_plot([0.1], [0.2], gen(["a"]), 10))
for fs in (10, 0, None, "small", "bogus"):
    case("multiple_plot fontsize=%s" % R(fs),
         lambda p, fs=fs: P.multiple_plot([0.1, 0.2], [0.3, 0.4], ["a", ""], fs))

# the label list passed in must not be modified, default-argument lists must stay empty
def mutation(p):
    mine = []
    P.multiple_plot([0.1, 0.2], [0.3, 0.4], mine, 10)
    other = ["a", "b"]
    P.multiple_plot([0.1, 0.2], [0.3, 0.4], other, 10)
    return (mine, other)
case("multiple_plot no-mutation", mutation)


# ----------------------------------------------------------------------------
# 4. __build_linear_plot (direct, and through the build_* functions)
BLP = getattr(P, "__build_linear_plot")


def mk(ys):
    ys = np.asarray(ys, dtype=float)
    return np.vstack((np.arange(1, len(ys) + 1), ys))

rng = np.random.RandomState(7)
DATA = {
    "empty": mk([]),
    "one": mk([0.3]),
    "one-neg": mk([-0.3]),
    "zero": mk([0.0]),
    "mixed": mk([0.2, -0.2, 0, 0.5, -1, 1, -0.0]),
    "nan": mk([0.1, float("nan"), -0.1]),
    "n109": mk(rng.uniform(-1, 1, 109)),
    "n110": mk(rng.uniform(-1, 1, 110)),
    "n150z": mk(np.where(rng.rand(150) < 0.3, 0, rng.uniform(-1, 1, 150))),
    "n219z": mk(np.where(rng.rand(219) < 0.3, 0, rng.uniform(-1, 1, 219))),
    "n220z": mk(np.where(rng.rand(220) < 0.3, 0, rng.uniform(-1, 1, 220))),
    "n300z": mk(np.where(rng.rand(300) < 0.3, 0, rng.uniform(-1, 1, 300))),
    "int": np.array([[1, 2, 3], [0, -1, 1]]),
    "three-rows": np.array([[1., 2.], [0.5, -0.5], [9., 9.]]),
    "matrix-offset-x": np.array([[5., 6., 9.], [0.5, 0, -0.5]]),
}
for k in DATA:
    d = DATA[k]
    for pn in (False, True):
        case("blp %s pn=%s" % (k, pn),
             lambda p, d=d, pn=pn: BLP(d, title="t " + k, ylabel="yl", ylimits=[-1, 1], setPositiveNegativeBars=pn))
case("blp defaults", lambda p: BLP(DATA["mixed"]))
case("blp positional", lambda p: BLP(DATA["mixed"], "TT", "XX", "YY", [0, 2], [0.2], 1))
case("blp ylimits tuple", lambda p: BLP(DATA["mixed"], ylimits=(-2, 2)))
case("blp ylimits bad", lambda p: BLP(DATA["mixed"], ylimits="ab", setPositiveNegativeBars=True))
case("blp ylimits None", lambda p: BLP(DATA["mixed"], ylimits=None))
case("blp truthy flag", lambda p: BLP(DATA["mixed"], setPositiveNegativeBars="yes"))
case("blp falsy flag", lambda p: BLP(DATA["mixed"], setPositiveNegativeBars=[]))
for bad in (None, [1, 2, 3], [[1, 2], [3, 4]], np.array([1., 2.]), np.zeros((1, 3)), np.zeros((2, 2, 2)),
            "text", np.array([["a", "b"], ["c", "d"]])):
    for pn in (False, True):
        case("blp bad data %s pn=%s" % (R(bad), pn), lambda p, bad=bad, pn=pn: BLP(bad, setPositiveNegativeBars=pn))
def blp_twice(p):
    BLP(DATA["mixed"], title="a", setPositiveNegativeBars=True)
    return BLP(DATA["one"], title="b")
case("blp twice", blp_twice)

SEQS = {
    "short": "MKDE",
    "mid": "MEEEKKKRRRDDDSGSGSGAPAPLLLIIVVWWFFYYNNQQHHTTCCMM",
    "neutral": "GSGSGSGSGSGSGSGSGSGSGSGS",
    "long": ("EKEKGSGSDDRRAAPPLLQQ" * 15),
    "longer": ("GGGGGEKGGGGGSSSSSDDDDDAAAAARRRRR" * 12),
}
for k in SEQS:
    so = SequenceParameters(SEQS[k])
    for blob in (1, 2, 5, 7.0, len(SEQS[k]), len(SEQS[k]) + 3, 0, -1, "5"):
        for bname in ("build_NCPR_plot", "build_FCR_plot", "build_sigma_plot", "build_hydropathy_plot"):
            bf = getattr(P, bname)
            case("%s %s blob=%s" % (bname, k, R(blob)), lambda p, bf=bf, so=so, blob=blob: bf(so.SeqObj, blob))
    for blob in (5, 1000):
        for m in ("show_linearNCPR", "show_linearFCR", "show_linearSigma", "show_linearHydropathy"):
            case("SeqParam.%s %s blob=%s" % (m, k, blob),
                 lambda p, so=so, m=m, blob=blob: getattr(so, m)(blob, getFig=True))
for bname in ("build_NCPR_plot", "build_FCR_plot", "build_sigma_plot", "build_hydropathy_plot"):
    case("%s not-a-sequence" % bname, lambda p, bname=bname: getattr(P, bname)("MKDE", 2))


# ----------------------------------------------------------------------------
# 5. the public entry points that use the five functions
case("plots.single_phase", lambda p: plots.show_single_phasePlot(0.2, 0.3, label="me", getFig=True))
case("plots.single_phase nolabel nolegend", lambda p: plots.show_single_phasePlot(0.9, 0.05, legendOn=False, getFig=True))
case("plots.single_phase extreme", lambda p: plots.show_single_phasePlot(0.95, 0.95, label="corner", title="C", xLim=0.5, yLim=2, fontSize=4, getFig=True))
case("plots.single_phase bad", lambda p: plots.show_single_phasePlot(1.2, 0.3, getFig=True))
case("plots.single_phase bad2", lambda p: plots.show_single_phasePlot("q", 0.3, getFig=True))
case("plots.multi_phase", lambda p: plots.show_multiple_phasePlot([0.1, 0.2], [0.3, 0.4], ["a", "b"], getFig=True))
case("plots.multi_phase default label", lambda p: plots.show_multiple_phasePlot([0.1, 0.2], [0.3, 0.4], getFig=True))
case("plots.multi_phase one default label", lambda p: plots.show_multiple_phasePlot([0.1], [0.3], getFig=True))
case("plots.multi_phase empty label", lambda p: plots.show_multiple_phasePlot([0.1, 0.2], [0.3, 0.4], [], legendOn=False, getFig=True))
case("plots.multi_phase empty", lambda p: plots.show_multiple_phasePlot([], [], [], getFig=True))
case("plots.multi_phase mismatch", lambda p: plots.show_multiple_phasePlot([0.1, 0.2], [0.3], [], getFig=True))
case("plots.single_uversky", lambda p: plots.show_single_uverskyPlot(0.4, 0.1, label="uv", getFig=True))
case("plots.single_uversky nolegend", lambda p: plots.show_single_uverskyPlot(0.95, 0.85, label="uv2", legendOn=False, getFig=True))
case("plots.multi_uversky", lambda p: plots.show_multiple_uverskyPlot([0.4, 0.5], [0.1, 0.2], ["a", "b"], getFig=True))
case("plots.multi_uversky nolabel", lambda p: plots.show_multiple_uverskyPlot([0.4, 0.5], [0.1, 0.2], [], title="x", xLim=0.6, yLim=0.7, getFig=True))
seqs = [SequenceParameters(SEQS[k]) for k in ("short", "mid", "neutral")]
case("plots.multi_phase2", lambda p: plots.show_multiple_phasePlot2(seqs, ["s", "m", "n"], getFig=True))
case("plots.multi_phase2 nolabel", lambda p: plots.show_multiple_phasePlot2(seqs, getFig=True))
case("plots.multi_uversky2", lambda p: plots.show_multiple_uverskyPlot2(seqs, ["s", "m", "n"], getFig=True))
for so in seqs:
    case("SeqParam.phase", lambda p, so=so: so.show_phaseDiagramPlot(label="L", getFig=True))
    case("SeqParam.phase nolabel", lambda p, so=so: so.show_phaseDiagramPlot(legendOn=False, getFig=True))
    case("SeqParam.uversky", lambda p, so=so: so.show_uverskyPlot(label="L", getFig=True))

# saving to files: compare the bytes written (png is deterministic for Agg)
import tempfile
tmp = tempfile.mkdtemp()
def filehash(fn):
    if not os.path.exists(fn):
        return "missing"
    with open(fn, "rb") as fh:
        return hashlib.sha256(fh.read()).hexdigest()
def save_case(name, fn):
    target = os.path.join(tmp, "out.png")
    if os.path.exists(target):
        os.remove(target)
    case(name, lambda p: fn(target), dump=False)
    emit("   file", filehash(target))
save_case("save single phase", lambda t: plots.save_single_phasePlot(0.2, 0.3, t, label="me", saveFormat="png"))
save_case("save single phase nolegend", lambda t: plots.save_single_phasePlot(0.9, 0.95, t, label="me", legendOn=False, saveFormat="png"))
save_case("save multi phase", lambda t: plots.save_multiple_phasePlot([0.1, 0.2], [0.3, 0.4], t, ["a", "b"]))
save_case("save multi phase nolabel", lambda t: plots.save_multiple_phasePlot([0.1, 0.2], [0.3, 0.4], t, []))
save_case("save single uversky", lambda t: plots.save_single_uverskyPlot(0.4, 0.1, t, label="uv"))
save_case("save multi uversky", lambda t: plots.save_multiple_uverskyPlot([0.4, 0.5], [0.1, 0.2], t, ["a", "b"], legendOn=False))
for so in seqs:
    save_case("save NCPR", lambda t, so=so: so.save_linearNCPR(t, 3))
    save_case("save FCR", lambda t, so=so: so.save_linearFCR(t, 3))
    save_case("save sigma", lambda t, so=so: so.save_linearSigma(t, 3))
    save_case("save phase", lambda t, so=so: so.save_phaseDiagramPlot(t, label="zz"))
    save_case("save uversky", lambda t, so=so: so.save_uverskyPlot(t, label="zz"))
import shutil
shutil.rmtree(tmp, ignore_errors=True)

text = "\n".join(OUT).replace(tmp, "<TMP>")
if "--full" in sys.argv:
    print(text)
print("cases:", sum(1 for l in OUT if l.startswith("==")), "lines:", len(OUT))
print("digest:", hashlib.sha256(text.encode("utf-8")).hexdigest())
