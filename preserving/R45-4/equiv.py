import os, sys; sys.path.insert(0, os.getcwd())
# Differential script for the kappa / delta / sigma / deltaMax area of
# localcider.backend.sequence.  Run once with cwd=<changed tree> and once with
# cwd=<unchanged tree>; the printed output must be identical.
import contextlib
import hashlib
import io
import random

import numpy as np

import localcider
assert os.path.dirname(os.path.dirname(os.path.abspath(localcider.__file__))) == os.path.abspath(os.getcwd()), \
    "localcider was not imported from the current directory: %s" % localcider.__file__

from localcider.backend.sequence import Sequence
from localcider.sequenceParameters import SequenceParameters

LINES = []


def emit(tag, value):
    LINES.append("%s => %s" % (tag, value))


def show(v):
    """Deterministic, type-revealing rendering of a result."""
    if isinstance(v, tuple):
        return "tuple(" + ", ".join(show(x) for x in v) + ")"
    if isinstance(v, list):
        return "list[" + ", ".join(show(x) for x in v) + "]"
    if isinstance(v, np.ndarray):
        return "ndarray%s%s" % (v.dtype, v.tolist())
    return "%s:%r" % (type(v).__name__, v)


def attempt(tag, fn):
    """Run fn, record result or exception plus whatever it printed."""
    buf = io.StringIO()
    try:
        with contextlib.redirect_stdout(buf):
            res = fn()
        out = "OK " + show(res)
    except BaseException as e:  # noqa
        out = "EXC %s: %s" % (type(e).__name__, str(e)[:200])
    emit(tag, out + " | stdout=%r" % buf.getvalue())


def state(tag, s):
    emit(tag + ".state", "dmax=%s seqDeltaMax=%s seq=%s len=%s cp=%s" % (
        show(s.dmax), show(s.seqDeltaMax), show(s.seq), show(s.len),
        show(s.chargePattern)))


rng = random.Random(20240607)


def randseq(n, alphabet):
    return "".join(rng.choice(alphabet) for _ in range(n))


SEQS = [
    "", "A", "E", "K", "EK", "GGGG", "GGGGG", "GGGGGG", "EEEE", "EEEEE", "EEEEEE",
    "KKKKKKKK", "EKEKEKEKEK", "EEEEEKKKKK", "KKKKKEEEEE", "EEEEEEEKKK", "EEKKKKKKKK",
    "EGGGGGGGGG", "GGGGKGGGGG", "EEEEEEEEGG", "KKGKKKKKKKK", "GEGEGEGEGEGEGE",
    "GGGGGEEEEEGGGGG", "EEEEEGGGKKKKK", "EKGGGGGGGGGGGGGGGGGGKE",
    "GGGGGGGGGGGGGGGGGGEEKK", "GSGSGSGSGSGSGSGSGSGSGSGSEKEKDR",
    "MDEDKRRASTGSQWHYPCFILVNA", "ekekekGGGGdrdr", "EXKZB*U", "EK EK-EK",
    "AAAAAAAAAAAAAAAAAAAAAAAAAAAAAAAAAAAAAAAAA", "DDDDDDDDDDDDDDDDDDDDDDDDRRRRR",
    "MEEPQSDPSVEPPLSQETFSDLWKLLPENNVLSPLPSQAMDDLMLSPDDIEQWFTEDPGP",
    "GGGGGGGGGGGGGGGGGE", "GGGGGGGGGGGGGGGGGGE", "GGGGGGGGGGGGGGGGGEK",
    "GGGGGGGGGGGGGGGGGGEK", "EGKGEGKGEGKGEGKGEGKGEGKGEGKGEGKGEGKG",
]
for n in (3, 7, 12, 20, 33):
    SEQS.append(randseq(n, "EKGDRSA"))
    SEQS.append(randseq(n, "ACDEFGHIKLMNPQRSTVWY"))
    SEQS.append(randseq(n, "EK"))
    SEQS.append(randseq(n, "GGGGGGGE"))
    SEQS.append(randseq(n, "GGGGGGGK"))

FLAGS = [False, True, 0, 1, None, "", "yes", [], [0], 2.5]


def mk(seq, **kw):
    return Sequence(seq, **kw)


# ---------------------------------------------------------------- basic values
for idx, seq in enumerate(SEQS):
    t = "S%02d" % idx
    try:
        mk(seq)
    except BaseException as e:
        emit("%s.ctor" % t, "EXC %s: %s" % (type(e).__name__, str(e)[:120]))
        continue
    for name in ("sigma", "delta", "kappa"):
        def run(name=name):
            s = mk(seq)
            r1 = getattr(s, name)()
            r2 = getattr(s, name)()
            return (r1, r2, s.dmax, s.seqDeltaMax)
        attempt("%s.%s" % (t, name), run)

    # each function on a fresh object, state afterwards
    for name in ("sigma", "delta", "kappa"):
        try:
            s = mk(seq)
        except BaseException as e:
            emit("%s.ctor" % t, "EXC %s" % type(e).__name__)
            continue
        attempt("%s.%s.fresh" % (t, name), getattr(s, name))
        state("%s.%s.fresh" % (t, name), s)

    # deltaMax with every flavour of flag on a fresh object
    for fi, flag in enumerate(FLAGS):
        s = mk(seq)
        attempt("%s.dmax.f%d" % (t, fi), lambda: s.deltaMax(flag))
        state("%s.dmax.f%d" % (t, fi), s)
        attempt("%s.dmax.f%d.kw" % (t, fi), lambda: mk(seq).deltaMax(returnSeqDeltaMax=flag))

    # repeated calls in every order on one object (cache guards)
    for order in ([False, False], [False, True], [True, False], [True, True],
                  [False, True, False, True], [True, True, False], [1, 0, "x", None, True],
                  [False, [], True, [1], False]):
        s = mk(seq)
        for k, flag in enumerate(order):
            tag = "%s.rep%s.%d" % (t, "".join("T" if f else "F" for f in order), k)
            attempt(tag, lambda: s.deltaMax(flag))
            state(tag, s)
        attempt(tag + ".kappa", s.kappa)
        attempt(tag + ".delta", s.delta)
        attempt(tag + ".sigma", s.sigma)
        state(tag + ".after", s)

    # kappa first, then deltaMax variants
    s = mk(seq)
    attempt("%s.kappa_then.k" % t, s.kappa)
    state("%s.kappa_then.k" % t, s)
    attempt("%s.kappa_then.T" % t, lambda: s.deltaMax(True))
    state("%s.kappa_then.T" % t, s)
    attempt("%s.kappa_then.k2" % t, s.kappa)
    attempt("%s.kappa_then.F" % t, lambda: s.deltaMax())
    state("%s.kappa_then.F" % t, s)

# ------------------------------------------------ user supplied dmax / patterns
DMAXES = [-1, -1.0, 0, 0.0, 0.5, 1e-12, 1, -2, 3.7, float("nan"), float("inf"),
          np.float64(0.25), np.float64(-1.0), np.int64(-1), np.array([0.3]), np.array([-1]),
          np.array([1.0, 2.0]), np.array([-1, -1]), None, "x", True, False]
for si, seq in enumerate(["EKEKEKEKEK", "EEEEEKKKKK", "GGGGGGGG", "EEGGGGGGKK", "GEGKGEGK", "EK", ""]):
    for di, dm in enumerate(DMAXES):
        t = "D%d.%02d" % (si, di)
        for fi, flags in enumerate(([False], [True], [False, True, False], [True, False, True], [0, 1])):
            def build():
                return mk(seq, dmax=dm)
            try:
                s = build()
            except BaseException as e:
                emit(t + ".ctor", "EXC %s" % type(e).__name__)
                continue
            for k, flag in enumerate(flags):
                attempt("%s.o%d.%d" % (t, fi, k), lambda: s.deltaMax(flag))
                state("%s.o%d.%d" % (t, fi, k), s)
            attempt("%s.o%d.kappa" % (t, fi), s.kappa)
            state("%s.o%d.kappa" % (t, fi), s)
        s = mk(seq, dmax=dm)
        attempt(t + ".kappa_first", s.kappa)
        state(t + ".kappa_first", s)
        attempt(t + ".kappa_second", s.kappa)

# preset seqDeltaMax by hand (attribute is public)
for si, seq in enumerate(["EKEKEKEKEK", "GGGGG", "EEGGGGGGKK"]):
    for pi, preset in enumerate([None, "", "PRESET", 0, False, seq]):
        for di, dm in enumerate([-1, 0, 0.4]):
            for fi, flag in enumerate([False, True]):
                s = mk(seq, dmax=dm)
                s.seqDeltaMax = preset
                t = "P%d.%d.%d.%d" % (si, pi, di, fi)
                attempt(t, lambda: s.deltaMax(flag))
                state(t, s)
                attempt(t + ".again", lambda: s.deltaMax(not flag))
                state(t + ".again", s)

# explicit charge patterns (arrays, lists, mismatched lengths)
PATTERNS = [
    ("EKEKEKEKEK", np.array([1, -1] * 5)),
    ("EKEKEKEKEK", np.array([0] * 10)),
    ("EKEKEKEKEK", np.array([1] * 10)),
    ("EKEKEKEKEK", np.array([-1, -1, -1, 0, 0, 0, 0, 1, 1, 1])),
    ("EKEKEKEKEK", np.array([1, -1, 0])),
    ("EKEKEKEKEK", np.array([0.5, -0.5] * 5)),
    ("EKEKEKEKEK", [1, -1] * 5),
    ("EKEKEKEKEK", [0] * 10),
    ("GGGGGGGGGG", np.array([1, -1] * 5)),
    ("GGGGGGGGGGGGGGGGGGGGGGGG", np.array([1, -1] + [0] * 22)),
    ("GGG", np.array([1, -1] * 5)),
    ("", np.array([])),
    ("", np.array([0])),
    ("EK", (1, -1)),
]
for pi, (seq, pat) in enumerate(PATTERNS):
    t = "C%02d" % pi
    for name in ("sigma", "delta", "kappa"):
        def run(name=name):
            s = mk(seq, chargePattern=pat)
            return (getattr(s, name)(), getattr(s, name)(), s.dmax, s.seqDeltaMax)
        attempt("%s.%s" % (t, name), run)
    for fi, flags in enumerate(([False], [True], [False, True], [True, False])):
        try:
            s = mk(seq, chargePattern=pat)
        except BaseException as e:
            emit(t + ".ctor", "EXC %s" % type(e).__name__)
            continue
        for k, flag in enumerate(flags):
            attempt("%s.o%d.%d" % (t, fi, k), lambda: s.deltaMax(flag))
            state("%s.o%d.%d" % (t, fi, k), s)

# state mutated between calls (len / chargePattern / seq are public attributes)
s = mk("EKEKEKGGGGEKEK")
attempt("M.k1", s.kappa)
s.dmax = -1
attempt("M.k2", s.kappa)
s.dmax = 0
attempt("M.k3", s.kappa)
attempt("M.s3", s.sigma)
s.dmax = 1e-300
attempt("M.k4", s.kappa)
s.dmax = s.delta() / 1.05
attempt("M.k5", s.kappa)
s.dmax = s.delta() / 1.1
attempt("M.k6", s.kappa)
s.dmax = s.delta()
attempt("M.k7", s.kappa)
s.dmax = s.delta() / 1.0999999
attempt("M.k8", s.kappa)
s.dmax = s.delta() / 1.0000001
attempt("M.k9", s.kappa)
s.dmax = -s.delta()
attempt("M.k10", s.kappa)
s.len = 0
attempt("M.s_len0", s.sigma)
attempt("M.d_len0", s.delta)
attempt("M.k_len0", s.kappa)
s.len = 3
attempt("M.s_len3", s.sigma)
attempt("M.d_len3", s.delta)
s.len = 14
s.chargePattern = np.zeros(14)
attempt("M.s_zero", s.sigma)
attempt("M.d_zero", s.delta)
s.dmax = -1
attempt("M.dm_zero", lambda: s.deltaMax(True))
state("M.dm_zero", s)
attempt("M.k_zero", s.kappa)

# subclass overriding pieces: calls must go through the same methods in the same order
calls = []


class Traced(Sequence):
    def countNeut(self):
        calls.append("countNeut")
        return Sequence.countNeut(self)

    def NCPR(self, pH=None):
        calls.append("NCPR")
        return Sequence.NCPR(self, pH)

    def FCR(self, pH=None):
        calls.append("FCR")
        return Sequence.FCR(self, pH)

    def deltaForm(self, bloblen):
        calls.append("deltaForm%d" % bloblen)
        return Sequence.deltaForm(self, bloblen)

    def delta(self):
        calls.append("delta")
        return Sequence.delta(self)


for si, seq in enumerate(["EKEKEKGGGGEKEK", "GGGGGG", "EEEEEE", "GGGGGGGGGGGGGGGGGGGGEEKK", "EKEKEKEK"]):
    for name in ("sigma", "delta", "kappa"):
        del calls[:]
        s = Traced(seq)
        attempt("T%d.%s" % (si, name), getattr(s, name))
        # only record calls made on the traced object itself (helpers build plain Sequences)
        emit("T%d.%s.calls" % (si, name), ",".join(calls))
    for flag in (False, True):
        del calls[:]
        s = Traced(seq)
        attempt("T%d.dmax%s" % (si, flag), lambda: s.deltaMax(flag))
        attempt("T%d.dmax%s.again" % (si, flag), lambda: s.deltaMax(flag))
        attempt("T%d.dmax%s.other" % (si, flag), lambda: s.deltaMax(not flag))
        emit("T%d.dmax%s.calls" % (si, flag), ",".join(calls))

# ------------------------------------------------------- through the public API
for idx, seq in enumerate(SEQS):
    t = "API%02d" % idx
    try:
        buf = io.StringIO()
        with contextlib.redirect_stdout(buf):
            sp = SequenceParameters(seq)
    except BaseException as e:
        emit(t + ".ctor", "EXC %s: %s" % (type(e).__name__, str(e)[:120]))
        continue
    attempt(t + ".get_kappa", sp.get_kappa)
    attempt(t + ".get_delta", sp.get_delta)
    attempt(t + ".get_deltaMax", sp.get_deltaMax)
    attempt(t + ".get_deltaMaxT", lambda: sp.get_deltaMax(True))
    attempt(t + ".get_deltaMaxkw", lambda: sp.get_deltaMax(returnSeqDeltaMax=True))
    attempt(t + ".get_kappa2", sp.get_kappa)
    attempt(t + ".get_Omega", sp.get_Omega)
    attempt(t + ".get_kappa_X", lambda: sp.get_kappa_X(["G", "S"], ["E", "K"]))
    attempt(t + ".get_linear_sigma", lambda: sp.get_linear_sigma(5))
    attempt(t + ".phos", sp.get_kappa_after_phosphorylation)
    state(t, sp.SeqObj)

for line in LINES:
    print(line)
print("N", len(LINES))
print("DIGEST", hashlib.sha256("\n".join(LINES).encode("utf-8")).hexdigest())
