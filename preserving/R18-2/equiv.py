"""
Differential check for R2 (__permutant_from_reduced_seq: module-level lookup
tables + pooled counters + join instead of three passes / if-elif / string +=).

Run once with cwd=/tmp/seed/R18 (changed) and once with cwd=/repo (unchanged);
the printed output (including the final digest) must be identical.
"""
import os
import sys
sys.path.insert(0, os.getcwd())

import contextlib
import hashlib
import io
import itertools
import random

import numpy as np

import localcider.backend.sequence as S
from localcider.backend.sequence import Sequence
from localcider.sequenceParameters import SequenceParameters

assert os.path.abspath(S.__file__).startswith(os.path.abspath(os.getcwd())), S.__file__

LINES = []


def emit(*parts):
    LINES.append(repr(parts))


def state(obj):
    return (obj.seq, obj.len, [float(x) for x in obj.chargePattern],
            repr(obj.dmax), obj.seqDeltaMax)


def run(fn):
    buf = io.StringIO()
    try:
        with contextlib.redirect_stdout(buf):
            res = fn()
        out = ("ok", type(res).__name__, repr(res))
    except Exception as e:  # noqa
        out = ("exc", type(e).__name__, str(e))
    return out, buf.getvalue()


def permutant(reduced, parent):
    return reduced._Sequence__permutant_from_reduced_seq(parentSeqObj=parent)


# ---------------------------------------------------------------------------
# 1. the private helper, called directly, on every kind of residue / symbol
# ---------------------------------------------------------------------------
ALL_RES = "ACDEFGHIKLMNPQRSTVWY"
PARENTS = [
    "", "A", "K", "D", "KD", "DK", "RKDE", "EDKR",
    ALL_RES, ALL_RES[::-1], ALL_RES * 2,
    "KKKKKEEEEE", "GSGSGS", "HHHHYYYYCCCC",
    "KAEARADAKAEA", "+-0+-0", "++KK--DD00AA", "kkeedd",
]
REDUCED = [
    "", "0", "+", "-", "+-", "-+", "++--", "--++", "+0-0+0-0",
    "0" * 20, "+" * 5 + "-" * 5, "-" * 5 + "+" * 5, "+-" * 5,
    "00++00--00", "+++000---000", "0+0-" * 5, "++--" + "0" * 16,
    "--++" + "0" * 16, "0" * 16 + "+-+-", "+-0+-0", "000000",
    "++++----" + "0" * 32, "0000+0000-0000+0000-",
    "KEA", "AAAA", "K+E-",          # non reduced symbols are treated like '0'
]
for p, r in itertools.product(PARENTS, REDUCED):
    parent = Sequence(p)
    reduced = Sequence(r)
    before = (state(parent), state(reduced))
    emit("direct", p, r, run(lambda: permutant(reduced, parent)))
    assert (state(parent), state(reduced)) == before

# random compositions, consistent by construction -> must give a permutation of the parent
rnd = random.Random(12345)
for trial in range(300):
    n = rnd.randint(0, 40)
    parent_seq = "".join(rnd.choice(ALL_RES) for _ in range(n))
    parent = Sequence(parent_seq)
    symbols = ["+" if c in "RK" else "-" if c in "DE" else "0" for c in parent_seq]
    rnd.shuffle(symbols)
    reduced = Sequence("".join(symbols))
    res = run(lambda: permutant(reduced, parent))
    emit("random", parent_seq, "".join(symbols), res)
    assert res[0][0] == "ok" and sorted(eval(res[0][2])) == sorted(parent.seq)

# bad arguments
emit("bad-none", run(lambda: permutant(Sequence("+-0"), None)))
emit("bad-str", run(lambda: permutant(Sequence("+-0"), "KEA")))

# ---------------------------------------------------------------------------
# 2. through the public API: deltaMax(returnSeqDeltaMax=True) on all branches
# ---------------------------------------------------------------------------
DM_SEQS = [
    "A", "AAAAAA", "GSGSGSGSGS",                         # no charges
    "K", "KKKKKK", "EEEEEEE",                            # only charges of one sign
    "KAAAAAAAAA", "AAAAEAAAAA", "KKKAAAAAAAAAA", "AAAEEEEEEEEEE",
    "KKKKKKKKAAA", "DDDDDDDDDGG", "RHRHRHRHRHRHHHHHH",
    "KE", "KEKE", "KEKEKEKEKE", "KKKKKEEEEE", "EEEEEKKKKK",
    "KKKKEE", "KKEEEEEE", "KDAKDAKDAKDA", "AAKAAEAAKAAEAA",
    "MKKEEDDRRKKSSTTEEDDKKRRAAGG", "GSGSGSKGSGSGSEGSGSGSKGSGSGSE",
    "EEEEEEEEEEEEKKKAAAAAAAAA", "RRRRRRRRRRRRRDDAAAA",
    "QQQQKQQQQEQQQQKQQQQEQQQQRQQQQD", "krkrkrdededeaaaa",
    "KEKEKEKEKEKEKEKEKEKEKEGGGGGGGGGGGGGGGGGGGG",
    "ACDEFGHIKLMNPQRSTVWY", "SSSSKKKKSSSSDDDDSSSSRRRREEEESSSS",
]
for seq in DM_SEQS:
    so = Sequence(seq)
    emit("dmax-plain", seq, run(so.deltaMax), state(so))
    emit("dmax-seq", seq, run(lambda: so.deltaMax(returnSeqDeltaMax=True)), state(so))
    emit("dmax-seq-again", seq, run(lambda: so.deltaMax(True)), state(so))
    so2 = Sequence(seq)
    emit("dmax-seq-first", seq, run(lambda: so2.deltaMax(True)), state(so2))
    emit("dmax-plain-after", seq, run(so2.deltaMax), state(so2))
    res = so2.seqDeltaMax
    assert res is None or sorted(res) == sorted(so2.seq)
    sp = SequenceParameters(seq)
    emit("SP", seq, run(lambda: sp.get_deltaMax(returnSeqDeltaMax=True)), run(sp.get_kappa))

# pre-set dmax, and a charge pattern that disagrees with the residues (IndexError path)
so = Sequence("KKKKEEEEAAAA", dmax=0.2)
emit("preset", run(lambda: so.deltaMax(True)), state(so))
for cpat in (np.array([1., 1., 1., 1., 1., 1., -1., -1., 0., 0., 0., 0.]),
             np.array([0.] * 12),
             np.array([1., -1.] * 6)):
    so = Sequence("KKKKEEEEAAAA", -1, cpat)
    emit("mismatch", [float(x) for x in cpat], run(lambda: so.deltaMax(True)), state(so))
so = Sequence("++++----0000")
emit("reduced-parent", run(lambda: so.deltaMax(True)), state(so))
emit("empty", run(lambda: Sequence("").deltaMax(True)))

for line in LINES:
    print(line)
print("DIGEST", hashlib.sha256("\n".join(LINES).encode()).hexdigest(), len(LINES))
