"""
Differential script for the sliding-window area of localcider/backend/sequence.py.

Run once with cwd=/tmp/seed/R04 (changed tree) and once with cwd=/repo (unchanged
tree); the printed output (per-section digests + overall digest) must be identical.

    cd /tmp/seed/R04 && /venv/bin/python /path/to/equiv.py
    cd /repo         && /venv/bin/python /path/to/equiv.py

Pass --dump to print every individual record (for debugging a mismatch).
"""
import os
import sys
sys.dont_write_bytecode = True   # never write .pyc files into the tree we import from
if os.environ.get('PYTHONHASHSEED') != '0':
    # set iteration order (and so e.g. which invalid residue of a group is reported
    # first) depends on str hashing - pin it so that the digest is deterministic
    os.environ['PYTHONHASHSEED'] = '0'
    os.environ['PYTHONDONTWRITEBYTECODE'] = '1'
    os.execv(sys.executable, [sys.executable] + sys.argv)
sys.path.insert(0, os.getcwd())

import io
import signal
import hashlib
import contextlib
import collections
import warnings

warnings.simplefilter('ignore')

import numpy as np
import localcider
from localcider.backend.sequence import Sequence

assert os.path.abspath(localcider.__file__).startswith(os.path.abspath(os.getcwd()) + os.sep), localcider.__file__

DUMP = '--dump' in sys.argv

records = collections.OrderedDict()


def canon(x):
    """Deterministic, exact textual form of a result."""
    if isinstance(x, np.ndarray):
        return 'nd(%s,%s,%s)' % (x.dtype, x.shape, canon(x.tolist()))
    if isinstance(x, np.generic):
        return 'npg(%s,%r)' % (type(x).__name__, x.item())
    if isinstance(x, tuple):
        return 'T(' + ','.join(canon(i) for i in x) + ')'
    if isinstance(x, list):
        return 'L[' + ','.join(canon(i) for i in x) + ']'
    if isinstance(x, (set, frozenset)):
        return 'S{' + ','.join(sorted(canon(i) for i in x)) + '}'
    if isinstance(x, dict):
        return 'D{' + ','.join(sorted(canon(k) + ':' + canon(v) for k, v in x.items())) + '}'
    if isinstance(x, collections.deque):
        return 'DQ[' + ','.join(canon(i) for i in x) + ']'
    if isinstance(x, float):
        return 'f' + repr(x)
    if isinstance(x, bool):
        return 'b' + repr(x)
    if isinstance(x, int):
        return 'i' + repr(x)
    return type(x).__name__ + ':' + repr(x)


def state(s):
    """Observable object state of a Sequence."""
    return canon((s.seq, s.len, np.asarray(s.chargePattern), s.dmax, s.seqDeltaMax, list(s.phosphosites)))


def _alarm(signum, frame):
    raise RuntimeError('equiv.py watchdog: call took > 60 s')


signal.signal(signal.SIGALRM, _alarm)


def rec(section, label, fn, *args, **kwargs):
    buf = io.StringIO()
    try:
        signal.alarm(60)
        try:
            with contextlib.redirect_stdout(buf):
                out = fn(*args, **kwargs)
        finally:
            signal.alarm(0)
        res = 'OK ' + canon(out)
    except BaseException as e:  # noqa
        res = 'EXC %s: %s' % (type(e).__name__, e)
    line = '%s | %s | stdout=%r' % (label, res, buf.getvalue())
    records.setdefault(section, []).append(line)


def mk(seq, **kw):
    try:
        with contextlib.redirect_stdout(io.StringIO()):
            return Sequence(seq, **kw)
    except BaseException as e:  # noqa
        records.setdefault('construct', []).append('%r %r -> EXC %s: %s' % (seq, sorted(kw), type(e).__name__, e))
        return None


SEQ60 = 'MEEPQSDPSVEPPLSQETFSDLWKLLPENNVLSPLPSQAMDDLMLSPDDIEQWFTEDPGP'
SEQS = [
    '', 'A', 'E', 'EK', 'EKD', 'GGGG', 'EEEEKKKK', 'EKEKEKEK', 'KKKKKKKKKK', 'DDDDDDDDDDDD',
    'AGSTQNPAGS', 'aekdgrh', 'PPPPPEPPPPKPP', 'WFYILMVCHRKDEQNSTGAP',
    SEQ60, SEQ60.lower(), SEQ60[::-1] + 'RRRRKKKKDDDDEEEE',
    'ß', 'AßEK',      # upper() changes the length -> self.len != len(self.seq)
    'AXEK', 'BZ', 'E K', 'EK1',  # unusual residues
]

BLOBS = [-7, -3, -2, -1, 0, 1, 2, 3, 4, 5, 6, 7, 8, 9, 10, 11, 12, 13, 20, 21, 59, 60, 61, 75, 76, 77, 1000,
         True, False, np.int64(5), np.int32(4), np.int64(0), 5.0, 2.5, 4.0, float('nan'), float('inf'), -float('inf'),
         '5', None, [5], (3,), 2 + 0j]

objs = []
for q in SEQS:
    o = mk(q)
    if o is not None:
        objs.append((repr(q), o))

# user supplied charge patterns (array, list, wrong length)
extra = [
    ('cp-array', mk('EKEKAAGG', chargePattern=np.array([-1, 1, -1, 1, 0, 0, 0, 0]))),
    ('cp-array-float', mk('EKEKAAGG', chargePattern=np.array([-1., 1., -1., 1., 0., 0., 0., 0.]))),
    ('cp-array-scaled', mk('EKEKAAGG', chargePattern=np.array([-2, 3, -0.5, 1, 0, 0, 7, 0]))),
    ('cp-list', mk('EKEKAAGG', chargePattern=[-1, 1, -1, 1, 0, 0, 0, 0])),
    ('cp-short', mk('EKEKAAGG', chargePattern=np.array([-1, 1, -1]))),
    ('cp-long', mk('EKEK', chargePattern=np.array([-1, 1, -1, 1, 1, 1, 1, -1, 0]))),
    ('cp-2d', mk('EKEK', chargePattern=np.array([[-1, 1], [-1, 1], [0, 0], [1, 1]]))),
    ('validated', mk('ekek dd\tAA\n', validateSeq=True)),
]
objs.extend((n, o) for n, o in extra if o is not None)

# ---------------------------------------------------------------- profiles
PROFILE_FNS = ['linearDistOfNCPR', 'linearDistOfFCR', 'linearDistOfSigma',
               'linearDistOfHydropathy', 'linearDistOfHydropathy_2']
for name, o in objs:
    for fn in PROFILE_FNS:
        for b in BLOBS:
            before = state(o)
            rec(fn, '%s %s(%r)' % (name, fn, b), getattr(o, fn), b)
            # repeated call on the same object
            rec(fn, '%s %s(%r) again' % (name, fn, b), getattr(o, fn), b)
            if state(o) != before:
                records[fn].append('STATE CHANGED %s %r' % (name, b))
        rec(fn, '%s %s(bloblen=3) kw' % (name, fn), getattr(o, fn), bloblen=3)
        rec(fn, '%s %s() noarg' % (name, fn), getattr(o, fn))

# ---------------------------------------------------------------- private window check
for name, o in objs:
    for b in BLOBS:
        rec('check_window', '%s check(%r)' % (name, b), o._Sequence__check_window_to_length, b)
    rec('check_window', '%s check(bloblen=2)' % name, o._Sequence__check_window_to_length, bloblen=2)

# ---------------------------------------------------------------- density
TARGETS = [['E', 'D'], ['K'], 'ED', 'KR', '', [], (), ('P', 'G'), {'S', 'T'}, frozenset('AG'), {'E': 1},
           ['e'], ['EK'], None, 5, [None], np.array(['E', 'K']), ['E', 'E', 'D'], 'ß', ['SS'], 'SS']
for name, o in objs:
    for t in TARGETS:
        for b in [-2, 0, 1, 2, 3, 4, 5, 8, 9, 60, 61, True, np.int64(2), 2.0, 2.5, float('nan'), '2', None]:
            before = state(o)
            tcopy = canon(t)
            rec('density', '%s dens(%r,%s)' % (name, b, tcopy), o.linearDenistyOfAAs, b, t)
            if state(o) != before or canon(t) != tcopy:
                records['density'].append('STATE CHANGED %s %r %s' % (name, b, tcopy))
    rec('density', '%s dens kw' % name, o.linearDenistyOfAAs, targetAAs=['E'], bloblen=2)
    rec('density', '%s dens missing' % name, o.linearDenistyOfAAs, 2)


# ---------------------------------------------------------------- compositions
def defaults_state():
    return canon(Sequence.linearCompositions.__defaults__)


def make_groups():
    return [
        ('userlist', [['E', 'D'], ['K', 'R']]),
        ('single', [['P']]),
        ('lower', [['e', 'd'], ['k']]),
        ('strings', ['ED', 'K', 'qnst']),
        ('mixed', [['E', 'D'], 'KR', ('G', 'A'), {'S'}]),
        ('nonAA', [['E'], ['X']]),
        ('nonAA-first', [['B'], ['E']]),
        ('multi-char', [['ED']]),
        ('ints', [[1, 2]]),
        ('int', [5]),
        ('none-el', [None]),
        ('empty-group', [[]]),
        ('empty-groups', [[], ['E']]),
        ('empty-user-list', []),
        ('tuple', (['E', 'D'], ['K'])),
        ('empty-tuple', ()),
        ('dict', {'E': 1, 'K': 2}),
        ('empty-dict', {}),
        ('set', {'E', 'K'}),
        ('empty-set', set()),
        ('deque', collections.deque([['E'], ['K']])),
        ('empty-deque', collections.deque()),
        ('ndarray', np.array([['E', 'D'], ['K', 'R']])),
        ('empty-ndarray', np.array([])),
        ('str', 'EK'),
        ('empty-str', ''),
        ('None', None),
        ('int-grps', 3),
        ('generator', (g for g in [['E']])),
        ('dups', [['E', 'E', 'e'], ['K']]),
    ]


records.setdefault('compositions', []).append('defaults@start ' + defaults_state())
for name, o in objs:
    for b in [-1, 0, 1, 2, 3, 5, 6, 8, 9, 60, 61, 2.0, 2.5, np.int64(3), '3', None]:
        before = state(o)
        # default groups, repeatedly (mutable default argument is shared state)
        rec('compositions', '%s comp(%r) default#1' % (name, b), o.linearCompositions, b)
        records['compositions'].append('defaults ' + defaults_state())
        rec('compositions', '%s comp(%r) default#2' % (name, b), o.linearCompositions, b)
        records['compositions'].append('defaults ' + defaults_state())
        rec('compositions', '%s comp(bloblen=%r) kw' % (name, b), o.linearCompositions, bloblen=b)
        for gname, g in make_groups():
            if b not in (2, 5, 61, 2.5) and gname not in ('userlist', 'empty-user-list', 'nonAA', 'deque', 'empty-deque'):
                continue
            rec('compositions', '%s comp(%r,%s)' % (name, b, gname), o.linearCompositions, b, g)
            records['compositions'].append('  arg-after %s' % (canon(g) if gname != 'generator' else 'gen'))
            if gname in ('empty-user-list', 'empty-deque', 'userlist'):
                # call again with the (possibly mutated) argument
                rec('compositions', '%s comp(%r,%s) again' % (name, b, gname), o.linearCompositions, b, g)
                records['compositions'].append('  arg-after2 %s' % canon(g))
                rec('compositions', '%s comp(%r,grps=%s) kw' % (name, b, gname), o.linearCompositions, b, grps=g)
        if state(o) != before:
            records['compositions'].append('STATE CHANGED %s %r' % (name, b))
    rec('compositions', '%s comp() noarg' % name, o.linearCompositions)
records['compositions'].append('defaults@end ' + defaults_state())

# ---------------------------------------------------------------- complexity forwarders
USER_ALPH = {}
for aa in 'ILVAM':
    USER_ALPH[aa] = 'I'
for aa in 'FWY':
    USER_ALPH[aa] = 'F'
for aa in 'DEKR':
    USER_ALPH[aa] = 'K'
for aa in 'STNQGPCH':
    USER_ALPH[aa] = 'S'
BAD_ALPH = {'A': 'A', 'E': 'A'}

cx_objs = [(n, o) for n, o in objs if n in (repr(''), repr('A'), repr('EK'), repr('EEEEKKKK'), repr('AGSTQNPAGS'),
                                             repr('WFYILMVCHRKDEQNSTGAP'), repr(SEQ60), repr(SEQ60.lower()),
                                             repr('ß'), repr('AßEK'), repr('AXEK'), 'cp-short', 'validated')]
for name, o in cx_objs:
    before = state(o)
    for fn in ['get_linear_WF_complexity', 'get_linear_LC_complexity', 'get_linear_LZW_complexity']:
        f = getattr(o, fn)
        rec('complexity', '%s %s()' % (name, fn), f)
        for a in [1, 2, 3, 4, 5, 6, 8, 10, 11, 12, 15, 18, 20, 21, 0, -1, 7, 2.0, '4', None]:
            rec('complexity', '%s %s(alphabetSize=%r)' % (name, fn, a), f, alphabetSize=a)
            rec('complexity', '%s %s(%r) pos' % (name, fn, a), f, a)
        for w in [-1, 0, 1, 2, 3, 4, 5, 8, 10, 20, 59, 60, 61, 100, 3.0, '3', None, np.int64(4)]:
            rec('complexity', '%s %s(windowSize=%r)' % (name, fn, w), f, windowSize=w)
            for st in [1, 2, 3, 7, 2.0, None, '1']:  # (stepSize <= 0 never terminates in either tree)
                rec('complexity', '%s %s(w=%r,step=%r)' % (name, fn, w, st), f, 20, {}, w, st)
                rec('complexity', '%s %s(a=4,w=%r,step=%r) kw' % (name, fn, w, st), f, alphabetSize=4, windowSize=w, stepSize=st)
        rec('complexity', '%s %s(userAlphabet)' % (name, fn), f, userAlphabet=USER_ALPH, windowSize=5)
        rec('complexity', '%s %s(userAlphabet pos)' % (name, fn), f, 20, USER_ALPH, 5, 2)
        rec('complexity', '%s %s(bad userAlphabet)' % (name, fn), f, userAlphabet=BAD_ALPH, windowSize=3)
        rec('complexity', '%s %s(userAlphabet=list)' % (name, fn), f, userAlphabet=[1], windowSize=3)
        rec('complexity', '%s %s(too many)' % (name, fn), f, 20, {}, 3, 1, 3, 9, 9)
        rec('complexity', '%s %s(bad kw)' % (name, fn), f, bloblen=3)
    f = o.get_linear_LC_complexity
    for ws in [1, 2, 3, 4, 5, 10, 0, -1, 2.0, None]:
        for w in [2, 3, 5, 10]:
            rec('complexity', '%s LC(w=%r,word=%r)' % (name, w, ws), f, windowSize=w, wordSize=ws)
            rec('complexity', '%s LC(w=%r,word=%r) pos' % (name, w, ws), f, 4, {}, w, 1, ws)
    rec('complexity', '%s WF(wordSize=3)' % name, o.get_linear_WF_complexity, wordSize=3)
    rec('complexity', '%s LZW(wordSize=3)' % name, o.get_linear_LZW_complexity, wordSize=3)
    f = o.get_reducedAlphabetSequence
    rec('complexity', '%s reduced()' % name, f)
    for a in [1, 2, 3, 4, 5, 6, 8, 10, 11, 12, 15, 18, 20, 21, 0, -1, 7, 2.0, '4', None]:
        rec('complexity', '%s reduced(%r)' % (name, a), f, a)
        rec('complexity', '%s reduced(alphabetSize=%r)' % (name, a), f, alphabetSize=a)
    rec('complexity', '%s reduced(user)' % name, f, userAlphabet=USER_ALPH)
    rec('complexity', '%s reduced(user pos)' % name, f, 20, USER_ALPH)
    rec('complexity', '%s reduced(7,user)' % name, f, 7, USER_ALPH)
    rec('complexity', '%s reduced(bad user)' % name, f, userAlphabet=BAD_ALPH)
    rec('complexity', '%s reduced(extra)' % name, f, 20, {}, 3)
    rec('complexity', '%s reduced(badkw)' % name, f, windowSize=3)
    if state(o) != before:
        records['complexity'].append('STATE CHANGED %s' % name)
records['complexity'].append('USER_ALPH after ' + canon(USER_ALPH))
for fn in ['get_linear_WF_complexity', 'get_linear_LC_complexity', 'get_linear_LZW_complexity', 'get_reducedAlphabetSequence',
           'linearCompositions', 'linearDenistyOfAAs'] + PROFILE_FNS:
    records['complexity'].append('defaults %s %s' % (fn, canon(getattr(Sequence, fn).__defaults__)))

# ---------------------------------------------------------------- final object state
for name, o in objs:
    records.setdefault('final_state', []).append('%s %s' % (name, state(o)))

# ---------------------------------------------------------------- report
total = hashlib.sha256()
for section, lines in records.items():
    h = hashlib.sha256()
    for l in lines:
        if DUMP:
            print('%s :: %s' % (section, l))
        h.update(l.encode('utf-8', 'backslashreplace') + b'\n')
        total.update(l.encode('utf-8', 'backslashreplace') + b'\n')
    print('%-14s n=%6d  sha256=%s' % (section, len(lines), h.hexdigest()))
print('TOTAL sha256=%s' % total.hexdigest())
