"""
Differential check for R4 (permute_block_swap: the parent's delta() is memoised
per object, keyed on (len, charge pattern dtype/shape/bytes)).

Run once with cwd=/tmp/seed/R18 (changed) and once with cwd=/repo (unchanged);
the printed output (including the final digest) must be identical.
"""
import os
import sys
sys.path.insert(0, os.getcwd())

import contextlib
import copy
import hashlib
import io
import signal
import time

import numpy as np

import localcider.backend.sequence as S
from localcider.backend.sequence import Sequence

assert os.path.abspath(S.__file__).startswith(os.path.abspath(os.getcwd())), S.__file__

# --- make the time-seeded moves deterministic ------------------------------
_NOW = [0.0]
time.time = lambda: _NOW[0]


class _Timeout(Exception):
    pass


def _alarm(signum, frame):
    raise _Timeout()


signal.signal(signal.SIGALRM, _alarm)

LINES = []


def emit(*parts):
    LINES.append(repr(parts))


def describe(obj):
    if isinstance(obj, Sequence):
        cpat = obj.chargePattern
        return ("Sequence", obj.seq, obj.len, type(cpat).__name__,
                str(getattr(cpat, "dtype", None)), repr(np.asarray(cpat).tolist()),
                repr(obj.dmax), obj.seqDeltaMax, list(obj.phosphosites))
    return (type(obj).__name__, repr(obj))


def run(fn, limit=60):
    buf = io.StringIO()
    signal.alarm(limit)
    try:
        with contextlib.redirect_stdout(buf):
            res = fn()
        out = ("ok", describe(res))
    except _Timeout:
        out = ("timeout",)
    except Exception as e:  # noqa
        out = ("exc", type(e).__name__, str(e))
    finally:
        signal.alarm(0)
    return out, buf.getvalue()


SEQS = [
    "", "A", "KE", "KEA", "KEAG",            # too short: TypeError / ValueError from randint/sample
    "KEAGS", "KEKEKE", "KKKEEE", "AAAAAAAA",
    "AAAAAAAAAAAAAAAAAAAA",                   # delta can never change: 100 tries, then returns
    "KKKKKKKKKKKK",                           # ditto (single charge type)
    "KKKKEEEE", "KKKKAAAAEEEE",
    "MKKEEDDRRKKSSTTEEDDKKRRAAGG",
    "GSGSGSKGSGSGSEGSGSGSKGSGSGSE",
    "ACDEFGHIKLMNPQRSTVWY",
    "mkkeeddrrkksstteeddkkrraagg",
    "++--00+-0+-0",
    "KEKEKEKEKEKEKEKEKEKEGGGGGGGGGGGGGGGGGGGG",
    "EEEEEEEEEEKKKKKKKKKKAAAAAAAAAA",
]
SEEDS = [0.0, 1.0, 2.5, 1234.5678, 1.7e9, 1700000000.123456, 42.0, 43.0, 44.0, 45.0]

# --- repeated calls on one object (2nd.. calls hit the memo) -----------------
for seq in SEQS:
    so = Sequence(seq)
    before = describe(so)
    for rep in range(2):
        for seed in SEEDS:
            _NOW[0] = seed
            emit("block", seq, rep, seed, run(so.permute_block_swap))
            emit("block-frozen", seq, rep, seed, run(lambda: so.permute_block_swap(frozen={0, 1})))
    assert describe(so) == before, "parent object was modified"
    # other delta based quantities of the parent are untouched by the memo
    emit("parent-delta", seq, run(so.delta), run(so.deltaMax), run(so.kappa), describe(so))
    # a fresh object gives the same answers as the much-used one
    fresh = Sequence(seq, so.dmax)       # (deltaMax() above has set so.dmax)
    _NOW[0] = 7.0
    a = run(so.permute_block_swap)
    b = run(fresh.permute_block_swap)
    assert a == b
    # copies of a used object behave like the original
    for clone in (copy.copy(so), copy.deepcopy(so)):
        assert run(clone.permute_block_swap) == a

# --- state changes between calls must be noticed ----------------------------
seq = "MKKEEDDRRKKSSTTEEDDKKRRAAGG"
so = Sequence(seq)
_NOW[0] = 5.0
emit("mut-0", run(so.permute_block_swap))

# (a) charge pattern edited in place - so that the parent's delta equals that of
#     some children it previously differed from (and vice versa)
so.chargePattern[1] = 0.0
so.chargePattern[2] = -1.0
for seed in SEEDS:
    _NOW[0] = seed
    emit("mut-inplace", seed, run(so.permute_block_swap), run(so.delta))

# (b) charge pattern replaced by a new array of same / different dtype, by a list,
#     by an all-zero pattern (parent delta 0 -> must search the whole 100 tries
#     only when children have delta 0 too)
for label, cpat in [
    ("same-values-int", np.array([int(x) for x in Sequence(seq).chargePattern])),
    ("same-values-f32", np.array(Sequence(seq).chargePattern, dtype=np.float32)),
    ("zeros", np.zeros(len(seq))),
    ("ones", np.ones(len(seq))),
    ("alternating", np.array([1.0, -1.0] * 13 + [0.0])),
    ("bools", np.array([True, False] * 13 + [True])),
    ("shorter", np.array([1.0, -1.0, 0.0])),
    ("two-dim", np.array([[1.0, -1.0, 0.0] * 9])),
    ("list", [1, -1, 0] * 9),
    ("tuple", tuple([1, -1, 0] * 9)),
    ("object-array", np.array([1, -1, 0] * 9, dtype=object)),
    ("masked", np.ma.masked_array([1.0, -1.0, 0.0] * 9, mask=[0, 0, 1] * 9)),
    ("nan", np.array([np.nan, 1.0, -1.0] * 9)),
    ("back-to-fresh", Sequence(seq).chargePattern),
]:
    so.chargePattern = cpat
    for seed in SEEDS[:5]:
        _NOW[0] = seed
        emit("mut-replace", label, seed, run(so.permute_block_swap, limit=30), run(so.delta))

# (c) alternate between two patterns: a one-slot memo must not return the other's value
p1 = Sequence(seq).chargePattern
p2 = np.array([1.0, -1.0] * 13 + [0.0])
for i in range(8):
    so.chargePattern = p1 if i % 2 == 0 else p2
    _NOW[0] = 100.0 + i // 2
    emit("mut-alternate", i, run(so.permute_block_swap))

# (d) length attribute changed (delta depends on self.len as well)
so = Sequence(seq)
_NOW[0] = 3.0
emit("len-0", run(so.permute_block_swap))
so.len = 20
for seed in SEEDS[:5]:
    _NOW[0] = seed
    emit("len-20", seed, run(so.permute_block_swap), run(so.delta))
so.len = 27
_NOW[0] = 3.0
emit("len-back", run(so.permute_block_swap))

# (e) phosphosites / dmax do not enter delta; dmax is handed to the child
so = Sequence("SKKEEDDRRKKSSTTEEDDKKRRAAGGSTY", dmax=0.5)
for seed in SEEDS[:5]:
    _NOW[0] = seed
    emit("dmax", seed, run(so.permute_block_swap))
so.setPhosPhoSites([1, 13, 14])
so.dmax = -1
for seed in SEEDS[:5]:
    _NOW[0] = seed
    emit("phos", seed, run(so.permute_block_swap), describe(so))

# (f) two objects with different patterns never share anything
a = Sequence("KKKKEEEEAAAAKKKKEEEE")
b = Sequence("KEKEKEKEAAAAKEKEKEKE")
for seed in SEEDS:
    _NOW[0] = seed
    emit("pair", seed, run(a.permute_block_swap), run(b.permute_block_swap))

for line in LINES:
    print(line)
print("DIGEST", hashlib.sha256("\n".join(LINES).encode()).hexdigest(), len(LINES))
