"""Differential script for R4 (positional -> keyword arguments in forwarding calls of the
save_* plot wrappers and of SequencePermutants.initializeWangLandauParameters; set([]) -> set()).

Run once with cwd=/tmp/seed/R07 (changed) and once with cwd=/repo (unchanged);
the printed output must be identical.
"""
import os, sys
sys.path.insert(0, os.getcwd())
os.environ.setdefault('MPLBACKEND', 'Agg')
import io, contextlib, hashlib, tempfile, shutil, inspect, warnings
warnings.simplefilter('ignore')
import numpy as np

import localcider
assert os.path.abspath(localcider.__file__).startswith(os.getcwd()), localcider.__file__
import localcider.sequenceParameters as spmod
import localcider.sequencePermutants as permmod
from localcider.sequenceParameters import SequenceParameters
from localcider.sequencePermutants import SequencePermutants
from localcider.backend.sequence import Sequence
from localcider.backend import plotting, wang_landau

LINES = []
CALLS = []


def show(v):
    if isinstance(v, Sequence):
        return 'Sequence(%s)' % v.seq
    if inspect.isfunction(v):
        return 'function:' + v.__name__
    if isinstance(v, float):
        return repr(v)
    if isinstance(v, set):
        return 'set' + repr(sorted(v, key=repr))
    return repr(v)


def run(tag, fn):
    buf = io.StringIO()
    del CALLS[:]
    try:
        with contextlib.redirect_stdout(buf):
            out = ('OK', show(fn()))
    except BaseException as e:  # noqa
        out = ('EXC', type(e).__name__, str(e))
    LINES.append(repr((tag, out, buf.getvalue(), list(CALLS))))


def recorder(orig, name, result=None):
    """stand-in with the parameter names of the real callee: records how every
    parameter was bound (so positional and keyword calls are compared by meaning)"""
    sig = inspect.signature(orig)

    def rec(*args, **kwargs):
        bound = sig.bind(*args, **kwargs)
        passed = sorted(bound.arguments)
        bound.apply_defaults()
        CALLS.append((name, passed, [(k, show(v)) for k, v in bound.arguments.items()]))
        return result
    return rec


SEQS = {
    'mixed': "MEEEKKKKSTTYQPPGNRDE",
    'single': "A",
    'short': "EKEK",
    'polyA': "A" * 24,
    'long': "MKVLAAGIVALLLAAGCSSAQEDKRRSTYPNHWFMKVLAAGIVEEDDKKRRSTSTSYQQNNGG" * 2,
    'neutral': "GSGSGSQNQNQNTTTT",
}

REAL = {n: getattr(plotting, n) for n in ('save_single_phasePlot', 'save_single_uverskyPlot', 'save_linearplot')}
REAL_WLM = wang_landau.WangLandauMachine

workdir = tempfile.mkdtemp(prefix='r4equiv')
os.chdir(workdir)
try:
    # ------------------------------------------------------------ A: recorded forwarding
    for n, f in REAL.items():
        setattr(plotting, n, recorder(f, n, result='callee-return-ignored'))
    for name, seq in sorted(SEQS.items()):
        sp = SequenceParameters(seq)
        for meth in ('save_phaseDiagramPlot', 'save_uverskyPlot'):
            m = getattr(sp, meth)
            run(('rec', meth, name, 'defaults'), lambda: m('f1'))
            run(('rec', meth, name, 'positional'), lambda: m('f2', 'lab', 'ttl', False, 2, 3, 14, 'pdf'))
            run(('rec', meth, name, 'keywords'), lambda: m(filename='f3', saveFormat='svg', fontSize=None, yLim=0.5, xLim=0.25, legendOn=0, title=None, label=7))
            run(('rec', meth, name, 'mixed'), lambda: m('f4', 'L', saveFormat='jpg', xLim=-1))
            run(('rec', meth, name, 'nofile'), lambda: m())
            run(('rec', meth, name, 'toomany'), lambda: m('f', 1, 2, 3, 4, 5, 6, 7, 8))
            run(('rec', meth, name, 'badkw'), lambda: m('f', fp=1))
            run(('rec', meth, name, 'odd'), lambda: m(None, [1], {'a': 1}, (), np.float64(2.5), 'x', -3, 5))
        for meth in ('save_linearNCPR', 'save_linearFCR', 'save_linearSigma', 'save_linearHydropathy'):
            m = getattr(sp, meth)
            run(('rec', meth, name, 'defaults'), lambda: m('g1'))
            for blob in (1, 5, 7, 100, 0, -2, None, 2.5, '5'):
                run(('rec', meth, name, 'blob', repr(blob)), lambda: m('g2', blob))
            run(('rec', meth, name, 'keywords'), lambda: m(saveFormat='pdf', blobLen=3, filename='g3'))
            run(('rec', meth, name, 'positional'), lambda: m('g4', 9, 'svg'))
            run(('rec', meth, name, 'nofile'), lambda: m())
            run(('rec', meth, name, 'badkw'), lambda: m('g', build_fun=1))
        run(('rec-state', name), lambda: (sp.get_sequence(), sorted(vars(sp))))
    for n, f in REAL.items():
        setattr(plotting, n, f)

    # ------------------------------------------------------------ B: real plotting, files on disk
    def digest(path):
        with open(path, 'rb') as fh:
            data = fh.read()
        return (len(data) > 0, hashlib.sha256(data).hexdigest())

    for name in ('mixed', 'single', 'short', 'long'):
        sp = SequenceParameters(SEQS[name])
        for meth in ('save_phaseDiagramPlot', 'save_uverskyPlot'):
            m = getattr(sp, meth)
            f = '%s_%s' % (meth, name)
            run(('real', meth, name, 'default'), lambda: (m(f), digest(f + '.png') if os.path.exists(f + '.png') else digest(f)))
            run(('real', meth, name, 'custom'), lambda: (m(f + 'c', 'lbl', 'My title', False, 0.5, 0.75, 8, 'png'),
                                                         digest(f + 'c.png') if os.path.exists(f + 'c.png') else digest(f + 'c')))
            run(('real', meth, name, 'badformat'), lambda: m(f + 'b', saveFormat='nonsense'))
            run(('real', meth, name, 'baddir'), lambda: m(os.path.join('nodir', 'x')))
        for meth in ('save_linearNCPR', 'save_linearFCR', 'save_linearSigma', 'save_linearHydropathy'):
            m = getattr(sp, meth)
            for blob in (5, 1, 3, 50):
                f = '%s_%s_%s' % (meth, name, blob)
                run(('real', meth, name, blob), lambda: (m(f, blob), digest(f + '.png') if os.path.exists(f + '.png') else digest(f)))
            run(('real', meth, name, 'kw'), lambda: m(filename='%s_%s_kw' % (meth, name), blobLen=2, saveFormat='png'))
            run(('real', meth, name, 'badformat'), lambda: m('zz', 2, 'nonsense'))
    listing = []
    for root, dirs, files in os.walk('.'):
        dirs.sort()
        for fl in sorted(files):
            p = os.path.join(root, fl)
            listing.append((p,) + digest(p))
    LINES.append(repr(('files', listing)))

    # ------------------------------------------------------------ C: SequencePermutants
    LINES.append(repr(('sig', str(inspect.signature(SequencePermutants.initializeWangLandauParameters)))))
    LINES.append(repr(('defaults', [show(d) for d in SequencePermutants.initializeWangLandauParameters.__defaults__])))

    def wl_state(perm):
        w = perm.WLM
        keys = ('writeDir', 'nflatchk', 'flatcrit', 'convergence', 'WL_type', 'nbins_target', 'binmin', 'binmax',
                'nbins_actual', 'relevant_min', 'relevant_max', 'frozen')
        return (perm.WL_ready, type(w).__name__, [(k, show(getattr(w, k, '<missing>'))) for k in keys], w.seq.seq)

    WL_ARGS = [
        ((), {}),
        ((), {'frozen': set([1, 2])}),
        (({3, 4}, 20, 0.1, 0.6, 500, 0.8, 1.01, 'NORMAL'), {}),
        (([0], 5), {'WL_type': 'ZOOM'}),
        ((), {'nbins': 4, 'binmin': 0.2, 'binmax': 0.4, 'flatchck': 10.9, 'flatcrit': '0.5', 'convergence': 2}),
        ((), {'WL_type': 'zoom', 'binmin': 'a'}),
        ((), {'binmin': 1, 'binmax': 1}),
        ((), {'nbins': 0}),
        ((), {'frozen': None}),
        ((), {'flatchk': 5}),
        ((1, 2, 3, 4, 5, 6, 7, 8, 9), {}),
    ]
    for mode in ('recorded', 'real'):
        if mode == 'recorded':
            wang_landau.WangLandauMachine = recorder(REAL_WLM.__init__, 'WangLandauMachine', result='WLM-OBJECT')
            # the recorder is bound on __init__'s signature: supply a placeholder for 'self'
            _r = wang_landau.WangLandauMachine
            wang_landau.WangLandauMachine = lambda *a, **k: _r('<self>', *a, **k)
        else:
            wang_landau.WangLandauMachine = REAL_WLM
        for name in ('mixed', 'short', 'long', 'neutral'):
            for i, (a, k) in enumerate(WL_ARGS):
                with contextlib.redirect_stdout(io.StringIO()):
                    perm = SequencePermutants(SEQS[name])
                run(('wl', mode, name, i),
                    lambda: (perm.initializeWangLandauParameters('/tmp/r4_equiv_wl_out', *a, **k),
                             wl_state(perm) if mode == 'real' else (perm.WL_ready, perm.WLM)))
                run(('wl-ready-after', mode, name, i), lambda: (perm.WL_ready, hasattr(perm, 'WLM')))
        with contextlib.redirect_stdout(io.StringIO()):
            empty = SequencePermutants()
        run(('wl-empty', mode), lambda: empty.initializeWangLandauParameters('/tmp/r4_equiv_wl_out'))
        with contextlib.redirect_stdout(io.StringIO()):
            p2 = SequencePermutants("EKEKEKGGGG")
        run(('wl-noout', mode), lambda: p2.initializeWangLandauParameters())
        # default 'frozen' object is shared between calls in both versions and never mutated
        run(('wl-default-frozen', mode), lambda: (p2.initializeWangLandauParameters('/tmp/r4_equiv_wl_out'),
                                                    show(SequencePermutants.initializeWangLandauParameters.__defaults__[0])))
    wang_landau.WangLandauMachine = REAL_WLM
    run(('ctor',), lambda: sorted(vars(SequencePermutants("EKEK"))))
    run(('perm',), lambda: sorted(SequencePermutants("EEEEKKKKGG").get_permutant().get_sequence()))
finally:
    os.chdir('/')
    shutil.rmtree(workdir, ignore_errors=True)

LINES.append(repr(sorted(n for n in dir(SequenceParameters) if not n.startswith('_'))))
LINES.append(repr(sorted(n for n in dir(SequencePermutants) if not n.startswith('__'))))
blob = "\n".join(LINES)
print("n_cases", len(LINES))
print("sha256", hashlib.sha256(blob.encode('utf-8')).hexdigest())
print("n_exceptions", sum(1 for l in LINES if "('EXC'" in l))
for l in LINES[:2] + [l for l in LINES if l.startswith("(('real'")][:2] + [l for l in LINES if l.startswith("(('wl'")][:2]:
    print(l[:700])
if os.environ.get("EQUIV_DUMP"):
    open(os.environ["EQUIV_DUMP"], "w").write(blob)
