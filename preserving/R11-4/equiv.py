"""
Differential script. Run it once with cwd=/tmp/seed/R11 (changed tree) and once
with cwd=/repo (unchanged tree); the printed output must be identical.

    cd /tmp/seed/R11 && /venv/bin/python /tmp/seed/R11_out/RX/equiv.py
    cd /repo         && /venv/bin/python /tmp/seed/R11_out/RX/equiv.py

Pass -v to dump every recorded line (handy for diffing).
"""
import os
import sys
sys.path.insert(0, os.getcwd())

import contextlib
import hashlib
import io
import random

import numpy as np

import localcider
from localcider.backend import sequence as seqmod
from localcider.backend.sequence import Sequence
from localcider.sequenceParameters import SequenceParameters

# messages are hushed by default; un-hush them so that printing is compared too
from localcider.backend import backendtools
backendtools.HUSH_ALL = False

assert os.path.abspath(localcider.__file__).startswith(os.path.abspath(os.getcwd())), localcider.__file__

LINES = []


def show(x):
    """ deterministic, type-revealing representation """
    if isinstance(x, np.ndarray):
        return "ndarray(%s,%s,%s)" % (x.dtype, x.shape, x.tolist())
    if isinstance(x, (list, tuple)):
        return type(x).__name__ + "[" + ",".join(show(i) for i in x) + "]"
    if isinstance(x, dict):
        return "dict{" + ",".join("%s:%s" % (show(k), show(x[k])) for k in sorted(x)) + "}"
    return "%s:%r" % (type(x).__name__, x)


def rec(tag, fn, *args, **kwargs):
    """ call fn, record result / exception / anything printed """
    buf = io.StringIO()
    try:
        with contextlib.redirect_stdout(buf):
            out = fn(*args, **kwargs)
        line = "%s -> %s" % (tag, show(out))
    except Exception as e:
        out = None
        line = "%s !! %s: %s" % (tag, type(e).__name__, e)
    LINES.append(line + " || printed=%r" % buf.getvalue())
    return out


def state(tag, S):
    LINES.append("%s state seq=%r len=%r cp=%s dmax=%r sdm=%r phos=%r" % (
        tag, S.seq, S.len, show(S.chargePattern), S.dmax, S.seqDeltaMax, S.phosphosites))


AAS = "ACDEFGHIKLMNPQRSTVWY"
rnd = random.Random(20240611)

SEQS = [
    "", "A", "K", "E", "P", "KE", "EK", "AK", "GS",
    "MKKKEEEEDDDRRRGGSAPLLL", "EEEEEEEEEEEEKKKKKKKKKKKK", "EKEKEKEKEKEKEKEKEKEKEKEK",
    "GGGGGGGGGGSSSSSSSSSS", "PPPPPPPPPP", "KKKKKKKKKK", "EEEEEEEEEE", "DDDDDDDDDDAAAAAAAAAA",
    "KKKKKKKAAAAAAAAAAAAA", "RRRRRRRRDDDDDDDDGGGG", "KKKEGGGGGGGG", "KKKEEGGGGGGG", "KKKKEEEGGGGGGGGGGGGG",
    "KKKKAAAAAAAA", "KKKAAAAAAAAA", "KKKKKKKAAAAAAAAAAAAK", "EEEEEEEAAAAAAAAAAAAA",
    "HHHHHHCCCCYYYY", "ACDEFGHIKLMNPQRSTVWY", "acdefghiklmnpqrstvwy", "mkKeE",
    "+-0", "++--00AKE", "+", "0000", "---+",
    "AKX", "XAK", "AXK", "AKB", "AK ", " AK", "A K", "A\tK\nE", "AK*", "AK1", "a-k", "AKZ", "AKU", "AKO", "AKJ",
    "ß", "AßK", "ŉK", "AKé", " AK", "AK E", "   ", "\n",
    "MEEPQSDPSVEPPLSQETFSDLWKLLPENNVLSPLPSQAMDDLMLSPDDIEQWFTEDPGPDEAPRMPEAAPPVAPAPAAPTPAAPAPAPSWPLSSSVPSQKTYQGSYGFRLGFLHSGTAKSVTCTYSPALNKMFCQLAKTCPVQLWVDSTPPPGTRVRAMAIYKQSQHMTEVVRRCPHHERCSDSDGLAPPQHLIRVEGNLRVEYLDDRNTFRHSVVVPYEPPEVGSDCTTIHYNYMCNSSCMGGMNRRPILTIITLEDSSGNLLGRNSFEVRVCACPGRDRRTEEENLRKKGEPHHELPPGSTKRALPNNTSSSPQPKKKPLDGEYFTLQIRGRERFEMFRELNEALELKDAQAGKEPGGSRAHSSHLKSKKGQSTSRHKKLMFKTEGPDSD",
]
for n in (3, 7, 20, 50, 133):
    for _ in range(4):
        SEQS.append("".join(rnd.choice(AAS) for _ in range(n)))
    SEQS.append("".join(rnd.choice("KRDE") for _ in range(n)))
    SEQS.append("".join(rnd.choice("KRDEGSGSGS") for _ in range(n)))
    SEQS.append("".join(rnd.choice("KRGSAQ") for _ in range(n)))
    SEQS.append("".join(rnd.choice("DEGSAQP") for _ in range(n)))
    SEQS.append("".join(rnd.choice("GSAQPNTVLI") for _ in range(n)))

NONSTR = [None, 5, 3.2, b"AKE", ["A", "K"], ("A",), np.array(["A"])]

PHS = [None, 0, 0.0, 1, 3.9, 4.1, 7, 7.0, 7.4, True, False, 10, 10.0, 14, 14.0, -1, 15.5, -0.0,
       np.float64(7.4), np.float32(7.4), np.int64(7), float("inf"), float("-inf"), float("nan"),
       "7", None, [7.0], (7.0,), np.array([3.0, 7.0]), np.array(7.0), 10 ** 400, 7.4, 7, 7.0, 4.1]

CPS = [
    ("list0", lambda n: []),
    ("tuple0", lambda n: ()),
    ("arr0f", lambda n: np.array([])),
    ("arr0i", lambda n: np.array([], dtype=int)),
    ("arr0b", lambda n: np.array([], dtype=bool)),
    ("arr0f32", lambda n: np.array([], dtype=np.float32)),
    ("arr0o", lambda n: np.array([], dtype=object)),
    ("arr0x3", lambda n: np.zeros((0, 3))),
    ("listN", lambda n: [1, -1, 0, 0, 1][:max(n, 1)]),
    ("arrN", lambda n: np.array(([1., -1., 0.] * (n + 1))[:max(n, 1)])),
    ("arrNi", lambda n: np.array(([1, -1, 0] * (n + 1))[:max(n, 1)])),
    ("arr2d", lambda n: np.array([[1., -1.], [0., 1.]])),
    ("nan", lambda n: np.array([np.nan, 1., -2., 0.])),
    ("tupleN", lambda n: (1, 0, -1)),
]


def queries(tag, S, light=False):
    """ everything in the area under test, called repeatedly on one object """
    for rep in range(2):
        t = "%s#%d" % (tag, rep)
        rec(t + " countPos", S.countPos)
        rec(t + " countNeg", S.countNeg)
        rec(t + " countNeut", S.countNeut)
        rec(t + " Fplus", S.Fplus)
        rec(t + " Fminus", S.Fminus)
        rec(t + " FCR", S.FCR)
        rec(t + " NCPR", S.NCPR)
        rec(t + " FER", S.FER)
        rec(t + " mnc", S.mean_net_charge)
        rec(t + " sigma", S.sigma)
        rec(t + " region", S.phasePlotRegion)
        rec(t + " annot", S.phasePlotAnnotation)
        if light:
            continue
        for ph in PHS:
            rec(t + " FCR(%s)" % show(ph), S.FCR, ph)
            rec(t + " NCPR(%s)" % show(ph), S.NCPR, ph)
            rec(t + " FER(%s)" % show(ph), S.FER, ph)
            rec(t + " mnc(%s)" % show(ph), S.mean_net_charge, ph)
        rec(t + " FCR(pH=7.4)", S.FCR, pH=7.4)
        rec(t + " cap", S.charge_at_pH, 7.4)
        rec(t + " capT", S.charge_at_pH, 7.4, mode='TOTAL')
        rec(t + " capN", S.charge_at_pH, 7.4, normalize=True)
        rec(t + " pI", S.isoelectric_point)
    state(tag, S)


def main():
    defaults0 = show(Sequence.__init__.__defaults__)

    # ---- construction + the charge queries, with and without validation
    for s in SEQS:
        for v in (False, True):
            tag = "Seq(%r,v=%s)" % (s, v)
            S = rec(tag, lambda: Sequence(s, validateSeq=v) and None) or None
            try:
                buf = io.StringIO()
                with contextlib.redirect_stdout(buf):
                    S = Sequence(s, validateSeq=v)
            except Exception:
                continue
            queries(tag, S, light=len(s) > 60)
            if len(s) <= 30:
                rec(tag + " kappa", S.kappa)
                rec(tag + " delta", S.delta)
                rec(tag + " SCD", S.sequence_charge_decoration)
                rec(tag + " NCPRblob", S.linearDistOfNCPR, 5)
                rec(tag + " str", S.toString)

    for x in NONSTR:
        rec("Seq(nonstr %s)" % show(x), lambda: Sequence(x) and None)
        rec("Seq(nonstr %s,v)" % show(x), lambda: Sequence(x, validateSeq=True) and None)

    # ---- explicit charge patterns (incl. empty containers of odd dtypes)
    for s in ["", "A", "KE", "AKEDG", "AKX", "XKA", "+-0A", "akedg"]:
        for name, mk in CPS:
            tag = "Seq(%r,cp=%s)" % (s, name)
            try:
                S = Sequence(s, 0.5, mk(len(s)))
            except Exception as e:
                LINES.append("%s !! %s: %s" % (tag, type(e).__name__, e))
                continue
            queries(tag, S, light=True)
    # the charge pattern passed in is used as is (same object)
    cp_in = np.array([1., 0., -1.])
    S = Sequence("KAE", 1.0, cp_in)
    LINES.append("cp identity %r" % (S.chargePattern is cp_in))
    S1 = Sequence("KAE")
    S2 = Sequence("KAE")
    LINES.append("cp fresh %r" % (S1.chargePattern is not S2.chargePattern))
    S1.chargePattern[0] = -1
    LINES.append("cp independent %s %s" % (show(S1.chargePattern), show(S2.chargePattern)))
    queries("mutated-cp", S1)
    S2.chargePattern = np.array([-1., -1., -1.])
    queries("replaced-cp", S2)
    S2.seq = "HHH"
    queries("replaced-seq", S2)
    S2.len = 6
    queries("replaced-len", S2)
    for weird in (float("nan"), float("inf"), 0, 0.0, -3, 2.5, True, "6", None):
        S2.len = weird
        queries("replaced-len(%s)" % show(weird), S2, light=True)
    # charge patterns that are inconsistent with the sequence length reach the
    # 'impossible' branches of phasePlotRegion
    for npos, nneg, nneut in [(5, 2, 0), (2, 5, 0), (4, 4, 0), (2, 2, 0), (1, 0, 0), (0, 1, 1), (3, 0, 9), (0, 3, 9), (7, 7, 7)]:
        S3 = Sequence("AAAA", -1, np.array([1.] * npos + [-1.] * nneg + [0.] * nneut))
        queries("inconsistent(%d,%d,%d)" % (npos, nneg, nneut), S3, light=True)
    # boundaries of the diagram-of-states regions, hit exactly
    for n in (4, 20, 40, 100, 200):
        for npos in range(0, n + 1, max(1, n // 20)):
            for nneg in range(0, n + 1 - npos, max(1, n // 20)):
                S4 = Sequence("K" * npos + "E" * nneg + "G" * (n - npos - nneg))
                rec("grid(%d,%d,%d) region" % (n, npos, nneg), S4.phasePlotRegion)
                rec("grid(%d,%d,%d) sigma" % (n, npos, nneg), S4.sigma)
                rec("grid(%d,%d,%d) FCR" % (n, npos, nneg), S4.FCR)
                rec("grid(%d,%d,%d) NCPR" % (n, npos, nneg), S4.NCPR)
    E = Sequence("")
    LINES.append("empty cp is default %r" % (E.chargePattern is Sequence.__init__.__defaults__[1]))

    # ---- validateSequence called directly (it is a public method)
    V = Sequence("AK")
    for s in SEQS + ["PPPA", "PAAAAAA", "PAAAAA", "P P P A", "pppa"]:
        rec("validate(%r)" % s, V.validateSequence, s)
        rec("validate(upper %r)" % s, V.validateSequence, s.upper())
    for x in NONSTR + [["A", " ", "K"], ["AK", "E"], ("A", "P")]:
        rec("validate(nonstr %s)" % show(x), V.validateSequence, x)

    class MyStr(str):
        pass
    rec("validate(MyStr)", V.validateSequence, MyStr("AK E"))
    rec("validate(MyStr2)", V.validateSequence, MyStr("AKE"))
    state("V", V)

    # ---- SequenceParameters wrappers
    for s in SEQS:
        tag = "SP(%r)" % s
        buf = io.StringIO()
        try:
            with contextlib.redirect_stdout(buf):
                P = SequenceParameters(s)
            LINES.append(tag + " ok printed=%r" % buf.getvalue())
        except Exception as e:
            LINES.append("%s !! %s: %s printed=%r" % (tag, type(e).__name__, e, buf.getvalue()))
            continue
        for rep in range(2):
            t = "%s#%d" % (tag, rep)
            rec(t + " get_countPos", P.get_countPos)
            rec(t + " get_countNeg", P.get_countNeg)
            rec(t + " get_countNeut", P.get_countNeut)
            rec(t + " get_fraction_positive", P.get_fraction_positive)
            rec(t + " get_fraction_negative", P.get_fraction_negative)
            rec(t + " get_FCR", P.get_FCR)
            rec(t + " get_NCPR", P.get_NCPR)
            rec(t + " get_fraction_expanding", P.get_fraction_expanding)
            rec(t + " get_mean_net_charge", P.get_mean_net_charge)
            rec(t + " get_phasePlotRegion", P.get_phasePlotRegion)
            if len(s) <= 60:
                for ph in PHS:
                    rec(t + " get_FCR(%s)" % show(ph), P.get_FCR, ph)
                    rec(t + " get_NCPR(%s)" % show(ph), P.get_NCPR, ph)
                    rec(t + " get_fraction_expanding(%s)" % show(ph), P.get_fraction_expanding, ph)
                    rec(t + " get_mean_net_charge(%s)" % show(ph), P.get_mean_net_charge, ph)
                rec(t + " get_FCR(pH=4.1)", P.get_FCR, pH=4.1)
            if len(s) <= 30:
                rec(t + " get_kappa", P.get_kappa)
                rec(t + " get_delta", P.get_delta)
                rec(t + " get_isoelectric_point", P.get_isoelectric_point)
        state(tag, P.SeqObj)
    # wrapping an existing object
    P = SequenceParameters(SeqObj=Sequence("KKKKEEGGGG"))
    rec("SP(SeqObj) region", P.get_phasePlotRegion)
    rec("SP(SeqObj) FCR", P.get_FCR, 7.0)

    # ---- objects derived from other objects keep working
    S = Sequence("MKKKEEEEDDDRRRGGSAPLLL")
    T = S.swapRes(1, 4)
    queries("swapRes", T, light=True)
    U = Sequence(T.seq, T.dmax, T.chargePattern)
    queries("rebuilt", U)
    LINES.append("shared cp %r" % (U.chargePattern is T.chargePattern))

    LINES.append("defaults unchanged %r %s" % (defaults0 == show(Sequence.__init__.__defaults__), defaults0))

    if "-v" in sys.argv:
        for l in LINES:
            print(l)
    print("lines", len(LINES))
    print("digest", hashlib.sha256("\n".join(LINES).encode("utf-8", "backslashreplace")).hexdigest())


main()
