"""
Differential script for Sequence.setPhosPhoSites and
Sequence.calculateKappaDistOfPhosphoStates.

Run once with cwd=/tmp/seed/R28 (changed tree) and once with cwd=/repo
(unchanged tree); the printed output must be identical.
"""
import os
import sys

sys.path.insert(0, os.getcwd())

import contextlib
import hashlib
import io

import numpy as np

from localcider.backend.sequence import Sequence
from localcider.sequenceParameters import SequenceParameters

assert os.path.abspath(sys.modules['localcider'].__file__).startswith(
    os.path.abspath(os.getcwd()) + os.sep), sys.modules['localcider'].__file__

# the library ships with all messages hushed; switch them on so that the
# printed status / warning text (and its order) is compared as well
from localcider.backend import backendtools
backendtools.HUSH_ALL = False
backendtools.HUSH_STATUS = False
backendtools.HUSH_WARNINGS = False

LINES = []


def emit(*parts):
    LINES.append(" | ".join(str(p) for p in parts))


def run(label, fn):
    """ Call fn(), record result / exception and everything it printed """
    buf = io.StringIO()
    try:
        with contextlib.redirect_stdout(buf):
            out = fn()
        res = "OK " + repr(out)
    except BaseException as e:  # noqa
        res = "EXC " + type(e).__name__ + ": " + str(e)
    emit(label, res, "STDOUT=" + repr(buf.getvalue()))


class Weird(object):
    """ object with an __int__ """

    def __init__(self, v):
        self.v = v

    def __int__(self):
        return self.v


class MyInt(int):
    pass


SEQS = {
    "tau": "MAEPRQEFEVMEDHAGTYGLGDRKDQGGYTMHQDQEGDTDAGLKESPLQTPTEDGSEEPGSETSDAKSTPTAEDVTAPLVDEGAPGKQAAAQPHTEIPEGTTAEEAGIGDTPSLEDEAAGHVTQARMVSKSKDGTGSDDKKAKGADGKTKIATPRGAAPPGQKGQANATRIPAKTPPAPKTPPSSGEPPKSGDRSGYSSPGSPGTPGSRSRTPSLPTPPTREPKKVAVVRTPPKSPSSAKSRLQTAPVPMPDLKNVKSKIGSTENLKHQPGGGK",
    "short": "KKSEETYDDRSK",
    "lower": "kksEEtyDDrsk",
    "sty": "STYSTYSTY",
    "nosty": "KKEEDDRRAAGG",
    "one": "S",
    "oneK": "K",
    "empty": "",
    "mixed": "EKEKSEKEKTEKEKYEKEKSRRDDTT",
    "neutral": "GSGSGSTGSY",
}

SITE_INPUTS = [
    ("int3", lambda s: 3),
    ("int1", lambda s: 1),
    ("int0", lambda s: 0),
    ("intneg", lambda s: -2),
    ("intbig", lambda s: 10 ** 6),
    ("true", lambda s: True),
    ("false", lambda s: False),
    ("myint", lambda s: MyInt(3)),
    ("empty_list", lambda s: []),
    ("empty_tuple", lambda s: ()),
    ("list_all", lambda s: list(range(-2, len(s.seq) + 4))),
    ("list_rev", lambda s: list(range(len(s.seq) + 2, -2, -1))),
    ("dups", lambda s: [3, 3, 7, 3, 7, 1, 1]),
    ("tuple", lambda s: (1, 2, 3, 6, 7)),
    ("set", lambda s: {1, 2, 3}),
    ("str_digits", lambda s: "1237"),
    ("str_multi", lambda s: "12"),
    ("str_bad", lambda s: "3x7"),
    ("list_str", lambda s: ["3", " 7 ", "1"]),
    ("floats", lambda s: [3.0, 6.9, 7.2, -0.5, 0.9]),
    ("float_scalar", lambda s: 3.0),
    ("nan", lambda s: [1, float("nan"), 3]),
    ("inf", lambda s: [3, float("inf"), 7]),
    ("none", lambda s: None),
    ("list_none", lambda s: [3, None, 7]),
    ("list_bad_mid", lambda s: [3, 7, "a", 1]),
    ("list_nested", lambda s: [[3], 7]),
    ("np_int", lambda s: np.int64(3)),
    ("np_arr", lambda s: np.array([1, 3, 7, 100])),
    ("np_arr_f", lambda s: np.array([1.5, 3.2, 7.9])),
    ("gen", lambda s: (i for i in [7, 3, 1, 0, 99])),
    ("range", lambda s: range(0, 12)),
    ("weird", lambda s: [Weird(3), Weird(0), Weird(7)]),
    ("bools", lambda s: [True, False, True]),
    ("alias", lambda s: s.phosphosites),
    ("dict", lambda s: {3: "a", 7: "b"}),
    ("bytes", lambda s: b"\x03\x07"),
    ("sty_sites", lambda s: s.get_STY_residues()),
]


def state(s):
    return (list(s.phosphosites), s.get_phosphosites(), s.seq, s.len)


def fmt_dist(dist):
    return [tuple(repr(x) for x in row) for row in dist]


# ---------------------------------------------------------------------------
# 1. setPhosPhoSites on fresh objects, followed by a repeated call
for sname, seq in SEQS.items():
    for iname, mk in SITE_INPUTS:
        s = Sequence(seq)
        run("set/%s/%s/1" % (sname, iname), lambda: s.setPhosPhoSites(mk(s)))
        emit("state", state(s))
        run("set/%s/%s/2" % (sname, iname), lambda: s.setPhosPhoSites(mk(s)))
        emit("state", state(s))
        run("set/%s/%s/3" % (sname, iname), lambda: s.setPhosPhoSites([1, 2, 3]))
        emit("state", state(s))
        s.clear_phosphosites()
        run("set/%s/%s/4" % (sname, iname), lambda: s.setPhosPhoSites(mk(s)))
        emit("state", state(s))

# 2. pre-populated / aliased state
for sname in ("short", "sty", "mixed"):
    s = Sequence(SEQS[sname])
    with contextlib.redirect_stdout(io.StringIO()):
        s.setPhosPhoSites(s.get_STY_residues()[:2])
    emit("pre", state(s))
    run("alias/%s" % sname, lambda: s.setPhosPhoSites(s.phosphosites))
    emit("state", state(s))
    run("alias2/%s" % sname, lambda: s.setPhosPhoSites(s.get_phosphosites()))
    emit("state", state(s))

# 3. calculateKappaDistOfPhosphoStates
for sname, seq in SEQS.items():
    full = Sequence(seq).get_STY_residues()
    for n in (0, 1, 2, 3, 6):
        if n > len(full) and n > 1:
            continue
        s = Sequence(seq)
        with contextlib.redirect_stdout(io.StringIO()):
            s.setPhosPhoSites(full[:n])
        before = state(s)
        holder = {}

        def go():
            holder["r"] = s.calculateKappaDistOfPhosphoStates()
            return fmt_dist(holder["r"])
        run("dist/%s/%d/a" % (sname, n), go)
        run("dist/%s/%d/b" % (sname, n), go)
        emit("unchanged", before == state(s),
             s.calculateNumberDifferentPhosphoStates())
        if "r" in holder:
            emit("types", [[type(x).__name__ for x in row]
                           for row in holder["r"][:2]])

    # reversed / unsorted order of phosphosites
    s = Sequence(seq)
    with contextlib.redirect_stdout(io.StringIO()):
        s.setPhosPhoSites(list(reversed(full[:4])))
    run("dist/%s/rev" % sname,
        lambda: fmt_dist(s.calculateKappaDistOfPhosphoStates()))

# 4. through the public SequenceParameters wrapper
for sname in ("tau", "short", "mixed", "nosty"):
    sp = SequenceParameters(SEQS[sname])
    run("sp/set/%s" % sname, lambda: sp.set_phosphosites(
        sp.get_all_phosphorylatable_sites()[:7] + [0, 4, 10 ** 4]))
    emit("sp/sites", sp.get_phosphosites())
    run("sp/dist/%s" % sname,
        lambda: fmt_dist(sp.get_full_phosphostatus_kappa_distribution()))
    run("sp/kmax/%s" % sname, lambda: repr(sp.get_kappa_after_phosphorylation()))
    run("sp/pseq/%s" % sname, lambda: sp.get_phosphosequence())
    sp.clear_phosphosites()
    run("sp/dist0/%s" % sname,
        lambda: fmt_dist(sp.get_full_phosphostatus_kappa_distribution()))

# 5. hand-edited phosphosite lists (unusual object state)
for sname, sites in (("short", [2, -1]), ("short", [2, 50]), ("short", [0, 0, 2]),
                     ("short", ["2"]), ("short", [2.0]), ("one", [0]),
                     ("mixed", [4, 9, -3, 4])):
    s = Sequence(SEQS[sname])
    s.phosphosites = list(sites)
    run("hand/%s/%r" % (sname, sites),
        lambda: fmt_dist(s.calculateKappaDistOfPhosphoStates()))
    run("hand-set/%s/%r" % (sname, sites),
        lambda: s.setPhosPhoSites([3, 1, 0, 5]))
    emit("state", repr(s.phosphosites))

# 6. default configuration (everything hushed)
backendtools.HUSH_ALL = True
for sname in ("short", "mixed"):
    s = Sequence(SEQS[sname])
    run("hush/set/%s" % sname,
        lambda: s.setPhosPhoSites(list(range(-1, len(s.seq) + 2))))
    emit("state", state(s))
    run("hush/dist/%s" % sname,
        lambda: fmt_dist(s.calculateKappaDistOfPhosphoStates()))

text = "\n".join(LINES)
print("lines", len(LINES))
print("sha256", hashlib.sha256(text.encode("utf-8")).hexdigest())
if "--dump" in sys.argv:
    print(text)
