"""
Differential script: run once with cwd=/tmp/seed/R32 (changed tree) and once
with cwd=/repo (unchanged tree); the printed output must be identical.

    cd /tmp/seed/R32 && /venv/bin/python /tmp/seed/R32_out/RX/equiv.py > a.txt
    cd /repo         && /venv/bin/python /tmp/seed/R32_out/RX/equiv.py > b.txt
    diff a.txt b.txt
"""
import os
import sys

# the script's own directory is first on sys.path by default; we want the
# library from the *current working directory* instead
sys.path.insert(0, os.getcwd())

import contextlib
import hashlib
import io
import tempfile
import warnings

warnings.simplefilter("ignore")

import numpy as np

import localcider
from localcider.backend import backendtools
from localcider.backend import sequence as seqmod
from localcider.backend import seqfileparser
from localcider.backend.sequence import Sequence
from localcider.sequenceParameters import SequenceParameters
from localcider.sequencePermutants import SequencePermutants
from localcider import sequencePermutants as permmod
from localcider import sequenceParameters as parammod

sys.stderr.write("library under test: %s\n" % os.path.dirname(localcider.__file__))

# un-hush all status/warning messages so that printed text is compared too.
# Every module that did `from .config import HUSH_*` holds its own copy.
for mod in (backendtools,):
    mod.HUSH_ALL = False
    mod.HUSH_STATUS = False
    mod.HUSH_WARNINGS = False


# make the "random" shuffle deterministic (full_shuffle seeds with time.time())
class _FakeTime(object):
    def __init__(self):
        self.t = 1000.0

    def time(self):
        self.t += 1.0
        return self.t


seqmod.time = _FakeTime()

LINES = []


def emit(tag, value):
    LINES.append("%s :: %s" % (tag, value))


def norm(x):
    """deterministic textual form of results"""
    if isinstance(x, SequenceParameters):
        return "SP(%s)" % norm(x.SeqObj)
    if isinstance(x, Sequence):
        return "Seq(seq=%r,len=%r,dmax=%r,phos=%r,cp=%s)" % (
            x.seq, x.len, x.dmax, x.phosphosites,
            [int(v) for v in x.chargePattern])
    if isinstance(x, (float, np.floating)):
        return "f:%.10g" % float(x)
    if isinstance(x, (bool, np.bool_)):
        return "b:%r" % bool(x)
    if isinstance(x, (int, np.integer)):
        return "i:%d(%s)" % (int(x), type(x).__name__)
    if isinstance(x, np.ndarray):
        return "arr[" + ",".join(norm(v) for v in x.tolist()) + "]"
    if isinstance(x, tuple):
        return "(" + ",".join(norm(v) for v in x) + ")"
    if isinstance(x, list):
        return "[" + ",".join(norm(v) for v in x) + "]"
    if isinstance(x, dict):
        return "{" + ",".join("%s:%s" % (norm(k), norm(x[k])) for k in sorted(x, key=repr)) + "}"
    if isinstance(x, set):
        return "set{" + ",".join(sorted(norm(v) for v in x)) + "}"
    if x is None:
        return "None"
    if isinstance(x, str):
        return "s:%r" % x
    return "obj:%s" % type(x).__name__


def call(tag, fn, *args, **kwargs):
    """call fn, record result or exception AND everything printed"""
    buf = io.StringIO()
    try:
        with contextlib.redirect_stdout(buf):
            res = fn(*args, **kwargs)
        out = "OK " + norm(res)
    except BaseException as e:  # noqa
        ctx = e.__context__
        out = "EXC %s(%r) ctx=%s" % (type(e).__name__, str(e),
                                     type(ctx).__name__ if ctx is not None else None)
        res = None
    emit(tag, out + " | printed=" + repr(buf.getvalue()))
    return res


def state(tag, obj):
    if hasattr(obj, "SeqObj"):
        emit(tag + ".state", norm(obj.SeqObj) + " attrs=" + repr(sorted(vars(obj))))
    else:
        emit(tag + ".state", "NO SeqObj attrs=" + repr(sorted(vars(obj))))


# ---------------------------------------------------------------------------
# fixtures
# ---------------------------------------------------------------------------
TMP = "/tmp/seed/R32_out/_equiv_tmp"
os.makedirs(TMP, exist_ok=True)


def wfile(name, text):
    p = os.path.join(TMP, name)
    with open(p, "w") as fh:
        fh.write(text)
    return p


F_FASTA = wfile("a.fasta", ">sp|test\nMKKEEDDSTYSTY RRKK\nPPGGSSTTYY 123\n")
F_RAW = wfile("raw.txt", "SEKDSTYYQRSDEEEEKKKK\nGGSS*\n")
F_LOWER = wfile("lower.txt", "sekdstyyqrsdeeeekkkk\n")
F_BAD = wfile("bad.txt", ">h\nMKK!EE\n")
F_TWOHDR = wfile("two.txt", ">h\nMKK\n>h2\nEEE\n")
F_STAR = wfile("star.txt", "MK*KEE\n")
F_EMPTY = wfile("empty.txt", "")
F_MISSING = os.path.join(TMP, "does_not_exist.fasta")

SEQS = [
    "MKKEEDDSTYSTYRRKKPPGGSSTTYY",
    "sekdstyyqrsdeeeekkkk",
    "EEEEEKKKKKEEEEEKKKKKSSSSSTTTTTYYYYY",
    "A",
    "S",
    "GSGSGSGSGS",
    "MDVFMKGLSKAKEGVVAAAEKTKQGVAEAAGKTKEGVLYVGSKTKEGVVHGVATVAEKTKEQVTNVGGAVVTGVTAVAQKTVEGAGSIAAATGFVKKDQLGKNEEGAPQEGILEDMPVDPDNEAYEMPSEEGYQDYEPEA",
    "PPPPPPKEKEPPPP",
    "KEKEKEKEKEKEKEKEKEKEKEKEKE",
    "QQQQQQQQQQQQ",
]


class ModBuiltins(object):
    """instance of a class defined here: __module__ is '__main__'"""
    pass


class ModRaises(object):
    def __getattr__(self, name):
        raise RuntimeError("no attribute for you: " + name)


class ModKbd(object):
    @property
    def __module__(self):
        raise KeyboardInterrupt("stop")


class FakeBackend(object):
    """pretends to live in the backend module"""
    seq = "FAKESEQ"


FakeBackend.__module__ = "localcider.backend.sequence"


class Falsy(object):
    def __bool__(self):
        return False


class EqAll(object):
    """compares equal to everything (so == "" is True)"""
    def __eq__(self, other):
        return True

    def __hash__(self):
        return 1


# ---------------------------------------------------------------------------
# 1. SequenceParameters constructor
# ---------------------------------------------------------------------------
def make_SP(tag, *args, **kwargs):
    holder = {}

    def build():
        holder["o"] = SequenceParameters(*args, **kwargs)
        return holder["o"]

    obj = call(tag, build)
    if obj is not None:
        state(tag, obj)
    return obj


def test_SP_init():
    for i, s in enumerate(SEQS):
        make_SP("SP.init.str%d" % i, s)
        make_SP("SP.init.kw%d" % i, sequence=s)

    odd = ["", " ", "  MKK EE\tDD\nSS ", "mkkee", "MKKXEE", "MKK1EE", "MKK*", "B", "\n",
           "PPPPPPPPAA", "P", "ß", "ACDEFGHIKLMNPQRSTVWY", "acdefghiklmnpqrstvwy" * 3,
           5, 5.5, None, ["M", "K"], b"MKK", ("M",), True, False, 0, EqAll()]
    for i, s in enumerate(odd):
        make_SP("SP.init.odd%d" % i, s)
        make_SP("SP.init.oddkw%d" % i, sequence=s)

    files = [F_FASTA, F_RAW, F_LOWER, F_BAD, F_TWOHDR, F_STAR, F_EMPTY, F_MISSING, "", 5.5, None, TMP]
    for i, f in enumerate(files):
        make_SP("SP.init.file%d" % i, sequenceFile=f)
        make_SP("SP.init.filepos%d" % i, "", f)
        # sequence wins over the file when both are given
        make_SP("SP.init.both%d" % i, "MKKEEDD", f)
        make_SP("SP.init.bothbad%d" % i, "MKXEEDD", f)
        make_SP("SP.init.eqall%d" % i, EqAll(), f)

    make_SP("SP.init.noargs")
    make_SP("SP.init.None3", None, None, None)

    # SeqObj branch
    so_ok = Sequence("MKKEEDDSTY")
    so_dmax = Sequence("EEEEKKKKSS", 0.25)
    so_lower = Sequence("mkkee")
    seqobjs = [so_ok, so_dmax, so_lower, "MKKEE", 5, 5.5, [1], {"a": 1}, (1,), ModBuiltins(),
               ModRaises(), ModKbd(), FakeBackend(), FakeBackend, Sequence, ModBuiltins, Falsy(),
               0, "", [], None, False, True, len, np.array([1]), np.float64(2.0), object(), seqmod,
               SequenceParameters("MKK")]
    for i, so in enumerate(seqobjs):
        o = make_SP("SP.init.SeqObj%d" % i, SeqObj=so)
        if o is not None and hasattr(o, "SeqObj"):
            emit("SP.init.SeqObj%d.identity" % i, o.SeqObj is so)
        o = make_SP("SP.init.SeqObjPos%d" % i, "", "", so)
        o = make_SP("SP.init.SeqObjAndSeq%d" % i, "MKKEE", F_FASTA, so)
        if o is not None and hasattr(o, "SeqObj"):
            emit("SP.init.SeqObjAndSeq%d.identity" % i, o.SeqObj is so)
        o = make_SP("SP.init.SeqObjBadSeq%d" % i, "MKX", F_MISSING, so)

    # multi-element numpy array as SeqObj: truth value ambiguous
    make_SP("SP.init.SeqObjArr", SeqObj=np.array([1, 2]))
    make_SP("SP.init.seqArr", np.array(["M", "K"]))

    # shared SeqObj: two SP objects over one Sequence share state
    a = SequenceParameters(SeqObj=so_ok)
    b = SequenceParameters(SeqObj=so_ok)
    call("SP.shared.set", a.set_phosphosites, [8, 9])
    call("SP.shared.get", b.get_phosphosites)

    # re-running __init__ on a live object
    c = SequenceParameters("MKKEESS")
    call("SP.reinit.bad", c.__init__, "")
    state("SP.reinit.bad", c)
    call("SP.reinit.badSO", c.__init__, SeqObj="zzz")
    state("SP.reinit.badSO", c)
    call("SP.reinit.good", c.__init__, "EEKK")
    state("SP.reinit.good", c)
    call("SP.reinit.file", c.__init__, sequenceFile=F_RAW)
    state("SP.reinit.file", c)
    call("SP.reinit.so", c.__init__, SeqObj=so_dmax)
    state("SP.reinit.so", c)


# ---------------------------------------------------------------------------
# 2. get_sequence / get_length / __len__ / str / repr
# ---------------------------------------------------------------------------
def test_basic_getters():
    with contextlib.redirect_stdout(io.StringIO()):
        _test_basic_getters()


def _test_basic_getters():
    objs = [SequenceParameters(s) for s in SEQS]
    objs.append(SequenceParameters(sequenceFile=F_FASTA))
    objs.append(SequenceParameters(sequenceFile=F_RAW))
    objs.append(SequenceParameters(SeqObj=Sequence("ß")))       # upper() changes the length
    objs.append(SequenceParameters(SeqObj=Sequence("straße")))
    objs.append(SequenceParameters(SeqObj=Sequence("")))
    objs.append(SequenceParameters(SeqObj=FakeBackend()))
    fb = FakeBackend()
    fb.seq = None
    objs.append(SequenceParameters(SeqObj=fb))
    fb2 = FakeBackend()
    fb2.seq = ["M", "K", "E"]
    objs.append(SequenceParameters(SeqObj=fb2))
    fb3 = FakeBackend()
    fb3.seq = 12
    objs.append(SequenceParameters(SeqObj=fb3))
    fb4 = FakeBackend()
    del_seq = FakeBackend
    objs.append(SequenceParameters(SeqObj=fb4))
    broken = SequenceParameters("MKK")
    del broken.SeqObj
    objs.append(broken)
    for i, o in enumerate(objs):
        call("basic%d.get_sequence" % i, o.get_sequence)
        call("basic%d.get_length" % i, o.get_length)
        call("basic%d.__len__" % i, o.__len__)
        call("basic%d.len()" % i, len, o)
        call("basic%d.str" % i, str, o)
        call("basic%d.__unicode__" % i, o.__unicode__)
        call("basic%d.__str__" % i, o.__str__)
        call("basic%d.repr" % i, lambda o=o: repr(o).replace(hex(id(o)), "ID"))
        call("basic%d.bool" % i, bool, o)
        # repeated calls
        call("basic%d.get_length.again" % i, o.get_length)


# ---------------------------------------------------------------------------
# 3. phosphosites
# ---------------------------------------------------------------------------
def test_phospho():
    site_inputs = [
        [], [1], [9], [8, 9, 10], [9, 9, 9], [0], [-1], [1000], [27], [28],
        9, 0, -3, "9", ["9", "10"], [9.0], [9.7], 9.0, None, [None], ["x"], (8, 11), {9, 10},
        range(1, 30), [True], True, np.array([9, 10]), np.int64(9), "12", "", {9: "a"}, [[9]],
    ]
    for si, s in enumerate(SEQS):
        for ki, sites in enumerate(site_inputs):
            o = SequenceParameters(s)
            tag = "phos.s%d.k%d" % (si, ki)
            call(tag + ".pre.get", o.get_phosphosites)
            call(tag + ".set", o.set_phosphosites, sites)
            call(tag + ".get", o.get_phosphosites)
            state(tag, o)
            if len(o.SeqObj.phosphosites) <= 5:
                call(tag + ".kappaPhos", o.get_kappa_after_phosphorylation)
            call(tag + ".phosseq", o.get_phosphosequence)
            call(tag + ".clear", o.clear_phosphosites)
            call(tag + ".get2", o.get_phosphosites)
            state(tag + ".cleared", o)

    # accumulation over repeated calls + distribution
    for si, s in enumerate(SEQS):
        o = SequenceParameters(s)
        tag = "phosacc.s%d" % si
        call(tag + ".kappaPhos0", o.get_kappa_after_phosphorylation)
        call(tag + ".dist0", o.get_full_phosphostatus_kappa_distribution)
        allsites = o.get_all_phosphorylatable_sites()
        emit(tag + ".all", norm(allsites))
        for j, site in enumerate(allsites[:5]):
            call(tag + ".set%d" % j, o.set_phosphosites, [site])
            call(tag + ".setagain%d" % j, o.set_phosphosites, site)
            r = call(tag + ".get%d" % j, o.get_phosphosites)
            # returned list must be a fresh copy
            r.append(99999)
            call(tag + ".getfresh%d" % j, o.get_phosphosites)
            call(tag + ".kappaPhos%d" % j, o.get_kappa_after_phosphorylation)
            call(tag + ".kappaPhosAgain%d" % j, o.get_kappa_after_phosphorylation)
            call(tag + ".dist%d" % j, o.get_full_phosphostatus_kappa_distribution)
            state(tag + ".after%d" % j, o)
        call(tag + ".clear", o.clear_phosphosites)
        call(tag + ".clear2", o.clear_phosphosites)
        call(tag + ".kappaPhosC", o.get_kappa_after_phosphorylation)
        call(tag + ".distC", o.get_full_phosphostatus_kappa_distribution)
        state(tag + ".end", o)

    # more than 50 phosphostates so that the progress message is exercised
    o = SequenceParameters("EEEEEKKKKKEEEEEKKKKKSSSSSTTTTTYYYYY")
    call("phosbig.set", o.set_phosphosites, [21, 22, 26, 27, 31, 32, 35])
    call("phosbig.kappaPhos", o.get_kappa_after_phosphorylation)
    call("phosbig.dist", o.get_full_phosphostatus_kappa_distribution)

    # odd object states
    o = SequenceParameters("MKKSSEE")
    o.SeqObj.phosphosites = None
    call("phosodd.None.get", o.get_phosphosites)
    call("phosodd.None.kappa", o.get_kappa_after_phosphorylation)
    call("phosodd.None.dist", o.get_full_phosphostatus_kappa_distribution)
    o.SeqObj.phosphosites = (3, 4)
    call("phosodd.tuple.get", o.get_phosphosites)
    call("phosodd.tuple.kappa", o.get_kappa_after_phosphorylation)
    call("phosodd.tuple.dist", o.get_full_phosphostatus_kappa_distribution)
    o.SeqObj.phosphosites = np.array([3, 4])
    call("phosodd.arr.get", o.get_phosphosites)
    call("phosodd.arr.kappa", o.get_kappa_after_phosphorylation)
    call("phosodd.arr.dist", o.get_full_phosphostatus_kappa_distribution)
    o.SeqObj.phosphosites = np.array([], dtype=int)
    call("phosodd.arr0.get", o.get_phosphosites)
    call("phosodd.arr0.kappa", o.get_kappa_after_phosphorylation)
    call("phosodd.arr0.dist", o.get_full_phosphostatus_kappa_distribution)
    o = SequenceParameters(SeqObj=FakeBackend())
    call("phosodd.fake.get", o.get_phosphosites)
    call("phosodd.fake.set", o.set_phosphosites, [1])
    call("phosodd.fake.clear", o.clear_phosphosites)
    call("phosodd.fake.kappa", o.get_kappa_after_phosphorylation)
    call("phosodd.fake.dist", o.get_full_phosphostatus_kappa_distribution)

    # hushed mode prints nothing
    backendtools.HUSH_ALL = True
    o = SequenceParameters("MKKSSEE")
    call("phoshush.kappa", o.get_kappa_after_phosphorylation)
    call("phoshush.set", o.set_phosphosites, [4, 5, 1, 100])
    call("phoshush.dist", o.get_full_phosphostatus_kappa_distribution)
    backendtools.HUSH_ALL = False


# ---------------------------------------------------------------------------
# 4. shuffles
# ---------------------------------------------------------------------------
def test_shuffle():
    frozens = [None, set(), {0}, {0, 1, 2}, [1, 3, 5], (2,), range(0, 4), {100}, {-1}, "ab", 5,
               {0.0, 1.0}, np.array([0, 1]), frozenset([3]), {"0"}, [], set(range(200))]
    for si, s in enumerate(SEQS):
        o = SequenceParameters(s)
        o.set_phosphosites(o.get_all_phosphorylatable_sites()[:2])
        for fi, fr in enumerate(frozens):
            tag = "shuf.s%d.f%d" % (si, fi)
            if fr is None:
                r = call(tag + ".default", o.get_shuffled_sequence)
            else:
                r = call(tag, o.get_shuffled_sequence, fr)
                call(tag + ".kw", o.get_shuffled_sequence, frozen=fr)
            if r is not None:
                emit(tag + ".type", type(r).__name__ + " " + type(r.SeqObj).__name__)
                emit(tag + ".sorted", "".join(sorted(r.get_sequence())))
                emit(tag + ".notsame", r is not o and r.SeqObj is not o.SeqObj)
        state("shuf.s%d.orig" % si, o)
    # dmax carried through
    o = SequenceParameters("EEEEEKKKKKEEEEEKKKKKSS")
    call("shuf.dmax.deltamax", o.get_deltaMax)
    r = call("shuf.dmax.shuffle", o.get_shuffled_sequence, {0, 1})
    state("shuf.dmax.res", r)
    # the default argument is not polluted
    emit("shuf.default", norm(SequenceParameters.get_shuffled_sequence.__defaults__))
    o = SequenceParameters(SeqObj=FakeBackend())
    call("shuf.fake", o.get_shuffled_sequence)


# ---------------------------------------------------------------------------
# 5. HTML colouring
# ---------------------------------------------------------------------------
def test_html():
    from localcider.backend.data import aminoacids
    default = dict(aminoacids.DEFAULT_COLOR_PALETTE)
    allred = dict((k, "red") for k in default)
    upper = dict((k, "RED") for k in default)
    missing = dict(default)
    del missing["W"]
    extra = dict(default)
    extra["X"] = "notacolor"
    badcol = dict(default)
    badcol["A"] = "pink"
    nonstr = dict(default)
    nonstr["C"] = 5
    palettes = [default, allred, upper, missing, extra, badcol, nonstr, {}, None, 5, "ACDEFGHIKLMNPQRSTVWY",
                list(default), aminoacids.DEFAULT_COLOR_PALETTE]
    for si, s in enumerate(SEQS[:6] + ["ACDEFGHIKLMNPQRSTVWY" * 6]):
        o = SequenceParameters(s)
        call("html.s%d.default" % si, lambda o=o: hashlib.md5(o.get_HTMLColorString().encode()).hexdigest())
        call("html.s%d.defaultfull" % si, o.get_HTMLColorString)
        for pi, p in enumerate(palettes):
            tag = "html.s%d.p%d" % (si, pi)
            call(tag + ".set", o.set_HTMLColorResiduePalette, p)
            emit(tag + ".map", norm(o.SeqObj.aminoAcidColorMap))
            call(tag + ".get", o.get_HTMLColorString)
        # the palette handed in is copied, not aliased
        mine = dict(allred)
        o.set_HTMLColorResiduePalette(mine)
        mine["A"] = "blue"
        emit("html.s%d.alias" % si, norm(o.SeqObj.aminoAcidColorMap["A"]))
        emit("html.s%d.defaultpalette" % si, norm(aminoacids.DEFAULT_COLOR_PALETTE))
    odd = Sequence("MKK")
    odd.seq = "MKXZ"
    o = SequenceParameters(SeqObj=odd)
    call("html.oddres", o.get_HTMLColorString)
    o = SequenceParameters(SeqObj=Sequence(""))
    call("html.empty", o.get_HTMLColorString)
    call("html.kw", SequenceParameters("MKK").set_HTMLColorResiduePalette, colorDict=allred)


# ---------------------------------------------------------------------------
# 6. SequencePermutants
# ---------------------------------------------------------------------------
def make_PM(tag, *args, **kwargs):
    holder = {}

    def build():
        holder["o"] = SequencePermutants(*args, **kwargs)
        return "built"

    r = call(tag, build)
    o = holder.get("o")
    if o is not None:
        state(tag, o)
    return o


WL_ATTRS = ["writeDir", "nflatchk", "flatcrit", "convergence", "WL_type", "nbins_target", "binmin", "binmax",
            "nbins_actual", "relevant_min", "relevant_max", "frozen", "dotdotfreq"]


def wl_state(tag, pm):
    emit(tag + ".WL_ready", norm(getattr(pm, "WL_ready", "<unset>")))
    if hasattr(pm, "WLM"):
        m = pm.WLM
        emit(tag + ".WLM", ";".join("%s=%s" % (a, norm(getattr(m, a, "<unset>"))) for a in WL_ATTRS))
        emit(tag + ".WLM.seq", norm(m.seq))
        emit(tag + ".WLM.attrs", repr(sorted(vars(m))))
    else:
        emit(tag + ".WLM", "<none>")


def test_permutants():
    args = [(), ("",), ("", ""), ("MKKEEDDSTY",), ("mkkee",), (" MK KE ",), ("MKXEE",), (5,), (None,), (["M"],),
            ("", F_FASTA), ("", F_RAW), ("", F_BAD), ("", F_MISSING), ("", F_EMPTY), ("", F_STAR), ("", None),
            ("MKKEE", F_FASTA), ("MKKEE", F_MISSING), (EqAll(), F_RAW), (EqAll(), ""), (EqAll(), F_MISSING),
            ("ß",), (b"MKK",), (0,), (False,), ("", 5.5), ("", [F_RAW])]
    for i, a in enumerate(args):
        make_PM("PM.init%d" % i, *a)
    make_PM("PM.init.kw1", sequence="EEKKSS")
    make_PM("PM.init.kw2", sequenceFile=F_FASTA)
    make_PM("PM.init.kw3", sequenceFile=F_FASTA, sequence="EEKKSS")

    outdir = "/tmp/seed/R32_out/_wl_outdir_never_created"
    wl_calls = [
        ((outdir,), {}),
        ((outdir, {1, 2}), {}),
        ((outdir, [0, 3], 20, 0.1, 0.5, 500, 0.8, 1.5, "NORMAL"), {}),
        ((outdir, set(), 20, 0.1, 0.5, 500, 0.8, 1.5, "ZOOM"), {}),
        ((outdir,), dict(WL_type="ZOOM", nbins=7)),
        ((outdir,), dict(frozen=(0, 1), nbins=5, binmin=0.2, binmax=0.7, flatchck=10, flatcrit=0.5,
                         convergence=1.0001, WL_type="NORMAL")),
        ((), dict(OUTDIR=outdir, binmax=0.5)),
        ((outdir,), dict(binmin=0.5, binmax=0.5)),          # zero width -> error
        ((outdir,), dict(nbins="ten")),
        ((outdir,), dict(flatchck="x")),
        ((outdir,), dict(flatcrit=None)),
        ((outdir,), dict(frozen=5)),
        ((outdir,), dict(frozen=None)),
        ((None,), {}),
        ((5,), {}),
        ((), {}),
        ((outdir,), dict(flatchck=3)),
        ((outdir,), dict(WL_type="whatever", binmin="0.25", binmax="0.75", nbins=4.0)),
        ((outdir,), dict(nope=1)),
        ((outdir, set(), 10, 0, 1, 10000, 0.7, 1.0, "NORMAL", "extra"), {}),
    ]
    for si, s in enumerate(["MKKEEDDSTYSTYRRKKPPGGSSTTYY", "EEEEEKKKKKEEEEEKKKKKSSSSSTTTTTYYYYYEEEEEKKKKK", "A"]):
        for wi, (a, kw) in enumerate(wl_calls):
            pm = SequencePermutants(s)
            tag = "PM.wl.s%d.c%d" % (si, wi)
            call(tag, pm.initializeWangLandauParameters, *a, **kw)
            wl_state(tag, pm)
            state(tag, pm)
        pm = SequencePermutants(s)
        # twice on one object
        call("PM.wl.s%d.twice1" % si, pm.initializeWangLandauParameters, outdir, {0})
        call("PM.wl.s%d.twice2" % si, pm.initializeWangLandauParameters, outdir)
        wl_state("PM.wl.s%d.twice" % si, pm)
        # the caller's frozen set is not aliased / mutated
        fr = {0, 1}
        call("PM.wl.s%d.alias" % si, pm.initializeWangLandauParameters, outdir, fr)
        emit("PM.wl.s%d.alias.same" % si, pm.WLM.frozen is fr)
        fr.add(2)
        emit("PM.wl.s%d.alias.after" % si, norm(pm.WLM.frozen))

    emit("PM.wl.defaults", norm(SequencePermutants.initializeWangLandauParameters.__defaults__))
    import inspect
    emit("PM.wl.signature", str(inspect.signature(SequencePermutants.initializeWangLandauParameters)))
    emit("PM.init.signature", str(inspect.signature(SequencePermutants.__init__)))
    emit("PM.perm.signature", str(inspect.signature(SequencePermutants.get_permutant)))

    # empty object: initialise without SeqObj
    pm = SequencePermutants()
    call("PM.empty.wl", pm.initializeWangLandauParameters, outdir)
    wl_state("PM.empty.wl", pm)
    call("PM.empty.perm", pm.get_permutant)
    call("PM.empty.run1", pm.run_wang_landau_DOS, 0, 1, 10)
    call("PM.empty.run2", pm.run_histogramZoom_DOS_estimation, 10)
    call("PM.empty.run3", pm.run_generatePermutants, 10)
    call("PM.empty.ready", getattr(pm, "_SequencePermutants__readyCheck"))

    for si, s in enumerate(SEQS):
        pm = SequencePermutants(s)
        tag = "PM.perm.s%d" % si
        pm.SeqObj.setPhosPhoSites(pm.SeqObj.get_STY_residues()[:2])
        for rep in range(3):
            r = call(tag + ".r%d" % rep, pm.get_permutant)
            if r is not None:
                emit(tag + ".r%d.type" % rep, type(r).__name__ + "/" + type(r.SeqObj).__name__ +
                     " attrs=" + repr(sorted(vars(r))))
                emit(tag + ".r%d.sorted" % rep, "".join(sorted(r.get_sequence())))
                emit(tag + ".r%d.len" % rep, norm(len(r)))
                call(tag + ".r%d.kappa" % rep, r.get_kappa) if len(r) > 5 and r.get_FCR() > 0 else None
                call(tag + ".r%d.phos" % rep, r.get_phosphosites)
        state(tag + ".orig", pm)
        call(tag + ".ready", getattr(pm, "_SequencePermutants__readyCheck"))
        call(tag + ".run1", pm.run_wang_landau_DOS, 0, 1, 10)
        call(tag + ".run2", pm.run_histogramZoom_DOS_estimation, 10)
        call(tag + ".run3", pm.run_generatePermutants, 10)
        call(tag + ".wl", pm.initializeWangLandauParameters, outdir)
        call(tag + ".ready2", getattr(pm, "_SequencePermutants__readyCheck"))

    # dmax carried to the permutant
    pm = SequencePermutants("EEEEEKKKKKEEEEEKKKKKSS")
    pm.SeqObj.deltaMax()
    r = call("PM.perm.dmax", pm.get_permutant)
    # odd SeqObj planted by the user
    pm = SequencePermutants("MKKEE")
    pm.SeqObj = FakeBackend()
    call("PM.perm.fake", pm.get_permutant)
    pm.SeqObj = Sequence("")
    call("PM.perm.emptyseq", pm.get_permutant)
    pm.SeqObj = Sequence("ß")
    call("PM.perm.eszett", pm.get_permutant)

    # hushed
    backendtools.HUSH_ALL = True
    make_PM("PM.hush.init", "MKKEE")
    backendtools.HUSH_ALL = False
    backendtools.HUSH_WARNINGS = True
    make_PM("PM.hushw.init", "MKKEE")
    backendtools.HUSH_WARNINGS = False


def main(extra=None):
    # anything printed outside call() (fixture construction) is swallowed here;
    # everything printed inside call() is recorded per call
    with contextlib.redirect_stdout(io.StringIO()):
        test_SP_init()
        test_basic_getters()
        test_phospho()
        test_shuffle()
        test_html()
        test_permutants()
        if extra is not None:
            extra()
    blob = "\n".join(LINES)
    for line in LINES:
        print(line if len(line) < 400 else line[:200] + " ...md5=" + hashlib.md5(line.encode()).hexdigest())
    print("TOTAL LINES", len(LINES))
    print("DIGEST", hashlib.sha256(blob.encode("utf-8", "backslashreplace")).hexdigest())
    import shutil
    shutil.rmtree(TMP, ignore_errors=True)


if __name__ == "__main__":
    main()
