# Common part of the differential scripts (copied verbatim into each equiv.py).
import os, sys, io, hashlib, contextlib
sys.path.insert(0, os.getcwd())
import numpy as np
import random as _random
import localcider.backend.sequence as S
from localcider.backend.sequence import Sequence

TRACE = []

class _FakeTime(object):
    """Deterministic replacement for the `time` module used for seeding."""
    def __init__(self):
        self.n = 0
    def time(self):
        self.n += 1
        TRACE.append(('time',))
        return 1000.0 + 0.37 * self.n

class _LoggedRandom(_random.Random):
    """random.Random that records every public call made on it."""
    def seed(self, *a, **k):
        TRACE.append(('seed', repr(a), repr(k)))
        return _random.Random.seed(self, *a, **k)
    def sample(self, population, k, **kw):
        TRACE.append(('sample', type(population).__name__, repr(list(population)), k))
        return _random.Random.sample(self, population, k, **kw)
    def shuffle(self, x, *a):
        TRACE.append(('shuffle', repr(list(x))))
        return _random.Random.shuffle(self, x, *a)
    def randint(self, a, b):
        TRACE.append(('randint', repr(a), repr(b)))
        return _random.Random.randint(self, a, b)

class _FakeRng(object):
    Random = _LoggedRandom

FT = _FakeTime()
S.time = FT
S.rng = _FakeRng()

def state(obj):
    if not isinstance(obj, Sequence):
        return ('NOTSEQ', repr(obj))
    cp_ = obj.chargePattern
    return (obj.seq, obj.len, repr(obj.dmax), type(cp_).__name__,
            repr(np.asarray(cp_, dtype=float).tolist()), repr(obj.seqDeltaMax), repr(obj.phosphosites))

RESULTS = []

def run(label, obj, fn):
    """Call fn(), record result / exception / stdout / rng trace / state of obj afterwards."""
    del TRACE[:]
    buf = io.StringIO()
    try:
        with contextlib.redirect_stdout(buf):
            r = fn()
        if r is obj:
            out = ('SELF',)
        else:
            out = ('OK', state(r))
    except BaseException as e:
        out = ('EXC', type(e).__name__, str(e))
    rec = (label, out, buf.getvalue(), tuple(TRACE), state(obj) if obj is not None else None)
    RESULTS.append(rec)

def finish():
    h = hashlib.sha256()
    nexc = 0
    nself = 0
    for rec in RESULTS:
        h.update(repr(rec).encode('utf8'))
        if isinstance(rec[1], tuple) and rec[1][0] == 'EXC':
            nexc += 1
        if isinstance(rec[1], tuple) and rec[1][0] == 'SELF':
            nself += 1
    print('cases', len(RESULTS), 'exceptions', nexc, 'returned-self', nself)
    print('digest', h.hexdigest())
    if '-v' in sys.argv:
        for rec in RESULTS:
            print(repr(rec)[:600])

# ------------------------------------------------------------- R3: full_shuffle
SEQS = ["", "A", "KE", "AKE", "EEEKKK", "GSGSGS", "kEdRaAa", "MKKDEERRSTYPQ",
        "EKEKEKEKEKQQQQPPPGGG", "ßKE", "ACDEFGHIKLMNPQRSTVWY" * 3]

def frozen_variants(n):
    out = [set(), [], (), set(range(n)), list(range(n)), set(range(0, n, 2)), list(range(1, n, 2)),
           set([0]), [n - 1], set([-1]), set([n, n + 5, 100]), [0, 0, 1, 1], (2, 3),
           frozenset([1, 2]), set(np.arange(n)[: n // 2]), np.arange(n)[n // 2:],
           np.array([], dtype=int), {0: 'a', 3: 'b'}, set([1.0, 2.0]), set([0.5]), range(0, n, 3)]
    return out

for s in SEQS:
    for dmax in (-1, 0.4):
        obj = Sequence(s, dmax)
        run(('default-arg', s, dmax), obj, lambda: obj.full_shuffle())
        for fz in frozen_variants(obj.len):
            for rep in range(6):
                run(('shuffle', s, dmax, repr(fz), type(fz).__name__, rep), obj,
                    lambda: obj.full_shuffle(fz))

# unsupported / odd frozen arguments (exceptions must match), one-shot iterators
obj = Sequence("EKEKAAGGPP")
for mk in (lambda: None, lambda: 3, lambda: "01", lambda: "", lambda: iter([0, 1, 2]),
           lambda: (i for i in range(4)), lambda: [[0], [1]], lambda: [None], lambda: set(["a"]),
           lambda: np.array([[0, 1], [2, 3]]), lambda: [True, False]):
    for rep in range(3):
        fz = mk()
        run(('frozen-odd', repr(mk()) if not hasattr(mk(), '__next__') else 'iterator', rep), obj,
            lambda: obj.full_shuffle(fz))

# user supplied charge pattern + unusual residues: full_shuffle re-derives the pattern, so
# unknown residues must raise the same way
for s, pat in (("XBZXBZ", np.array([1.0, -1.0, 0.0, 1.0, -1.0, 0.0])), ("KEAKEA", [1, -1, 0, 1, -1, 0])):
    obj = Sequence(s, 0.3, pat)
    for fz in (set(), set([0, 1]), set(range(6))):
        for rep in range(4):
            run(('pattern', s, repr(sorted(fz)), rep), obj, lambda: obj.full_shuffle(fz))

# object whose seq / len were changed by hand after construction (len and len(seq) disagree)
for newlen in (0, 3, 6, 9):
    obj = Sequence("EKEKAA")
    obj.len = newlen
    for fz in (set(), set([0, 1]), set([7, 8])):
        for rep in range(3):
            run(('len-mismatch', newlen, repr(sorted(fz)), rep), obj, lambda: obj.full_shuffle(fz))

# chained walk
cur = Sequence("EKEKEKDDRRAAGGSSPPQQ", 0.77)
for k in range(100):
    holder = cur
    fz = [0, 19, 5] if k % 2 else set()
    run(('walk', k), holder, lambda: holder.full_shuffle(fz))
    nxt = RESULTS[-1][1]
    cur = Sequence(nxt[1][0], 0.77) if nxt[0] == 'OK' else holder

finish()
