import os, sys; sys.path.insert(0, os.getcwd())
# Differential script for R4 (localcider.plots: show/save_multiple_phasePlot, show/save_multiple_uverskyPlot - label defaults).
# Run once with cwd=/tmp/seed/R43 (changed) and once with cwd=/repo (unchanged); output must match.
os.environ["MPLBACKEND"] = "Agg"
os.environ["SOURCE_DATE_EPOCH"] = "946684800"   # reproducible pdf/ps/svg output
import contextlib
import hashlib
import shutil
import tempfile
import io
import inspect
import warnings
warnings.filterwarnings("ignore")
import logging
logging.disable(logging.CRITICAL)

import numpy as np
import matplotlib
matplotlib.use("Agg")
matplotlib.rcParams["svg.hashsalt"] = "equiv"
import matplotlib.pyplot as plt

import localcider
assert os.path.dirname(os.path.abspath(localcider.__file__)) == os.path.join(os.getcwd(), "localcider"), localcider.__file__
from localcider.sequenceParameters import SequenceParameters
from localcider.backend import plotting as backend
from localcider import plots

TMP = tempfile.mkdtemp(prefix='r43equiv')

RESULTS = []
EVENTS = []


# ---------------------------------------------------------------- helpers
class FlipFlop(object):
    """truth value alternates on every evaluation; records how often it was asked"""
    def __init__(self, first):
        self.state = first
        self.asked = 0

    def __bool__(self):
        self.asked += 1
        val = self.state
        self.state = not self.state
        return val

    def __repr__(self):
        return "FlipFlop"


class BadBool(object):
    def __bool__(self):
        raise RuntimeError("no truth value")

    def __repr__(self):
        return "BadBool"


def norm(x):
    if x is plt:
        return "<pyplot>"
    if isinstance(x, float):
        return round(x, 9)
    if isinstance(x, np.ndarray):
        return ("ndarray", x.shape, [norm(float(v)) for v in x.ravel()])
    if isinstance(x, (list, tuple)):
        # list vs tuple is deliberately not distinguished: the default label collections
        # changed from list literals to tuples and only their contents can be observed
        return ("seq", [norm(v) for v in x])
    if isinstance(x, dict):
        return sorted((repr(k), norm(v)) for k, v in x.items())
    if isinstance(x, (FlipFlop, BadBool)):
        return repr(x)
    if isinstance(x, str) and x.startswith(TMP):
        return "<TMP>" + x[len(TMP):]
    if inspect.isgenerator(x):
        return "<generator>"
    if inspect.isfunction(x) or inspect.ismodule(x):
        return getattr(x, "__name__", "?")
    if hasattr(x, "__module__") and str(type(x).__module__).startswith("localcider"):
        return "<%s>" % type(x).__name__
    return repr(x)


def spy(modname, mod, fname):
    orig = getattr(mod, fname)
    sig = inspect.signature(orig)

    def wrapper(*a, **kw):
        try:
            bound = sig.bind(*a, **kw)
            bound.apply_defaults()
            EVENTS.append((fname, [(k, norm(v)) for k, v in bound.arguments.items()]))
        except TypeError as e:
            EVENTS.append((fname, "BIND-ERROR", str(e)))
        return orig(*a, **kw)
    setattr(mod, fname, wrapper)


for _n in ("show_single_phasePlot", "show_single_uverskyPlot", "show_multiple_phasePlot",
           "show_multiple_uverskyPlot", "save_single_phasePlot", "save_single_uverskyPlot",
           "save_multiple_phasePlot", "save_multiple_uverskyPlot", "multiple_plot", "single_plot"):
    spy("backend", backend, _n)


def _show(*a, **kw):
    EVENTS.append(("plt.show", len(plt.get_fignums())))


plt.show = _show


def fig_state():
    out = []
    for num in plt.get_fignums():
        fig = plt.figure(num)
        for ax in fig.axes:
            leg = ax.get_legend()
            out.append({
                "title": ax.get_title(),
                "xlabel": ax.get_xlabel(),
                "ylabel": ax.get_ylabel(),
                "xlim": [round(float(v), 6) for v in ax.get_xlim()],
                "ylim": [round(float(v), 6) for v in ax.get_ylim()],
                "texts": [(t.get_text(), [round(float(v), 6) for v in getattr(t, "xy", t.get_position())],
                           round(float(t.get_fontsize()), 3)) for t in ax.texts],
                "points": [[[round(float(c), 6) for c in xy] for xy in coll.get_offsets()]
                           for coll in ax.collections],
                "npatches": len(ax.patches),
                "bars": [(round(float(p.get_x()), 6), round(float(p.get_height()), 6),
                          [round(float(c), 4) for c in p.get_facecolor()], round(float(p.get_linewidth()), 4))
                         for p in ax.patches if hasattr(p, "get_height")],
                "nlines": len(ax.lines),
                "legend": None if leg is None else [t.get_text() for t in leg.get_texts()],
            })
    return out


def run(tag, fn, *a, **kw):
    plt.close("all")
    del EVENTS[:]
    buf = io.StringIO()
    try:
        with contextlib.redirect_stdout(buf):
            r = fn(*a, **kw)
        outcome = ("ret", norm(r), buf.getvalue())
    except Exception as e:   # noqa
        outcome = ("exc", type(e).__name__, str(e).replace(TMP, "<TMP>"), buf.getvalue())
    state = fig_state()
    files = []
    for nm in sorted(os.listdir(TMP)):
        full = os.path.join(TMP, nm)
        with open(full, "rb") as fh:
            data = fh.read()
        files.append((nm, len(data), data[:8], hashlib.sha256(data).hexdigest()))
        os.remove(full)
    outcome = outcome + (files,)
    flips = [(k, v.asked, v.state) for k, v in sorted(kw.items()) if isinstance(v, FlipFlop)]
    RESULTS.append((tag, outcome, list(EVENTS), state, flips))
    plt.close("all")


# ---------------------------------------------------------------- inputs
def one_shot(items):
    for it in items:
        yield it


POINTS = [
    ("empty", [], []),
    ("one", [0.2], [0.3]),
    ("one-extreme", [0.95], [0.97]),
    ("two", [0.1, 0.6], [0.5, 0.05]),
    ("three", [0.0, 0.5, 1.0], [1.0, 0.5, 0.0]),
    ("tuples", (0.1, 0.2), (0.3, 0.4)),
    ("ndarray", np.array([0.1, 0.2, 0.3]), np.array([0.3, 0.2, 0.1])),
    ("strings", ["0.1", "0.2"], ["0.3", "0.4"]),
    ("bad-string", ["abc", 0.2], [0.3, 0.4]),
    ("out-of-range", [0.1, 1.2], [0.3, 0.4]),
    ("negative", [0.1, 0.2], [-0.3, 0.4]),
    ("unequal", [0.1, 0.2, 0.3], [0.3, 0.4]),
    ("unequal2", [0.1], [0.3, 0.4]),
    ("none-elem", [None], [0.2]),
    ("none", None, None),
    ("scalars", 0.2, 0.3),
    ("generators", None, None),   # replaced by fresh generators below
    ("ints", [0, 1], [1, 0]),
    ("many", [k / 20.0 for k in range(20)], [(19 - k) / 20.0 for k in range(20)]),
]


def points(name, a, b):
    if name == "generators":
        return one_shot([0.1, 0.2]), one_shot([0.3, 0.4])
    return a, b


GETFIGS = [False, True, None, 0, 1, "", "yes", [], [0]]
LABELS = [[], (), [""], ("",), ["a"], ["a", "b"], ("a", "b"), "ab", "", ["one", "two", "three"],
          ["l%d" % k for k in range(20)], [1, 2], [None, None], None, 5, {"a": 1, "b": 2}]

SHOW = (("phase", plots.show_multiple_phasePlot, "label"), ("uversky", plots.show_multiple_uverskyPlot, "label_list"))
SAVE = (("phase", plots.save_multiple_phasePlot), ("uversky", plots.save_multiple_uverskyPlot))

for fname, f, labkw in SHOW:
    for pname, a, b in POINTS:
        run((fname, pname, "default"), f, *points(pname, a, b))
        for g in (True, False):
            run((fname, pname, "getFig", g), f, *points(pname, a, b), getFig=g)
            for lab in LABELS:
                x, y = points(pname, a, b)
                run((fname, pname, "labels-pos", repr(lab), g), f, x, y, lab, getFig=g)
            x, y = points(pname, a, b)
            run((fname, pname, "labels-kw-gen", g), f, x, y, getFig=g, **{labkw: one_shot(["a", "b"])})
            x, y = points(pname, a, b)
            run((fname, pname, "labels-kw", g), f, x, y, getFig=g, **{labkw: ["k1", "k2"]})
    for g in GETFIGS:
        run((fname, "getFig-values", repr(g)), f, [0.1, 0.2], [0.2, 0.1], getFig=g)
        run((fname, "getFig-values-1pt", repr(g)), f, [0.1], [0.2], getFig=g)
        run((fname, "getFig-values-empty", repr(g)), f, [], [], getFig=g)
    run((fname, "badbool"), f, [0.1], [0.2], getFig=BadBool())
    run((fname, "ndarray2"), f, [0.1], [0.2], getFig=np.array([1, 2]))
    run((fname, "flip-T"), f, [0.1], [0.2], getFig=FlipFlop(True))
    run((fname, "flip-F"), f, [0.1], [0.2], getFig=FlipFlop(False))
    run((fname, "positional-all"), f, [0.1, 0.3], [0.2, 0.4], ["x", "y"], "A title", False, 0.5, 0.7, 14, True)
    run((fname, "positional-all-noFig"), f, [0.1, 0.3], [0.2, 0.4], ["x", "y"], "A title", False, 0.5, 0.7, 14, False)
    for g in (True, False):
        run((fname, "opts1", g), f, [0.1], [0.2], title="", legendOn=False, xLim=0.3, yLim=2, fontSize=4, getFig=g)
        run((fname, "opts2", g), f, [0.1], [0.2], title=None, legendOn=1, xLim=-1, yLim=0, fontSize="large", getFig=g)
        run((fname, "opts-bad", g), f, [0.1], [0.2], xLim="wide", getFig=g)
        run((fname, "opts-badfont", g), f, [0.1], [0.2], fontSize="nonsense", getFig=g)
    run((fname, "unknown-kw"), f, [0.1], [0.2], figure=True)
    run((fname, "other-label-name"), f, [0.1], [0.2], **{("label_list" if labkw == "label" else "label"): ["a"]})
    run((fname, "too-many"), f, [0.1], [0.2], [], "t", True, 1, 1, 10, True, 5)
    run((fname, "no-args"), f)
    run((fname, "one-arg"), f, [0.1])
    # repeated default calls: the default label collection must not accumulate anything
    for rep in range(3):
        run((fname, "repeat-default-1pt", rep), f, [0.1 * (rep + 1)], [0.2], getFig=True)
        run((fname, "repeat-default-2pt", rep), f, [0.1, 0.2], [0.2, 0.3], getFig=True)
        run((fname, "repeat-default-0pt", rep), f, [], [])

for fname, f in SAVE:
    for pname, a, b in POINTS:
        x, y = points(pname, a, b)
        run((fname, "save", pname, "default"), f, x, y, os.path.join(TMP, "out1"))
        for lab in LABELS:
            x, y = points(pname, a, b)
            run((fname, "save", pname, "labels", repr(lab)), f, x, y, os.path.join(TMP, "out2"), lab)
    for fmt in ("png", "pdf", "svg", "ps", "jpg", "nonsense", None, 3):
        run((fname, "save", "fmt-kw", repr(fmt)), f, [0.1, 0.3], [0.2, 0.4], os.path.join(TMP, "fmt_out"), saveFormat=fmt)
        run((fname, "save", "fmt-pos", repr(fmt)), f, [0.1, 0.3], [0.2, 0.4], os.path.join(TMP, "fmt_out.dat"), ["a", "b"], "T", False, 0.6, 0.8, 12, fmt)
    run((fname, "save", "bad-dir"), f, [0.1], [0.2], os.path.join(TMP, "no_such_dir", "x.png"))
    run((fname, "save", "filename-None"), f, [0.1], [0.2], None)
    run((fname, "save", "opts"), f, [0.1], [0.2], os.path.join(TMP, "opts.png"), title="", legendOn=False, xLim=0.3, yLim=2, fontSize=4)
    run((fname, "save", "label-kw"), f, [0.1, 0.4], [0.2, 0.3], filename=os.path.join(TMP, "kw.png"), label_list=["p", "q"])
    run((fname, "save", "label-wrong-kw"), f, [0.1, 0.4], [0.2, 0.3], os.path.join(TMP, "kw.png"), label=["p", "q"])
    run((fname, "save", "unknown-kw"), f, [0.1], [0.2], os.path.join(TMP, "u.png"), getFig=True)
    run((fname, "save", "too-many"), f, [0.1], [0.2], os.path.join(TMP, "u.png"), [], "t", True, 1, 1, 10, "png", 1)
    run((fname, "save", "no-filename"), f, [0.1], [0.2])
    with open(os.path.join(TMP, "exists.png"), "w") as fh:
        fh.write("old content")
    run((fname, "save", "overwrite"), f, [0.1], [0.2], os.path.join(TMP, "exists.png"))
    for rep in range(3):
        run((fname, "save", "repeat-default", rep), f, [0.1, 0.2], [0.2, 0.3], os.path.join(TMP, "rep.png"))

# the *_2 variants and the SequenceParameters entry points share the same backend; make sure
# they still behave (they are untouched by this change)
OBJS = [SequenceParameters(s) for s in ("EKEKEKRRR", "GSGSGSDDD", "KKKKK")]
for g in (True, False):
    run(("phase2", g), plots.show_multiple_phasePlot2, OBJS, getFig=g)
    run(("uversky2", g), plots.show_multiple_uverskyPlot2, OBJS, ["a", "b", "c"], getFig=g)

# public signatures: same parameter names, order and kinds; same non-label defaults; the
# label defaults must still be an empty collection / a collection holding one empty string
for nm in ("show_multiple_phasePlot", "save_multiple_phasePlot", "show_multiple_uverskyPlot", "save_multiple_uverskyPlot",
           "show_multiple_phasePlot2", "save_multiple_phasePlot2", "show_multiple_uverskyPlot2", "save_multiple_uverskyPlot2",
           "show_single_phasePlot", "save_single_phasePlot", "show_single_uverskyPlot", "save_single_uverskyPlot"):
    sig = inspect.signature(getattr(plots, nm))
    RESULTS.append(("sig", nm, [(p.name, str(p.kind), "<required>" if p.default is inspect.Parameter.empty else norm(p.default))
                                for p in sig.parameters.values()]))

shutil.rmtree(TMP, ignore_errors=True)

blob = repr(RESULTS).encode("utf-8")
print("records:", len(RESULTS))
print("exceptions:", sum(1 for r in RESULTS if len(r) > 1 and isinstance(r[1], tuple) and r[1] and r[1][0] == "exc"))
print("returned-fig:", sum(1 for r in RESULTS if len(r) > 1 and isinstance(r[1], tuple) and r[1][:2] == ("ret", "<pyplot>")))
print("files-written:", sum(len(r[1][-1]) for r in RESULTS if len(r) > 1 and isinstance(r[1], tuple) and r[1] and r[1][0] in ("ret", "exc")))
print("digest:", hashlib.sha256(blob).hexdigest())
