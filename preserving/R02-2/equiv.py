"""
Differential script: run once with cwd=/tmp/seed/R02 (changed tree) and once
with cwd=/repo (unchanged tree); the printed output must be identical.

    cd /tmp/seed/R02 && /venv/bin/python /path/to/equiv.py > new.txt
    cd /repo         && /venv/bin/python /path/to/equiv.py > old.txt
    diff old.txt new.txt
"""
import os
import sys
sys.path.insert(0, os.getcwd())

import contextlib
import hashlib
import io
import random
import warnings

import numpy as np

warnings.simplefilter("ignore")
np.seterr(all="ignore")

import localcider
from localcider.backend.sequence import Sequence

assert os.path.abspath(localcider.__file__).startswith(os.path.abspath(os.getcwd())), localcider.__file__

FOCUS = "pI"

LINES = []


def show(x):
    """exact, type-aware, deterministic rendering of a result"""
    if isinstance(x, np.ndarray):
        return "ndarray(%s,%s,%s)" % (x.dtype, x.shape, [show(v) for v in x.tolist()])
    if isinstance(x, (tuple, list)):
        return "%s[%s]" % (type(x).__name__, ",".join(show(v) for v in x))
    if isinstance(x, dict):
        return "dict{%s}" % ",".join("%s:%s" % (show(k), show(x[k])) for k in sorted(x))
    return "%s:%r" % (type(x).__name__, x)


def state(obj):
    return "len=%s seq=%r cp=%s dmax=%s sdm=%s phos=%s" % (
        show(obj.len), obj.seq, show(obj.chargePattern), show(obj.dmax),
        show(obj.seqDeltaMax), show(obj.phosphosites))


def call(label, obj, name, *args, **kwargs):
    buf = io.StringIO()
    try:
        with contextlib.redirect_stdout(buf):
            out = getattr(obj, name)(*args, **kwargs)
        res = "OK " + show(out)
    except BaseException as e:  # noqa
        res = "EXC %s: %s" % (type(e).__name__, e)
    LINES.append("%s | %s%s%s -> %s | printed=%r | %s" % (
        label, name, show(args), show(kwargs), res, buf.getvalue(), state(obj)))


def make(label, *args, **kwargs):
    buf = io.StringIO()
    try:
        with contextlib.redirect_stdout(buf):
            obj = Sequence(*args, **kwargs)
        return obj
    except BaseException as e:  # noqa
        LINES.append("%s | ctor EXC %s: %s | printed=%r" % (label, type(e).__name__, e, buf.getvalue()))
        return None


rnd = random.Random(20240611)
AA = "ACDEFGHIKLMNPQRSTVWY"


def randseq(n, alphabet=AA):
    return "".join(rnd.choice(alphabet) for _ in range(n))


SEQS = [
    "", "A", "K", "E", "KE", "AAAA", "GGGGGGGGGG", "RRRR", "RRRRRRRRRRRRRRRRRRRRRRRRRRRRRR",
    "DDDD", "KKKK", "HHHHHH", "YYYY", "CCCC", "EEEEEEEEEEEEEEEEEEEEEEEEEEEEEEEEE",
    "EKEKEKEKEKEKEKEKEKEKEKEKEKEKEKEKEKEKEKEKEKEKEKEKEK",
    "EEEEEEEEEEEEEEEEEEEEEEEEEKKKKKKKKKKKKKKKKKKKKKKKKK",
    "KKKKKKKKKKKKKKKKKKKKKKKKKKKKKKKKKKKAAAAA",
    "EEEEEEEEEEEEEEEEEEEEEEEEEEEEEEEEEEEGGGGG",
    "KKKKKKKKKKKKKKKKKKKKEEEEEEEEEEEEEEEEEEEEEEEEEEEEEEEEEEEEEEEEEEEEEEE",
    "GGGGGGGKGGGGGGEGGGGGGGGGGGG", "GGGGGGGKKGGGGGEEGGGGGGGGGGGGKDGG",
    "AKAEAKAEAAAAGGGGSSSSKAE", "AAKAAEAAKAAEAAKAA", "KAAAAAAAAAAAAAAAAAAAAAAAAAAAAAAAAAE",
    "MSEQNNTEMTFQIQRIYTKDISFEAPNAPHVFQKDW", "mseqnntemtfqiqriytkdisfeapnaphvfqkdw",
    "AKXE", "BZXJOU", "A KE", "KE-KE", "12345", "K*E", "straße", "ßKEß",
    "KRHKRH", "EDYCEDYC", "KRHEDYC", "PPPPPPPPKKKKEEE", "KEKEK", "KEKEKE", "KKKEE", "KKKEEE",
]
for n in (1, 2, 3, 4, 5, 6, 7, 8, 11, 17, 25, 40, 60, 90):
    SEQS.append(randseq(n))
for n in (10, 30, 60):
    SEQS.append(randseq(n, "KREDAG"))
    SEQS.append(randseq(n, "KRAGSTQN"))
    SEQS.append(randseq(n, "EDAGSTQN"))
    SEQS.append(randseq(n, "KE"))
    SEQS.append(randseq(n, "AGSTQNKE" + "AGSTQN" * 3))

PHS = [7.4, 0, 0.0, 1, 3.9, 4.1, 6.5, 7, 8.5, 10.0, 10.1, 12.5, 14, 14.0, -3.5, 25.25, 400, -400, 1e6,
       np.float64(5.5), np.int64(9), np.float32(2.5), True]
ODD_PHS = [None, "7", float("nan"), float("inf"), -float("inf"), np.array([1.0, 7.0, 13.0]), np.array([3, 9]),
           [7.0], 7 + 0j]
MODES = ["", "TOTAL", "total", None, "NET", 0]
NORMS = [False, True, 0, 1, None, "yes", ""]


def exercise(label, obj, heavy=True):
    if obj is None:
        return
    if FOCUS in ("charge", "all"):
        call(label, obj, "charge_at_pH")
        for ph in PHS:
            for mode in MODES[:3]:
                for norm in NORMS[:2]:
                    call(label, obj, "charge_at_pH", ph, mode, norm)
        for ph in ODD_PHS:
            for mode in ("", "TOTAL"):
                for norm in (False, True):
                    call(label, obj, "charge_at_pH", pH=ph, mode=mode, normalize=norm)
        for mode in MODES:
            for norm in NORMS:
                call(label, obj, "charge_at_pH", 6.0, mode=mode, normalize=norm)
        for ph in (2, 7.4, 11):
            call(label, obj, "FCR", ph)
            call(label, obj, "FER", ph)
            call(label, obj, "NCPR", ph)
            call(label, obj, "mean_net_charge", ph)
    if FOCUS in ("pI", "charge", "all"):
        call(label, obj, "isoelectric_point")
        call(label, obj, "isoelectric_point")
    if FOCUS in ("loops", "all"):
        call(label, obj, "sequence_charge_decoration")
        call(label, obj, "sigma")
        for b in (5, 6, 1, 2, 0, -1, -3, 7, 50, 1000, obj.len, obj.len + 1, obj.len + 2, 5.0, 2.5, None, "5",
                  np.int64(5), np.int64(0), True):
            call(label, obj, "deltaForm", b)
        call(label, obj, "delta")
        call(label, obj, "sequence_charge_decoration")
    if FOCUS in ("phase", "loops", "all"):
        call(label, obj, "delta")
        call(label, obj, "sigma")
        call(label, obj, "phasePlotRegion")
        call(label, obj, "phasePlotAnnotation")
        if heavy:
            call(label, obj, "kappa")
            call(label, obj, "kappa")
            call(label, obj, "deltaMax")
            call(label, obj, "deltaMax", True)
            call(label, obj, "kappa")
        call(label, obj, "phasePlotRegion")
        call(label, obj, "phasePlotAnnotation")


for i, s in enumerate(SEQS):
    exercise("S%02d" % i, make("S%02d" % i, s))
    if i % 5 == 0:
        exercise("V%02d" % i, make("V%02d" % i, s, validateSeq=True))

# kappa first on a fresh object (cold dmax cache), then everything else
for i, s in enumerate(SEQS):
    o = make("F%02d" % i, s)
    if o is not None:
        call("F%02d" % i, o, "kappa")
        call("F%02d" % i, o, "phasePlotAnnotation")
        call("F%02d" % i, o, "isoelectric_point")
        call("F%02d" % i, o, "sequence_charge_decoration")

# preset dmax values
for dm in (0, 0.0, 0.25, 1e-9, -2, 5, float("nan"), np.float64(0.1), None, "x"):
    for s in ("EKEKEKEKAAAGGGKKEE", "GGGGGGGG", "KKKKEEEE", ""):
        o = make("DM", s, dmax=dm)
        exercise("DM(%s,%r)" % (s, dm), o)

# user supplied charge patterns (right / wrong lengths, odd containers and values)
PATTERNS = [
    np.array([1, -1, 0, 0, 1, -1, 1, 0, 0, -1]),
    np.array([1.0, -1.0, 0.0, 0.5, 2.0, -3.0, 0.0, 0.0, 1.0, -1.0]),
    np.array([1, -1, 0]),
    np.array([1, -1, 0, 0, 1, -1, 1, 0, 0, -1, 1, 1, -1, 0]),
    np.array([0, 0, 0, 0, 0, 0, 0, 0, 0, 0]),
    np.array([1, 1, 1, 1, 1, 1, 1, 1, 1, 1]),
    np.array([float("nan"), 1, -1, 0, 0, 0, 1, -1, 0, 0]),
    np.array([[1, -1, 0, 0, 1], [-1, 1, 0, 0, -1]]),
    np.array(["1", "-1", "0", "0", "1", "-1", "1", "0", "0", "x"]),
    np.array([1, -1, 0, 0, 1, -1, 1, 0, 0, -1], dtype=object),
    np.array([True, False, True, False, True, False, True, False, True, False]),
    [1, -1, 0, 0, 1, -1, 1, 0, 0, -1],
    (1, -1, 0, 0, 1, -1, 1, 0, 0, -1),
    [1, "a", None],
    "+-00+-+00-",
]
for j, p in enumerate(PATTERNS):
    for s in ("AKEAGKEKGE", "GGGGGGGGGG", "KE", "K", ""):
        o = make("CP%02d/%s" % (j, s), s, chargePattern=p)
        exercise("CP%02d/%s" % (j, s), o)

# state mutated behind the object's back
for s in ("AKEAGKEKGEKKEEAGAGAKE", "GGGGKGGGG"):
    o = make("MUT", s)
    o.len = 5
    exercise("MUTlen5/" + s, o)
    o = make("MUT", s)
    o.len = 0
    exercise("MUTlen0/" + s, o)
    o = make("MUT", s)
    o.len = len(s) + 4
    exercise("MUTlen+4/" + s, o)
    o = make("MUT", s)
    o.seq = s[:4]
    exercise("MUTseq/" + s, o)
    o = make("MUT", s)
    o.seq = list(s)
    exercise("MUTseqlist/" + s, o)
    o = make("MUT", s)
    o.seq = [c for c in s] + ["KR", 5, None, ("K",), ["K"]]
    exercise("MUTseqodd/" + s, o)

# non-string constructor arguments
for bad in (None, 5, ["K", "E"], b"KEKE"):
    make("BAD", bad)


# subclasses overriding pieces that the functions in the area call into
class Sub(Sequence):
    def __init__(self, *a, **k):
        self.trace = []
        self.fcr_v = k.pop("fcr_v", None)
        self.ncpr_v = k.pop("ncpr_v", None)
        self.region_v = k.pop("region_v", "nope")
        self.q_v = k.pop("q_v", None)
        Sequence.__init__(self, *a, **k)

    def FCR(self, pH=None):
        self.trace.append("FCR")
        return Sequence.FCR(self, pH) if self.fcr_v is None else self.fcr_v

    def NCPR(self, pH=None):
        self.trace.append("NCPR")
        return Sequence.NCPR(self, pH) if self.ncpr_v is None else self.ncpr_v

    def Fplus(self):
        self.trace.append("Fplus")
        return Sequence.Fplus(self)

    def Fminus(self):
        self.trace.append("Fminus")
        return Sequence.Fminus(self)

    def charge_at_pH(self, pH=7.4, mode='', normalize=False):
        self.trace.append("q(%r,%r,%r)" % (pH, mode, normalize))
        if self.q_v is not None:
            return QFUNCS[self.q_v](pH)
        return Sequence.charge_at_pH(self, pH, mode, normalize)

    def phasePlotRegion(self):
        self.trace.append("region")
        if self.region_v != "nope":
            return self.region_v
        return Sequence.phasePlotRegion(self)

    def sigma(self):
        self.trace.append("sigma")
        return Sequence.sigma(self)

    def deltaForm(self, bloblen):
        self.trace.append("dF%r" % (bloblen,))
        return Sequence.deltaForm(self, bloblen)

    def delta(self):
        self.trace.append("delta")
        return Sequence.delta(self)

    def deltaMax(self, returnSeqDeltaMax=False):
        self.trace.append("dmax")
        return Sequence.deltaMax(self, returnSeqDeltaMax)

    def countNeut(self):
        self.trace.append("neut")
        return Sequence.countNeut(self)


QFUNCS = {
    "one": lambda pH: 1.0, "minus": lambda pH: -1.0, "nan": lambda pH: float("nan"),
    "thr": lambda pH: 0.02, "nthr": lambda pH: -0.02, "overthr": lambda pH: 0.020000001,
    "step20": lambda pH: 1 if pH < 20 else -1, "lin30": lambda pH: (30 - pH) / 100.0,
    "lin18": lambda pH: (18 - pH) / 10.0, "linm3": lambda pH: (-3 - pH) / 10.0,
    "linm30": lambda pH: (-30 - pH) / 10.0, "str": lambda pH: "x", "none": lambda pH: None,
    "npone": lambda pH: np.float64(0.5), "arr": lambda pH: np.array([1.0, -1.0]),
    "inv": lambda pH: (pH - 7.3) / 10.0, "int": lambda pH: 0,
}
for qn in sorted(QFUNCS):
    o = Sub("AKEAGKEKGEKKEEAGAGAKE", q_v=qn)
    call("SUBQ/" + qn, o, "isoelectric_point")
    call("SUBQ/" + qn, o, "isoelectric_point")
    LINES.append("SUBQ/" + qn + " trace=" + ",".join(o.trace))

for s in ("AKEAGKEKGEKKEEAGAGAKE", "GGGGKGGGG", "RRRRRRRR", "KKKKKKKKKKGG", "EEEEEEEEEGG", "GGGG"):
    for kw in ({}, {"fcr_v": float("nan")}, {"ncpr_v": float("nan")}, {"fcr_v": 0.3}, {"fcr_v": 0.9, "ncpr_v": 0.9},
               {"fcr_v": 0.9, "ncpr_v": -0.9}, {"fcr_v": 0.25}, {"fcr_v": 0.35}, {"fcr_v": 0.1, "ncpr_v": 2},
               {"region_v": 1}, {"region_v": 5}, {"region_v": 6}, {"region_v": 3.0}, {"region_v": True},
               {"region_v": np.int64(4)}, {"region_v": None}, {"region_v": "2"}, {"region_v": [1]},
               {"region_v": float("nan")}):
        o = Sub(s, **kw)
        lab = "SUB/%s/%s" % (s, sorted(kw.items()) and show(kw))
        exercise(lab, o)
        LINES.append(lab + " trace=" + ",".join(o.trace))

text = "\n".join(LINES)
if os.environ.get("EQUIV_DUMP"):
    with open(os.environ["EQUIV_DUMP"], "w") as fh:
        fh.write(text + "\n")
print("focus:", FOCUS)
print("records:", len(LINES))
print("ok:", sum(1 for l in LINES if "-> OK" in l), "exc:", sum(1 for l in LINES if "-> EXC" in l))
print("sha256:", hashlib.sha256(text.encode("utf-8", "backslashreplace")).hexdigest())
