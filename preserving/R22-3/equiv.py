"""
Differential check for Sequence.charge_at_pH / Sequence.isoelectric_point.

Run once with cwd=/tmp/seed/R22 (changed tree) and once with cwd=/repo
(unchanged tree); the printed output (per-case lines plus a final digest)
must be identical.
"""
import os
import sys

sys.path.insert(0, os.getcwd())
sys.dont_write_bytecode = True

import hashlib
import random
import warnings

import numpy as np

import localcider
from localcider.backend.sequence import Sequence
from localcider.sequenceParameters import SequenceParameters

assert os.path.abspath(localcider.__file__).startswith(os.path.abspath(os.getcwd())), localcider.__file__

LINES = []


def mk(s, cls=Sequence, *extra):
    """Build a Sequence; residues unknown to the charge table need an explicit chargePattern."""
    try:
        return cls(s, *extra)
    except Exception as e:  # noqa
        LINES.append('ctor %r => %s' % (s, type(e).__name__))
        obj = cls.__new__(cls)
        Sequence.__init__(obj, s, -1, [0])
        return obj


def describe(value):
    """Type-aware, bit-exact description of a value."""
    if isinstance(value, np.ndarray):
        return 'ndarray(%s,%s,%s)' % (value.dtype, value.shape, [describe(v) for v in value.ravel().tolist()])
    if isinstance(value, (float, np.floating)):
        return '%s:%s' % (type(value).__name__, float(value).hex() if value == value else 'nan')
    if isinstance(value, complex):
        return 'complex:%r' % (value,)
    if isinstance(value, (list, tuple)):
        return '%s[%s]' % (type(value).__name__, ','.join(describe(v) for v in value))
    return '%s:%r' % (type(value).__name__, value)


def run(label, fn):
    with warnings.catch_warnings(record=True) as caught:
        warnings.simplefilter('always')
        try:
            out = 'OK ' + describe(fn())
        except BaseException as e:  # noqa
            out = 'EXC %s: %s' % (type(e).__name__, e)
    warns = ';'.join('%s:%s' % (w.category.__name__, w.message) for w in caught)
    LINES.append('%s => %s | W[%s]' % (label, out, warns))


# ---------------------------------------------------------------- sequences
rnd = random.Random(20221)
AA = 'ACDEFGHIKLMNPQRSTVWY'
seqs = [
    '', 'A', 'K', 'R', 'H', 'E', 'D', 'Y', 'C', 'G', 'X', 'B', 'Z', '*', ' ', '-',
    'KE', 'EK', 'KR', 'DE', 'HY', 'CY', 'KKKK', 'EEEE', 'HHHH', 'YYYY', 'CCCC', 'RRRRRRRRRR', 'DDDDDDDDDD',
    'AAAAAAAA', 'GSGSGSGS', 'kedrhyc', 'KeDrHyC', 'K E D', 'XKXEX', 'KEKEKEKEKEKEKEKEKEKEKEKEKEKEKEKEKEKEKEKEKEKEKEKEKE',
    'EEEEEEEEEEEEEEEEEEEEEEEEEKKKKKKKKKKKKKKKKKKKKKKKKK',
    'MDVFMKGLSKAKEGVVAAAEKTKQGVAEAAGKTKEGVLYVGSKTKEGVVHGVATVAEKTKEQVTNVGGAVVTGVTAVAQKTVEGAGSIAAATGFVKKDQLGKNEEGAPQEGILEDMPVDPDNEAYEMPSEEGYQDYEPEA',
    'R' * 200, 'D' * 200, 'Y' * 50 + 'R', 'C' * 50 + 'K', 'H' * 99 + 'E',
    'K' * 30 + 'Y' * 30, 'R' * 30 + 'Y' * 30, 'R' * 30 + 'C', 'RY', 'RRY', 'RYY', 'KY', 'KC', 'HD', 'HDD', 'HHD',
    'ßKE', 'K\nE', '1234', 'UOJ',
]
for n in (1, 2, 3, 5, 8, 13, 21, 40, 75, 150, 400):
    for _ in range(6):
        seqs.append(''.join(rnd.choice(AA) for _ in range(n)))
for _ in range(25):
    # charge-rich / biased compositions
    pool = rnd.choice(['KRE', 'KRHDE', 'DEY', 'CYH', 'KRG', 'DEG', 'RY', 'KDEG', 'HG', 'KRHEDYCG'])
    seqs.append(''.join(rnd.choice(pool) for _ in range(rnd.choice([4, 9, 27, 60, 120]))))

pH_values = [7.4, 0, 0.0, 1, 7, 14, 14.0, 3.9, 4.1, 6.5, 8.5, 10.0, 10.1, 12.5, -3.25, 25.5, 1e3, -1e3, 400, -400,
             np.float64(7.4), np.float32(5.5), np.int64(9), True, float('inf'), float('-inf'), float('nan'),
             2 + 1j]
odd_pH = [None, '7', [7.0], (7.0,), np.array([1.0, 7.0, 13.0]), np.array([2, 11]), np.array(6.0), np.array([]),
          np.array([[1.0, 2.0], [3.0, 12.0]])]
modes = ['', 'TOTAL', 'total', None, 'NET', 0]
norms = [False, True, 0, 1, None, 'yes']

# ---------------------------------------------------------------- charge_at_pH
for si, s in enumerate(seqs):
    obj = mk(s)
    run('C%d default' % si, lambda: obj.charge_at_pH())
    for pi, pH in enumerate(pH_values):
        for mode in ('', 'TOTAL'):
            for norm in (False, True):
                run('C%d p%d %r %r' % (si, pi, mode, norm),
                    lambda: obj.charge_at_pH(pH, mode, norm))
    if si < 60:
        for pi, pH in enumerate(odd_pH):
            for mode in ('', 'TOTAL'):
                for norm in (False, True):
                    run('C%d odd%d %r %r' % (si, pi, mode, norm),
                        lambda: obj.charge_at_pH(pH, mode=mode, normalize=norm))
        for mode in modes:
            for norm in norms:
                run('C%d kw %r %r' % (si, mode, norm),
                    lambda: obj.charge_at_pH(pH=5.25, mode=mode, normalize=norm))
    # repeated calls / state untouched
    run('C%d repeat' % si, lambda: [obj.charge_at_pH(6.0), obj.charge_at_pH(6.0), obj.charge_at_pH(6.0, 'TOTAL', True)])
    run('C%d state' % si, lambda: sorted((k, describe(v) if not hasattr(v, '__dict__') else type(v).__name__)
                                         for k, v in vars(obj).items() if k != 'ComplexityObject'))
    # dependants
    for pH in (None, 2.0, 7.4, 11):
        run('C%d FCR %r' % (si, pH), lambda: obj.FCR(pH))
        run('C%d FER %r' % (si, pH), lambda: obj.FER(pH))
        run('C%d NCPR %r' % (si, pH), lambda: obj.NCPR(pH))
        run('C%d mnc %r' % (si, pH), lambda: obj.mean_net_charge(pH))

# warnings turned into errors: the first failing operation must be the same
with warnings.catch_warnings():
    warnings.simplefilter('error')
    for si, s in enumerate(seqs[:70]):
        obj = mk(s)
        for pH in (400, -400, 1e3, -1e3, float('nan'), float('inf')):
            for mode in ('', 'TOTAL'):
                try:
                    LINES.append('CW%d %r %r => OK %s' % (si, pH, mode, describe(obj.charge_at_pH(pH, mode, True))))
                except BaseException as e:  # noqa
                    LINES.append('CW%d %r %r => EXC %s: %s' % (si, pH, mode, type(e).__name__, e))

# a pKa table that lacks entries / a seq attribute that is not a str
import localcider.backend.data.aminoacids as aa_mod
orig_get_pKa = aa_mod.get_pKa
try:
    aa_mod.get_pKa = lambda: {'K': 10.0, 'E': 4.1}
    for si, s in enumerate(['AKAEA', 'AKAEAR', 'DKE', 'GGG', 'KEY', 'CKE', 'HKE']):
        obj = mk(s)
        for norm in (False, True):
            run('PK%d %r' % (si, norm), lambda: obj.charge_at_pH(7.0, normalize=norm))
            run('PKT%d %r' % (si, norm), lambda: obj.charge_at_pH(7.0, 'TOTAL', normalize=norm))
        run('PKI%d' % si, lambda: obj.isoelectric_point())
    calls = []

    def counting():
        calls.append(1)
        return orig_get_pKa()
    aa_mod.get_pKa = counting
    Sequence('KEKE').charge_at_pH(3.0)
    Sequence('').charge_at_pH(3.0)
    Sequence('KD').isoelectric_point()
    LINES.append('get_pKa calls %d' % len(calls))
finally:
    aa_mod.get_pKa = orig_get_pKa

obj = mk('AAA')
for weird in (['K', 'E', 'A', 'KE', 7, None], ('R', 'Y'), [], b'KE', 5, None, [['K']], {'K': 1, 'D': 2}):
    obj.seq = weird
    for norm in (False, True):
        run('WS %r %r' % (weird, norm), lambda: obj.charge_at_pH(8.0, normalize=norm))
        run('WST %r %r' % (weird, norm), lambda: obj.charge_at_pH(8.0, mode='TOTAL', normalize=norm))
    run('WSI %r' % (weird,), lambda: obj.isoelectric_point())


# ---------------------------------------------------------------- isoelectric_point
class Spy(Sequence):
    """records every charge_at_pH call made by isoelectric_point"""

    log = None

    def charge_at_pH(self, *args, **kwargs):
        val = Sequence.charge_at_pH(self, *args, **kwargs)
        self.log.append((args, tuple(sorted(kwargs.items())), describe(val)))
        return val


for si, s in enumerate(seqs):
    obj = mk(s)
    run('I%d' % si, lambda: obj.isoelectric_point())
    run('I%d again' % si, lambda: [obj.isoelectric_point(), obj.isoelectric_point()])
    spy = mk(s, Spy)
    spy.log = []
    run('I%d spy' % si, lambda: spy.isoelectric_point())
    LINES.append('I%d log %d %s' % (si, len(spy.log), hashlib.sha256(repr(spy.log).encode()).hexdigest()))
    run('I%d api' % si, lambda: SequenceParameters(s).get_isoelectric_point())


class Scripted(Sequence):
    """charge_at_pH replaced by a scripted sequence of return values"""

    script = None
    n = 0
    log = None

    def charge_at_pH(self, *args, **kwargs):
        self.log.append((tuple(describe(a) for a in args), tuple(sorted((k, describe(v)) for k, v in kwargs.items()))))
        val = self.script(self.n, args[0] if args else kwargs.get('pH'))
        self.n += 1
        if isinstance(val, BaseException):
            raise val
        return val


scripts = {
    'always+': lambda n, pH: 1.0,
    'always-': lambda n, pH: -1.0,
    'alt': lambda n, pH: 1.0 if n % 2 == 0 else -1.0,
    'alt3': lambda n, pH: (0.5, -0.3, 0.021)[n % 3],
    'smallpos': lambda n, pH: 0.0200001,
    'smallneg': lambda n, pH: -0.0200001,
    'edge+': lambda n, pH: 0.02,
    'edge-': lambda n, pH: -0.02,
    'nan': lambda n, pH: float('nan'),
    'zero_int': lambda n, pH: 0,
    'pos_then_nan': lambda n, pH: 1.0 if n < 57 else float('nan'),
    'stop_at_18': lambda n, pH: 1.0 if n < 18 else 0.0,
    'stop_at_19': lambda n, pH: 1.0 if n < 19 else 0.0,
    'stop_at_20': lambda n, pH: -1.0 if n < 20 else 0.0,
    'stop_at_21': lambda n, pH: -1.0 if n < 21 else 0.0,
    'stop_at_39': lambda n, pH: 1.0 if n < 39 else 0.01,
    'stop_at_40': lambda n, pH: 1.0 if n < 40 else 0.01,
    'stop_at_199': lambda n, pH: -1.0 if n < 199 else 0.01,
    'stop_at_217': lambda n, pH: 1.0 if n < 217 else 0.01,
    'stop_at_218': lambda n, pH: 1.0 if n < 218 else 0.01,
    'stop_at_219': lambda n, pH: 1.0 if n < 219 else 0.01,
    'stop_at_220': lambda n, pH: 1.0 if n < 220 else 0.01,
    'flip_at_19': lambda n, pH: 1.0 if n < 19 else -1.0,
    'flip_at_18': lambda n, pH: 1.0 if n < 18 else -1.0,
    'flip_each_20': lambda n, pH: 1.0 if (n // 20) % 2 == 0 else -1.0,
    'flip_each_19': lambda n, pH: 1.0 if (n // 19) % 2 == 0 else -1.0,
    'far_target': lambda n, pH: 30.0 - pH,
    'far_neg_target': lambda n, pH: -40.0 - pH,
    'very_far': lambda n, pH: 1e6 - pH,
    'raise_at_0': lambda n, pH: ValueError('boom0') if n == 0 else 1.0,
    'raise_at_19': lambda n, pH: ValueError('boom19') if n == 19 else 1.0,
    'raise_at_218': lambda n, pH: KeyError('boom218') if n == 218 else -1.0,
    'raise_at_219': lambda n, pH: KeyError('boom219') if n == 219 else -1.0,
    'none': lambda n, pH: None,
    'str': lambda n, pH: 'x',
    'np0': lambda n, pH: np.float64(0.0),
    'arr': lambda n, pH: np.array([1.0, -1.0]),
    'arr1': lambda n, pH: np.array([1.0]),
    'pseudo': (lambda r: (lambda n, pH: r.uniform(-1, 1) if n < 150 else 0.0))(random.Random(7)),
    'pseudo2': (lambda r: (lambda n, pH: r.choice([0.5, -0.5, 0.03, -0.03])))(random.Random(11)),
}
for name in scripts:
    for s in ('KEKE', '', 'weird seq %s %d'):
        if name.startswith('pseudo'):
            # fresh generator per sequence so both trees see the same stream
            seed = 7 if name == 'pseudo' else 11
            r = random.Random(seed)
            script = (lambda r: (lambda n, pH: r.uniform(-1, 1) if n < 150 else 0.0))(r) if name == 'pseudo' \
                else (lambda r: (lambda n, pH: r.choice([0.5, -0.5, 0.03, -0.03])))(r)
        else:
            script = scripts[name]
        obj = mk(s, Scripted)
        obj.script, obj.n, obj.log = script, 0, []
        run('S %s %r' % (name, s), lambda: obj.isoelectric_point())
        LINES.append('S %s %r calls=%d log=%s' % (name, s, obj.n, hashlib.sha256(repr(obj.log).encode()).hexdigest()))
        if obj.n < 12:
            LINES.append('S %s %r rawlog=%r' % (name, s, obj.log))

digest = hashlib.sha256('\n'.join(LINES).encode('utf-8', 'backslashreplace')).hexdigest()
if '-v' in sys.argv:
    for line in LINES:
        print(line.encode('ascii', 'backslashreplace').decode())
print('cases', len(LINES))
print('digest', digest)
