# Common part of the differential scripts (copied verbatim into each equiv.py).
import os, sys, io, hashlib, contextlib
sys.path.insert(0, os.getcwd())
import numpy as np
import random as _random
import localcider.backend.sequence as S
from localcider.backend.sequence import Sequence

TRACE = []

class _FakeTime(object):
    """Deterministic replacement for the `time` module used for seeding."""
    def __init__(self):
        self.n = 0
    def time(self):
        self.n += 1
        TRACE.append(('time',))
        return 1000.0 + 0.37 * self.n

class _LoggedRandom(_random.Random):
    """random.Random that records every public call made on it."""
    def seed(self, *a, **k):
        TRACE.append(('seed', repr(a), repr(k)))
        return _random.Random.seed(self, *a, **k)
    def sample(self, population, k, **kw):
        TRACE.append(('sample', type(population).__name__, repr(list(population)), k))
        return _random.Random.sample(self, population, k, **kw)
    def shuffle(self, x, *a):
        TRACE.append(('shuffle', repr(list(x))))
        return _random.Random.shuffle(self, x, *a)
    def randint(self, a, b):
        TRACE.append(('randint', repr(a), repr(b)))
        return _random.Random.randint(self, a, b)

class _FakeRng(object):
    Random = _LoggedRandom

FT = _FakeTime()
S.time = FT
S.rng = _FakeRng()

def state(obj):
    if not isinstance(obj, Sequence):
        return ('NOTSEQ', repr(obj))
    cp_ = obj.chargePattern
    return (obj.seq, obj.len, repr(obj.dmax), type(cp_).__name__,
            repr(np.asarray(cp_, dtype=float).tolist()), repr(obj.seqDeltaMax), repr(obj.phosphosites))

RESULTS = []

def run(label, obj, fn):
    """Call fn(), record result / exception / stdout / rng trace / state of obj afterwards."""
    del TRACE[:]
    buf = io.StringIO()
    try:
        with contextlib.redirect_stdout(buf):
            r = fn()
        if r is obj:
            out = ('SELF',)
        else:
            out = ('OK', state(r))
    except BaseException as e:
        out = ('EXC', type(e).__name__, str(e))
    rec = (label, out, buf.getvalue(), tuple(TRACE), state(obj) if obj is not None else None)
    RESULTS.append(rec)

def finish():
    h = hashlib.sha256()
    nexc = 0
    nself = 0
    for rec in RESULTS:
        h.update(repr(rec).encode('utf8'))
        if isinstance(rec[1], tuple) and rec[1][0] == 'EXC':
            nexc += 1
        if isinstance(rec[1], tuple) and rec[1][0] == 'SELF':
            nself += 1
    print('cases', len(RESULTS), 'exceptions', nexc, 'returned-self', nself)
    print('digest', h.hexdigest())
    if '-v' in sys.argv:
        for rec in RESULTS:
            print(repr(rec)[:600])

# ------------------------------------------------------ R2: swapRandChargeRes
import itertools

SEQS = ["", "A", "K", "E", "KK", "EE", "AA", "KE", "KA", "EA", "AKE", "KKKEEE", "KKKAAA", "EEEAAA",
        "GSGSGS", "kEdRaAa", "MKKDEERRSTYPQ", "EKEKEKEKEKQQQQPPPGGG", "ßKE", "RRRRRRRRRD", "DDDDDDDDDG"]

def frozen_sets(seq):
    """A spread of frozen sets: none, each charge class frozen, all-but-one, everything, junk."""
    n = len(seq)
    up = seq.upper()
    pos = set(i for i, c in enumerate(up[:n]) if c in "KR")
    neg = set(i for i, c in enumerate(up[:n]) if c in "DE")
    neu = set(range(n)) - pos - neg
    out = [set(), pos, neg, neu, pos | neg, pos | neu, neg | neu, set(range(n)),
           set(range(0, n, 2)), set(range(1, n, 2)), set([0]), set([n - 1]), set([-1, 100]),
           frozenset(pos), set(np.arange(n)[: n // 2])]
    for cls in (pos, neg, neu):
        if len(cls) > 1:
            out.append(set(sorted(cls)[1:]))      # leave exactly one member of this class free
            out.append((pos | neg | neu) - set(sorted(cls)[:1]))  # everything frozen but one
    return out

for s in SEQS:
    for dmax in (-1, 0.4):
        obj = Sequence(s, dmax)
        run(('default-arg', s, dmax), obj, lambda: obj.swapRandChargeRes())
        for fz in frozen_sets(s):
            for rep in range(12):
                run(('swapRand', s, dmax, repr(sorted(fz)), type(fz).__name__, rep), obj,
                    lambda: obj.swapRandChargeRes(fz))

# frozen given as unsupported / unusual container types
obj = Sequence("EKEKAAGG")
for fz in ([], [0, 1], (0,), None, "01", {0: 1}, 3, np.array([0, 1])):
    run(('frozen-type', repr(fz)), obj, lambda: obj.swapRandChargeRes(fz))

# user supplied charge patterns: unusual residues, lists, nan, short, 2-d, non unit values
CASES = [("XBZXBZ", np.array([1.0, -1.0, 0.0, 1.0, -1.0, 0.0])),
         ("XBZXBZ", np.array([2.0, -0.5, 0.0, 7.0, -3.0, 0.0])),
         ("KEAKEA", [1, -1, 0, 1, -1, 0]),
         ("KEAKEA", (1, -1, 0, 1, -1, 0)),
         ("KEA", np.array([np.nan, np.nan, np.nan])),
         ("KEA", np.array([np.nan, 1.0, -1.0])),
         ("KEAKEA", np.array([1.0, -1.0])),
         ("KE", np.array([1.0, -1.0, 0.0, 0.0, 1.0])),
         ("KEA", np.array([[1.0, -1.0, 0.0]])),
         ("KEA", np.array([1, -1, 0])),
         ("KEA", np.array([True, False, True]))]
for s, pat in CASES:
    obj = Sequence(s, 0.3, pat)
    for fz in (set(), set([0]), set([0, 1]), set([2])):
        for rep in range(10):
            run(('pattern', s, repr(pat), repr(sorted(fz)), rep), obj, lambda: obj.swapRandChargeRes(fz))

# long chained walk on evolving objects (what the Wang-Landau driver does)
cur = Sequence("EKEKEKDDRRAAGGSSPPQQ")
for k in range(150):
    holder = cur
    fz = set([0, 19]) if k % 3 else set()
    run(('walk', k), holder, lambda: holder.swapRandChargeRes(fz))
    nxt = RESULTS[-1][1]
    cur = Sequence(nxt[1][0]) if nxt[0] == 'OK' else holder

finish()
