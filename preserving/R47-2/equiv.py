import os, sys; sys.path.insert(0, os.getcwd())
# Differential harness: run with cwd=/tmp/seed/R47 (changed) and cwd=/repo
# (unchanged); the printed output (one line per probe + a final sha256) must
# be identical.
#
# FOCUS (R2): control flow of get_linear_complexity (if/elif dispatch, the
# WF and LZW branches share one tail, dead RHP block removed).  The harness
# nevertheless exercises the whole wrapper area; the complexity probes cover
# all type spellings, non-string types, wordSize/blobLen/stepSize/alphabet
# variations, the printed warnings and the raised exceptions.
import io
import hashlib
import contextlib
import tempfile
import shutil
import decimal
import fractions

import numpy as np

import localcider
assert os.path.dirname(os.path.dirname(os.path.abspath(localcider.__file__))) == os.path.abspath(os.getcwd()), \
    "localcider imported from %s, not from cwd %s" % (localcider.__file__, os.getcwd())

from localcider.sequenceParameters import SequenceParameters
from localcider.backend.sequence import Sequence

FOCUS = os.environ.get("EQUIV_FOCUS", "ALL")

LINES = []


def canon(x, depth=0):
    """Deterministic, type-revealing rendering of a value."""
    if depth > 6:
        return "<deep>"
    if x is None or isinstance(x, (bool, int, str, bytes)):
        return "%s:%r" % (type(x).__name__, x)
    if isinstance(x, float):
        return "float:%r" % x
    if isinstance(x, np.ndarray):
        return "ndarray[%s,%s]:(%s)" % (x.dtype, x.shape, ",".join(canon(v, depth + 1) for v in x.ravel().tolist()))
    if isinstance(x, np.generic):
        return "np.%s:%r" % (type(x).__name__, x.item())
    if isinstance(x, (list, tuple)):
        return "%s(%s)" % (type(x).__name__, ",".join(canon(v, depth + 1) for v in x))
    if isinstance(x, (set, frozenset)):
        return "%s{%s}" % (type(x).__name__, ",".join(sorted(canon(v, depth + 1) for v in x)))
    if isinstance(x, dict):
        return "dict{%s}" % ",".join(sorted("%s=>%s" % (canon(k, depth + 1), canon(v, depth + 1)) for k, v in x.items()))
    if isinstance(x, SequenceParameters):
        return "SequenceParameters<%s>" % state(x)
    if isinstance(x, Sequence):
        return "Sequence<%s>" % seqstate(x)
    return "obj:%s" % type(x).__name__


def seqstate(so):
    d = {}
    for k in ("seq", "len", "dmax", "seqDeltaMax", "chargePattern", "phosphosites", "aminoAcidColorMap"):
        d[k] = getattr(so, k, "<missing>")
    extra = sorted(set(vars(so).keys()) - set(d.keys()) - {"ComplexityObject"})
    d["__extra__"] = extra
    return hashlib.sha256(canon(d).encode()).hexdigest()[:16]


def state(sp):
    so = getattr(sp, "SeqObj", None)
    if so is None:
        return "noSeqObj"
    own = sorted(vars(sp).keys())
    return seqstate(so) + "/" + ",".join(own)


def probe(label, sp, fn, *args, **kwargs):
    """Call fn(*args, **kwargs) capturing result / exception / prints / state."""
    out = io.StringIO()
    err = io.StringIO()
    with contextlib.redirect_stdout(out), contextlib.redirect_stderr(err):
        try:
            res = "RET " + canon(fn(*args, **kwargs))
        except BaseException as e:  # noqa
            if isinstance(e, (KeyboardInterrupt, SystemExit)):
                raise
            res = "EXC %s: %s" % (type(e).__name__, str(e))
    line = "%s | %s | out=%r | err=%r | state=%s" % (
        label, res, out.getvalue(), err.getvalue(), state(sp) if sp is not None else "-")
    LINES.append(line)


class Upperable(object):
    """Has .upper() returning a valid type string"""
    def __init__(self, v):
        self.v = v

    def upper(self):
        return self.v

    def __repr__(self):
        return "<Upperable %r>" % (self.v,)


class Weird(object):
    def __repr__(self):
        return "<Weird>"


def make_objects(tmpdir):
    objs = []
    seqs = [
        "A", "K", "E", "KE", "AA", "KA", "PP",
        "EEEEEKKKKK", "EKEKEKEKEK", "GSGSGSGSGSGS", "KKKKKKKK", "DDDDGGGGGGGGGG", "RGRGRGRGRGRGRGGGGGGGGG",
        "EKGGS", "EKGGSA", "EKGG",
        "MDVFMKGLSKAKEGVVAAAEKTKQGVAEAAGKTKEGVLYVGSKTKEGVVHGVATVAEKTKEQVTNVGGAVVTGVTAVAQKTVEGAGSIAAATGFVKKDQLGKNEEGAPQEGILEDMPVDPDNEAYEMPSEEGYQDYEPEA",
        "GSGSGSGSGSGSGSGSGSGSEEKKGSGSGSGS",
        "ACDEFGHIKLMNPQRSTVWY",
        "ek ek\ngg ss\tEE",
        "pppppppkekekpppp",
        "QQQQQQQQQQQQQQQQQQQQEEEEEKKKKKQQQQQ",
        "HHHHCCCCYYYYHCYHCY",
        "EEEEEEEEEEEEEEEEEEEEKKKKKKKKKKKKKKKKKKKK",
        "SSSSSSSSSSSSSSSSSSSSSSSSSSSSSSSSSSSSSSSSKSSSSSSSSSSSSSSSSSSSS",
    ]
    for s in seqs:
        objs.append(("seq:%r" % s, (lambda s=s: SequenceParameters(s))))

    # sequence file input (no validation in that path)
    fasta = os.path.join(tmpdir, "in.fasta")
    with open(fasta, "w") as fh:
        fh.write(">test sequence\nMKKEEDDRRGSGSGSPPAAQQNN\nEEKKGGSS\n")
    objs.append(("file:fasta", lambda: SequenceParameters(sequenceFile=fasta)))

    # pre-built backend objects
    objs.append(("SeqObj:plain", lambda: SequenceParameters(SeqObj=Sequence("EKEKGGSSPPDR"))))
    objs.append(("SeqObj:lower-unvalidated", lambda: SequenceParameters(SeqObj=Sequence("ekekggsspp"))))
    objs.append(("SeqObj:empty", lambda: SequenceParameters(SeqObj=Sequence(""))))
    objs.append(("SeqObj:dmax-preset", lambda: SequenceParameters(SeqObj=Sequence("EEKKGGSSEEKK", 0.25))))

    def _permuted():
        s = Sequence("EEEEKKKKGGGGSSSS")
        s.deltaMax()
        return SequenceParameters(SeqObj=s.swapRes(0, 5))
    objs.append(("SeqObj:swapRes-child", _permuted))

    def _unusual():
        # try an unusual residue straight into the backend
        return SequenceParameters(SeqObj=Sequence("EKXBZEK"))
    objs.append(("SeqObj:unusual", _unusual))
    return objs


def constructor_probes():
    for args, kwargs in [
        ((), {}), (("",), {}), (("EKB",), {}), (("E K 1",), {}), ((), {"sequenceFile": "/nonexistent/file.fasta"}),
        ((), {"SeqObj": "EKEK"}), ((), {"SeqObj": 5}), ((), {"SeqObj": Weird()}), ((5,), {}), ((None,), {}),
        ((["E", "K"],), {}),
    ]:
        probe("ctor%r%r" % (args, sorted(kwargs)), None, SequenceParameters, *args, **kwargs)


GOOD_PALETTE = dict((aa, "red") for aa in "ACDEFGHIKLMNPQRSTVWY")
MIXED_PALETTE = dict((aa, col) for aa, col in zip("ACDEFGHIKLMNPQRSTVWY",
                                                  ["aqua", "black", "blue", "fuchsia", "gray", "green", "lime", "maroon",
                                                   "navy", "olive", "orange", "purple", "red", "silver", "teal", "white",
                                                   "yellow", "aqua", "black", "blue"]))
MISSING_PALETTE = dict((aa, "red") for aa in "ACDEFGHIKLMNPQRSTVW")
BADCOL_PALETTE = dict(GOOD_PALETTE, W="pink")
UPPER_PALETTE = dict(GOOD_PALETTE, A="RED")
NONSTR_PALETTE = dict(GOOD_PALETTE, A=5)
EXTRA_PALETTE = dict(GOOD_PALETTE, X="blue", B="notacolour")

USER_ALPHABET_OK = dict((aa, ("A" if aa in "AVLIMC" else "K")) for aa in "ACDEFGHIKLMNPQRSTVWY")
USER_ALPHABET_PARTIAL = {"A": "K", "E": "K"}
USER_ALPHABET_BAD = dict(USER_ALPHABET_OK, A="Z")
USER_ALPHABET_LONGVAL = dict(USER_ALPHABET_OK, A="AK")


def area_probes(name, sp):
    P = lambda label, fn, *a, **k: probe("%s :: %s" % (name, label), sp, fn, *a, **k)

    # ---- patterning parameters ------------------------------------------------
    P("get_SCD", sp.get_SCD)
    P("get_SCD#2", sp.get_SCD)
    P("get_delta", sp.get_delta)
    P("get_kappa", sp.get_kappa)
    P("get_kappa#2", sp.get_kappa)
    P("get_Omega", sp.get_Omega)
    P("get_Omega_sequence", sp.get_Omega_sequence)
    P("get_delta#2", sp.get_delta)
    for a, k in [((), {}), ((1,), {}), ((), {"x": 1})]:
        P("get_SCD%r%r" % (a, k), sp.get_SCD, *a, **k)
        P("get_kappa%r%r" % (a, k), sp.get_kappa, *a, **k)
        P("get_Omega%r%r" % (a, k), sp.get_Omega, *a, **k)
        P("get_delta%r%r" % (a, k), sp.get_delta, *a, **k)

    # ---- deltaMax ------------------------------------------------------------
    for a, k in [((), {}), ((False,), {}), ((True,), {}), ((), {}), ((1,), {}), ((0,), {}), ((None,), {}), (("yes",), {}),
                 (("",), {}), (([],), {}), (([0],), {}), ((), {"returnSeqDeltaMax": True}), ((), {"returnSeqDeltaMax": False}),
                 ((True, True), {}), ((), {"returnSeq": True}), ((np.bool_(True),), {}), ((np.array([1, 2]),), {})]:
        P("get_deltaMax%r%r" % (tuple(canon(x) for x in a), sorted(k.items())), sp.get_deltaMax, *a, **k)

    # ---- kappa_X -------------------------------------------------------------
    groups1 = [["E", "D"], ["P", "E", "D", "K", "R"], "ED", ("K", "R"), {"A", "G"}, ["e", "d"], ["Z"], ["E", "ED"], [1, 2], 5, None,
               [], "", ["A", "C", "D", "E"], list("ACDEFGHIKLMNPQRSTVWY"), ["E", None], [["E"]], {"E": 1, "D": 2}]
    groups2 = [None, [], ["K", "R"], "kr", ["E"], ["Z"], 7, [3], "", ("R",), ["G", "S"]]
    for g1 in groups1:
        P("get_kappa_X(%s)" % canon(g1), sp.get_kappa_X, g1)
    for g1 in (["E", "D"], ["A", "G", "S"], "P", ["Z"], 5):
        for g2 in groups2:
            P("get_kappa_X(%s,%s)" % (canon(g1), canon(g2)), sp.get_kappa_X, g1, g2)
    P("get_kappa_X(kw)", sp.get_kappa_X, grp1=["E", "D"], grp2=["K", "R"])
    P("get_kappa_X(kw-swapped)", sp.get_kappa_X, grp2=["E", "D"], grp1=["K", "R"])
    P("get_kappa_X(only grp2)", sp.get_kappa_X, grp2=["E", "D"])
    P("get_kappa_X()", sp.get_kappa_X)
    P("get_kappa_X(3 args)", sp.get_kappa_X, ["E"], ["K"], ["G"])
    P("get_kappa_X(bad kw)", sp.get_kappa_X, ["E"], grp3=["K"])
    P("get_kappa_X(dup)", sp.get_kappa_X, ["E"], grp1=["K"])

    # ---- charge / pH ---------------------------------------------------------
    pHs = [None, 0, 0.0, -0.0, 7, 7.4, 14, 14.0, 14.000001, -0.000001, -1, 15, 1e300, -1e300, float("nan"), float("inf"),
           float("-inf"), "7", "", [7], [], (7,), True, False, np.float64(3.5), np.float32(9.25), np.int64(4), np.array(7.0),
           np.array([7.0]), np.array([1.0, 2.0]), np.array([]), np.array([-1.0]), np.array([20.0]), np.float64("nan"),
           decimal.Decimal("6.5"), decimal.Decimal("-1"), fractions.Fraction(13, 2), fractions.Fraction(29, 2), 3 + 0j,
           Weird(), {}, b"7"]
    for fname in ("get_FCR", "get_NCPR", "get_fraction_expanding", "get_mean_net_charge"):
        fn = getattr(sp, fname)
        P("%s()" % fname, fn)
        for pH in pHs:
            P("%s(%s)" % (fname, canon(pH)), fn, pH)
        P("%s(pH=kw)" % fname, fn, pH=5.5)
        P("%s(pH=None kw)" % fname, fn, pH=None)
        P("%s(pH=-3 kw)" % fname, fn, pH=-3)
        P("%s(2 args)" % fname, fn, 5, 6)
        P("%s(bad kw)" % fname, fn, ph=5)
    P("get_isoelectric_point", sp.get_isoelectric_point)
    P("get_phasePlotRegion", sp.get_phasePlotRegion)
    P("_SequenceParameters__verify_pH present", lambda: hasattr(sp, "_SequenceParameters__verify_pH"))
    for pH in (0, 7, 14, -0.5, 14.5, float("nan"), "x"):
        P("__verify_pH(%s)" % canon(pH), getattr(sp, "_SequenceParameters__verify_pH"), pH)

    # ---- HTML palette --------------------------------------------------------
    P("get_HTMLColorString#0", sp.get_HTMLColorString)
    for label, pal in [("good", GOOD_PALETTE), ("mixed", MIXED_PALETTE), ("missing", MISSING_PALETTE), ("badcol", BADCOL_PALETTE),
                       ("upper", UPPER_PALETTE), ("nonstr", NONSTR_PALETTE), ("extra", EXTRA_PALETTE), ("empty", {}), ("None", None),
                       ("list", list("ACDEFGHIKLMNPQRSTVWY")), ("str", "ACDEFGHIKLMNPQRSTVWY"), ("int", 5)]:
        P("set_HTMLColorResiduePalette(%s)" % label, sp.set_HTMLColorResiduePalette, pal)
        P("get_HTMLColorString after %s" % label, sp.get_HTMLColorString)
    P("set_HTMLColorResiduePalette(kw)", sp.set_HTMLColorResiduePalette, colorDict=MIXED_PALETTE)
    P("set_HTMLColorResiduePalette()", sp.set_HTMLColorResiduePalette)
    P("set_HTMLColorResiduePalette(bad kw)", sp.set_HTMLColorResiduePalette, colourDict=MIXED_PALETTE)
    P("set_HTMLColorResiduePalette(2 args)", sp.set_HTMLColorResiduePalette, MIXED_PALETTE, MIXED_PALETTE)
    P("get_HTMLColorString final", sp.get_HTMLColorString)
    # the palette must be a copy, not an alias of the caller's dict
    mine = dict(GOOD_PALETTE)
    P("set palette (aliasing)", sp.set_HTMLColorResiduePalette, mine)
    mine["A"] = "blue"
    P("get_HTMLColorString after caller mutation", sp.get_HTMLColorString)

    # ---- reduced alphabets ---------------------------------------------------
    P("get_reduced_alphabet_sequence()", sp.get_reduced_alphabet_sequence)
    for size in [2, 3, 4, 5, 6, 8, 10, 11, 12, 15, 18, 20, 1, 7, 0, -2, 21, 2.0, "5", None, [2], True]:
        P("get_reduced_alphabet_sequence(%s)" % canon(size), sp.get_reduced_alphabet_sequence, size)
    for label, ua in [("ok", USER_ALPHABET_OK), ("partial", USER_ALPHABET_PARTIAL), ("bad", USER_ALPHABET_BAD),
                      ("longval", USER_ALPHABET_LONGVAL), ("empty", {}), ("None", None), ("list", ["A"]), ("str", "AK"), ("int", 3)]:
        P("get_reduced_alphabet_sequence(20,%s)" % label, sp.get_reduced_alphabet_sequence, 20, ua)
        P("get_reduced_alphabet_sequence(4,%s)" % label, sp.get_reduced_alphabet_sequence, 4, ua)
        P("get_reduced_alphabet_sequence(userAlphabet=%s)" % label, sp.get_reduced_alphabet_sequence, userAlphabet=ua)
    P("get_reduced_alphabet_sequence(kw both)", sp.get_reduced_alphabet_sequence, userAlphabet=USER_ALPHABET_OK, alphabetSize=3)
    P("get_reduced_alphabet_sequence(3 args)", sp.get_reduced_alphabet_sequence, 3, {}, 4)
    P("get_reduced_alphabet_sequence(bad kw)", sp.get_reduced_alphabet_sequence, size=3)
    P("USER_ALPHABET_OK untouched", lambda: USER_ALPHABET_OK)

    # ---- linear complexity ---------------------------------------------------
    P("get_linear_complexity()", sp.get_linear_complexity)
    types = ["WF", "wf", "Wf", "LC", "lc", "LZW", "lzw", "Lzw", "RHP", "rhp", "XX", "", " WF", None, 5, 3.0, ["WF"], ("WF",), ("WF", "LC"),
             b"wf", b"WF", np.array(["WF"]), np.array(["LC"]), np.array(["wf"]), np.array(["WF", "LC"]), np.str_("lzw"),
             Upperable("WF"), Upperable("LC"), Upperable("LZW"), Upperable("RHP"), Upperable(None), Weird(), {"WF"}, True]
    for ct in types:
        lab = canon(ct) if not isinstance(ct, Upperable) else "Upperable(%r)" % ct.v
        P("get_linear_complexity(%s)" % lab, sp.get_linear_complexity, ct)
        P("get_linear_complexity(%s, wordSize=2)" % lab, sp.get_linear_complexity, ct, wordSize=2)
    for ct in ("WF", "LC", "LZW", "lc", "bad"):
        for ws in (3, 3.0, True, 2, 1, 0, 4, 11, "3", None, [3], np.int64(3), np.array([3]), np.array([3, 3])):
            P("get_linear_complexity(%s, wordSize=%s)" % (ct, canon(ws)), sp.get_linear_complexity, ct, wordSize=ws)
        for bl in (10, 1, 2, 5, 0, -1, 9, 11, 12, 35, 1000, 2.0, "4", None):
            P("get_linear_complexity(%s, blobLen=%s)" % (ct, canon(bl)), sp.get_linear_complexity, ct, blobLen=bl)
            P("get_linear_complexity(%s, blobLen=%s, ws=2)" % (ct, canon(bl)), sp.get_linear_complexity, ct, blobLen=bl, wordSize=2)
        for st in (1, 2, 3, 7, 1000, 1.5):
            P("get_linear_complexity(%s, blobLen=3, stepSize=%s)" % (ct, canon(st)), sp.get_linear_complexity, ct, blobLen=3, stepSize=st)
        for ab in (20, 2, 3, 4, 5, 6, 8, 10, 11, 12, 15, 18, 7, 0, "5", None):
            P("get_linear_complexity(%s, alphabetSize=%s, blobLen=2)" % (ct, canon(ab)), sp.get_linear_complexity, ct, alphabetSize=ab, blobLen=2)
        for label, ua in [("ok", USER_ALPHABET_OK), ("partial", USER_ALPHABET_PARTIAL), ("bad", USER_ALPHABET_BAD), ("None", None), ("int", 3)]:
            P("get_linear_complexity(%s, userAlphabet=%s, blobLen=2)" % (ct, label), sp.get_linear_complexity, ct, userAlphabet=ua, blobLen=2)
            P("get_linear_complexity(%s, 4, userAlphabet=%s, blobLen=1, ws=1)" % (ct, label), sp.get_linear_complexity, ct, 4, ua, 1, 1, 1)
        P("get_linear_complexity(%s positional all)" % ct, sp.get_linear_complexity, ct, 5, {}, 3, 2, 2)
        P("get_linear_complexity(%s kw all)" % ct, sp.get_linear_complexity, wordSize=2, stepSize=2, blobLen=3, userAlphabet={},
          alphabetSize=5, complexityType=ct)
    P("get_linear_complexity(7 args)", sp.get_linear_complexity, "WF", 5, {}, 3, 2, 2, 9)
    P("get_linear_complexity(bad kw)", sp.get_linear_complexity, "WF", windowSize=3)

    # ---- a second round after all the above (repeated calls on one object) ----
    P("get_kappa#3", sp.get_kappa)
    P("get_deltaMax#last(True)", sp.get_deltaMax, True)
    P("get_deltaMax#last()", sp.get_deltaMax)
    P("get_Omega#3", sp.get_Omega)
    P("get_SCD#3", sp.get_SCD)
    P("get_FCR#last", sp.get_FCR)
    P("get_NCPR#last(7)", sp.get_NCPR, 7)
    P("get_sequence", sp.get_sequence)
    P("get_length", sp.get_length)


def class_surface():
    names = sorted(n for n in vars(SequenceParameters))
    LINES.append("class attributes: " + ",".join(n for n in names if not n.startswith("_SequenceParameters__")))
    import inspect
    for n in ("get_SCD", "get_kappa", "get_Omega", "get_kappa_X", "get_delta", "get_deltaMax", "get_FCR", "get_NCPR",
              "get_fraction_expanding", "get_mean_net_charge", "set_HTMLColorResiduePalette", "get_reduced_alphabet_sequence",
              "get_linear_complexity"):
        f = getattr(SequenceParameters, n)
        LINES.append("signature %s%s doc=%s" % (n, inspect.signature(f), hashlib.sha256((f.__doc__ or "").encode()).hexdigest()[:12]))


def main():
    tmpdir = tempfile.mkdtemp(prefix="equiv_")
    try:
        class_surface()
        constructor_probes()
        for name, maker in make_objects(tmpdir):
            out = io.StringIO()
            with contextlib.redirect_stdout(out), contextlib.redirect_stderr(out):
                try:
                    sp = maker()
                    err = None
                except Exception as e:  # noqa
                    sp = None
                    err = "EXC %s: %s" % (type(e).__name__, e)
            LINES.append("%s :: construct | %s | out=%r" % (name, err if err else "ok state=" + state(sp), out.getvalue()))
            if sp is not None:
                area_probes(name, sp)
    finally:
        shutil.rmtree(tmpdir, ignore_errors=True)

    verbose = os.environ.get("EQUIV_VERBOSE")
    h = hashlib.sha256()
    for i, line in enumerate(LINES):
        # strip the temp directory name (differs between runs) from messages
        line = line.replace(tmpdir, "<TMP>")
        h.update(line.encode("utf-8", "backslashreplace"))
        h.update(b"\n")
        if verbose:
            print(line)
    # always print a compact per-object digest so that differences are localised
    groups = {}
    order = []
    for line in LINES:
        key = line.split(" :: ")[0] if " :: " in line else "<global>"
        if key not in groups:
            groups[key] = hashlib.sha256()
            order.append(key)
        groups[key].update(line.replace(tmpdir, "<TMP>").encode("utf-8", "backslashreplace"))
    for key in order:
        print("%-60s %s" % (key[:60], groups[key].hexdigest()[:20]))
    print("probes:", len(LINES))
    print("digest:", h.hexdigest())


if __name__ == "__main__":
    main()
