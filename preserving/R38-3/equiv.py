"""
Differential script for the sequence-complexity area of localCIDER.

Run once with cwd=/tmp/seed/R38 (changed tree) and once with cwd=/repo
(unchanged tree); the printed output must be identical.
"""
import os
import sys

sys.path.insert(0, os.getcwd())

import collections
import contextlib
import hashlib
import io
import random

import numpy as np

from localcider.backend.sequenceComplexity import SequenceComplexity
from localcider.backend.sequence import Sequence
from localcider.sequenceParameters import SequenceParameters
from localcider.backend.data.aminoacids import TWENTY_AAs

import localcider
assert os.path.abspath(localcider.__file__).startswith(os.path.abspath(os.getcwd())), localcider.__file__

RECORDS = []
SECTION_COUNTS = collections.OrderedDict()


def norm(obj):
    """Deterministic, exact text form of a result."""
    if isinstance(obj, np.ndarray):
        return 'ndarray(%s,%s,%s)' % (obj.dtype, obj.shape, norm(obj.tolist()))
    if isinstance(obj, (list, tuple)):
        return '%s[%s]' % (type(obj).__name__, ','.join(norm(x) for x in obj))
    if isinstance(obj, float):
        return 'float:%r' % obj
    if isinstance(obj, (np.floating, np.integer)):
        return '%s:%r' % (type(obj).__name__, obj.item())
    return '%s:%r' % (type(obj).__name__, obj)


def run(section, label, fn):
    out = io.StringIO()
    try:
        with contextlib.redirect_stdout(out):
            res = fn()
        text = 'OK ' + norm(res)
    except RecursionError:
        raise
    except BaseException as e:  # noqa - we want everything
        text = 'EXC %s: %s' % (type(e).__name__, e)
    RECORDS.append('%s | %s | %s | stdout=%r' % (section, label, text, out.getvalue()))
    SECTION_COUNTS[section] = SECTION_COUNTS.get(section, 0) + 1


# ------------------------------------------------------------------ inputs
rng = random.Random(20240938)


def randseq(n, letters=''.join(TWENTY_AAs)):
    return ''.join(rng.choice(letters) for _ in range(n))


SEQS = ['', 'A', 'H', 'P', 'ACDEFGHIKLMNPQRSTVWY', 'AAAAAAAAAAAA',
        'KKKKKEEEEEKKKKKEEEEE', randseq(5), randseq(10), randseq(11),
        randseq(37), randseq(60), randseq(150), randseq(25, 'KE'),
        randseq(40, 'GSP'), 'ACDXBZ', 'acdefg', 'A-C D', 'ACDEFGHIKLMNPQRSTVWYUOJ*']
ODD_SEQS = [['A', 'C', 'H'], ['', 'A', 'P'], ['AC', 'H', 'LV'], ('L', 'K'),
            ['A', 1, 'C'], ['A', ['L'], 'C'], ['A', None], [1.5, 2], 12, None,
            ['H', ''], [b'A', 'A']]

SIZES = [2, 3, 4, 5, 6, 8, 10, 11, 12, 15, 18, 20]
ODD_SIZES = [7, 0, -1, 1, 19, 21, '5', ' 8 ', '5.0', 'abc', '', 2.7, 20.9, None,
             [2], True, False, np.int64(4), np.float64(6.2), '0x2', b'3']

identity = dict((a, a) for a in TWENTY_AAs)
hp = dict((a, ('L' if a in 'LVIMCAGSTPFYW' else 'E')) for a in TWENTY_AAs)
three = dict((a, ('K' if a in 'KRH' else ('E' if a in 'DE' else 'G'))) for a in TWENTY_AAs)
missing = dict(identity)
del missing['W']
missing_first = dict(identity)
del missing_first['R']
lower = dict(identity)
lower['Q'] = 'q'
bad_two = dict(identity)
bad_two['H'] = 'X'
bad_two['V'] = 'Z'
bad_and_missing = dict(identity)
del bad_and_missing['Y']
bad_and_missing['K'] = 'kk'
nonstr = dict(identity)
nonstr['T'] = 5
unhash = dict(identity)
unhash['T'] = ['A']
extra = dict(hp)
extra['X'] = 'L'
extra['B'] = 7
extra['Z'] = 'z'
multi = dict(identity)
multi['A'] = 'AC'


class LoggingDict(dict):
    """dict that records every item access, so access order/count is observable"""

    def __init__(self, *a, **k):
        dict.__init__(self, *a, **k)
        self.log = []

    def __getitem__(self, key):
        self.log.append(key)
        return dict.__getitem__(self, key)


class MissingDict(dict):
    def __missing__(self, key):
        return 'G'


def make_default():
    d = collections.defaultdict(lambda: 'A')
    d['K'] = 'K'
    return d


USER_ALPHABETS = [
    ('empty', lambda: {}), ('identity', lambda: dict(identity)), ('hp', lambda: dict(hp)),
    ('three', lambda: dict(three)), ('missingW', lambda: dict(missing)),
    ('missingR', lambda: dict(missing_first)), ('lower', lambda: dict(lower)),
    ('bad_two', lambda: dict(bad_two)), ('bad_and_missing', lambda: dict(bad_and_missing)),
    ('nonstr', lambda: dict(nonstr)), ('unhash', lambda: dict(unhash)),
    ('extra', lambda: dict(extra)), ('multi', lambda: dict(multi)),
    ('one', lambda: {'A': 'A'}), ('list', lambda: ['A', 'C']), ('emptylist', lambda: []),
    ('tuple', lambda: (('A', 'A'),)), ('str', lambda: 'abc'), ('emptystr', lambda: ''),
    ('none', lambda: None), ('int', lambda: 3), ('set', lambda: set('AC')),
    ('ordered', lambda: collections.OrderedDict(sorted(three.items()))),
    ('default', make_default), ('missingdict', lambda: MissingDict(A='A')),
    ('pairs', lambda: list(identity.items())),
]

SC = SequenceComplexity()

# ------------------------------------------------------------------ reduce_alphabet
for s in SEQS + ODD_SEQS:
    for size in SIZES:
        run('reduce', 'seq=%r size=%r' % (s, size),
            lambda: SC.reduce_alphabet(s, size))
for s in [SEQS[4], SEQS[9], '', 'ACDXBZ', ['A', 1]]:
    for size in ODD_SIZES:
        run('reduce-odd-size', 'seq=%r size=%r' % (s, size),
            lambda: SC.reduce_alphabet(s, size))
run('reduce', 'defaults', lambda: SC.reduce_alphabet(SEQS[10]))
run('reduce', 'kw', lambda: SC.reduce_alphabet(sequence=SEQS[10], alphabetSize=8, userAlphabet={}))
run('reduce', 'no-args', lambda: SC.reduce_alphabet())

for name, mk in USER_ALPHABETS:
    for s in ['', 'A', SEQS[4], SEQS[10], 'ACDXBZ', 'acd', ['A', 'C'], ['A', 1], ['A', ['L']], None, 7]:
        for size in (20, 4, 7, 'abc', None):
            run('reduce-user', 'ua=%s seq=%r size=%r' % (name, s, size),
                lambda: SC.reduce_alphabet(s, size, mk()))

# access order / count on a dict subclass and mutation of a defaultdict
for base in (identity, three, missing, lower, extra, bad_and_missing):
    for s in ('', SEQS[4], SEQS[8], 'AXA', 'XA'):
        def go():
            d = LoggingDict(base)
            try:
                r = SC.reduce_alphabet(s, 20, d)
            except Exception as e:
                r = 'EXC %s: %s' % (type(e).__name__, e)
            return (r, d.log)
        run('reduce-user-log', 'base=%r seq=%r' % (sorted(base.items())[:3], s), go)


def default_mutation():
    d = make_default()
    r1 = SC.reduce_alphabet('AKW', 20, d)
    keys1 = list(d.keys())
    r2 = SC.reduce_alphabet('AKWX', 3, d)
    return (r1, keys1, r2, list(d.keys()))


run('reduce-user-log', 'defaultdict mutation', default_mutation)


# freshness of the returned alphabet list
def freshness():
    out = []
    for size in SIZES:
        (s1, a1) = SC.reduce_alphabet(SEQS[10], size)
        a1.append('!')
        a1[0] = '?'
        (s2, a2) = SC.reduce_alphabet(SEQS[10], size)
        out.append((size, s1 == s2, a1 is a2, list(a2), type(a2).__name__))
        other = SequenceComplexity()
        (s3, a3) = other.reduce_alphabet(SEQS[10], size)
        out.append((a3 is a2, list(a3)))
    ua = dict(three)
    (s1, a1) = SC.reduce_alphabet(SEQS[10], 20, ua)
    a1.append('!')
    (s2, a2) = SC.reduce_alphabet(SEQS[10], 20, ua)
    out.append((s1 == s2, a1 is a2, a2, sorted(ua.items()) == sorted(three.items())))
    return out


run('reduce', 'freshness', freshness)


# input sequence objects are not modified
def input_untouched():
    seq = ['A', 'C', 'H', 'K']
    out = []
    for size in SIZES:
        SC.reduce_alphabet(seq, size)
        out.append(list(seq))
    return out


run('reduce', 'input untouched', input_untouched)

# ------------------------------------------------------------------ CWF
ALPHAS = [['L', 'E'], ['L', 'A', 'F', 'E'], list(TWENTY_AAs), ('K', 'E', 'G'), 'LE', 'ACDEFGHIKLMNPQRSTVWY',
          [], ['A'], ['A', 'A'], ['AC', 'DE'], ['L', 'E', 1], ['', 'A'], None, 5]
for s in ['', 'A', SEQS[4], SEQS[6], SEQS[9], SEQS[10], SEQS[13], ['A', 'C', 'A', 'K'], ('L', 'E', 'L'), None, 7]:
    for alpha in ALPHAS:
        for w in (1, 2, 3, 5, 10, 11, 12, 40, 0, -1, -3, 2.0, 2.5, '3', None, True):
            for step in (1, 2, 3, 7, 100, 1.5, 2.0, '1', None, True):
                run('CWF', 'seq=%r alpha=%r w=%r step=%r' % (s, alpha, w, step),
                    lambda: SC.CWF(s, alpha, w, step))


def gen_alpha(kind, w):
    return SC.CWF(SEQS[9], (c for c in kind), w, 1)


for w in (3, 11, 12, 50):
    run('CWF', 'generator alphabet w=%r' % w, lambda: gen_alpha('LEKA', w))
    run('CWF', 'generator alphabet nomatch w=%r' % w, lambda: gen_alpha('!?', w))
    run('CWF', 'iter alphabet w=%r' % w, lambda: SC.CWF(SEQS[9], iter(['A', 'L']), w, 1))
    run('CWF', 'dict alphabet w=%r' % w, lambda: SC.CWF(SEQS[9], {'A': 1, 'L': 2}, w, 1))
run('CWF', 'kw', lambda: SC.CWF(sequence=SEQS[10], alphabet=['A', 'L', 'K'], windowSize=6, stepSize=2))
run('CWF', 'missing arg', lambda: SC.CWF(SEQS[10], ['A'], 3))


class LenLog(str):
    pass


# ------------------------------------------------------------------ get_*_complexity on the backend object
for meth in ('get_WF_complexity', 'get_LC_complexity', 'get_LZW_complexity'):
    f = getattr(SC, meth)
    run('backend', '%s defaults' % meth, lambda: f(SEQS[10]))
    run('backend', '%s defaults short' % meth, lambda: f(SEQS[7]))
    run('backend', '%s no args' % meth, lambda: f())
    run('backend', '%s kw' % meth,
        lambda: f(sequence=SEQS[11], alphabetSize=6, userAlphabet={}, windowSize=7, stepSize=3))
    run('backend', '%s kw-ua' % meth,
        lambda: f(SEQS[11], userAlphabet=dict(three), windowSize=7))
    run('backend', '%s too many' % meth, lambda: f(SEQS[11], 4, {}, 5, 1, 3, 9))
    for s in ['', 'A', SEQS[4], SEQS[5], SEQS[8], SEQS[9], SEQS[10], SEQS[11], SEQS[12], 'ACDXBZACDXBZ', ['A', 'C', 'K', 'L'], None]:
        for size in (20, 2, 4, 8, 11, 18, 7, '5', 'x', None):
            for w in (10, 1, 2, 5, 11, 37, 38, 0, -2, 2.5, '4'):
                for step in (1, 2, 5, 1.5):
                    run('backend', '%s seq=%r size=%r w=%r step=%r' % (meth, s, size, w, step),
                        lambda: f(s, size, {}, w, step))
        for name, mk in USER_ALPHABETS[:14] + USER_ALPHABETS[20:]:
            for w in (3, 10):
                run('backend', '%s seq=%r ua=%s w=%r' % (meth, s, name, w),
                    lambda: f(s, 20, mk(), w, 1))
for s in [SEQS[4], SEQS[10], SEQS[11], 'AAAA']:
    for size in (20, 3, 10):
        for w in (4, 10):
            for word in (1, 2, 3, 4, 5, 0, -1, 2.0, '2', None):
                run('backend', 'LC word seq=%r size=%r w=%r word=%r' % (s, size, w, word),
                    lambda: SC.get_LC_complexity(s, size, {}, w, 1, word))
                run('backend', 'LC word-kw seq=%r size=%r w=%r word=%r' % (s, size, w, word),
                    lambda: SC.get_LC_complexity(s, alphabetSize=size, windowSize=w, wordSize=word))


# subclass overriding the low level calculators / reduce_alphabet is still honoured
class Sub(SequenceComplexity):
    def CWF(self, sequence, alphabet, windowSize, stepSize):
        return [1.0, 2.0, float(len(alphabet)), float(windowSize), float(stepSize)]

    def LC(self, sequence, alphabet, windowSize, stepSize, wordSize):
        return [float(wordSize)] * 3

    def LZW(self, sequence, alphabet, windowSize, stepSize):
        return [0.5] * 4

    def reduce_alphabet(self, sequence, alphabetSize=20, userAlphabet={}):
        print('reduce called %r %r %r' % (sequence, alphabetSize, userAlphabet))
        return SequenceComplexity.reduce_alphabet(self, sequence, alphabetSize, userAlphabet)

    def get_indexed_complexity_vector(self, complexity_vector, seq_len):
        print('indexed %r %r' % (complexity_vector, seq_len))
        return SequenceComplexity.get_indexed_complexity_vector(self, complexity_vector, seq_len)


sub = Sub()
for meth in ('get_WF_complexity', 'get_LC_complexity', 'get_LZW_complexity'):
    run('backend-sub', meth, lambda: getattr(sub, meth)(SEQS[10], 5, {}, 6, 2))
    run('backend-sub', meth + ' ua', lambda: getattr(sub, meth)(SEQS[10], 'zz', dict(hp), 6, 2))
    run('backend-sub', meth + ' bad', lambda: getattr(sub, meth)(SEQS[10], 'zz', {}, 6, 2))


# instance-level monkeypatching of a calculator
def patched():
    o = SequenceComplexity()
    o.CWF = lambda *a: [9.0, 8.0]
    o.LZW = lambda *a: [7.0]
    o.LC = lambda *a: [6.0, 5.0, 4.0]
    return (o.get_WF_complexity(SEQS[9]), o.get_LZW_complexity(SEQS[9]), o.get_LC_complexity(SEQS[9]))


run('backend-sub', 'instance patched', patched)

# ------------------------------------------------------------------ Sequence wrappers
WRAPPED = ['A', 'ACDEFGHIKLMNPQRSTVWY', SEQS[7], SEQS[9], SEQS[10], SEQS[11], SEQS[13]]
for s in WRAPPED:
    def state(o):
        return sorted((k, norm(v) if not hasattr(v, '__dict__') else type(v).__name__) for k, v in o.__dict__.items())
    for meth in ('get_linear_WF_complexity', 'get_linear_LC_complexity', 'get_linear_LZW_complexity'):
        S = Sequence(s)
        before = state(S)
        f = getattr(S, meth)
        run('Sequence', '%s %r defaults' % (meth, s), lambda: f())
        for size in (20, 2, 5, 8, 12, 7, '6', 'x', None):
            for w in (10, 1, 3, 5, 11, 37, 61, 0, -1, 2.5, '4', None):
                for step in (1, 3):
                    run('Sequence', '%s %r size=%r w=%r step=%r' % (meth, s, size, w, step),
                        lambda: f(size, {}, w, step))
        run('Sequence', '%s %r kw' % (meth, s),
            lambda: f(alphabetSize=4, userAlphabet={}, windowSize=4, stepSize=2))
        run('Sequence', '%s %r kw-partial' % (meth, s), lambda: f(windowSize=3, alphabetSize=3))
        run('Sequence', '%s %r kw-bad' % (meth, s), lambda: f(blobLen=3))
        run('Sequence', '%s %r too many' % (meth, s), lambda: f(4, {}, 3, 1, 3, 3, 3))
        for name, mk in USER_ALPHABETS:
            for w in (3, 100):
                run('Sequence', '%s %r ua=%s w=%r' % (meth, s, name, w),
                    lambda: f(20, mk(), w, 1))
        # repeated calls on one object give the same thing and leave the state alone
        run('Sequence', '%s %r repeat' % (meth, s), lambda: (f(4, {}, 1, 1), f(4, {}, 1, 1)))
        run('Sequence', '%s %r state' % (meth, s), lambda: (before == state(S), before))
    S = Sequence(s)
    for word in (1, 2, 3, 4, 0, -1, '2', None):
        run('Sequence', 'LC word %r %r' % (s, word),
            lambda: S.get_linear_LC_complexity(3, {}, min(4, len(s)), 1, word))
        run('Sequence', 'LC word-kw %r %r' % (s, word),
            lambda: S.get_linear_LC_complexity(wordSize=word, windowSize=1))
    run('Sequence', 'reduced %r defaults' % s, lambda: S.get_reducedAlphabetSequence())
    for size in SIZES + ODD_SIZES:
        run('Sequence', 'reduced %r size=%r' % (s, size), lambda: S.get_reducedAlphabetSequence(size))
        run('Sequence', 'reduced-kw %r size=%r' % (s, size),
            lambda: S.get_reducedAlphabetSequence(alphabetSize=size))
    for name, mk in USER_ALPHABETS:
        run('Sequence', 'reduced %r ua=%s' % (s, name), lambda: S.get_reducedAlphabetSequence(20, mk()))
        run('Sequence', 'reduced-kw %r ua=%s' % (s, name), lambda: S.get_reducedAlphabetSequence(userAlphabet=mk()))
    run('Sequence', 'reduced %r too many' % s, lambda: S.get_reducedAlphabetSequence(20, {}, 3))
    run('Sequence', 'reduced %r bad kw' % s, lambda: S.get_reducedAlphabetSequence(size=3))
    run('Sequence', 'reduced %r state' % s, lambda: state(S))


# a Sequence whose ComplexityObject was swapped out / removed
def swapped():
    S = Sequence(SEQS[9])
    S.ComplexityObject = sub
    return (S.get_linear_WF_complexity(4, {}, 5, 1), S.get_linear_LC_complexity(4, {}, 5, 1, 2),
            S.get_linear_LZW_complexity(4, {}, 5, 1), S.get_reducedAlphabetSequence(4))


run('Sequence', 'swapped complexity object', swapped)


def removed(meth, w):
    S = Sequence(SEQS[9])
    del S.ComplexityObject
    return getattr(S, meth)(4, {}, w, 1)


for meth in ('get_linear_WF_complexity', 'get_linear_LC_complexity', 'get_linear_LZW_complexity'):
    run('Sequence', 'removed complexity object %s ok-window' % meth, lambda: removed(meth, 3))
    run('Sequence', 'removed complexity object %s big-window' % meth, lambda: removed(meth, 300))


class Recorder(object):
    """stands in for the complexity object and records exactly how it is called"""

    def __getattr__(self, name):
        def call(*a, **k):
            # report the call normalised to what the real signature would bind
            real = getattr(SequenceComplexity, name)
            import inspect
            bound = inspect.signature(real).bind(SC, *a, **k)
            bound.apply_defaults()
            return (name, [(k2, norm(v)) for k2, v in list(bound.arguments.items())[1:]])
        if name.startswith('__'):
            raise AttributeError(name)
        return call


def recorded():
    S = Sequence(SEQS[9])
    S.ComplexityObject = Recorder()
    ua = dict(three)
    return (S.get_linear_WF_complexity(4, ua, 5, 2), S.get_linear_LC_complexity(4, ua, 5, 2, 4),
            S.get_linear_LZW_complexity(4, ua, 5, 2), S.get_reducedAlphabetSequence(4, ua),
            S.get_linear_WF_complexity(), S.get_linear_LC_complexity(), S.get_linear_LZW_complexity(),
            S.get_reducedAlphabetSequence())


run('Sequence', 'recorded forwarding', recorded)

# ------------------------------------------------------------------ SequenceParameters front end
for s in [SEQS[4], SEQS[9], SEQS[11]]:
    SP = SequenceParameters(s)
    for ctype in ('WF', 'LC', 'LZW', 'wf', 'lzw', 'lc', 'RHP', 'zz', None, 3):
        run('SP', 'linear %r %r defaults' % (s, ctype), lambda: SP.get_linear_complexity(ctype))
        for size in (20, 3, 6, 15, 9, 'q'):
            for blob in (10, 1, 4, 21, 100, 0):
                for step in (1, 4):
                    for word in (3, 2):
                        run('SP', 'linear %r %r size=%r blob=%r step=%r word=%r' % (s, ctype, size, blob, step, word),
                            lambda: SP.get_linear_complexity(ctype, size, {}, blob, step, word))
        for name, mk in USER_ALPHABETS:
            run('SP', 'linear %r %r ua=%s' % (s, ctype, name),
                lambda: SP.get_linear_complexity(ctype, 20, mk(), 5, 1, 3))
    for size in SIZES + ODD_SIZES:
        run('SP', 'reduced %r size=%r' % (s, size), lambda: SP.get_reduced_alphabet_sequence(size))
    for name, mk in USER_ALPHABETS:
        run('SP', 'reduced %r ua=%s' % (s, name), lambda: SP.get_reduced_alphabet_sequence(20, mk()))
        run('SP', 'reduced %r ua=%s size=bad' % (s, name), lambda: SP.get_reduced_alphabet_sequence('bad', mk()))

# ------------------------------------------------------------------ report
h = hashlib.sha256()
for r in RECORDS:
    h.update(r.encode('utf-8', 'backslashreplace'))
    h.update(b'\n')
for sec, n in SECTION_COUNTS.items():
    sub_h = hashlib.sha256()
    nexc = 0
    for r in RECORDS:
        if r.startswith(sec + ' | '):
            sub_h.update(r.encode('utf-8', 'backslashreplace'))
            if ' | EXC ' in r:
                nexc += 1
    print('%-18s cases=%6d exceptions=%6d digest=%s' % (sec, n, nexc, sub_h.hexdigest()[:24]))
print('TOTAL cases=%d digest=%s' % (len(RECORDS), h.hexdigest()))
if os.environ.get('EQUIV_DUMP'):
    with open(os.environ['EQUIV_DUMP'], 'w') as fh:
        fh.write('\n'.join(RECORDS) + '\n')
