import os, sys; sys.path.insert(0, os.getcwd())

import contextlib
import hashlib
import io
import itertools
import random
import warnings

warnings.simplefilter("ignore")

import numpy as np

import localcider
assert os.path.dirname(os.path.abspath(localcider.__file__)) == os.path.join(
    os.path.abspath(os.getcwd()), "localcider"), localcider.__file__

from localcider.backend import backendtools
from localcider.backend.sequence import Sequence
from localcider.sequenceParameters import SequenceParameters

# the package ships with HUSH_ALL = True; un-hush so that status and warning
# messages are printed (and captured + compared) as well
backendtools.HUSH_ALL = False

RESULTS = []


def describe(x):
    """Deterministic, type-revealing description of a value."""
    if isinstance(x, np.ndarray):
        return ("ndarray", str(x.dtype), x.shape, x.tolist())
    if isinstance(x, (list, tuple)):
        return (type(x).__name__, [describe(v) for v in x])
    return (type(x).__name__, repr(x))


def state(obj):
    return {
        "seq": describe(obj.seq),
        "len": describe(obj.len),
        "chargePattern": describe(obj.chargePattern),
        "dmax": describe(obj.dmax),
        "seqDeltaMax": describe(obj.seqDeltaMax),
        "phosphosites": describe(obj.phosphosites),
        "str": str(obj),
    }


def record(tag, fn, *args, **kwargs):
    buf = io.StringIO()
    with contextlib.redirect_stdout(buf):
        try:
            out = ("ok", describe(fn(*args, **kwargs)))
        except BaseException as e:  # noqa
            out = ("exc", type(e).__name__, str(e))
    RESULTS.append((repr(tag), out, buf.getvalue()))


AA = "ACDEFGHIKLMNPQRSTVWY"

STRINGS = [
    "", " ", "   ", "\n", "\t \n", "A", "P", "PA", "a", "p", "acdefghiklmnpqrstvwy", AA, AA.lower(),
    "A C D", " ACD", "ACD ", "A\tC\nD\r\nE", "A\x0bC", "A\x0cC", "A\x1cC", "A\x1dC", "A\x1eC", "A\x1fC",
    "A\x85C", "A\xa0C", "A C", "A C", "A　C", "A​C", "A﻿C",
    "AXC", "AxC", "ABC", "AZC", "AUC", "AOC", "AJC", "A*C", "ACD*", "A-C", "A+C", "A0C", "A1C", "+-0",
    "X", " X", "  X", "A X", "A  X", "\nX", "X ", "1", "*", ">",
    "PPPP", "PPPA", "PPAAAAAAAAAAAAAAAAAA", "PPPAAAAAAAAAAAAAAAAA", "PPPPAAAAAAAAAAAAAAAA",
    "P" * 15 + "A" * 85, "P" * 16 + "A" * 84, "P P P A A A A", "p p p", " p ",
    "ß", "aß", "ßa", "ŉ", "ǰ", "ﬁ", "aﬁb", "ı", "İ", "K", "K", "Å", "é", "AéC",
    "EEEEKKKK", "EKEKEKEK", "DDDRRRHHH", "MDVFMKGLSKAKEGVVAAAEKTKQGVAEAAGKTKEGVLYVGSKTKEGVV",
    "MDVF MKGL\nSKAK EGVV\n", "  m d v f\tm k g l  ",
]


def random_strings(n, seed):
    rnd = random.Random(seed)
    pool = AA * 4 + AA.lower() * 2 + "   \t\n" + "XBZ*-1"
    out = []
    for _ in range(n):
        k = rnd.randint(0, 30)
        out.append("".join(rnd.choice(pool) for _ in range(k)))
    for _ in range(n):
        k = rnd.randint(1, 60)
        body = "".join(rnd.choice(AA + "PPP") for _ in range(k))
        if rnd.random() < 0.5:
            body = " ".join(body[i:i + 10] for i in range(0, len(body), 10))
        if rnd.random() < 0.3:
            body = body.lower()
        out.append(body)
    return out


def gen(chars):
    for c in chars:
        yield c


class Weird(str):
    """str subclass"""


def main():
    strings = STRINGS + random_strings(200, 99)
    strings += ["".join(t) for t in itertools.product("AP xE", repeat=3)]

    base = Sequence("ACDEFGHIKL")
    for s in strings:
        # construction, both validation modes
        for flag in (False, True, 0, 1, None, "yes"):
            record(("init", s, flag), lambda: state(Sequence(s, validateSeq=flag)))
        record(("init-default", s), lambda: state(Sequence(s)))
        record(("init-positional", s), lambda: state(Sequence(s, 7, [], True)))
        # the validator, called directly on an existing object
        record(("validate", s), base.validateSequence, s)
        record(("validate-upper", s), base.validateSequence, s.upper())
        record(("validate-again", s), base.validateSequence, s)
        record(("validate-kw", s), base.validateSequence, seq=s)
        record(("base-state", s), state, base)
        # through the public front end
        record(("SeqParams", s), lambda: (lambda o: (o.get_sequence(), o.get_length()))(SequenceParameters(s)))

    # non-str iterables and junk handed to the validator directly
    others = [
        list("ACD"), list("A C"), tuple("APX"), ["AC", "D"], ["A", "  ", "C"], ["A", "", "C"],
        ["A", None], [None], [1, 2], [["A"]], [{"A"}], ("A", ("C",)), [b"A"], b"ACD", b"", bytearray(b"A C"),
        [], (), {}, set(), {"A": 1}, {"A", }, frozenset("P"), None, 5, 1.5, True, Weird("ACD"), Weird("A D"),
        [Weird("A"), Weird(" "), Weird("P")], range(3), np.array(list("ACD")), np.array(["A", " ", "P"]),
        np.array([]), np.array("A"),
    ]
    for idx, o in enumerate(others):
        record(("validate-other", idx), base.validateSequence, o)
        record(("init-other", idx), lambda: state(Sequence(o, validateSeq=True)))
        record(("init-other-noval", idx), lambda: state(Sequence(o)))
    record("validate-gen", base.validateSequence, gen("A C D P"))
    record("validate-gen-bad", base.validateSequence, gen("A C X P"))
    record("validate-noargs", base.validateSequence)
    record("base-state-final", state, base)

    # explicit charge patterns / dmax keep being passed through untouched
    for cp in ([], [1, 0, -1], (1, 0), (), np.array([]), np.array([], dtype=int), np.array([1.0, -1.0]), "", "x", {}, None, 3):
        for s in ("", "EKA", "ek a", "EXK"):
            for flag in (False, True):
                record(("init-cp", repr(cp), s, flag), lambda: state(Sequence(s, 3.5, cp, flag)))

    digest = hashlib.sha256()
    for item in RESULTS:
        digest.update(repr(item).encode("utf-8", "backslashreplace"))
    n_exc = sum(1 for r in RESULTS if r[1][0] == "exc")
    n_out = sum(1 for r in RESULTS if r[2])
    print("cases", len(RESULTS), "exceptions", n_exc, "with_output", n_out)
    print("exception kinds", sorted(set(r[1][1] for r in RESULTS if r[1][0] == "exc")))
    print("digest", digest.hexdigest())


if __name__ == "__main__":
    main()
