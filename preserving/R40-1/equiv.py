"""Differential check for R1 (backendtools). Run with cwd=/tmp/seed/R40 and cwd=/repo; outputs must match."""
import os, sys, io, hashlib, itertools, contextlib
sys.path.insert(0, os.getcwd())
sys.dont_write_bytecode = True
import warnings
warnings.simplefilter('ignore')

import localcider
from localcider.backend import backendtools as bt
from localcider.backend import config

assert os.path.realpath(bt.__file__).startswith(os.path.realpath(os.getcwd())), bt.__file__

out = []
def rec(*a):
    out.append(repr(a))

def capture(fn, *a, **k):
    buf = io.StringIO()
    try:
        with contextlib.redirect_stdout(buf):
            r = fn(*a, **k)
        res = ('ok', repr(r), type(r).__name__)
    except BaseException as e:
        res = ('exc', type(e).__name__, str(e))
    return res + (buf.getvalue(),)

rec('config', config.HUSH_WARNINGS, config.HUSH_STATUS, config.HUSH_ALL, config.VERSION)
rec('defaults', bt.HUSH_WARNINGS, bt.HUSH_STATUS, bt.HUSH_ALL)

# ---- message functions under every flag combination (incl. odd truthy/falsy values)
flagvals = [False, True, 0, 1, None, "", "x", [], [0]]
saved = (bt.HUSH_WARNINGS, bt.HUSH_STATUS, bt.HUSH_ALL)
for hw, hs, ha in itertools.product(flagvals, repeat=3):
    bt.HUSH_WARNINGS, bt.HUSH_STATUS, bt.HUSH_ALL = hw, hs, ha
    for msg in ["hello", "", "multi\nline", u"é", 5, None, ["a"]]:
        rec('warn', hw, hs, ha, msg, capture(bt.warning_message, msg))
        rec('stat', hw, hs, ha, msg, capture(bt.status_message, msg))
    rec('dots', hw, hs, ha, capture(bt.running_dotdotdot))
    rec('rm', hw, hs, ha, capture(bt.warn_thisWillBeRemoved))
    rec('nry', hw, hs, ha, capture(bt.warn_notReadyYet))
bt.HUSH_WARNINGS, bt.HUSH_STATUS, bt.HUSH_ALL = saved

# ---- return_absolute_datafile_path: depends on cwd, so pin cwd and also fake realpath
for hw, ha in [(False, False), (False, True), (True, False)]:
    bt.HUSH_WARNINGS, bt.HUSH_ALL = hw, ha
    for d in ['/', '/tmp', '/tmp/seed', '/tmp/seed/R40_out', '/tmp/seed/R40_out/R1']:
        os.chdir(d)
        for fn in ['x.txt', '', 'sub/y.dat', '/abs/z', 7, None]:
            rec('radp', hw, ha, d, fn, capture(bt.return_absolute_datafile_path, fn))
    real = os.path.realpath
    for fake in ['/', '//', '///', '/a', '/a/', '/a/b', '/a/b/c', '/a/b/c/d', '/a/b/c/d/', '//x//y//z//w',
                 'rel', 'rel/a/b/c/d', '', 'a//b///c////d', '/a/b/c/d/e/f/__file__', '//a/b/c/d']:
        os.path.realpath = lambda p, _f=fake: _f
        try:
            for fn in ['x.txt', '', '/abs']:
                rec('radp-fake', hw, ha, fake, fn, capture(bt.return_absolute_datafile_path, fn))
        finally:
            os.path.realpath = real
bt.HUSH_WARNINGS, bt.HUSH_STATUS, bt.HUSH_ALL = saved

# ---- verifyType
class Meta(type):
    def __eq__(cls, other):
        return "weird" if other is str else 0
    __hash__ = type.__hash__
class WithMeta(metaclass=Meta):
    pass
class RaisesSyntax(str):
    @property
    def __class__(self):
        raise SyntaxError("no class")
class RaisesValue(object):
    @property
    def __class__(self):
        raise ValueError("boom")
class LiesStr(object):
    @property
    def __class__(self):
        return str
class MetaEqRaises(type):
    def __eq__(cls, other):
        raise SyntaxError("eq")
    __hash__ = type.__hash__
class EqRaises(int, metaclass=MetaEqRaises):
    pass
class MetaBoolRaises(type):
    def __eq__(cls, other):
        class B(object):
            def __bool__(self):
                raise SyntaxError("bool")
        return B()
    __hash__ = type.__hash__
class BoolRaises(list, metaclass=MetaBoolRaises):
    pass
class SubStr(str):
    pass
import numpy as np
objs = [1, 1.0, True, None, "s", u"u", b"b", [], (), {}, set(), SubStr("q"), np.str_("n"), np.float64(2), np.int64(3),
        np.array([1]), object(), int, str, WithMeta(), RaisesSyntax("z"), RaisesValue(), LiesStr(), EqRaises(3),
        BoolRaises(), localcider, bt]
types = [str, int, float, bool, list, tuple, dict, set, object, type(None), SubStr, np.str_, np.ndarray, type,
         WithMeta, (str, int), (int, list), "notatype", None, 5, EqRaises, BoolRaises, RaisesSyntax]
for i, o in enumerate(objs):
    for j, t in enumerate(types):
        rec('vt', i, j, capture(bt.verifyType, o, t)[:3])

# ---- verifyType through its callers
from localcider.backend.sequence import Sequence
from localcider.sequenceParameters import SequenceParameters
for s in ["ACDEFGHIKL", "", SubStr("ACD"), np.str_("ACD"), b"ACD", 5, None, ["A"], RaisesSyntax("ACD"), LiesStr()]:
    r = capture(Sequence, s)
    rec('Seq', r[0], r[1] if r[0] == 'exc' else 'obj', r[2] if r[0] == 'exc' else '', r[3])
    r = capture(SequenceParameters, s)
    rec('SP', r[0], r[1] if r[0] == 'exc' else 'obj', r[2] if r[0] == 'exc' else '', r[3])

blob = "\n".join(out)
print(len(out), hashlib.sha256(blob.encode('utf-8', 'backslashreplace')).hexdigest())
for line in out[:3] + out[-3:]:
    print(line[:200])
