import os, sys; sys.path.insert(0, os.getcwd())
# Differential script: run once with cwd=<changed tree> and once with cwd=/repo
# and compare the printed output (per-case digests + a final digest).
sys.dont_write_bytecode = True

import contextlib
import hashlib
import inspect
import io
import shutil
import tempfile
import time
import warnings

warnings.simplefilter("ignore")

# --- deterministic clock: every RNG in the library is seeded from time.time()
_clock = [0.0]


def _fake_time():
    _clock[0] += 0.37
    return _clock[0]


time.time = _fake_time

import numpy as np
import localcider
from localcider.backend import wang_landau as wl

assert os.path.abspath(localcider.__file__).startswith(
    os.path.abspath(os.getcwd()) + os.sep), localcider.__file__

LINES = []


def emit(label, payload):
    text = repr(payload)
    digest = hashlib.sha256(text.encode("utf-8", "replace")).hexdigest()[:20]
    line = "%-34s %s len=%d" % (label, digest, len(text))
    LINES.append(line + "|" + text)
    print(line)


def snapshot(d):
    """Deterministic description of everything below directory d."""
    out = []
    for root, dirs, files in os.walk(d):
        dirs.sort()
        rel = os.path.relpath(root, d)
        for name in sorted(dirs):
            out.append(("DIR", os.path.join(rel, name)))
        for name in sorted(files):
            with open(os.path.join(root, name), "rb") as fh:
                out.append(("FILE", os.path.join(rel, name), fh.read()))
    return out


def state(m):
    st = {}
    for k, v in sorted(vars(m).items()):
        if k == "seq":
            st[k] = ("Sequence", v.seq)
        elif k == "frozen":
            st[k] = sorted(v)
        elif k == "writeDir":
            st[k] = "<TMP>"
        else:
            st[k] = (type(v).__name__, repr(v))
    return st


def scrub(text, d):
    return text.replace(os.path.abspath(d), "<TMP>").replace(d, "<TMP>")


def call(d, fn, *args, **kw):
    """Run fn capturing stdout, result and exception."""
    buf = io.StringIO()
    try:
        with contextlib.redirect_stdout(buf):
            r = fn(*args, **kw)
        if isinstance(r, np.ndarray):
            res = ("ndarray", r.shape, str(r.dtype), r.tolist())
        else:
            res = ("value", type(r).__name__, scrub(repr(r), d))
    except BaseException as e:  # noqa
        res = ("EXC", type(e).__name__, scrub(str(e), d))
    return res, scrub(buf.getvalue(), d)


def fresh_dir(prepopulate=False):
    d = tempfile.mkdtemp(prefix="wlq")
    if prepopulate:
        for name in ("hlog.txt", "glog.txt", "seqlog.txt", "histogram_bins.txt",
                     "DOS.txt", "DOS_local.txt", "unrelated.txt",
                     "local_histogram_bins.txt"):
            with open(os.path.join(d, name), "w") as fh:
                fh.write("OLD CONTENT of %s\nline two\n" % name)
    return d


def make(d, **kw):
    buf = io.StringIO()
    with contextlib.redirect_stdout(buf):
        m = wl.WangLandauMachine(writedir=d, **kw)
    return m, scrub(buf.getvalue(), d)


RUNS = [
    ("n-a", dict(seq="EKEKEKEKDDRRAGSGEEKKPQ", nbins=4, binmin=0.0, binmax=0.4,
                 flatchk=150, flatcrit=0.93, convergence=1.5)),
    ("n-b", dict(seq="EEEEKKKKGGGGDDDDRRRR", nbins=5, binmin=0.0, binmax=0.5,
                 flatchk=100, flatcrit=0.8, convergence=1.2)),
    ("n-c", dict(seq="EKEKEKEKDDRRAGSGEEKKPQ", nbins=5, binmin=0.5, binmax=1,
                 flatchk=50, flatcrit=0.0, convergence=1.5)),
    ("n-d", dict(seq="EKEKEKEKDDRRAGSGEEKKPQ", nbins=4, binmin=0.0, binmax=0.4,
                 flatchk=300, flatcrit=0.3, convergence=1.5,
                 frozenResidues=set([0, 1, 2]))),
    ("n-e", dict(seq="DDDDEEEEKKKKRRRRSSSSGGGGTTTT", nbins=10, binmin=0, binmax=1,
                 flatchk=7, flatcrit=0.0, convergence=2.0)),
    # convergence already reached: loop body never runs, only the log set-up
    # and the DOS writers
    ("n-f", dict(seq="EKEKEKEKDDRRAGSGEEKKPQ", nbins=4, binmin=0.0, binmax=0.4,
                 flatchk=100, flatcrit=0.5, convergence=3.0)),
    ("z-a", dict(seq="EKEKEKEKDDRRAGSGEEKKPQ", nbins=4, flatchk=150, flatcrit=0.5,
                 convergence=1.5, WL_type="ZOOM")),
    ("z-b", dict(seq="EKEKEKEKDDRRAGSGEEKKPQ", nbins=4, flatchk=150, flatcrit=0.5,
                 convergence=3.0, WL_type="ZOOM")),
]


def runner(m, kw, via_run=False):
    if kw.get("WL_type", "NORMAL") == "NORMAL":
        return m.run if via_run else m.run_normal_WL
    return m.run_histogramZoomWL


# ---------------------------------------------------------------- full runs
for label, kw in RUNS:
    for pre in (False, True):
        _clock[0] = 0.0
        d = fresh_dir(prepopulate=pre)
        try:
            m, init_out = make(d, **kw)
            res, out = call(d, runner(m, kw, via_run=pre))
            emit("run %s pre=%d" % (label, pre),
                 (init_out, res, out, snapshot(d), state(m)))
            # repeated call on the same object / same directory
            res2, out2 = call(d, runner(m, kw))
            emit("rerun %s pre=%d" % (label, pre),
                 (res2, out2, snapshot(d), state(m)))
        finally:
            shutil.rmtree(d, ignore_errors=True)

# ------------------------------------------------- failing output locations
KW = RUNS[0][1]
KWZ = RUNS[6][1]
for label, kw in (("N", KW), ("Z", KWZ)):
    # write dir does not exist
    _clock[0] = 0.0
    d = fresh_dir()
    missing = os.path.join(d, "not", "there")
    m, _ = make(missing, **kw)
    res, out = call(d, runner(m, kw))
    emit("missing dir %s" % label, (res, out, snapshot(d), state(m)))
    shutil.rmtree(d, ignore_errors=True)

    # one of the output names is a directory (open() fails part-way through)
    for blocker in ("hlog.txt", "glog.txt", "seqlog.txt", "histogram_bins.txt",
                    "local_histogram_bins.txt", "DOS.txt", "DOS_local.txt"):
        for pre in (False, True):
            _clock[0] = 0.0
            d = fresh_dir(prepopulate=pre)
            p = os.path.join(d, blocker)
            if os.path.exists(p):
                os.remove(p)
            os.mkdir(p)
            m, _ = make(d, **kw)
            res, out = call(d, runner(m, kw))
            emit("blocked %s %s pre=%d" % (label, blocker, pre),
                 (res, out, snapshot(d), state(m)))
            shutil.rmtree(d, ignore_errors=True)

# ---------------------------------- odd region-of-interest attributes (the
# sampling loop is skipped because convergence is already reached, so only
# the log set-up and the DOS writers run)
for label, kw in (("N", RUNS[5][1]), ("Z", RUNS[7][1])):
    for attrs in (dict(relevant_max=50), dict(relevant_min=None),
                  dict(relevant_min=3, relevant_max=1),
                  dict(relevant_min=-2, relevant_max=2),
                  dict(relevant_min=2, relevant_max=None),
                  dict(relevant_min="x"), dict(nbins_actual=3),
                  dict(nbins_actual=0), dict(writeDir=None)):
        for pre in (False, True):
            _clock[0] = 0.0
            d = fresh_dir(prepopulate=pre)
            m, _ = make(d, **kw)
            for k, v in attrs.items():
                setattr(m, k, v)
            res, out = call(d, runner(m, kw))
            st = state(m) if m.writeDir is not None else None
            emit("poked %s %s pre=%d" % (label, sorted(attrs.items()), pre),
                 (res, out, snapshot(d), st))
            shutil.rmtree(d, ignore_errors=True)

# ------------------------------------------------- mklog / writeLog directly
d = fresh_dir()
m, _ = make(d, **KW)
p = os.path.join(d, "direct.txt")
steps = []
steps.append(call(d, m.mklog, p))
steps.append(snapshot(d))
steps.append(call(d, m.writeLog, p, "abc\n"))
steps.append(call(d, m.writeLog, p, ""))
steps.append(call(d, m.writeLog, p, "def"))
steps.append(snapshot(d))
steps.append(call(d, m.mklog, p, "INIT\n"))
steps.append(snapshot(d))
steps.append(call(d, m.mklog, p, initial="second"))
steps.append(call(d, m.writeLog, logfile=p, output="\ttail\n"))
steps.append(snapshot(d))
steps.append(call(d, m.mklog, logfile=p))
steps.append(snapshot(d))
# appending to a file that does not exist yet creates it
q = os.path.join(d, "fresh.txt")
steps.append(call(d, m.writeLog, q, "created by append\n"))
steps.append(snapshot(d))
# wrong types
steps.append(call(d, m.writeLog, q, 12))
steps.append(call(d, m.writeLog, q, None))
steps.append(call(d, m.writeLog, q, b"bytes"))
steps.append(call(d, m.mklog, q, 3.5))
steps.append(snapshot(d))
steps.append(call(d, m.mklog, q, None))
steps.append(snapshot(d))
steps.append(call(d, m.mklog, os.path.join(d, "no", "dir.txt")))
steps.append(call(d, m.writeLog, os.path.join(d, "no", "dir.txt"), "x"))
steps.append(call(d, m.mklog, d))
steps.append(call(d, m.writeLog, d, "x"))
steps.append(call(d, m.mklog, None))
steps.append(call(d, m.mklog, ""))
steps.append(call(d, m.writeLog, "", "x"))
steps.append(call(d, m.mklog))
steps.append(call(d, m.writeLog, q))
steps.append(snapshot(d))
# unicode and long text
steps.append(call(d, m.mklog, q, "café κ\n"))
steps.append(call(d, m.writeLog, q, "x" * 70000))
steps.append(snapshot(d))
steps.append(state(m))
emit("mklog/writeLog", steps)
shutil.rmtree(d, ignore_errors=True)


# ------------------------------------------------- the flat check on its own
def flatcheck(m, H, Hlocal, niter, f, hlog, glog, g):
    fc = getattr(m, "_WangLandauMachine__run_flatcheck")
    params = list(inspect.signature(fc).parameters)
    if "hlog" in params and "glog" in params:
        return fc(H, Hlocal, niter, f, hlog, glog, g)
    assert "logs" in params, params
    return fc(H, Hlocal, niter, f, {"hlog": hlog, "glog": glog}, g)


FC_MACHINES = [
    dict(seq="EKEKEKEKDDRRAGSGEEKKPQ", nbins=4, binmin=0.0, binmax=0.4,
         flatchk=150, flatcrit=0.7, convergence=1.5),
    dict(seq="EKEKEKEKDDRRAGSGEEKKPQ", nbins=4, binmin=0.0, binmax=0.4,
         flatchk=150, flatcrit=0.7, convergence=1.0001),
    dict(seq="EKEKEKEKDDRRAGSGEEKKPQ", nbins=4, flatchk=150, flatcrit=0.5,
         convergence=1.5, WL_type="ZOOM"),
]
FC_INPUTS = [
    # (H, Hlocal, niter, f, g)
    ([10, 10, 10, 10, 0, 0, 0, 0, 0, 0], [10, 10, 10, 10], 0, np.exp(1), [1.0] * 10),
    ([10, 10, 10, 10, 0, 0, 0, 0, 0, 0], [10, 10, 10, 10], 3, 1.7, [0.5, 2, 3.25, 4, 0, 0, 0, 0, 0, 0]),
    ([10, 10, 10, 10, 0, 0, 0, 0, 0, 0], [10, 10, 10, 10], 3, 2.25, [0.5, 2, 3.25, 4, 0, 0, 0, 0, 0, 0]),
    ([10, 10, 10, 10, 0, 0, 0, 0, 0, 0], [10, 10, 10, 10], 3, 2.2500001, [0.5, 2, 3.25, 4, 0, 0, 0, 0, 0, 0]),
    ([10, 1, 10, 10, 0, 0, 0, 0, 0, 0], [10, 1, 10, 10], 1, np.exp(1), [1.0] * 10),
    ([0] * 10, [0, 0, 0, 0], 0, np.exp(1), [0] * 10),
    ([5, 5, 5, 0, 0, 0, 0, 0, 0, 0], [5, 5, 5], 2, np.exp(0.5), [3, 3, 3, 0, 0, 0, 0, 0, 0, 0]),
    ([5, 5, 5, 5, 5, 0, 0, 0, 0, 0], [5, 5, 5, 5, 5], 2, np.exp(0.5), [3] * 10),
    ([7, 7, 7, 7], np.array([7, 7, 7, 7]), 9, np.float64(4.0), np.array([1.5, 2.5, 3.5, 4.5])),
    ([7, 7, 7, 7], np.array([7.0, 6.0, 9.0, 7.0]), -1, 1.0, []),
    ([], [], 0, np.exp(1), []),
    ([1, 2, 3, 4], [1, 2, 3, 4], 0, np.exp(1), ["a"]),
    ([4, 4, 4, 4], [4, 4, 4, 4], 0, np.exp(1), ["a"]),
    ([4, 4, 4, 4], [4, 4, 4, 4], None, np.exp(1), [1.0]),
    ([4, 4, 4, 4], [4, 4, 4, 4], 0, "f", [1.0]),
]
for mi, kw in enumerate(FC_MACHINES):
    for ii, (H, Hlocal, niter, f, g) in enumerate(FC_INPUTS):
        for mode in ("files", "nofiles", "nodir"):
            d = fresh_dir()
            m, _ = make(d, **kw)
            hl = os.path.join(d, "h.txt")
            gl = os.path.join(d, "g.txt")
            if mode == "files":
                m.mklog(hl, "H-HEAD\n")
                m.mklog(gl, "G-HEAD\n")
            elif mode == "nodir":
                hl = os.path.join(d, "x", "h.txt")
                gl = os.path.join(d, "y", "g.txt")
            Hc = list(H)
            gc = g.copy() if isinstance(g, np.ndarray) else list(g)
            res, out = call(d, flatcheck, m, Hc, Hlocal, niter, f, hl, gl, gc)
            emit("flatcheck m%d i%02d %s" % (mi, ii, mode),
                 (res, out, snapshot(d), state(m), repr(Hc), repr(gc)))
            shutil.rmtree(d, ignore_errors=True)

# optional dump of the undigested payloads for debugging
if os.environ.get("EQUIV_DUMP"):
    open(os.environ["EQUIV_DUMP"], "w").write("\n".join(LINES))
print("TOTAL", hashlib.sha256("\n".join(LINES).encode("utf-8", "replace")).hexdigest())
