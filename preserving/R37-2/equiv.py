"""
Differential script for the sliding-window profile functions of
localcider.backend.sequence.Sequence.

Run once with cwd=/tmp/seed/R37 (changed tree) and once with cwd=/repo
(unchanged tree); the printed output must be identical.

    cd /tmp/seed/R37 && /venv/bin/python /tmp/seed/R37_out/R2/equiv.py
    cd /repo         && /venv/bin/python /tmp/seed/R37_out/R2/equiv.py

Set EQUIV_VERBOSE=1 to print every record instead of only the digest.
"""
import os
import sys

sys.path.insert(0, os.getcwd())

import collections
import decimal
import fractions
import hashlib
import io
import contextlib
import warnings

import numpy as np

warnings.simplefilter("ignore")

from localcider.backend.sequence import Sequence
from localcider.sequenceParameters import SequenceParameters

RECORDS = []


def describe(value):
    """Deterministic, type-aware description of a returned value"""
    if isinstance(value, np.ndarray):
        if value.dtype == object:
            return "ndarray(object,%s,%r)" % (value.shape, value.tolist())
        return "ndarray(%s,%s,%s)" % (
            value.dtype, value.shape,
            hashlib.sha256(np.ascontiguousarray(value).tobytes()).hexdigest()[:20])
    if isinstance(value, tuple):
        return "tuple(" + ",".join(describe(v) for v in value) + ")"
    if isinstance(value, list):
        return "list[" + ",".join(describe(v) for v in value) + "]"
    if isinstance(value, (set, frozenset)):
        return type(value).__name__ + "{" + ",".join(sorted(describe(v) for v in value)) + "}"
    if isinstance(value, dict):
        return "dict{" + ",".join("%s:%s" % (describe(k), describe(value[k])) for k in sorted(value, key=repr)) + "}"
    if isinstance(value, collections.deque):
        return "deque[" + ",".join(describe(v) for v in value) + "]"
    return "%s:%r" % (type(value).__name__, value)


def state(obj):
    """Digest of the Sequence object's state"""
    d = obj.__dict__
    keys = sorted(k for k in d if k != 'ComplexityObject')
    return ";".join("%s=%s" % (k, describe(d[k])) for k in keys)


def record(label, fn, *args, **kwargs):
    out = io.StringIO()
    try:
        with contextlib.redirect_stdout(out):
            res = fn(*args, **kwargs)
        line = "OK  " + describe(res)
    except BaseException as e:      # noqa
        line = "EXC %s: %s" % (type(e).__name__, e)
    RECORDS.append("%s -> %s | printed=%r" % (label, line, out.getvalue()))


def mk(seq, **kw):
    try:
        return Sequence(seq, **kw)
    except BaseException as e:
        RECORDS.append("construct %r %r -> EXC %s: %s" % (seq, sorted(kw), type(e).__name__, e))
        return None


IDR = "MSEEKRKREDSGSPTPQNQSGYGGSQDDKRRESPEELLKKAEEAAKRGDPNAYYELAKKYLEEGNL"

SEQS = [
    ("empty", "", {}),
    ("one", "A", {}),
    ("two", "EK", {}),
    ("ek8", "EKEKEKEK", {}),
    ("blocky", "EEEEEKKKKKGGGGG", {}),
    ("neutral", "GSGSGSGSGS", {}),
    ("pro", "PPPPPPP", {}),
    ("lower", "mkdeRRwfy", {}),
    ("idr", IDR, {}),
    ("sharp_s", "AßEK", {}),                  # upper() changes the length
    ("reduced", "+-0+-00+", {}),                   # reduced alphabet
    ("unknownX", "AXEKB", {"chargePattern": np.array([0, 0, -1, 1, 0])}),
    ("listcp", "AEK", {"chargePattern": [0, -1, 1]}),
    ("shortcp", "AEKDR", {"chargePattern": np.array([0, -1])}),
    ("longcp", "AEK", {"chargePattern": np.array([0, -1, 1, 1, 1, -1])}),
    ("validated", "AE KD\nRG", {"validateSeq": True}),
]

WINDOWS = [-3, -1, 0, 1, 2, 3, 4, 5, 6, 7, 8, 9, 15, 16, 66, 67, 1000,
           True, False, 2.0, 2.5, np.int64(3), np.int32(2), np.float64(3.0),
           "3", None, float("nan"), float("inf"), [2], (3,), 3 + 0j,
           np.array(3), np.array([3]), np.array([2, 3]), np.uint8(3), np.bool_(True),
           10 ** 400, -10 ** 400, fractions.Fraction(3), fractions.Fraction(5, 2),
           decimal.Decimal(3), -2.0, 0.0]

PROFILE_FUNCS = ["linearDistOfNCPR", "linearDistOfFCR", "linearDistOfSigma",
                 "linearDistOfHydropathy", "linearDistOfHydropathy_2"]


def targets():
    return [
        ("A", lambda: ["A"]),
        ("empty", lambda: []),
        ("str", lambda: "EK"),
        ("tuple", lambda: ("E", "D")),
        ("set", lambda: set("GSP")),
        ("none", lambda: None),
        ("int", lambda: 5),
        ("iter", lambda: iter(["K", "E", "K"])),
        ("lower", lambda: ["e", "k"]),
        ("dict", lambda: {"E": 1, "+": 2}),
        ("all", lambda: list("ACDEFGHIKLMNPQRSTVWY+-0")),
    ]


def groups():
    return [
        ("one", lambda: [["E", "D"]]),
        ("two_lower", lambda: [["e", "d"], ["K"]]),
        ("strings", lambda: ["ED", "RK", "p"]),
        ("bare_str", lambda: "EDK"),
        ("tuple_grps", lambda: (("E", "D"), ("G", "S"))),
        ("dup", lambda: [["E", "E", "e"], ["E"]]),
        ("invalid", lambda: [["E"], ["X"]]),
        ("nonstr", lambda: [[1, 2]]),
        ("emptygrp", lambda: [[]]),
        ("mixed_bad_second", lambda: [["A"], 5]),
        ("empty_tuple", lambda: ()),
        ("none", lambda: None),
        ("dict", lambda: {"E": 1, "K": 2}),
        ("ndarray0", lambda: np.array([])),
        ("deque0", lambda: collections.deque()),
        ("gen", lambda: (g for g in [["E"]])),
        ("seven", lambda: [['E', 'D'], ['R', 'K'], ['R', 'K', 'E', 'D'],
                           ['Q', 'N', 'S', 'T', 'G', 'H', 'C'],
                           ['A', 'L', 'M', 'I', 'V'], ['F', 'Y', 'W'], ['P']]),
    ]


def defaults_state():
    return describe(Sequence.linearCompositions.__defaults__)


def main():
    RECORDS.append("defaults0 " + defaults_state())

    for name, seq, kw in SEQS:
        obj = mk(seq, **kw)
        if obj is None:
            continue
        RECORDS.append("state0 %s %s" % (name, state(obj)))

        # --- the five profile functions -------------------------------------
        for w in WINDOWS:
            for fn in PROFILE_FUNCS:
                record("%s.%s(%r)" % (name, fn, w), getattr(obj, fn), w)
        # repeated call on one object, keyword form
        for fn in PROFILE_FUNCS:
            record("%s.%s(bloblen=2)#1" % (name, fn), getattr(obj, fn), bloblen=2)
            record("%s.%s(bloblen=2)#2" % (name, fn), getattr(obj, fn), bloblen=2)
        RECORDS.append("state1 %s %s" % (name, state(obj)))

        # --- density of AAs ---------------------------------------------------
        for w in WINDOWS:
            for tname, tmk in targets():
                t = tmk()
                record("%s.density(%r,%s)" % (name, w, tname), obj.linearDenistyOfAAs, w, t)
                if isinstance(t, (list, dict, set)):
                    RECORDS.append("   target after: " + describe(t))
        record("%s.density(kw)" % name, obj.linearDenistyOfAAs, targetAAs=["E"], bloblen=1)
        record("%s.density(missing)" % name, obj.linearDenistyOfAAs, 2)

        # --- compositions -------------------------------------------------------
        for w in WINDOWS:
            for gname, gmk in groups():
                g = gmk()
                record("%s.comp(%r,%s)" % (name, w, gname), obj.linearCompositions, w, g)
                if not hasattr(g, "send"):
                    RECORDS.append("   grps after: " + describe(g))
            # explicit empty list: gets filled with the defaults (observable)
            mine = []
            record("%s.comp(%r,[])" % (name, w), obj.linearCompositions, w, mine)
            RECORDS.append("   mine after: " + describe(mine))
            if len(mine) > 0:
                mine[0].append("ZZ")    # must not leak into any shared constant
            record("%s.comp(%r,mine again)" % (name, w), obj.linearCompositions, w, mine)
            RECORDS.append("   mine after2: " + describe(mine))
            # default argument (shared mutable default!) - twice
            record("%s.comp(%r)#1" % (name, w), obj.linearCompositions, w)
            RECORDS.append("   defaults: " + defaults_state())
            record("%s.comp(%r)#2" % (name, w), obj.linearCompositions, bloblen=w)
            RECORDS.append("   defaults: " + defaults_state())
        RECORDS.append("state2 %s %s" % (name, state(obj)))

        # --- other users of the window check --------------------------------------
        for w in [0, 1, 3, len(obj.seq), len(obj.seq) + 1, 500, 2.5, None]:
            record("%s.WF(%r)" % (name, w), obj.get_linear_WF_complexity, windowSize=w)
        RECORDS.append("state3 %s %s" % (name, state(obj)))

    # --- public wrappers in SequenceParameters ---------------------------------
    for seq in ["EKEKEKEK", IDR, "GSGS"]:
        sp = SequenceParameters(seq)
        for w in [None, 1, 2, 4, 5, 8, 9, 70]:
            args = () if w is None else (w,)
            for fn in ["get_linear_sigma", "get_linear_NCPR", "get_linear_FCR",
                       "get_linear_hydropathy", "get_linear_sequence_composition"]:
                record("SP(%s).%s%r" % (seq[:8], fn, args), getattr(sp, fn), *args)
            record("SP(%s).comp%r grps" % (seq[:8], args), sp.get_linear_sequence_composition,
                   *args, grps=[["G", "S"], ["E"]])
            mine = []
            record("SP(%s).comp%r []" % (seq[:8], args), sp.get_linear_sequence_composition,
                   *args, grps=mine)
            RECORDS.append("   mine after: " + describe(mine))
        RECORDS.append("SPstate %s" % state(sp.SeqObj))

    RECORDS.append("defaultsN " + defaults_state())
    RECORDS.append("docs " + hashlib.sha256("|".join(
        str(getattr(Sequence, f).__doc__) for f in PROFILE_FUNCS +
        ["linearDenistyOfAAs", "linearCompositions"]).encode()).hexdigest())

    if os.environ.get("EQUIV_VERBOSE"):
        for r in RECORDS:
            print(r)
    print("records:", len(RECORDS))
    print("ok:", sum(1 for r in RECORDS if "-> OK" in r),
          "exc:", sum(1 for r in RECORDS if "-> EXC" in r))
    print("digest:", hashlib.sha256("\n".join(RECORDS).encode("utf-8")).hexdigest())


if __name__ == "__main__":
    main()
