import os, sys; sys.path.insert(0, os.getcwd())
import hashlib, time, random, io, contextlib, signal
import numpy as np
import localcider
assert os.path.abspath(localcider.__file__).startswith(os.path.abspath(os.getcwd()) + os.sep), localcider.__file__
from localcider.backend import sequence as S
from localcider.backend.sequence import Sequence
from localcider.backend import backendtools as BT
BT.HUSH_ALL = False

# make the time-seeded generator reproducible and count the clock reads
CLOCK = {'n': 0, 'base': 9000.0}
def fake_time():
    CLOCK['n'] += 1
    return CLOCK['base'] + CLOCK['n'] * 0.733
time.time = fake_time
assert S.time.time is fake_time

class Hang(BaseException):
    pass
def on_alarm(signum, frame):
    raise Hang()
signal.signal(signal.SIGALRM, on_alarm)

OUT = []
def emit(*a):
    OUT.append(repr(a))

def cpat(cp):
    return (type(cp).__name__, [repr(x) for x in cp])

def snap(o):
    if not isinstance(o, Sequence):
        return ('NOTSEQ', repr(o))
    return (o.seq, o.len, repr(o.dmax), cpat(o.chargePattern), repr(o.seqDeltaMax), repr(o.phosphosites))

def run(tag, fn):
    c0 = CLOCK['n']
    buf = io.StringIO()
    signal.alarm(120)   # safety net only; no input below is expected to get near it
    try:
        with contextlib.redirect_stdout(buf), contextlib.redirect_stderr(buf):
            r = fn()
        signal.alarm(0)
        emit(tag, 'OK', snap(r), CLOCK['n'] - c0, buf.getvalue())
        return r
    except BaseException as e:
        signal.alarm(0)
        emit(tag, 'EXC', type(e).__name__, str(e), CLOCK['n'] - c0, buf.getvalue())
        return None

FROZEN = [None, set(), {0, 1, 2}, [3], "junk", 7]

# ---------------------------------------------------------------- permute_block_swap
bs_seqs = ["", "A", "KE", "KEA", "KEKE", "KEAG", "AAAAA", "KKEEA", "KEKEKE", "KKKEEE", "AAAAAAAA", "KKKKKKKK",
           "KKKKEEEE", "KEKEKEKE", "MKDESTYAGRPQWHHC", "kEdRaGsTyQ", "EEEEKKKKGGGGSSSSPPPP", "ßKKEE", "ßKKEEKEKEKAAD",
           "GSGSGSGSGSGSK", "EGSGSGSGSGSGSK",
           "MEEPQSDPSVEPPLSQETFSDLWKLLPENNVLSPLPSQAMDDLMLSPDDIEQWFTEDPGPDEAPRMPEAAPPVAPAPAAPTPAAPAPAPSWPL",
           "GSTNQKRDEY" * 12]
for s in bs_seqs:
    for dmax in (-1, 0.42):
        o = run(('ctor', s, dmax), lambda: Sequence(s, dmax))
        if o is None:
            continue
        before = snap(o)
        for rep in range(12):
            fz = FROZEN[rep % len(FROZEN)]
            r = run(('pbs', s, dmax, rep), (lambda: o.permute_block_swap()) if fz is None else (lambda: o.permute_block_swap(fz)))
            if r is not None:
                emit('pbs-rel', r is o, r.chargePattern is o.chargePattern, sorted(r.seq) == sorted(o.seq),
                     repr(r.delta()), repr(o.delta()))
        emit('parent-unchanged', snap(o) == before)

# scripted delta values drive the "99 tries" / "100 tries" exits of permute_block_swap
real_delta = Sequence.delta
for zeros in (0, 1, 2, 50, 98, 99, 100, 101, 150, 10**9):
    calls = {'n': 0}
    def scripted(self):
        calls['n'] += 1
        return 0.0 if calls['n'] <= zeros else float(calls['n'])
    Sequence.delta = scripted
    try:
        for s in ("KEKEAGSTKE", "EEEEKKKKGGGGSSSSPPPP"):
            calls['n'] = 0
            o = Sequence(s, 0.9)
            r = run(('scripted', zeros, s), lambda: o.permute_block_swap())
            emit('scripted-calls', calls['n'])
    finally:
        Sequence.delta = real_delta
# nan deltas: the loop body never runs
Sequence.delta = lambda self: float('nan')
try:
    run(('nan-delta',), lambda: Sequence("KEKEAGSTKE").permute_block_swap())
finally:
    Sequence.delta = real_delta

# many random sequences
r_ = random.Random(4242)
for t in range(400):
    n = r_.choice([4, 5, 6, 7, 8, 9, 10, 11, 16, 25, 40, 77])
    alphabet = r_.choice(["KE", "KEA", "KRDEGS", "ACDEFGHIKLMNPQRSTVWY", "GK"])
    s = "".join(r_.choice(alphabet) for _ in range(n))
    o = Sequence(s, r_.choice([-1, 0.1]))
    r = run(('pbs-rnd', t, s), lambda: o.permute_block_swap())
    if r is not None:
        run(('pbs-rnd2', t), lambda: r.permute_block_swap())

# ---------------------------------------------------------------- permute_cluster_charges
# inputs that cannot terminate in either version (homopolymers, sequences shorter than the delta windows,
# all charges adjacent with no room) are deliberately not used
for s in ["", "A", "AAAAAA", "KAAAAAAE", "KEAAAAAA", "GSGSGSGSK"]:   # not enough charges -> exception
    for dmax in (-1, 0.3):
        o = run(('ctor', s, dmax), lambda: Sequence(s, dmax))
        if o is not None:
            for rep in range(2):
                run(('pcc-few', s, dmax, rep), lambda: o.permute_cluster_charges())

cc_seqs = ["KAAAKAAA", "EAAAEAAA", "KAKAEAEA", "KEKEKEKE", "KKKKEEEE", "KGSGSKGSGSGE", "EGSGSEGSGSGK", "RDRDGSGSRDRDGS",
           "MKDESTYAGRPQWHHCK", "kEdRaGsTyQkkee", "EEEEKKKKGGGGSSSSPPPP", "GKGKGKGEGGGGGG", "GEGEGEGKGGGGGG",
           "ßKKEEAAKAE", "ßAAKAAKAAAE", "ßKKEEAAKAA", "ßßKAKAEAEAGG", "KAAAAAAAAAKAAAAAAAAE", "EKAAAAAAAAAKAAAAAAAAEAAAD",
           "MEEPQSDPSVEPPLSQETFSDLWKLLPENNVLSPLPSQAMDDLMLSPDDIEQWFTEDPGPDEAPRMPEAAPPVAPAPAAPTPAAPAPAPSWPL",
           "GSTNQKRDEY" * 8]
for s in cc_seqs:
    for dmax in (-1, 0.42):
        o = run(('ctor', s, dmax), lambda: Sequence(s, dmax))
        if o is None:
            continue
        before = snap(o)
        for rep in range(12):
            fz = FROZEN[rep % len(FROZEN)]
            r = run(('pcc', s, dmax, rep), (lambda: o.permute_cluster_charges()) if fz is None else (lambda: o.permute_cluster_charges(fz)))
            if r is not None:
                emit('pcc-rel', r is o, r.chargePattern is o.chargePattern, sorted(r.seq) == sorted(o.seq),
                     repr(r.delta()), repr(o.delta()))
        emit('parent-unchanged', snap(o) == before)

for t in range(300):
    n = r_.choice([8, 9, 10, 12, 16, 25, 40, 77])
    alphabet = r_.choice(["KEAG", "KRDEGS", "ACDEFGHIKLMNPQRSTVWY", "GGGK", "GGGE", "GGGKE"])
    s = "".join(r_.choice(alphabet) for _ in range(n))
    # keep only inputs with room to move: at least two neutral residues and two charges of one sign that are not all adjacent
    pos = [i for i, c in enumerate(s) if c in "KR"]; neg = [i for i, c in enumerate(s) if c in "DE"]
    ok = (len(s) - len(pos) - len(neg) >= 3) and ((len(pos) >= 2) or (len(neg) >= 2))
    if not ok:
        continue
    o = Sequence(s, r_.choice([-1, 0.1]))
    r = run(('pcc-rnd', t, s), lambda: o.permute_cluster_charges())
    if r is not None:
        run(('pcc-rnd2', t), lambda: r.permute_cluster_charges())

emit('default-args', repr(Sequence.permute_block_swap.__defaults__), repr(Sequence.permute_cluster_charges.__defaults__))

if os.environ.get("EQUIV_DUMP"):
    open(os.environ["EQUIV_DUMP"], "w").write("\n".join(OUT))
print(len(OUT), hashlib.sha256("\n".join(OUT).encode()).hexdigest())
