"""
Differential script for the phosphosite / HTML area of localcider/backend/sequence.py.

Run once with cwd = changed tree and once with cwd = unchanged tree and compare
the printed output (a list of per-section digests plus one overall digest).
"""
import os
import sys
sys.path.insert(0, os.getcwd())

import io
import copy
import random
import hashlib
import contextlib

import numpy as np

import localcider
from localcider.backend.sequence import Sequence
from localcider.backend.data import aminoacids
from localcider.sequenceParameters import SequenceParameters

# the package ships with HUSH_ALL = True; switch the messages on so that the printed
# status / warning text is part of the comparison as well
import localcider.backend.backendtools as _bt
_bt.HUSH_ALL = False
_bt.HUSH_WARNINGS = False
_bt.HUSH_STATUS = False

assert os.path.abspath(localcider.__file__).startswith(os.path.abspath(os.getcwd())), localcider.__file__

AAS = "ACDEFGHIKLMNPQRSTVWY"
COLORS = ['aqua', 'black', 'blue', 'fuchsia', 'gray', 'green', 'lime', 'maroon', 'navy',
          'olive', 'orange', 'purple', 'red', 'silver', 'teal', 'white', 'yellow']

RECORDS = []
SECTION = [None]


def norm(v):
    """ deterministic, type-revealing representation """
    if isinstance(v, (list, tuple)):
        return type(v).__name__ + "(" + ",".join(norm(x) for x in v) + ")"
    if isinstance(v, dict):
        return "dict(" + ",".join(norm(k) + ":" + norm(v[k]) for k in sorted(v, key=repr)) + ")"
    if isinstance(v, (set, frozenset)):
        return type(v).__name__ + "(" + ",".join(sorted(norm(x) for x in v)) + ")"
    if isinstance(v, np.ndarray):
        return "ndarray" + str(v.dtype) + norm(v.tolist())
    if isinstance(v, (Sequence, SequenceParameters)):
        return type(v).__name__ + ":<object>"
    return type(v).__name__ + ":" + repr(v)


def call(label, fn, *args, **kwargs):
    """ run fn, recording return value / exception and everything printed """
    buf = io.StringIO()
    try:
        with contextlib.redirect_stdout(buf):
            out = fn(*args, **kwargs)
        res = "RET " + norm(out)
    except Exception as e:
        out = None
        res = "EXC " + type(e).__name__ + " " + repr(e.args)
    RECORDS.append("%s | %s | %s | OUT %r" % (SECTION[0], label, res, buf.getvalue()))
    return out


def state(label, obj):
    """ record the observable state of a Sequence object """
    if isinstance(obj, SequenceParameters):
        obj = obj.SeqObj
    RECORDS.append("%s | %s | STATE seq=%r len=%r phos=%s cmap=%s dmax=%r sdm=%r cp=%s" % (
        SECTION[0], label, obj.seq, obj.len, norm(obj.phosphosites), norm(obj.aminoAcidColorMap),
        obj.dmax, obj.seqDeltaMax, norm(obj.chargePattern)))


def section(name):
    if SECTION[0] is not None:
        flush()
    SECTION[0] = name
    del RECORDS[:]


ALL = hashlib.sha256()


def flush():
    h = hashlib.sha256()
    for r in RECORDS:
        h.update(r.encode("utf8", "backslashreplace"))
        h.update(b"\n")
    ALL.update(h.digest())
    if os.environ.get("EQUIV_DUMP"):
        with open(os.environ["EQUIV_DUMP"], "a") as fh:
            for r in RECORDS:
                fh.write(r.encode("ascii", "backslashreplace").decode("ascii") + "\n")
    print("%-28s n=%-5d %s" % (SECTION[0], len(RECORDS), h.hexdigest()[:32]))


rnd = random.Random(20170)


def randseq(n, alphabet=AAS):
    return "".join(rnd.choice(alphabet) for _ in range(n))


SEQS = ["", "S", "A", "E", "K", "STY", "sty", "KKKYKKK", "AAAAAAAAAA", "GGGGGGSGGGGGG",
        "EEEEEEEEEEKKKKKKKKKK", "EKEKEKEKEKEKEKEKEKEK", "SSSSSSSSSSSSSSSSSSSSSSSS",
        "MSTYEEKRDDSAGTYPLQNV", "ststyyEKekQQ",
        randseq(9), randseq(10), randseq(11), randseq(49), randseq(50), randseq(51),
        randseq(99), randseq(100), randseq(101), randseq(257),
        randseq(60, "STYEK"), randseq(40, "GASTY"), randseq(35, "KRST"), randseq(35, "DEYS")]
ODD = ["AXB", "SEQ-1", "A C", "ABZ*", "acdxs", "STRASSEß", "ßSTY", "12345", "S T\tY\n"]

# ----------------------------------------------------------------------------------
section("html-string")
for s in SEQS + ODD:
    o = call("ctor " + repr(s), Sequence, s)
    if o is None:
        continue
    call("html", o.get_HTMLColorString)
    call("html-again", o.get_HTMLColorString)
    state("after-html", o)
for s in SEQS[:20]:
    p = call("sp-ctor", SequenceParameters, s)
    if p is None:
        continue
    call("sp-html", p.get_HTMLColorString)

# ----------------------------------------------------------------------------------
section("html-palette")


def randpalette():
    return dict((a, rnd.choice(COLORS)) for a in AAS)


class Weird(object):
    def __repr__(self):
        return "Weird()"


PALETTES = [dict(aminoacids.DEFAULT_COLOR_PALETTE), randpalette(), randpalette(), randpalette()]
# extra keys
p = randpalette(); p["X"] = "red"; p["B"] = "not-a-colour"; p[3] = None
PALETTES.append(p)
# missing keys (first, middle, last, several)
for miss in ["A", "M", "Y", "ACD", AAS]:
    p = randpalette()
    for m in miss:
        del p[m]
    PALETTES.append(p)
# bad colours in different places, wrong case, wrong types, unhashable values
for key, bad in [("A", "pink"), ("Y", "Red"), ("K", "BLUE"), ("G", ""), ("P", None), ("Q", 7),
                 ("R", ["red"]), ("S", ("red",)), ("T", {"red": 1}), ("V", b"red"), ("W", Weird()),
                 ("C", " red"), ("D", "#ff0000")]:
    p = randpalette()
    p[key] = bad
    PALETTES.append(p)
# bad colour AND missing key - which is reported depends on iteration order
p = randpalette(); del p["Y"]; p["A"] = "pink"; PALETTES.append(p)
p = randpalette(); del p["A"]; p["Y"] = "pink"; PALETTES.append(p)
p = randpalette(); del p["L"]; p["K"] = "pink"; p["M"] = "pink"; PALETTES.append(p)
# not dictionaries at all
PALETTES += [{}, [], list(AAS), AAS, None, 5, set(AAS), tuple(AAS)]


class StrSub(str):
    pass


p = randpalette(); p["E"] = StrSub("teal"); PALETTES.append(p)

for s in ["", "STY", SEQS[18], SEQS[21], "AXB"]:
    o = call("ctor", Sequence, s)
    if o is None:
        continue
    sp = call("sp-ctor", SequenceParameters, s)
    for n, pal in enumerate(PALETTES):
        before = copy.deepcopy(pal) if not isinstance(pal, (type(None), int)) else pal
        call("set %d" % n, o.set_HTMLColorResiduePalette, pal)
        RECORDS.append("input-unchanged %r" % (norm(before) == norm(pal),))
        state("after-set %d" % n, o)
        call("html %d" % n, o.get_HTMLColorString)
        if sp is not None:
            call("sp-set %d" % n, sp.set_HTMLColorResiduePalette, pal)
            call("sp-html %d" % n, sp.get_HTMLColorString)
            state("sp-after-set %d" % n, sp)
    # the stored map must be independent of the caller's dictionary
    pal = randpalette()
    call("set-own", o.set_HTMLColorResiduePalette, pal)
    pal["A"] = "MUTATED"
    state("after-caller-mutation", o)
    o.aminoAcidColorMap["C"] = "MUTATED2"
    RECORDS.append("caller-dict %s" % norm(pal))
    RECORDS.append("default-palette %s" % norm(aminoacids.DEFAULT_COLOR_PALETTE))
    # map with a missing residue -> KeyError in html
    del o.aminoAcidColorMap["S"]
    call("html-missing-S", o.get_HTMLColorString)
    o.aminoAcidColorMap["X"] = "gold"
    call("html-extra-X", o.get_HTMLColorString)

# two objects do not share their colour maps
a = Sequence("STYK"); b = Sequence("STYK")
a.aminoAcidColorMap["S"] = "zzz"
state("a", a); state("b", b)
c = Sequence("STYK"); state("c", c)

# ----------------------------------------------------------------------------------
section("phospho-set-get")
SITELISTS = [[], [1], [0], [-1], [2, 3], [3, 2, 3, 2], 4, 0, -3, 10**6, [1, 2, 3, 4, 5, 6, 7, 8, 9, 10],
             ["1", "2"], [" 3 "], ["x"], [1, "x", 2], [1.9, 2.2], (1, 2), range(1, 5), "12", "1", "",
             None, 2.0, [None], [[1]], [True, False], [np.int64(3)], np.array([1, 2, 3]), np.int64(2),
             {1: 2, 3: 4}, set([5, 1]), [10**30], [float("nan")], [float("inf")], iter([1, 2, 3])]
for s in SEQS[:24] + ["AXB", "STRASSEß", "ßSTY"]:
    o = call("ctor", Sequence, s)
    if o is None:
        continue
    call("sty", o.get_STY_residues)
    call("sty2", o.get_STY_residues)
    call("get0", o.get_phosphosites)
    call("pseq0", o.get_phosphosequence)
    for n, sl in enumerate(SITELISTS):
        if hasattr(sl, "__next__"):
            sl = iter([1, 2, 3])
        call("set %d" % n, o.setPhosPhoSites, sl)
        state("after-set %d" % n, o)
        got = call("get %d" % n, o.get_phosphosites)
        if got:
            got.append(99)      # returned list must be a private copy
            call("get-again %d" % n, o.get_phosphosites)
        call("pseq %d" % n, o.get_phosphosequence)
        call("nstates %d" % n, o.calculateNumberDifferentPhosphoStates)
        if n % 7 == 3:
            call("clear %d" % n, o.clear_phosphosites)
            state("after-clear %d" % n, o)
    sty = call("sty3", o.get_STY_residues)
    if sty:
        sty.append(-5)          # returned list must be a private copy
    sty = call("sty4", o.get_STY_residues)
    call("clear", o.clear_phosphosites)
    call("set-all-sty", o.setPhosPhoSites, sty)
    state("after-all-sty", o)
    call("pseq-all", o.get_phosphosequence)
    call("get-all", o.get_phosphosites)
    old = o.phosphosites
    call("clear2", o.clear_phosphosites)
    RECORDS.append("clear rebinds: %r %s" % (old is o.phosphosites, norm(old)))

# wrappers
for s in SEQS[:22]:
    p = call("sp-ctor", SequenceParameters, s)
    if p is None:
        continue
    sty = call("sp-sty", p.get_all_phosphorylatable_sites)
    call("sp-get0", p.get_phosphosites)
    call("sp-pseq0", p.get_phosphosequence)
    call("sp-set", p.set_phosphosites, sty)
    call("sp-set-again", p.set_phosphosites, [1, 2, 3, len(s), len(s) + 1])
    call("sp-get", p.get_phosphosites)
    call("sp-pseq", p.get_phosphosequence)
    state("sp-state", p)
    call("sp-clear", p.clear_phosphosites)
    call("sp-get2", p.get_phosphosites)
    state("sp-state2", p)

# hand-edited phosphosite lists (public attribute)
for s, sites in [("KKKYKKK", [0]), ("KKKYKKK", [3, 0]), ("KSTYK", [7, 1]), ("KSTYK", [-1, 2]),
                 ("KSTYK", [1.0, 2]), ("KSTYK", [2, 2, 2]), ("KSTYK", (1, 2, 3)), ("KSTYK", [True]),
                 ("KSTYK", ["1"]), ("KSTYK", [None, 1]), ("SSSS", [3, 2, 1, 0])]:
    o = Sequence(s)
    o.phosphosites = sites
    call("hand-pseq", o.get_phosphosequence)
    call("hand-get", o.get_phosphosites)
    call("hand-nstates", o.calculateNumberDifferentPhosphoStates)
    call("hand-maxphos", o.kappa_at_maxPhos)
    state("hand", o)

# ----------------------------------------------------------------------------------
section("phospho-kappa")
KSEQS = ["", "S", "STY", "KKKYKKK", "GGGGGGSGGGGGG", "MSTYEEKRDDSAGTYPLQNV", "ststyyEKekQQ",
         SEQS[15], SEQS[17], SEQS[18], SEQS[25], SEQS[26], SEQS[27], SEQS[28]]
for s in KSEQS:
    o = call("ctor", Sequence, s)
    p = call("sp-ctor", SequenceParameters, s)
    if o is None or p is None:
        continue
    call("dist-empty", o.calculateKappaDistOfPhosphoStates)
    call("kap-empty", p.get_kappa_after_phosphorylation)
    call("full-empty", p.get_full_phosphostatus_kappa_distribution)
    sty = o.get_STY_residues()
    for k in [1, 2, 3, 7]:
        sub = sty[:k]
        rnd.shuffle(sub)
        call("clear", o.clear_phosphosites)
        call("set %d" % k, o.setPhosPhoSites, sub)
        d = call("dist %d" % k, o.calculateKappaDistOfPhosphoStates)
        call("dist-again %d" % k, o.calculateKappaDistOfPhosphoStates)
        state("after-dist %d" % k, o)
        call("maxphos %d" % k, o.kappa_at_maxPhos)
        p.clear_phosphosites()
        call("sp-set %d" % k, p.set_phosphosites, sub)
        call("sp-kap %d" % k, p.get_kappa_after_phosphorylation)
        if k <= 3:
            call("sp-full %d" % k, p.get_full_phosphostatus_kappa_distribution)
        state("sp-after %d" % k, p)

# hand-edited sites in the distribution
for s, sites in [("KSTYKEEKS", [9, 1]), ("KSTYKEEKS", [1, 9]), ("KSTYKEEKS", [-1]), ("KSTYKEEKS", [0, 0]),
                 ("KSTYKEEKS", [1.0]), ("KSTYKEEKS", ["1"]), ("KSTYKEEKS", (1, 2))]:
    o = Sequence(s)
    o.phosphosites = sites
    call("hand-dist", o.calculateKappaDistOfPhosphoStates)
    state("hand-dist-state", o)

flush()
print("OVERALL", ALL.hexdigest())
