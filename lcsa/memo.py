"""MEMO-KEY - soundness of memo tables (caches) that survive a call.

A table `T[key] = value` is persistent when T is a field of the receiver, a module-level object or a closure variable of a
decorator.  Reported as a violation only when it is certain from names alone:
  (a) a parameter that the stored value depends on (data or control dependence) does not occur in the key;
  (b) the cached computation reads a field of the receiver that some other method can change, the field does not occur in the
      key and not every writer of that field also resets the table;
  (c) a module-level / closure table is shared by all objects, the cached computation reads a field of the receiver and the
      key mentions neither that field nor anything derived from it.
A key that mentions an input only through a lossy projection (len(), counts, sorted(dict)) is NOT decided here."""
import ast

from .model import unparse, is_self_attr


class Site:
    def __init__(self, mod, fnode, cls, table, scope, key, value, store, outer=None):
        self.mod, self.fnode, self.cls, self.table, self.scope = mod, fnode, cls, table, scope
        self.key, self.value, self.store, self.outer = key, value, store, outer
        self.slot = False

    @property
    def construct(self):
        q = (self.cls + "." if self.cls else "") + (self.outer.name + "." if self.outer is not None else "") + self.fnode.name
        return "%s:%s" % (self.mod.relpath, q)

    def where(self):
        return "%s:%d" % (self.construct, self.store.lineno)


def _functions(mod):
    """(fnode, class name or None, enclosing function node or None)"""
    out = []

    def walk(body, cls, outer):
        for n in body:
            if isinstance(n, ast.ClassDef):
                walk(n.body, n.name, outer)
            elif isinstance(n, ast.FunctionDef):
                out.append((n, cls, outer))
                walk(n.body, cls, n)
            elif isinstance(n, (ast.If, ast.For, ast.While, ast.With, ast.Try)):
                for fld in ("body", "orelse", "finalbody"):
                    walk(getattr(n, fld, []) or [], cls, outer)
                if isinstance(n, ast.Try):
                    for h in n.handlers:
                        walk(h.body, cls, outer)
    walk(mod.tree.body, None, None)
    return out


def _own_nodes(fnode):
    """nodes of a function excluding nested function bodies"""
    stack = list(fnode.body)
    while stack:
        n = stack.pop()
        yield n
        for c in ast.iter_child_nodes(n):
            if isinstance(c, (ast.FunctionDef, ast.ClassDef, ast.Lambda)):
                continue
            stack.append(c)


def _assigned_locals(fnode):
    names = set()
    for n in _own_nodes(fnode):
        if isinstance(n, ast.Assign):
            for t in n.targets:
                for x in ast.walk(t):
                    if isinstance(x, ast.Name) and isinstance(x.ctx, ast.Store):
                        names.add(x.id)
        elif isinstance(n, (ast.AugAssign, ast.For)):
            t = n.target
            for x in ast.walk(t):
                if isinstance(x, ast.Name) and isinstance(x.ctx, ast.Store):
                    names.add(x.id)
    return names


def find_sites(prog):
    sites = []
    for m in prog.mods.values():
        for fnode, cls, outer in _functions(m):
            locs = _assigned_locals(fnode)
            params = {a.arg for a in fnode.args.args + fnode.args.posonlyargs + fnode.args.kwonlyargs}
            outer_locals = _assigned_locals(outer) if outer is not None else set()
            for n in _own_nodes(fnode):
                if not (isinstance(n, ast.Assign) and len(n.targets) == 1 and isinstance(n.targets[0], ast.Subscript)):
                    continue
                t = n.targets[0]
                base = t.value
                scope = table = None
                if is_self_attr(base):
                    scope, table = "object", base.attr
                elif isinstance(base, ast.Name):
                    if base.id in params or base.id in locs:
                        continue
                    if base.id in outer_locals:
                        scope, table = "closure", base.id
                    elif base.id in m.globals:
                        scope, table = "module", base.id
                if scope is None:
                    continue
                # only tables that are also *read* with a key in this function count as memo tables
                read = False
                for r in _own_nodes(fnode):
                    if r is t:
                        continue
                    if isinstance(r, ast.Subscript) and isinstance(r.ctx, ast.Load) and unparse(r.value) == unparse(base):
                        read = True
                    if isinstance(r, ast.Compare) and any(isinstance(o, (ast.In, ast.NotIn)) for o in r.ops) \
                            and any(unparse(c) == unparse(base) for c in r.comparators):
                        read = True
                    if isinstance(r, ast.Call) and isinstance(r.func, ast.Attribute) and r.func.attr in ("get", "setdefault") \
                            and unparse(r.func.value) == unparse(base):
                        read = True
                if read:
                    sites.append(Site(m, fnode, cls, table, scope, t.slice, n.value, n, outer))
    sites.extend(find_slot_sites(prog))
    return sites


OWN_MEMO_FIELDS = {"dmax", "seqDeltaMax"}        # deltaMax's own two-field memo has its dedicated rules (C15 M1-M4)


def find_slot_sites(prog):
    """one-slot caches: a method stores a computed value in a field of its receiver (`self.F = value`) and, on a later call, returns what is in
    the field when a test that mentions the field holds (`if self.F is not None and <still valid>: return self.F`).  The 'key' of such a cache is
    the validity test itself."""
    out = []
    for m in prog.mods.values():
        for fnode, cls, outer in _functions(m):
            if cls is None or outer is not None or fnode.name == "__init__":
                continue
            stores = [n for n in _own_nodes(fnode) if isinstance(n, ast.Assign) and len(n.targets) == 1 and is_self_attr(n.targets[0]) and n.targets[0].attr not in OWN_MEMO_FIELDS]
            for st in stores:
                F = st.targets[0].attr
                if isinstance(st.value, ast.Constant):
                    continue                       # a reset (None / sentinel), not a stored result
                # the validity test: an `if` that looks at the field (or at a local bound to it) and either returns the stored value or guards
                # the recomputation-and-store
                aliased = {a.targets[0].id for a in _own_nodes(fnode) if isinstance(a, ast.Assign) and len(a.targets) == 1 and isinstance(a.targets[0], ast.Name) and is_self_attr(a.value, F)}

                def looks_at(test):
                    return any(is_self_attr(x, F) or (isinstance(x, ast.Name) and x.id in aliased) for x in ast.walk(test))
                def hands_back(body):
                    # a hit: the guarded block returns what is in the slot (not merely some value while the slot happens to be looked at)
                    return any(isinstance(b, ast.Return) and b.value is not None and looks_at(b.value) for b in ast.walk(ast.Module(body=body, type_ignores=[])))
                guards = [n for n in _own_nodes(fnode) if isinstance(n, ast.If) and looks_at(n.test)
                          and (hands_back(n.body) or any(b is st for b in ast.walk(ast.Module(body=n.body + n.orelse, type_ignores=[]))))]
                if not guards:
                    continue
                key = ast.Tuple(elts=[g.test for g in guards], ctx=ast.Load())
                ast.copy_location(key, guards[0].test)
                site = Site(m, fnode, cls, F, "object", key, st.value, st, None)
                site.slot = True
                out.append(site)
    return out


class Deps:
    """name-level data + control dependence inside one function"""

    def __init__(self, prog, mod, fnode, cls, E):
        self.prog, self.mod, self.fnode, self.cls, self.E = prog, mod, fnode, cls, E
        a = fnode.args
        self.params = [x.arg for x in a.posonlyargs + a.args + a.kwonlyargs]
        if a.vararg:
            self.params.append(a.vararg.arg)
        if a.kwarg:
            self.params.append(a.kwarg.arg)
        self.selfname = self.params[0] if cls and self.params else None
        self.defs = {}       # local -> [(value node, [guard tests])]
        self._collect(fnode.body, [])
        self._memo = {}

    def _collect(self, stmts, guards):
        for s in stmts:
            if isinstance(s, (ast.FunctionDef, ast.ClassDef)):
                continue
            if isinstance(s, ast.Assign):
                for t in s.targets:
                    for x in ast.walk(t):
                        if isinstance(x, ast.Name) and isinstance(x.ctx, ast.Store):
                            self.defs.setdefault(x.id, []).append((s.value, list(guards)))
                    if isinstance(t, ast.Attribute) and isinstance(t.value, ast.Name) and t.value.id == self.selfname:
                        self.defs.setdefault("self." + t.attr, []).append((s.value, list(guards)))
                    # x[i] = v / x[i][j] = v : an element store into a local is a (partial) definition of the local - by v and by the position
                    b, idx = t, []
                    while isinstance(b, ast.Subscript):
                        idx.append(b.slice)
                        b = b.value
                    if idx and isinstance(b, ast.Name) and b.id != self.selfname:
                        self.defs.setdefault(b.id, []).append((ast.Tuple(elts=[s.value] + idx, ctx=ast.Load()), list(guards)))
            elif isinstance(s, ast.AugAssign) and isinstance(s.target, ast.Name):
                self.defs.setdefault(s.target.id, []).append((s.value, list(guards)))
            elif isinstance(s, ast.AugAssign) and isinstance(s.target, ast.Subscript):
                b, idx = s.target, []
                while isinstance(b, ast.Subscript):
                    idx.append(b.slice)
                    b = b.value
                if isinstance(b, ast.Name) and b.id != self.selfname:
                    self.defs.setdefault(b.id, []).append((ast.Tuple(elts=[s.value] + idx, ctx=ast.Load()), list(guards)))
            elif isinstance(s, ast.Expr) and isinstance(s.value, ast.Call) and isinstance(s.value.func, ast.Attribute) and isinstance(s.value.func.value, ast.Name) \
                    and s.value.func.value.id != self.selfname and s.value.func.attr in ("append", "extend", "insert", "add", "update", "setdefault", "appendleft"):
                # x.append(v): what x holds afterwards depends on v as well
                c = s.value
                self.defs.setdefault(c.func.value.id, []).append((ast.Tuple(elts=list(c.args) + [k.value for k in c.keywords], ctx=ast.Load()), list(guards)))
            elif isinstance(s, ast.For):
                for x in ast.walk(s.target):
                    if isinstance(x, ast.Name):
                        self.defs.setdefault(x.id, []).append((s.iter, list(guards)))
                self._collect(s.body, guards + [s.iter])
                self._collect(s.orelse, guards)
                continue
            if isinstance(s, ast.If):
                self._collect(s.body, guards + [s.test])
                self._collect(s.orelse, guards + [s.test])
            elif isinstance(s, ast.While):
                self._collect(s.body, guards + [s.test])
            elif isinstance(s, ast.With):
                self._collect(s.body, guards)
            elif isinstance(s, ast.Try):
                self._collect(s.body, guards)
                for h in s.handlers:
                    self._collect(h.body, guards)
                self._collect(s.orelse, guards)
                self._collect(s.finalbody, guards)

    def of(self, node, depth=0, seen=None):
        """-> set of 'param:x' / 'self.f' / 'lossy:self.f'"""
        seen = seen if seen is not None else set()
        out = set()
        if node is None or depth > 12:
            return out
        for n in [node]:
            if isinstance(n, ast.Name):
                if n.id == self.selfname:
                    out.add("self.*")          # the whole object handed on
                    return out
                if n.id in self.defs and n.id not in seen:
                    seen = seen | {n.id}
                    for v, guards in self.defs[n.id]:
                        out |= self.of(v, depth + 1, seen)
                        for g in guards:
                            out |= self.of(g, depth + 1, seen)
                    if n.id in self.params:
                        out.add("param:" + n.id)
                    return out
                if n.id in self.params:
                    out.add("param:" + n.id)
                return out
            if isinstance(n, ast.Attribute):
                if isinstance(n.value, ast.Name) and n.value.id == self.selfname and self.selfname is not None:
                    fld = "self." + n.attr
                    if fld in self.defs and fld not in seen:
                        # a field (re)computed in this function: what it was computed from
                        seen2 = seen | {fld}
                        for v, guards in self.defs[fld]:
                            out |= self.of(v, depth + 1, seen2)
                            for g in guards:
                                out |= self.of(g, depth + 1, seen2)
                        return out
                    out.add(fld)
                    return out
                # an attribute of something else (`p.__class__`, `obj.seq`): a projection of whatever that is
                return out | {_project(d, "cls" if n.attr == "__class__" else "attr") if d.startswith(("param:", "proj:")) else d for d in self.of(n.value, depth + 1, seen)}
            if isinstance(n, ast.Call):
                fn = n.func
                lossy = False
                if isinstance(fn, ast.Name) and fn.id in ("len", "sum", "min", "max", "sorted", "any", "all", "bool", "hash", "set", "frozenset"):
                    lossy = True          # forgets order / multiplicity / everything but one number
                if isinstance(fn, ast.Attribute) and fn.attr in ("count", "keys", "index", "startswith"):
                    lossy = True
                inner = set()
                if isinstance(fn, ast.Attribute):
                    recv = fn.value
                    if isinstance(recv, ast.Name) and recv.id == self.selfname:
                        inner.add("call:" + fn.attr)
                    if isinstance(recv, ast.Name) and recv.id == self.selfname and self.cls:
                        callee = self.prog.method(self.cls, fn.attr)
                        if callee is not None and self.E is not None:
                            methods = {g.name for g in callee.mod.funcs.values() if g.cls == self.cls}
                            for r in self.E.sum[callee.key].self_reads:
                                if r not in methods:
                                    inner.add("lossy:self." + r)     # a method result is a projection of the fields it reads
                    else:
                        # a method result is a projection of its receiver: `self.obj.countPos()` mentions self.obj only lossily
                        inner |= {("lossy:" + d) if d.startswith("self.") else d for d in self.of(recv, depth + 1, seen)}
                for a in n.args:
                    inner |= self.of(a, depth + 1, seen)
                for k in n.keywords:
                    inner |= self.of(k.value, depth + 1, seen)
                if lossy:
                    inner = {("lossy:" + d) if d.startswith("self.") else d for d in inner}
                # how a parameter reaches this point: a chain of projections (`tuple(sorted(p))` -> proj:sorted>iter:p)
                kind = None
                if isinstance(fn, ast.Name):
                    kind = PROJ_FUNCS.get(fn.id)
                elif isinstance(fn, ast.Attribute) and not (isinstance(fn.value, ast.Name) and fn.value.id == self.selfname):
                    kind = PROJ_METHODS.get(fn.attr, "other" if self.of(fn.value, depth + 1, seen) else None)
                    if fn.attr in ("copy",):
                        kind = None
                if kind:
                    inner = {_project(d, kind) for d in inner}
                return out | inner
            if isinstance(n, ast.BinOp) and isinstance(n.op, (ast.FloorDiv, ast.Mod)) and not (isinstance(n.left, ast.Constant) and isinstance(n.left.value, str)):
                inner = self.of(n.left, depth + 1, seen) | self.of(n.right, depth + 1, seen)
                return out | {_project(d, "num") if d.startswith(("param:", "proj:")) else d for d in inner}
            for c in ast.iter_child_nodes(n):
                out |= self.of(c, depth + 1, seen)
        return out


PROJ_FUNCS = {"sorted": "sorted", "tuple": "iter", "list": "iter", "iter": "iter", "set": "set", "frozenset": "set", "len": "agg", "sum": "agg", "min": "agg",
              "max": "agg", "any": "agg", "all": "agg", "bool": "agg", "hash": "agg", "id": "agg", "type": "cls",
              # numeric coarsenings: many arguments share one image, and nothing downstream is told which one it was
              "round": "num", "abs": "num", "divmod": "num",
              # conversions (possibly coarsening - int(2.7) - but usually what the callee does first anyway): not judged
              "int": "conv", "float": "conv", "str": "conv", "repr": "conv"}
PROJ_METHODS = {"keys": "keys", "values": "values", "items": "items", "count": "agg", "index": "agg", "startswith": "agg", "endswith": "agg", "get": "agg",
                "floor": "num", "ceil": "num", "trunc": "num", "around": "num", "round": "num", "lower": "conv", "upper": "conv", "strip": "conv"}


def _project(d, kind):
    if d.startswith("param:"):
        return "proj:%s:%s" % (kind, d[6:])
    if d.startswith("proj:"):
        _, chain, name = d.split(":", 2)
        return "proj:%s>%s:%s" % (chain, kind, name)
    return d


def _chain_verdict(chain, is_dict):
    """what a projection chain keeps of a parameter: 'all' | 'keys' (of a dict: its values are dropped) | 'unknown'"""
    steps = chain.split(">")
    if is_dict:
        if steps[0] == "items" and all(x in ("sorted", "iter", "set") for x in steps[1:]):
            return "all"
        if steps[0] in ("keys", "sorted", "iter", "set") and all(x in ("sorted", "iter", "set") for x in steps[1:]):
            return "keys"
        return "unknown"
    if all(x == "iter" for x in steps):
        return "all"          # tuple(p) / list(p) of a sequence keeps everything
    return "unknown"


def _param_is_dict(fnode, name):
    a = fnode.args
    if a.kwarg is not None and a.kwarg.arg == name:
        return True                   # **options is always a dict
    pos = a.posonlyargs + a.args
    for arg, d in zip(pos[len(pos) - len(a.defaults):], a.defaults):
        if arg.arg == name and (isinstance(d, ast.Dict) or (isinstance(d, ast.Call) and getattr(d.func, "id", None) == "dict")):
            return True
    for arg, d in zip(a.kwonlyargs, a.kw_defaults):
        if arg.arg == name and isinstance(d, ast.Dict):
            return True
    return False


def _callers_pass_dict(prog, finfo, name, depth=0):
    """a parameter without a default of its own is a dict parameter when the package's callers hand it one of theirs that defaults to a dict
    (or a dict display): the private helper behind `get_x(..., userAlphabet={})`"""
    if depth > 3:
        return False
    from .bind import bind
    idx = getattr(prog, "_call_index", None)
    if idx is None:
        idx = {}
        for g in prog.all_funcs():
            for n in ast.walk(g.node):
                if isinstance(n, ast.Call):
                    try:
                        c = prog.resolve_call(g, n)
                    except Exception:
                        c = None
                    if c is not None:
                        idx.setdefault(c.key, []).append((g, n))
        prog._call_index = idx
    if finfo is None:
        return False
    for g, n in idx.get(finfo.key, []):
        if True:
            try:
                _, b = bind(prog, g, n, finfo)
            except Exception:
                continue
            a = (b or {}).get(name)
            if isinstance(a, (ast.Dict, ast.DictComp)) or (isinstance(a, ast.Call) and getattr(a.func, "id", None) == "dict"):
                return True
            if isinstance(a, ast.Name) and (_param_is_dict(g.node, a.id) or (a.id in g.params() and _callers_pass_dict(prog, g, a.id, depth + 1))):
                return True
    return False


def _values_read(prog, finfo, name, depth=0, seen=None):
    """does the function (or a package function the parameter is handed on to) read the values stored under the dict parameter?"""
    seen = seen if seen is not None else set()
    if finfo is None or depth > 4 or (finfo.key, name) in seen:
        return False
    seen.add((finfo.key, name))
    for n in ast.walk(finfo.node):
        if isinstance(n, ast.Subscript) and isinstance(n.ctx, ast.Load) and isinstance(n.value, ast.Name) and n.value.id == name and not isinstance(n.slice, ast.Slice):
            return True
        if isinstance(n, ast.Call) and isinstance(n.func, ast.Attribute) and isinstance(n.func.value, ast.Name) and n.func.value.id == name \
                and n.func.attr in ("values", "items", "get"):
            return True
        if isinstance(n, ast.Call):
            hit = [i for i, a in enumerate(n.args) if isinstance(a, ast.Name) and a.id == name]
            kws = [k.arg for k in n.keywords if isinstance(k.value, ast.Name) and k.value.id == name and k.arg]
            if not hit and not kws:
                continue
            callee = prog.resolve_call(finfo, n)
            if callee is None:
                continue
            params = callee.params()[1:] if callee.cls else callee.params()
            for i in hit:
                if i < len(params) and _values_read(prog, callee, params[i], depth + 1, seen):
                    return True
            for k in kws:
                if _values_read(prog, callee, k, depth + 1, seen):
                    return True
    # a helper that dispatches on a constant its callers pass (`getattr(obj, 'get_%s' % measure)`): the question is asked of the helper as
    # each call site runs it
    if depth < 2 and not getattr(finfo, "specialised_for", None):
        from .bind import specialise
        _callers_pass_dict(prog, None, name)             # (builds the call index on first use)
        for g, n in (getattr(prog, "_call_index", None) or {}).get(finfo.key, []):
            try:
                sf = specialise(prog, g, n, finfo)
            except Exception:
                sf = None
            if sf is not None:
                seen.discard((finfo.key, name))
                if _values_read(prog, sf, name, depth + 1, seen):
                    return True
    return False


IO_READS = {"open", "io.open", "codecs.open", "np.loadtxt", "np.load", "np.genfromtxt", "SeqIO.parse", "SeqIO.read", "os.listdir", "input"}
IO_STAMPS = {"os.stat", "os.path.getmtime", "os.path.getsize", "os.path.getctime", "hashlib.md5", "hashlib.sha1", "hashlib.sha256"}


def _reads_outside(prog, finfo, node, depth=0, seen=None):
    """does evaluating `node` (inside finfo) read a file or another source outside the program - something no key can name?
    -> description of the read or None"""
    seen = seen if seen is not None else set()
    for n in ast.walk(node):
        if not isinstance(n, ast.Call):
            continue
        fn = unparse(n.func)
        if fn in IO_READS:
            return "%s at %s" % (fn, finfo.loc(n) if finfo is not None else "?")
        callee = prog.resolve_call(finfo, n) if finfo is not None else None
        if callee is not None and callee.key not in seen and depth < 6:
            seen.add(callee.key)
            for st in callee.node.body:
                r = _reads_outside(prog, callee, st, depth + 1, seen)
                if r:
                    return r
    return None


# ------------------------------------------------------------------------------------ composition quantities
# What a key component *determines* and what a cached value *depends on*, in terms of the quantities every Sequence field is a function of.
# '*' = the residue string itself, 'cp' = the whole charge pattern.  The value-side entries are exact dependence sets; each is an obligation
# that another check establishes from the source on every run (C04: composition folds are functions of the counts; C08: the region depends on
# (n+, n-, N); C03: the delta-max *value* depends on (n+, n-, n0) only, the permutant is spelled with the parent's residues; C05: delta, kappa,
# SCD read the sequence only through the charge pattern).
KEY_CALL_Q = {"countPos": "npos", "countNeg": "nneg", "countNeut": "n0", "get_countPos": "npos", "get_countNeg": "nneg", "get_countNeut": "n0",
              "get_length": "N", "__len__": "N", "Fplus": "r:npos", "Fminus": "r:nneg", "get_fraction_positive": "r:npos", "get_fraction_negative": "r:nneg"}
KEY_WHOLE = {"seq": "*", "get_sequence": "*", "chargePattern": "cp"}
VAL_CALL_Q = {"countPos": {"npos"}, "countNeg": {"nneg"}, "countNeut": {"n0"}, "FCR": {"npos", "nneg", "N"}, "NCPR": {"npos", "nneg", "N"},
              "mean_net_charge": {"npos", "nneg", "N"}, "sigma": {"npos", "nneg", "N"}, "phasePlotRegion": {"npos", "nneg", "N"},
              "Fplus": {"npos", "N"}, "Fminus": {"nneg", "N"}, "delta": {"cp"}, "deltaForm": {"cp"}, "kappa": {"cp"}, "sequence_charge_decoration": {"cp"}}
COUNTS = {"npos", "nneg", "n0", "N"}


def q_closure(q):
    q = set(q)
    if "*" in q:
        return q | {"cp"} | COUNTS | {"r:npos", "r:nneg"}
    if "cp" in q:
        q |= COUNTS
    changed = True
    while changed:
        changed = False
        if len(q & COUNTS) >= 3 and not COUNTS <= q:
            q |= COUNTS
            changed = True
        for x in ("npos", "nneg"):
            if "N" in q and ("r:" + x in q) != (x in q):
                q |= {x, "r:" + x}
                changed = True
    return q


def key_quantities(prog, finfo, key):
    """-> (set of quantities the key determines, True if some component is not understood)"""
    comps = key.elts if isinstance(key, ast.Tuple) else [key]
    out, unknown = set(), False
    recv = ("self", "self.SeqObj")
    for c in comps:
        if isinstance(c, ast.Call) and getattr(c.func, "id", None) in ("tuple", "str", "list") and len(c.args) == 1 and not c.keywords:
            c = c.args[0]                      # tuple(self.chargePattern), str(self.seq): injective repackaging
        if isinstance(c, ast.Call) and isinstance(c.func, ast.Attribute) and not c.args and not c.keywords and unparse(c.func.value) in recv:
            if c.func.attr in KEY_CALL_Q:
                out.add(KEY_CALL_Q[c.func.attr])
                continue
            if c.func.attr in KEY_WHOLE:
                out.add(KEY_WHOLE[c.func.attr])
                continue
        if isinstance(c, ast.Call) and getattr(c.func, "id", None) == "len" and len(c.args) == 1 \
                and unparse(c.args[0]) in ("self", "self.SeqObj", "self.seq", "self.SeqObj.seq", "self.chargePattern", "self.SeqObj.chargePattern"):
            out.add("N")
            continue
        if isinstance(c, ast.Attribute) and unparse(c.value) in recv:
            if c.attr == "len":
                out.add("N")
                continue
            if c.attr in KEY_WHOLE:
                out.add(KEY_WHOLE[c.attr])
                continue
        unknown = True
    return out, unknown


def value_quantities(site, valdeps):
    """quantities the stored value depends on, from the name-level dependence set; None when something is not in the table"""
    if site.fnode.name == "deltaMax" and site.cls == "Sequence":
        # the stored value is made of the two memo fields of the object: the delta-max value and/or the permutant
        flds = {n.attr for n in ast.walk(site.value) if is_self_attr(n)} | {n.id for n in ast.walk(site.value) if isinstance(n, ast.Name)}
        if any("seqdeltamax" in x.lower() or "permut" in x.lower() for x in flds):
            return {"*"}
        if flds & {"dmax"} and not (flds - {"dmax", "self"}):
            return {"npos", "nneg", "n0"}
        return None
    out = set()
    calls = {d[5:] for d in valdeps if d.startswith("call:")}
    for c in calls:
        if c not in VAL_CALL_Q:
            return None
        out |= VAL_CALL_Q[c]
    for d in valdeps:
        if d.startswith(("call:", "lossy:")):
            continue                      # fields read inside the called methods are accounted for by the call's entry
        if d == "self.len":
            out.add("N")
        elif d in ("self.seq", "self.*"):
            out.add("*")
        elif d == "self.chargePattern":
            out.add("cp")
        elif d.startswith("self."):
            return None
        elif d.startswith(("param:", "proj:")):
            continue
    return out or None


def _enclosing_tests(fnode, target):
    out = []

    def walk(stmts, tests):
        for st in stmts:
            if st is target:
                out.extend(tests)
                return True
            if isinstance(st, ast.If):
                if walk(st.body, tests + [st.test]) or walk(st.orelse, tests + [st.test]):
                    return True
            elif isinstance(st, (ast.For, ast.While)):
                hdr = st.iter if isinstance(st, ast.For) else st.test
                if walk(st.body, tests + [hdr]) or walk(st.orelse, tests):
                    return True
            elif isinstance(st, ast.With):
                if walk(st.body, tests):
                    return True
            elif isinstance(st, ast.Try):
                if walk(st.body, tests) or any(walk(h.body, tests) for h in st.handlers) or walk(st.orelse, tests) or walk(st.finalbody, tests):
                    return True
        return False
    walk(fnode.body, [])
    return out


def _facts_at(fnode, target):
    """tests known to hold (polarity True) or fail (False) whenever `target` executes: enclosing if-tests, and the negation of every earlier
    `if T: ... return/raise` of an enclosing block (syntax-directed dominance)"""
    facts = []

    def ends(stmts):
        return bool(stmts) and isinstance(stmts[-1], (ast.Return, ast.Raise, ast.Continue, ast.Break))

    def walk(stmts, acc):
        local = list(acc)
        for st in stmts:
            if st is target:
                facts.extend(local)
                return True
            if isinstance(st, ast.If):
                if walk(st.body, local + [(st.test, True)]) or walk(st.orelse, local + [(st.test, False)]):
                    return True
                if ends(st.body) and not st.orelse:
                    local.append((st.test, False))
                elif ends(st.orelse) and st.orelse and not ends(st.body):
                    local.append((st.test, True))
            elif isinstance(st, (ast.For, ast.While)):
                if walk(st.body, local) or walk(st.orelse, local):
                    return True
            elif isinstance(st, ast.With):
                if walk(st.body, local):
                    return True
            elif isinstance(st, ast.Try):
                if walk(st.body, local) or any(walk(h.body, local) for h in st.handlers) or walk(st.orelse, local) or walk(st.finalbody, local):
                    return True
        return False
    walk(fnode.body, [])
    return facts


def _atomic(test, pol, out):
    if isinstance(test, ast.UnaryOp) and isinstance(test.op, ast.Not):
        _atomic(test.operand, not pol, out)
    elif isinstance(test, ast.BoolOp) and ((isinstance(test.op, ast.And) and pol) or (isinstance(test.op, ast.Or) and not pol)):
        for v in test.values:
            _atomic(v, pol, out)
    else:
        out.append((test, pol))


def pinned_params(fnode, target, params):
    """parameters that can have only one value when `target` executes (`len(p) == 0`, `p is None`, `p == <literal>`, `not p` all mean 'the
    default / nothing supplied'): they are not inputs of what is stored there"""
    atoms = []
    for t, pol in _facts_at(fnode, target):
        _atomic(t, pol, atoms)
    pinned = set()
    for t, pol in atoms:
        if isinstance(t, ast.Compare) and len(t.ops) == 1:
            l, op, r = t.left, t.ops[0], t.comparators[0]
            if isinstance(l, ast.Call) and getattr(l.func, "id", None) == "len" and len(l.args) == 1 and isinstance(l.args[0], ast.Name) \
                    and isinstance(r, ast.Constant) and r.value == 0 and ((isinstance(op, ast.Eq) and pol) or (isinstance(op, (ast.NotEq, ast.Gt)) and not pol)):
                pinned.add(l.args[0].id)
            if isinstance(l, ast.Name) and isinstance(r, ast.Constant) and ((isinstance(op, (ast.Eq, ast.Is)) and pol) or (isinstance(op, (ast.NotEq, ast.IsNot)) and not pol)):
                pinned.add(l.id)
        elif isinstance(t, ast.Name) and not pol:
            pinned.add(t.id)            # `not p` holds: p is empty / None / 0
    return pinned & set(params)


def _inline_key(site, finfo):
    from .bind import inline_locals
    try:
        return inline_locals(finfo, site.key)
    except Exception:
        return site.key


def analyse(prog, E):
    """-> list of dict(site, verdict in {'violation','ok','unknown'}, missing=[...], why)"""
    res = []
    # which fields can change after construction, and who writes them
    writers = {}
    for key, s in E.sum.items():
        for path, sites in s.write_sites.items():
            for kind, where in sites:
                if kind == "via" or "." in path:
                    continue
                if s.f.cls:
                    writers.setdefault((s.f.cls, path), set()).add(s.f.name)
    for site in find_sites(prog):
        d = Deps(prog, site.mod, site.fnode, site.cls, E)
        key_for_deps = site.key
        if getattr(site, "slot", False):
            # the validity test of a one-slot cache looks at the slot itself (`self.F is not None`): that mention is the cache, not an input
            import copy as _copy

            class _NoSlot(ast.NodeTransformer):
                def visit_Attribute(self, n):
                    if is_self_attr(n, site.table):
                        return ast.copy_location(ast.Constant(value=None), n)
                    return self.generic_visit(n)
            key_for_deps = _NoSlot().visit(_copy.deepcopy(site.key))
        keydeps = d.of(key_for_deps)
        valdeps = d.of(site.value)
        # control dependence of the store itself: `if <test>: T[k] = 0 else: T[k] = f(...)` - each stored value also depends on <test>
        # (the miss test `k not in T` mentions the table and is not an input)
        for test in _enclosing_tests(site.fnode, site.store):
            if not any(unparse(x) in (site.table, "self." + site.table) for x in ast.walk(test)):
                valdeps |= d.of(test)
        # control dependence of the store itself and of the value: every guard around assignments is in Deps.of already
        if getattr(site, "slot", False):
            keydeps = {k for k in keydeps if k.replace("lossy:", "") != "self." + site.table}
            valdeps = {k for k in valdeps if k.replace("lossy:", "") != "self." + site.table}
        key_names = {k.replace("lossy:", "") for k in keydeps}
        missing = []
        why = []
        # (a) parameters
        lossy_params = []
        infl = {x[6:] for x in valdeps if x.startswith("param:")} | {x.split(":", 2)[2] for x in valdeps if x.startswith("proj:")}
        finfo = site.mod.funcs.get((site.cls + "." if site.cls else "") + site.fnode.name)
        if site.cls == "Sequence" and site.fnode.name == "deltaMax" and value_quantities(site, valdeps) is not None:
            # exact dependence of the two memo fields is known (C03): the flag only selects what is returned, it is not an input of either
            infl.discard("returnSeqDeltaMax")
        infl -= pinned_params(site.fnode, site.store, infl)
        for name in sorted(infl):
            p = "param:" + name
            if p in keydeps:
                continue
            chains = [x.split(":", 2)[1] for x in keydeps if x.startswith("proj:") and x.split(":", 2)[2] == name]
            if not chains:
                missing.append(p)
                why.append("parameter '%s' influences the stored value but is not part of the key" % name)
                continue
            is_dict = _param_is_dict(site.fnode, name) or _callers_pass_dict(prog, finfo, name)
            vs = {_chain_verdict(c, is_dict) for c in chains}
            if "all" in vs:
                continue
            if vs == {"keys"} and finfo is not None and _values_read(prog, finfo, name):
                missing.append(p)
                why.append("the key holds only the keys of the dict parameter '%s' (%s); the values stored under them are read by the cached computation"
                           % (name, ", ".join(sorted(chains))))
                continue
            if any("num" in c.split(">") for c in chains) and all(("num" in c.split(">")) or ("cls" in c.split(">")) for c in chains) and p in valdeps:
                # the key holds a numeric coarsening of the argument (round, abs, //, %, floor) while the cached computation reads the argument
                # itself: every argument with the same image is answered with the value computed for the first of them
                missing.append(p)
                why.append("the key holds only a coarsened image of '%s' (%s) while the stored value is computed from '%s' itself" % (name, ", ".join(sorted(chains)), name))
                continue
            lossy_params.append("param:%s via %s" % (name, ", ".join(sorted(chains))))
        # fields read by the cached computation
        fields = {x.replace("lossy:", "") for x in valdeps if x.startswith(("self.", "lossy:self."))}
        fields.discard("self." + site.table)
        if "self.*" in fields:
            fields.discard("self.*")
            fields.add("self.seq")               # what distinguishes two objects beyond their derived fields
        calls_in_key = {k[5:] for k in keydeps if k.startswith("call:")}
        if {"countPos", "countNeg", "countNeut"} <= calls_in_key or "self.seq" in key_names:
            key_names = key_names | {"self.len"}                  # N = n+ + n- + n0
        # memo fields of the object itself (dmax, seqDeltaMax) are results, not inputs: what deltaMax() returns does not depend on whether it
        # has been asked before (C03 KIND / C15 M-rules decide that)
        if site.table not in OWN_MEMO_FIELDS:
            fields -= {"self.dmax", "self.seqDeltaMax"}
        quantity_verdict = None
        if site.scope != "object":
            # a field that can be set after construction (a palette, a site list) is not a function of the residue string: a table shared by
            # all objects whose key does not carry it returns one object's value to another
            settable = sorted(fld for fld in fields if (writers.get((site.cls, fld[5:]), set()) - {"__init__"}) and fld not in key_names
                              and fld[5:] not in OWN_MEMO_FIELDS)
            for fld in settable:
                missing.append(fld)
                why.append("table is shared by all objects; the cached value reads %s, which %s can change per object, but the key does not carry it"
                           % (fld, sorted(writers.get((site.cls, fld[5:]), set()) - {"__init__"})))
            fields -= set(settable)
        if site.scope != "object" and fields and finfo is not None:
            kq, k_unknown = key_quantities(prog, finfo, _inline_key(site, finfo))
            if kq or k_unknown:
                # the key does mention the receiver's state: names alone cannot say whether what it mentions determines what the value reads
                # (every field derives from the residue string).  Decide on quantities when both sides are in the tables, else leave it open.
                vq = value_quantities(site, valdeps)
                have = q_closure(kq)
                if vq is not None and vq <= have:
                    quantity_verdict = "ok"
                elif vq is not None and not k_unknown:
                    gap = sorted(vq - have)
                    quantity_verdict = "violation"
                    missing.append("quantity:" + ",".join(gap))
                    why.append("table is shared by all objects; the stored value depends on %s, the key determines only %s" % (gap, sorted(kq)))
                else:
                    quantity_verdict = "unknown"
                fields = set()
        for fld in sorted(fields):
            name = fld[5:]
            ws = writers.get((site.cls, name), set()) - {"__init__"}
            if site.scope == "object":
                if ws and fld not in key_names:
                    # (b) mutable field: every writer must also reset the table
                    tw = writers.get((site.cls, site.table), set())
                    if not ws <= tw:
                        missing.append(fld)
                        why.append("field %s can be changed by %s without resetting the table, and is not part of the key" % (fld, sorted(ws - tw)))
            else:
                if fld not in key_names:
                    missing.append(fld)
                    why.append("table is shared by all objects; the cached value reads %s but the key does not mention it" % fld)
        # (d) the cached computation reads the world outside the program: the stored value can go stale under every key
        #     that does not itself carry a stamp of that outside state (and a stamp is beyond what is decided here)
        outside = _reads_outside(prog, finfo, site.value) if finfo is not None else None
        if outside:
            stamps = [unparse(c.func) for c in ast.walk(_inline_key(site, finfo)) if isinstance(c, ast.Call) and unparse(c.func) in IO_STAMPS]
            if stamps:
                lossy_params.append("outside state (%s) stamped by %s" % (outside, stamps))
            else:
                missing.append("outside:" + outside)
                why.append("the stored value is read from outside the program (%s); the key %s only names where to read, so a later call returns "
                           "what was there the first time" % (outside, unparse(site.key)))
        # (e) what the filling call returns is what later calls will find: a `return` that follows the store must hand back the stored value
        #     (the entry, the slot, the local that was stored, or something computed from them), not a different one
        stored_names = {site.table}
        if isinstance(site.value, ast.Name):
            stored_names.add(site.value.id)
        for a_ in _own_nodes(site.fnode):
            if isinstance(a_, ast.Assign) and len(a_.targets) == 1 and isinstance(a_.targets[0], ast.Name) and any(
                    (isinstance(x, ast.Attribute) and x.attr == site.table) or (isinstance(x, ast.Name) and x.id == site.table) for x in ast.walk(a_.value)):
                stored_names.add(a_.targets[0].id)
        st_line = getattr(site.store, "lineno", 0)
        for r_ in _own_nodes(site.fnode):
            if not (isinstance(r_, ast.Return) and r_.value is not None and r_.lineno > st_line):
                continue
            mentions = any((isinstance(x, ast.Name) and x.id in stored_names) or (isinstance(x, ast.Attribute) and x.attr in stored_names) for x in ast.walk(r_.value))
            same = unparse(r_.value) == unparse(site.value)
            restored = any(isinstance(a_, ast.Assign) and st_line < a_.lineno <= r_.lineno and unparse(a_.value) == unparse(r_.value) and any(
                (isinstance(t_, ast.Attribute) and t_.attr == site.table) or (isinstance(t_, ast.Subscript) and unparse(t_.value).split(".")[-1] == site.table) for t_ in a_.targets)
                for a_ in _own_nodes(site.fnode))                  # the slot is overwritten with exactly what is returned
            if not mentions and not same and not restored and isinstance(r_.value, ast.Constant) and _follows(site.fnode, site.store, r_):
                missing.append("return:%s" % unparse(r_.value))
                why.append("after storing %s the filling call returns %s: a later call returns the stored value instead" % (unparse(site.value)[:50], unparse(r_.value)))
        lossy = sorted(k for k in keydeps if k.startswith("lossy:")) + lossy_params
        if quantity_verdict == "ok":
            lossy = lossy_params               # the projections of the receiver in the key were shown sufficient
        elif quantity_verdict == "unknown":
            lossy = lossy or ["receiver state reaches the key only through projections that are not in the quantity table"]
        verdict = "violation" if missing else ("unknown" if lossy else "ok")
        res.append({"site": site, "verdict": verdict, "missing": missing, "why": why, "lossy": lossy,
                    "key": unparse(site.key), "value": unparse(site.value)[:80]})
    return res


def _follows(fnode, store, ret):
    """can `ret` be executed after `store` in one call?  (not when they sit in different arms of the same `if`)"""
    def chain(node):
        path = []

        def rec(n, acc):
            if n is node:
                path.extend(acc)
                return True
            for fld_, val in ast.iter_fields(n):
                kids = val if isinstance(val, list) else [val]
                for k in kids:
                    if isinstance(k, ast.AST) and rec(k, acc + [(n, fld_)]):
                        return True
            return False
        rec(fnode, [])
        return path
    a, b = chain(store), chain(ret)
    for (na, fa), (nb, fb) in zip(a, b):
        if na is not nb:
            break
        if isinstance(na, ast.If) and fa != fb and {fa, fb} == {"body", "orelse"}:
            return False
    return True


def decorated(prog):
    """methods/functions wrapped by a package decorator whose inner function keeps a closure/module table:
    -> list of (FuncInfo, decorator name, inner wrapper site)"""
    out = []
    sites = find_sites(prog)
    for f in prog.all_funcs():
        for dec in f.opaque_decorators():
            name = dec.id if isinstance(dec, ast.Name) else (dec.func.id if isinstance(dec, ast.Call) and isinstance(dec.func, ast.Name) else None)
            if name is None:
                out.append((f, unparse(dec), None))
                continue
            inner = [s for s in sites if s.outer is not None and s.outer.name == name and s.mod is f.mod]
            out.append((f, name, inner[0] if inner else None))
    return out
