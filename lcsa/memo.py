"""MEMO-KEY - soundness of memo tables (caches) that survive a call.

A table `T[key] = value` is persistent when T is a field of the receiver, a module-level object or a closure variable of a
decorator.  Reported as a violation only when it is certain from names alone:
  (a) a parameter that the stored value depends on (data or control dependence) does not occur in the key;
  (b) the cached computation reads a field of the receiver that some other method can change, the field does not occur in the
      key and not every writer of that field also resets the table;
  (c) a module-level / closure table is shared by all objects, the cached computation reads a field of the receiver and the
      key mentions neither that field nor anything derived from it.
A key that mentions an input only through a lossy projection (len(), counts, sorted(dict)) is NOT decided here."""
import ast

from .model import unparse, is_self_attr


class Site:
    def __init__(self, mod, fnode, cls, table, scope, key, value, store, outer=None):
        self.mod, self.fnode, self.cls, self.table, self.scope = mod, fnode, cls, table, scope
        self.key, self.value, self.store, self.outer = key, value, store, outer

    @property
    def construct(self):
        q = (self.cls + "." if self.cls else "") + (self.outer.name + "." if self.outer is not None else "") + self.fnode.name
        return "%s:%s" % (self.mod.relpath, q)

    def where(self):
        return "%s:%d" % (self.construct, self.store.lineno)


def _functions(mod):
    """(fnode, class name or None, enclosing function node or None)"""
    out = []

    def walk(body, cls, outer):
        for n in body:
            if isinstance(n, ast.ClassDef):
                walk(n.body, n.name, outer)
            elif isinstance(n, ast.FunctionDef):
                out.append((n, cls, outer))
                walk(n.body, cls, n)
            elif isinstance(n, (ast.If, ast.For, ast.While, ast.With, ast.Try)):
                for fld in ("body", "orelse", "finalbody"):
                    walk(getattr(n, fld, []) or [], cls, outer)
                if isinstance(n, ast.Try):
                    for h in n.handlers:
                        walk(h.body, cls, outer)
    walk(mod.tree.body, None, None)
    return out


def _own_nodes(fnode):
    """nodes of a function excluding nested function bodies"""
    stack = list(fnode.body)
    while stack:
        n = stack.pop()
        yield n
        for c in ast.iter_child_nodes(n):
            if isinstance(c, (ast.FunctionDef, ast.ClassDef, ast.Lambda)):
                continue
            stack.append(c)


def _assigned_locals(fnode):
    names = set()
    for n in _own_nodes(fnode):
        if isinstance(n, ast.Assign):
            for t in n.targets:
                for x in ast.walk(t):
                    if isinstance(x, ast.Name) and isinstance(x.ctx, ast.Store):
                        names.add(x.id)
        elif isinstance(n, (ast.AugAssign, ast.For)):
            t = n.target
            for x in ast.walk(t):
                if isinstance(x, ast.Name) and isinstance(x.ctx, ast.Store):
                    names.add(x.id)
    return names


def find_sites(prog):
    sites = []
    for m in prog.mods.values():
        for fnode, cls, outer in _functions(m):
            locs = _assigned_locals(fnode)
            params = {a.arg for a in fnode.args.args + fnode.args.posonlyargs + fnode.args.kwonlyargs}
            outer_locals = _assigned_locals(outer) if outer is not None else set()
            for n in _own_nodes(fnode):
                if not (isinstance(n, ast.Assign) and len(n.targets) == 1 and isinstance(n.targets[0], ast.Subscript)):
                    continue
                t = n.targets[0]
                base = t.value
                scope = table = None
                if is_self_attr(base):
                    scope, table = "object", base.attr
                elif isinstance(base, ast.Name):
                    if base.id in params or base.id in locs:
                        continue
                    if base.id in outer_locals:
                        scope, table = "closure", base.id
                    elif base.id in m.globals:
                        scope, table = "module", base.id
                if scope is None:
                    continue
                # only tables that are also *read* with a key in this function count as memo tables
                read = False
                for r in _own_nodes(fnode):
                    if r is t:
                        continue
                    if isinstance(r, ast.Subscript) and isinstance(r.ctx, ast.Load) and unparse(r.value) == unparse(base):
                        read = True
                    if isinstance(r, ast.Compare) and any(isinstance(o, (ast.In, ast.NotIn)) for o in r.ops) \
                            and any(unparse(c) == unparse(base) for c in r.comparators):
                        read = True
                    if isinstance(r, ast.Call) and isinstance(r.func, ast.Attribute) and r.func.attr in ("get", "setdefault") \
                            and unparse(r.func.value) == unparse(base):
                        read = True
                if read:
                    sites.append(Site(m, fnode, cls, table, scope, t.slice, n.value, n, outer))
    return sites


class Deps:
    """name-level data + control dependence inside one function"""

    def __init__(self, prog, mod, fnode, cls, E):
        self.prog, self.mod, self.fnode, self.cls, self.E = prog, mod, fnode, cls, E
        a = fnode.args
        self.params = [x.arg for x in a.posonlyargs + a.args + a.kwonlyargs]
        if a.vararg:
            self.params.append(a.vararg.arg)
        if a.kwarg:
            self.params.append(a.kwarg.arg)
        self.selfname = self.params[0] if cls and self.params else None
        self.defs = {}       # local -> [(value node, [guard tests])]
        self._collect(fnode.body, [])
        self._memo = {}

    def _collect(self, stmts, guards):
        for s in stmts:
            if isinstance(s, (ast.FunctionDef, ast.ClassDef)):
                continue
            if isinstance(s, ast.Assign):
                for t in s.targets:
                    for x in ast.walk(t):
                        if isinstance(x, ast.Name) and isinstance(x.ctx, ast.Store):
                            self.defs.setdefault(x.id, []).append((s.value, list(guards)))
                    if isinstance(t, ast.Attribute) and isinstance(t.value, ast.Name) and t.value.id == self.selfname:
                        self.defs.setdefault("self." + t.attr, []).append((s.value, list(guards)))
            elif isinstance(s, ast.AugAssign) and isinstance(s.target, ast.Name):
                self.defs.setdefault(s.target.id, []).append((s.value, list(guards)))
            elif isinstance(s, ast.For):
                for x in ast.walk(s.target):
                    if isinstance(x, ast.Name):
                        self.defs.setdefault(x.id, []).append((s.iter, list(guards)))
                self._collect(s.body, guards + [s.iter])
                self._collect(s.orelse, guards)
                continue
            if isinstance(s, ast.If):
                self._collect(s.body, guards + [s.test])
                self._collect(s.orelse, guards + [s.test])
            elif isinstance(s, ast.While):
                self._collect(s.body, guards + [s.test])
            elif isinstance(s, ast.With):
                self._collect(s.body, guards)
            elif isinstance(s, ast.Try):
                self._collect(s.body, guards)
                for h in s.handlers:
                    self._collect(h.body, guards)
                self._collect(s.orelse, guards)
                self._collect(s.finalbody, guards)

    def of(self, node, depth=0, seen=None):
        """-> set of 'param:x' / 'self.f' / 'lossy:self.f'"""
        seen = seen if seen is not None else set()
        out = set()
        if node is None or depth > 12:
            return out
        for n in [node]:
            if isinstance(n, ast.Name):
                if n.id == self.selfname:
                    out.add("self.*")          # the whole object handed on
                    return out
                if n.id in self.defs and n.id not in seen:
                    seen = seen | {n.id}
                    for v, guards in self.defs[n.id]:
                        out |= self.of(v, depth + 1, seen)
                        for g in guards:
                            out |= self.of(g, depth + 1, seen)
                    if n.id in self.params:
                        out.add("param:" + n.id)
                    return out
                if n.id in self.params:
                    out.add("param:" + n.id)
                return out
            if isinstance(n, ast.Attribute):
                if isinstance(n.value, ast.Name) and n.value.id == self.selfname and self.selfname is not None:
                    fld = "self." + n.attr
                    if fld in self.defs and fld not in seen:
                        # a field (re)computed in this function: what it was computed from
                        seen2 = seen | {fld}
                        for v, guards in self.defs[fld]:
                            out |= self.of(v, depth + 1, seen2)
                            for g in guards:
                                out |= self.of(g, depth + 1, seen2)
                        return out
                    out.add(fld)
                    return out
                return self.of(n.value, depth + 1, seen)
            if isinstance(n, ast.Call):
                fn = n.func
                lossy = False
                if isinstance(fn, ast.Name) and fn.id in ("len", "sum", "min", "max", "sorted", "any", "all", "bool", "hash"):
                    lossy = True
                if isinstance(fn, ast.Attribute) and fn.attr in ("count", "keys", "index", "startswith"):
                    lossy = True
                inner = set()
                if isinstance(fn, ast.Attribute):
                    recv = fn.value
                    if isinstance(recv, ast.Name) and recv.id == self.selfname:
                        inner.add("call:" + fn.attr)
                    if isinstance(recv, ast.Name) and recv.id == self.selfname and self.cls:
                        callee = self.prog.method(self.cls, fn.attr)
                        if callee is not None and self.E is not None:
                            methods = {g.name for g in callee.mod.funcs.values() if g.cls == self.cls}
                            for r in self.E.sum[callee.key].self_reads:
                                if r not in methods:
                                    inner.add("lossy:self." + r)     # a method result is a projection of the fields it reads
                    else:
                        inner |= self.of(recv, depth + 1, seen)
                for a in n.args:
                    inner |= self.of(a, depth + 1, seen)
                for k in n.keywords:
                    inner |= self.of(k.value, depth + 1, seen)
                if lossy:
                    inner = {("lossy:" + d) if d.startswith("self.") else d for d in inner}
                return out | inner
            for c in ast.iter_child_nodes(n):
                out |= self.of(c, depth + 1, seen)
        return out


def analyse(prog, E):
    """-> list of dict(site, verdict in {'violation','ok','unknown'}, missing=[...], why)"""
    res = []
    # which fields can change after construction, and who writes them
    writers = {}
    for key, s in E.sum.items():
        for path, sites in s.write_sites.items():
            for kind, where in sites:
                if kind == "via" or "." in path:
                    continue
                if s.f.cls:
                    writers.setdefault((s.f.cls, path), set()).add(s.f.name)
    for site in find_sites(prog):
        d = Deps(prog, site.mod, site.fnode, site.cls, E)
        keydeps = d.of(site.key)
        valdeps = d.of(site.value)
        # control dependence of the store itself and of the value: every guard around assignments is in Deps.of already
        key_names = {k.replace("lossy:", "") for k in keydeps}
        missing = []
        why = []
        # (a) parameters
        for p in sorted(x for x in valdeps if x.startswith("param:")):
            if p not in keydeps:
                missing.append(p)
                why.append("parameter '%s' influences the stored value but is not part of the key" % p[6:])
        # fields read by the cached computation
        fields = {x.replace("lossy:", "") for x in valdeps if x.startswith(("self.", "lossy:self."))}
        fields.discard("self." + site.table)
        if "self.*" in fields:
            fields.discard("self.*")
            fields.add("self.seq")               # what distinguishes two objects beyond their derived fields
        calls_in_key = {k[5:] for k in keydeps if k.startswith("call:")}
        if {"countPos", "countNeg", "countNeut"} <= calls_in_key or "self.seq" in key_names:
            key_names = key_names | {"self.len"}                  # N = n+ + n- + n0
        if site.scope != "object":
            # memo fields of the object itself (dmax, seqDeltaMax) are results, not inputs
            fields -= {"self.dmax", "self.seqDeltaMax"}
        for fld in sorted(fields):
            name = fld[5:]
            ws = writers.get((site.cls, name), set()) - {"__init__"}
            if site.scope == "object":
                if ws and fld not in key_names:
                    # (b) mutable field: every writer must also reset the table
                    tw = writers.get((site.cls, site.table), set())
                    if not ws <= tw:
                        missing.append(fld)
                        why.append("field %s can be changed by %s without resetting the table, and is not part of the key" % (fld, sorted(ws - tw)))
            else:
                if fld not in key_names:
                    missing.append(fld)
                    why.append("table is shared by all objects; the cached value reads %s but the key does not mention it" % fld)
        lossy = sorted(k for k in keydeps if k.startswith("lossy:"))
        verdict = "violation" if missing else ("unknown" if lossy else "ok")
        res.append({"site": site, "verdict": verdict, "missing": missing, "why": why, "lossy": lossy,
                    "key": unparse(site.key), "value": unparse(site.value)[:80]})
    return res


def decorated(prog):
    """methods/functions wrapped by a package decorator whose inner function keeps a closure/module table:
    -> list of (FuncInfo, decorator name, inner wrapper site)"""
    out = []
    sites = find_sites(prog)
    for f in prog.all_funcs():
        for dec in f.node.decorator_list:
            name = dec.id if isinstance(dec, ast.Name) else (dec.func.id if isinstance(dec, ast.Call) and isinstance(dec.func, ast.Name) else None)
            if name is None:
                out.append((f, unparse(dec), None))
                continue
            inner = [s for s in sites if s.outer is not None and s.outer.name == name and s.mod is f.mod]
            out.append((f, name, inner[0] if inner else None))
    return out
