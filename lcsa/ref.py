"""Reference program (spec/ref) loader and code-vs-reference comparison of normal forms."""
import os
from fractions import Fraction

from .alg import Rat
from .model import Program, Undecided
from .sym import Evaluator, fmt_conds, LETTERS, subst_deep
from .dt import compare_rows, outcome_equal

HERE = os.path.dirname(os.path.dirname(os.path.abspath(__file__)))
_REF = None


def ref_program():
    global _REF
    if _REF is None:
        _REF = Program(os.path.join(HERE, "spec", "ref"))
    return _REF


class Pair:
    """one evaluator for the repository and one for the reference, sharing the atom registries"""

    def __init__(self, prog, positive=("N", "w")):
        self.prog = prog
        self.code = Evaluator(prog, positive=positive)
        self.ref = Evaluator(ref_program(), positive=positive)
        self.ref.eltables = self.code.eltables
        self.ref.wsums = self.code.wsums
        self.ref.terms = self.code.terms
        self.positive = set(positive)

    def code_rows(self, rel, qual, args=None):
        f = self.prog.fn(rel, qual)
        return f, [(p.conds, _outcome(p)) for p in self.code.run_function(f, dict(args or {}))]

    def ref_rows(self, qual, args=None):
        f = ref_program().fn("ref.py", qual)
        return [(p.conds, _outcome(p)) for p in self.ref.run_function(f, dict(args or {}))]


def _outcome(p):
    if p.kind == "raise":
        return ("raise", p.value)
    return p.value


def subst_rows(rows, mapping):
    """apply an atom substitution to outcomes and conditions"""
    out = []
    for conds, o in rows:
        out.append(([_subst_cond(c, mapping) for c in conds], _subst_val(o, mapping)))
    return out


def _subst_val(v, mapping):
    if isinstance(v, Rat):
        return subst_deep(v, mapping)
    if isinstance(v, dict):
        return {k: _subst_val(x, mapping) for k, x in v.items()}
    if isinstance(v, (list, tuple)) and not (isinstance(v, tuple) and v and v[0] == "raise"):
        return type(v)(_subst_val(x, mapping) for x in v)
    return v


def _subst_cond(c, mapping):
    if isinstance(c, bool):
        return c
    if c[0] == "cmp":
        return ("cmp", subst_deep(c[1], mapping), c[2], subst_deep(c[3], mapping))
    if c[0] == "not":
        return ("not", _subst_cond(c[1], mapping))
    if c[0] in ("and", "or"):
        return (c[0], [_subst_cond(x, mapping) for x in c[1]])
    return c


def charge_substitution(charge_map):
    """{letter: -1|0|1} -> atom substitution  npos/nneg/nneut/N -> sums of cnt[letter]"""
    def s(pred):
        t = Rat.const(0)
        for L in LETTERS:
            if pred(charge_map[L]):
                t = t + Rat.atom("cnt[%s]" % L)
        return t
    return {"npos": s(lambda q: q > 0), "nneg": s(lambda q: q < 0), "nneut": s(lambda q: q == 0),
            "N": s(lambda q: True)}


def describe_rows(rows, limit=6):
    return [{"if": fmt_conds(c), "then": repr(o)[:300]} for c, o in rows[:limit]]


def empty_sum_norm(registries, positive=("N", "w"), int_atoms=("N", "w")):
    """normaliser for dt.compare_rows: under the joint conditions of a (code row, spec row) pair, window sums over an
    empty index domain are 0"""
    def norm(conds, o):
        return zero_empty_sums([(conds, o)], registries, positive, int_atoms)[0][1]
    return norm


def zero_empty_sums(rows, registries, positive=("N", "w"), int_atoms=("N", "w")):
    """a window sum whose index domain is empty under the row's conditions is 0 (sum over an empty range)"""
    from .dt import feasible_with
    out = []
    for conds, o in rows:
        if isinstance(o, Rat):
            sub = {}
            for a in o.atoms():
                if a.startswith("WS") and a[2:].isdigit():
                    rec = registries[int(a[2:])]
                    nonempty = ("cmp", rec["hi"], ">", rec["lo"])
                    try:
                        if feasible_with(list(conds) + [nonempty], [], set(positive), int_atoms=set(int_atoms)) is None:
                            sub[a] = Rat.const(0)
                    except Undecided:
                        pass
            if sub:
                o = o.subst(sub)
        out.append((conds, o))
    return out


WINDOW_TOTALS = {"wpos": "npos", "wneg": "nneg"}


def expand_small_windows(rows, registries, domain=(), positive=("N", "w"), int_atoms=("N", "w")):
    """Make window sums canonical where the window family is tiny.  A row whose outcome mentions WS<k> (sum over i in [lo, hi) of a per-window
    term) is split into: family empty (hi <= lo): WS<k> = 0; exactly one window (hi == lo + 1) that starts at 0 - the window then IS the whole
    sequence, its counts are the totals and the sum is the single term, evaluated piece by piece; two or more windows: the atom is kept.
    Rows that become infeasible are dropped.  Needed whenever code or specification branches on the length (a fast path for short sequences)."""
    from .dt import feasible_with
    positive, int_atoms = set(positive), set(int_atoms)
    out = []
    work = [(list(c), o) for c, o in rows]
    guard = 0
    while work:
        guard += 1
        if guard > 400:
            raise Undecided("too many cases while expanding small window families")
        conds, o = work.pop()
        if not isinstance(o, Rat):
            out.append((conds, o))
            continue
        ws = sorted(a for a in o.atoms() if a.startswith("WS") and a[2:].isdigit())
        target = None
        for a in ws:
            rec = registries[int(a[2:])]
            if rec.get("kind") != "wsum":
                continue
            n = rec["hi"] - rec["lo"]
            # already known to have >= 2 windows under this row?
            if feasible_with(conds + [("cmp", n, "<=", Rat.const(1))], list(domain), positive, int_atoms=int_atoms) is None:
                continue
            target = (a, rec, n)
            break
        if target is None:
            out.append((conds, o))
            continue
        a, rec, n = target
        # case: empty
        c0 = conds + [("cmp", n, "<=", Rat.const(0))]
        if feasible_with(c0, list(domain), positive, int_atoms=int_atoms) is not None:
            work.append((c0, o.subst({a: Rat.const(0)})))
        # case: many
        c2 = conds + [("cmp", n, ">=", Rat.const(2))]
        if feasible_with(c2, list(domain), positive, int_atoms=int_atoms) is not None:
            work.append((c2, o.subst({a: Rat.atom(a + "!")})))        # marked: do not expand again
        # case: exactly one window
        c1 = conds + [("cmp", n, "==", Rat.const(1))]
        if feasible_with(c1, list(domain), positive, int_atoms=int_atoms) is not None:
            win = rec.get("window")
            lin = (n - Rat.const(1)).n.linear() if (n - Rat.const(1)).d.is_const() else None
            if not (win and rec["lo"].equals(Rat.const(0)) and win[1].equals(Rat.atom("@i")) and lin is not None and lin[0].get("N") in (1, Fraction(1))):
                raise Undecided("single-window case of %s: window is not [i, i+w) from 0 with N in the bound" % a)
            co, c = lin
            # n - 1 == 0  ->  N = -(rest)
            nval = Rat.const(-c)
            for k, v in co.items():
                if k != "N":
                    nval = nval - Rat.const(v) * Rat.atom(k)
            sub = {"N": nval, "@i": Rat.const(0)}
            for wa, tot in WINDOW_TOTALS.items():
                sub[wa] = Rat.atom(tot)
            for pc, term in rec["pieces"]:
                if any(x.startswith("wcnt[") or x.startswith("WS") for x in term.atoms()):
                    raise Undecided("single-window case of %s: term over per-letter window counts" % a)
                pc2 = [_subst_cond(x, sub) for x in pc]
                t2 = subst_deep(term, sub)
                cc = [_subst_cond(x, {"N": nval}) for x in c1] + pc2
                cc = [x for x in cc if x is not True]
                if any(x is False for x in cc):
                    continue
                if feasible_with(cc, list(domain), positive - {"N"}, int_atoms=int_atoms) is None:
                    continue
                work.append((c1 + pc2, subst_deep(o, {"N": nval}).subst({a: t2}) if a in subst_deep(o, {"N": nval}).atoms() else subst_deep(o, {"N": nval})))
    # unmark
    res = []
    for conds, o in out:
        if isinstance(o, Rat):
            marks = {x: Rat.atom(x[:-1]) for x in o.atoms() if x.startswith("WS") and x.endswith("!")}
            if marks:
                o = o.subst(marks)
        res.append((conds, o))
    return res
