"""Reference program (spec/ref) loader and code-vs-reference comparison of normal forms."""
import os

from .alg import Rat
from .model import Program, Undecided
from .sym import Evaluator, fmt_conds, LETTERS, subst_deep
from .dt import compare_rows, outcome_equal

HERE = os.path.dirname(os.path.dirname(os.path.abspath(__file__)))
_REF = None


def ref_program():
    global _REF
    if _REF is None:
        _REF = Program(os.path.join(HERE, "spec", "ref"))
    return _REF


class Pair:
    """one evaluator for the repository and one for the reference, sharing the atom registries"""

    def __init__(self, prog, positive=("N", "w")):
        self.prog = prog
        self.code = Evaluator(prog, positive=positive)
        self.ref = Evaluator(ref_program(), positive=positive)
        self.ref.eltables = self.code.eltables
        self.ref.wsums = self.code.wsums
        self.ref.terms = self.code.terms
        self.positive = set(positive)

    def code_rows(self, rel, qual, args=None):
        f = self.prog.fn(rel, qual)
        return f, [(p.conds, _outcome(p)) for p in self.code.run_function(f, dict(args or {}))]

    def ref_rows(self, qual, args=None):
        f = ref_program().fn("ref.py", qual)
        return [(p.conds, _outcome(p)) for p in self.ref.run_function(f, dict(args or {}))]


def _outcome(p):
    if p.kind == "raise":
        return ("raise", p.value)
    return p.value


def subst_rows(rows, mapping):
    """apply an atom substitution to outcomes and conditions"""
    out = []
    for conds, o in rows:
        out.append(([_subst_cond(c, mapping) for c in conds], _subst_val(o, mapping)))
    return out


def _subst_val(v, mapping):
    if isinstance(v, Rat):
        return subst_deep(v, mapping)
    if isinstance(v, dict):
        return {k: _subst_val(x, mapping) for k, x in v.items()}
    if isinstance(v, (list, tuple)) and not (isinstance(v, tuple) and v and v[0] == "raise"):
        return type(v)(_subst_val(x, mapping) for x in v)
    return v


def _subst_cond(c, mapping):
    if isinstance(c, bool):
        return c
    if c[0] == "cmp":
        return ("cmp", subst_deep(c[1], mapping), c[2], subst_deep(c[3], mapping))
    if c[0] == "not":
        return ("not", _subst_cond(c[1], mapping))
    if c[0] in ("and", "or"):
        return (c[0], [_subst_cond(x, mapping) for x in c[1]])
    return c


def charge_substitution(charge_map):
    """{letter: -1|0|1} -> atom substitution  npos/nneg/nneut/N -> sums of cnt[letter]"""
    def s(pred):
        t = Rat.const(0)
        for L in LETTERS:
            if pred(charge_map[L]):
                t = t + Rat.atom("cnt[%s]" % L)
        return t
    return {"npos": s(lambda q: q > 0), "nneg": s(lambda q: q < 0), "nneut": s(lambda q: q == 0),
            "N": s(lambda q: True)}


def describe_rows(rows, limit=6):
    return [{"if": fmt_conds(c), "then": repr(o)[:300]} for c, o in rows[:limit]]


def empty_sum_norm(registries, positive=("N", "w"), int_atoms=("N", "w")):
    """normaliser for dt.compare_rows: under the joint conditions of a (code row, spec row) pair, window sums over an
    empty index domain are 0"""
    def norm(conds, o):
        return zero_empty_sums([(conds, o)], registries, positive, int_atoms)[0][1]
    return norm


def zero_empty_sums(rows, registries, positive=("N", "w"), int_atoms=("N", "w")):
    """a window sum whose index domain is empty under the row's conditions is 0 (sum over an empty range)"""
    from .dt import feasible_with
    out = []
    for conds, o in rows:
        if isinstance(o, Rat):
            sub = {}
            for a in o.atoms():
                if a.startswith("WS") and a[2:].isdigit():
                    rec = registries[int(a[2:])]
                    nonempty = ("cmp", rec["hi"], ">", rec["lo"])
                    try:
                        if feasible_with(list(conds) + [nonempty], [], set(positive), int_atoms=set(int_atoms)) is None:
                            sub[a] = Rat.const(0)
                    except Undecided:
                        pass
            if sub:
                o = o.subst(sub)
        out.append((conds, o))
    return out
