"""lcsa - localCIDER static analysis.

Every verdict is computed from the syntax trees of <root>/localcider/**/*.py as
they are on disk at the moment of the run.  Nothing in here imports or runs
localCIDER, numpy or matplotlib.
"""
