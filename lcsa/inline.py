"""INLINE - a view of one function in which the calls of plain module-level helpers of the same module are expanded in place.

The statement-level rules (drawing sinks, polygons, ...) read the statements of one named function.  Extracting a run of those statements
into a helper (`_set_limits_labels_title(plt, xLim, ...)`) leaves behaviour alone but hides the statements from the rule; the view puts
them back: a call statement `h(a, b)` / `x = h(a, b)` / `return h(a, b)` of a helper `h` is replaced by h's body with

  * a parameter that h never re-binds replaced by the argument when the argument is a name or a literal (copy propagation), otherwise
    bound to a fresh local first (`p__h1 = <argument>`),
  * every other local of h renamed apart (`v__h1`),
  * h's single trailing `return e` turned into the assignment / expression statement / return of the call statement.

A helper is expanded only when that is exact: a plain function (no decorator, no *args/**kwargs, no nested def, no global/nonlocal/yield),
every argument bound positionally or by keyword or defaulted, and no `return` other than one last top-level statement.  Anything else is
left as the call it was, so a client that needs the statements answers undecided exactly as before.  The expanded nodes carry the line of
the call statement (reports name the caller's line)."""
import ast
import copy


class _View:
    """quacks like model.FuncInfo for the readers that take one (node / body() / params() / loc() / mod / name / qual ...)"""

    def __init__(self, f, node, expanded):
        self._f = f
        self.node = node
        self.expanded = expanded          # [(helper name, line of the call)]

    def __getattr__(self, k):
        return getattr(self._f, k)

    def body(self):
        b = self.node.body
        if b and isinstance(b[0], ast.Expr) and isinstance(b[0].value, ast.Constant) and isinstance(b[0].value.value, str):
            return b[1:]
        return b

    def loc(self, node=None):
        return self._f.loc(node if node is not None else self.node)


def _locals_of(fn):
    out = set()
    for n in ast.walk(fn):
        if isinstance(n, ast.Name) and isinstance(n.ctx, (ast.Store, ast.Del)):
            out.add(n.id)
    return out


def _exact(g):
    a = g.node.args
    if g.cls or g.node.decorator_list or a.vararg or a.kwarg or a.kwonlyargs or a.posonlyargs:
        return False
    for n in ast.walk(g.node):
        if n is not g.node and isinstance(n, (ast.FunctionDef, ast.AsyncFunctionDef, ast.Lambda, ast.ClassDef, ast.Global, ast.Nonlocal, ast.Yield, ast.YieldFrom, ast.Await)):
            return False
    body = g.body()
    rets = [n for n in ast.walk(g.node) if isinstance(n, ast.Return)]
    if len(rets) > 1 or (rets and (not body or rets[0] is not body[-1])):
        return False
    return True


class _Rename(ast.NodeTransformer):
    def __init__(self, subst, ren):
        self.subst, self.ren = subst, ren

    def visit_Name(self, n):
        if n.id in self.subst and isinstance(n.ctx, ast.Load):
            return copy.deepcopy(self.subst[n.id])
        if n.id in self.ren:
            return ast.Name(id=self.ren[n.id], ctx=n.ctx)
        return n


def _expand(prog, f, stmt, call, serial, stack, depth):
    g = prog.resolve_call(f, call)
    if g is None or g.mod is not f.mod or g.key in stack or not _exact(g):
        return None
    if any(isinstance(a, ast.Starred) for a in call.args) or any(k.arg is None for k in call.keywords):
        return None
    names = g.params()
    if len(call.args) > len(names):
        return None
    actual = dict(zip(names, call.args))
    for k in call.keywords:
        if k.arg not in names or k.arg in actual:
            return None
        actual[k.arg] = k.value
    dfl = g.defaults()
    for p in names:
        if p not in actual:
            if p not in dfl or not isinstance(dfl[p], ast.Constant):
                return None
            actual[p] = dfl[p]
    tag = "__%s%d" % (g.name.strip("_"), serial[0])
    serial[0] += 1
    assigned = _locals_of(g.node)
    caller_names = _locals_of(f.node) | set(f.params())
    free = {n.id for n in ast.walk(g.node) if isinstance(n, ast.Name) and isinstance(n.ctx, ast.Load)} - assigned - set(names)
    if free & caller_names:
        return None             # a global the helper reads would be captured by a local of the caller
    subst, ren, pre = {}, {}, []
    for p in names:
        a = actual[p]
        # a name the caller re-binds later may have changed by the time the helper's statement reads it only if the helper's statements
        # were interleaved with the caller's; they are not (the body is placed where the call was), so the propagation is exact unless the
        # helper itself re-binds the parameter
        if p not in assigned and (isinstance(a, ast.Constant) or isinstance(a, ast.Name)):
            subst[p] = a
        else:
            ren[p] = p + tag
            pre.append(ast.Assign(targets=[ast.Name(id=p + tag, ctx=ast.Store())], value=copy.deepcopy(a)))
    for v in assigned:
        if v not in names:
            ren[v] = v + tag
    body = [copy.deepcopy(s) for s in g.body()]
    tail = None
    if body and isinstance(body[-1], ast.Return):
        tail = body.pop().value
    rn = _Rename(subst, ren)
    body = [rn.visit(s) for s in body]
    if tail is not None:
        tail = rn.visit(copy.deepcopy(tail))
    out = pre + body
    if isinstance(stmt, ast.Expr):
        if tail is not None:
            out.append(ast.Expr(value=tail))
    elif isinstance(stmt, ast.Assign):
        out.append(ast.Assign(targets=copy.deepcopy(stmt.targets), value=tail if tail is not None else ast.Constant(value=None)))
    elif isinstance(stmt, ast.Return):
        out.append(ast.Return(value=tail if tail is not None else ast.Constant(value=None)))
    for s in out:
        for n in ast.walk(s):
            n.lineno = getattr(stmt, "lineno", 0)
            n.col_offset = getattr(stmt, "col_offset", 0)
            n.end_lineno = getattr(stmt, "end_lineno", n.lineno)
            n.end_col_offset = getattr(stmt, "end_col_offset", 0)
    # helpers of the helper
    if depth > 0:
        gview = _View(g, g.node, [])
        out = _block(prog, gview, out, serial, stack | {g.key}, depth - 1, [])
    return out, g


def _block(prog, f, stmts, serial, stack, depth, log):
    out = []
    for s in stmts:
        call = None
        if isinstance(s, (ast.Expr, ast.Return)) and isinstance(s.value, ast.Call):
            call = s.value
        elif isinstance(s, ast.Assign) and isinstance(s.value, ast.Call):
            call = s.value
        if call is not None and isinstance(call.func, ast.Name):
            r = _expand(prog, f, s, call, serial, stack, depth)
            if r is not None:
                out.extend(r[0])
                log.append((r[1].name, getattr(s, "lineno", 0)))
                continue
        for fld in ("body", "orelse", "finalbody"):
            sub = getattr(s, fld, None)
            if isinstance(sub, list) and sub and isinstance(sub[0], ast.stmt):
                setattr(s, fld, _block(prog, f, sub, serial, stack, depth, log))
        if isinstance(s, ast.Try):
            for h in s.handlers:
                h.body = _block(prog, f, h.body, serial, stack, depth, log)
        out.append(s)
    return out


def inlined(prog, f, depth=2):
    """f itself when nothing can be expanded, else a view of f with its same-module helper calls expanded"""
    node = copy.deepcopy(f.node)
    log = []
    node.body = _block(prog, f, node.body, [1], frozenset([f.key]), depth, log)
    if not log:
        return f
    ast.fix_missing_locations(node)
    return _View(f, node, log)
