"""TAB - literal tables of data/aminoacids.py and the record layout that carries them
through build_amino_acids_skeleton -> ResTable.__init__ -> Residue.__init__ -> ResTable.lookUp*.
Everything is read from the syntax tree; arithmetic is exact (decimal text -> Fraction)."""
import ast
from fractions import Fraction

from .model import Undecided, const_number, unparse, is_self_attr

AA = "backend/data/aminoacids.py"
RT = "backend/restable.py"
RS = "backend/residue.py"


def literal(mod, node):
    """literal AST -> python value with exact Fractions for numbers"""
    n = const_number(mod, node)
    if n is not None:
        return n
    if isinstance(node, ast.Constant):
        return node.value
    if isinstance(node, ast.Dict):
        out = {}
        for k, v in zip(node.keys, node.values):
            if k is None:
                raise Undecided("dict unpacking in literal table", mod.relpath)
            kk = literal(mod, k)
            if kk in out:
                raise Undecided("duplicate key %r in literal table" % (kk,), "%s:%d" % (mod.relpath, k.lineno))
            out[kk] = literal(mod, v)
        return out
    if isinstance(node, ast.List):
        return [literal(mod, e) for e in node.elts]
    if isinstance(node, ast.Tuple):
        return tuple(literal(mod, e) for e in node.elts)
    if isinstance(node, ast.Set):
        return set(literal(mod, e) for e in node.elts)
    raise Undecided("not a literal: %s" % unparse(node)[:60], "%s:%d" % (mod.relpath, getattr(node, "lineno", 0)))


def global_literal(prog, rel, name):
    m = prog.mod(rel)
    if name not in m.globals:
        raise Undecided("module-level table vanished: %s" % name, m.relpath)
    try:
        return literal(m, m.globals[name])
    except Undecided as first:
        # a table computed from other tables at import time: folded by the evaluator
        try:
            return fold_global(prog, rel, name)
        except Undecided as e:
            raise Undecided("%s; folding %s: %s" % (first.msg, name, e.msg), e.where or first.where)


_ARITH = {ast.Add: lambda a, b: a + b, ast.Sub: lambda a, b: a - b,
          ast.Mult: lambda a, b: a * b, ast.Div: lambda a, b: a / b}


def _unwrap(v):
    """folded evaluator value -> the python value TAB's clients expect (exact Fractions for numbers)"""
    from .alg import Rat
    if isinstance(v, Rat):
        if not v.is_const():
            raise Undecided("folded table entry is not a constant: %r" % v)
        return v.const_value()
    if isinstance(v, dict):
        return {k: _unwrap(x) for k, x in v.items()}
    if isinstance(v, list):
        return [_unwrap(x) for x in v]
    if isinstance(v, tuple):
        return tuple(_unwrap(x) for x in v)
    if isinstance(v, (str, int, bool, Fraction)) or v is None:
        return v
    raise Undecided("folded value %r is not table data" % (v,))


def fold_function(prog, f):
    """a table function that is not written in one of the idioms below: constant folding of its body by the evaluator (SYM), which
    must come out as one path returning concrete data"""
    from .sym import Evaluator, _is_concrete
    ev = Evaluator(prog)
    paths = ev.run_function(f, {})
    if len(paths) != 1 or paths[0].kind != "return" or paths[0].conds or not _is_concrete(paths[0].value):
        raise Undecided("%s does not fold to one table" % f.qual, f.loc())
    return _unwrap(paths[0].value)


def fold_global(prog, rel, name):
    from .sym import Evaluator, _Frame
    from .model import FuncInfo
    m = prog.mod(rel)
    ev = Evaluator(prog)
    pseudo = ast.FunctionDef(name="<module>", args=ast.arguments(posonlyargs=[], args=[], kwonlyargs=[], kw_defaults=[], defaults=[]), body=[], decorator_list=[],
                             lineno=getattr(m.globals[name], "lineno", 1), col_offset=0)
    return _unwrap(ev.global_value((m, name), _Frame(FuncInfo(m, None, pseudo), 0), m.globals[name]))


def table_from_func(prog, rel, fname, _depth=0):
    """value of a table-returning function: `return {literal}` or the derived-table idiom
        src = other(); out = {}; for k in src: out[k] = src[k] <op> const; return out
    anything else is folded by the evaluator"""
    try:
        return _table_from_func(prog, rel, fname, _depth)
    except Undecided as first:
        if _depth > 4:
            raise
        try:
            return fold_function(prog, prog.fn(rel, fname))
        except Undecided as e:
            raise Undecided("%s; folding %s: %s" % (first.msg, fname, e.msg), e.where or first.where)


def _table_from_func(prog, rel, fname, _depth=0):
    if _depth > 4:
        raise Undecided("table derivation too deep", fname)
    f = prog.fn(rel, fname)
    m = f.mod
    body = f.body()
    # code after the first top-level return is dead (a stray docstring follows in get_KD_shifted)
    live = []
    for s in body:
        live.append(s)
        if isinstance(s, ast.Return):
            break
    if len(live) == 1 and isinstance(live[0], ast.Return) and live[0].value is not None:
        v = live[0].value
        if isinstance(v, ast.Call):
            callee = prog.resolve_call(f, v)
            if callee is not None and not v.args and not v.keywords:
                return table_from_func(prog, callee.mod.rel, callee.qual, _depth + 1)
        return literal(m, v)
    env = {}
    for s in live:
        if isinstance(s, ast.Assign) and len(s.targets) == 1 and isinstance(s.targets[0], ast.Name):
            name = s.targets[0].id
            if isinstance(s.value, ast.Call) and not s.value.args and not s.value.keywords:
                callee = prog.resolve_call(f, s.value)
                if callee is None:
                    raise Undecided("unresolved table source %s" % unparse(s.value), f.loc(s))
                env[name] = table_from_func(prog, callee.mod.rel, callee.qual, _depth + 1)
            else:
                env[name] = literal(m, s.value)
        elif isinstance(s, ast.For):
            if not (isinstance(s.target, ast.Name) and len(s.body) == 1 and not s.orelse):
                raise Undecided("derived-table loop shape", f.loc(s))
            k = s.target.id
            it = s.iter
            if isinstance(it, ast.Call) and isinstance(it.func, ast.Attribute) and it.func.attr == "keys":
                it = it.func.value
            if not (isinstance(it, ast.Name) and isinstance(env.get(it.id), dict)):
                raise Undecided("derived-table loop iterates over something that is not a table", f.loc(s))
            src_keys = list(env[it.id].keys())
            st = s.body[0]
            if not (isinstance(st, ast.Assign) and len(st.targets) == 1
                    and isinstance(st.targets[0], ast.Subscript)
                    and isinstance(st.targets[0].value, ast.Name)
                    and isinstance(st.targets[0].slice, ast.Name) and st.targets[0].slice.id == k):
                raise Undecided("derived-table loop body shape", f.loc(st))
            out = st.targets[0].value.id
            if not isinstance(env.get(out), dict):
                raise Undecided("derived-table output is not a dict", f.loc(st))
            for key in src_keys:
                env[out][key] = _eval_entry(m, st.value, env, k, key, f)
        elif isinstance(s, ast.Return):
            if isinstance(s.value, ast.Name) and s.value.id in env:
                return env[s.value.id]
            raise Undecided("derived-table return shape", f.loc(s))
        else:
            raise Undecided("statement kind %s in table function" % type(s).__name__, f.loc(s))
    raise Undecided("table function without return", f.loc())


def _eval_entry(m, node, env, kname, key, f):
    n = const_number(m, node)
    if n is not None:
        return n
    if isinstance(node, ast.Subscript) and isinstance(node.value, ast.Name) \
            and isinstance(node.slice, ast.Name) and node.slice.id == kname:
        t = env.get(node.value.id)
        if isinstance(t, dict):
            if key not in t:
                raise Undecided("key %r missing from source table %s" % (key, node.value.id), f.loc(node))
            return t[key]
    if isinstance(node, ast.BinOp) and type(node.op) in _ARITH:
        a = _eval_entry(m, node.left, env, kname, key, f)
        b = _eval_entry(m, node.right, env, kname, key, f)
        if not isinstance(a, Fraction) or not isinstance(b, Fraction):
            raise Undecided("non-numeric derived entry", f.loc(node))
        return _ARITH[type(node.op)](a, b)
    if isinstance(node, ast.Call) and isinstance(node.func, ast.Name) and node.func.id == "float" \
            and len(node.args) == 1:
        return _eval_entry(m, node.args[0], env, kname, key, f)
    raise Undecided("derived entry expression %s" % unparse(node)[:50], f.loc(node))


# --------------------------------------------------------------------------- layout
def skeleton_rows(prog):
    """rows of build_amino_acids_skeleton as lists, with the appended columns resolved.
    returns (rows, column_sources) ; column_sources[i] = name of the table function feeding column i"""
    f = prog.fn(AA, "build_amino_acids_skeleton")
    m = f.mod
    env, srcname = {}, {}
    rows, colsrc = None, {}
    ret = None
    for s in f.body():
        if isinstance(s, ast.Assign) and len(s.targets) == 1 and isinstance(s.targets[0], ast.Name):
            name = s.targets[0].id
            if isinstance(s.value, ast.Call):
                callee = prog.resolve_call(f, s.value)
                if callee is None:
                    raise Undecided("unresolved call in skeleton builder", f.loc(s))
                env[name] = table_from_func(prog, callee.mod.rel, callee.qual)
                srcname[name] = callee.name
            else:
                val = literal(m, s.value)
                env[name] = val
        elif isinstance(s, ast.For):
            if not (isinstance(s.target, ast.Name) and isinstance(s.iter, ast.Name)
                    and isinstance(env.get(s.iter.id), list)):
                raise Undecided("skeleton loop shape", f.loc(s))
            rv = s.target.id
            rows = env[s.iter.id]
            rows_name = s.iter.id
            for st in s.body:
                ok = (isinstance(st, ast.Expr) and isinstance(st.value, ast.Call)
                      and isinstance(st.value.func, ast.Attribute) and st.value.func.attr == "append"
                      and isinstance(st.value.func.value, ast.Name) and st.value.func.value.id == rv
                      and len(st.value.args) == 1)
                if not ok:
                    raise Undecided("skeleton loop body: only `row.append(table[row[k]])` understood", f.loc(st))
                arg = st.value.args[0]
                if not (isinstance(arg, ast.Subscript) and isinstance(arg.value, ast.Name)
                        and isinstance(env.get(arg.value.id), dict)
                        and isinstance(arg.slice, ast.Subscript) and isinstance(arg.slice.value, ast.Name)
                        and arg.slice.value.id == rv and isinstance(arg.slice.slice, ast.Constant)):
                    raise Undecided("skeleton append argument shape", f.loc(st))
                kcol = arg.slice.slice.value
                tab = env[arg.value.id]
                for r in rows:
                    if r[kcol] not in tab:
                        raise Undecided("key %r missing in %s" % (r[kcol], arg.value.id), f.loc(st))
                    r.append(tab[r[kcol]])
                colsrc[len(rows[0]) - 1] = srcname.get(arg.value.id, arg.value.id)
        elif isinstance(s, ast.Return):
            ret = s.value
        else:
            raise Undecided("statement kind %s in skeleton builder" % type(s).__name__, f.loc(s))
    if rows is None or not (isinstance(ret, ast.Name) and ret.id == rows_name):
        raise Undecided("skeleton builder does not return the rows it filled", f.loc())
    # buildTable must forward to it
    bt = prog.fn(AA, "buildTable")
    b = bt.body()
    if not (len(b) == 1 and isinstance(b[0], ast.Return) and isinstance(b[0].value, ast.Call)
            and prog.resolve_call(bt, b[0].value) is f):
        raise Undecided("buildTable no longer returns build_amino_acids_skeleton()", bt.loc())
    return rows, colsrc


def residue_fields(prog):
    """Residue.__init__: field -> param name ; dict fields -> {key: param}"""
    f = prog.fn(RS, "Residue.__init__")
    params = f.params()[1:]
    fields = {}
    for s in f.body():
        if isinstance(s, ast.Assign) and len(s.targets) == 1 and is_self_attr(s.targets[0]):
            fld = s.targets[0].attr
            if isinstance(s.value, ast.Name) and s.value.id in params:
                fields[fld] = s.value.id
            elif isinstance(s.value, ast.Dict):
                d = {}
                for k, v in zip(s.value.keys, s.value.values):
                    if not (isinstance(k, ast.Constant) and isinstance(v, ast.Name) and v.id in params):
                        raise Undecided("Residue dict field shape", f.loc(s))
                    d[k.value] = v.id
                fields[fld] = d
            else:
                raise Undecided("Residue field %s is not a plain parameter copy" % fld, f.loc(s))
        elif isinstance(s, ast.Pass):
            continue
        else:
            raise Undecided("statement kind %s in Residue.__init__" % type(s).__name__, f.loc(s))
    return params, fields


def restable_tables(prog):
    """ResTable: field tables keyed by the key used in residue_table (must be the 3-letter code).
    returns dict: 'hydropathy' -> {code3: Fraction}, 'charge' -> ..., 'PPII' -> {mode: {code3: ..}}"""
    rows, colsrc = skeleton_rows(prog)
    params, fields = residue_fields(prog)
    f = prog.fn(RT, "ResTable.__init__")
    loop = None
    src_ok = False
    for s in f.body():
        if isinstance(s, ast.Assign) and isinstance(s.value, ast.Call):
            callee = prog.resolve_call(f, s.value)
            if callee is not None and callee.key == AA + ":buildTable":
                src_ok = s.targets[0].id if isinstance(s.targets[0], ast.Name) else False
        if isinstance(s, ast.For) and isinstance(s.iter, ast.Name) and src_ok and s.iter.id == src_ok:
            loop = s
    if loop is None or not src_ok or not (isinstance(loop.iter, ast.Name) and loop.iter.id == src_ok):
        raise Undecided("ResTable.__init__ does not loop over data.aminoacids.buildTable()", f.loc())
    rv = loop.target.id if isinstance(loop.target, ast.Name) else None
    ctor = store = None
    unpack = {}          # local name -> column, from `(a, b, ...) = row` or `for (a, b, ...) in rows`
    if isinstance(loop.target, (ast.Tuple, ast.List)) and all(isinstance(e, ast.Name) for e in loop.target.elts):
        unpack = {e.id: i for i, e in enumerate(loop.target.elts)}
    for st in loop.body:
        if isinstance(st, ast.Assign) and len(st.targets) == 1 and isinstance(st.targets[0], (ast.Tuple, ast.List)) and isinstance(st.value, ast.Name) \
                and st.value.id == rv and all(isinstance(e, ast.Name) for e in st.targets[0].elts):
            if unpack:
                raise Undecided("row unpacked twice in ResTable.__init__", f.loc(st))
            unpack = {e.id: i for i, e in enumerate(st.targets[0].elts)}
            continue
        if isinstance(st, ast.Assign) and isinstance(st.value, ast.Call) \
                and prog.class_of_ctor(f.mod, st.value) == "Residue":
            ctor = st
        elif isinstance(st, ast.Assign) and isinstance(st.targets[0], ast.Subscript) \
                and is_self_attr(st.targets[0].value, "residue_table"):
            store = st
        else:
            raise Undecided("unexpected statement in ResTable.__init__ loop", f.loc(st))
    if ctor is None or store is None:
        raise Undecided("ResTable.__init__ loop shape", f.loc(loop))
    resname = ctor.targets[0].id
    # bind ctor args -> Residue params -> column index
    p2col = {}
    rebound = {n.id for st in loop.body for n in ast.walk(st) if isinstance(n, ast.Name) and isinstance(n.ctx, ast.Store) and n.id in unpack}
    if unpack and len(rebound) != len(unpack) and not isinstance(loop.target, (ast.Tuple, ast.List)):
        raise Undecided("unpacked row names in an unexpected form", f.loc(loop))
    for i, a in enumerate(ctor.value.args):
        p2col[params[i]] = _col(a, rv, f, unpack)
    for kw in ctor.value.keywords:
        p2col[kw.arg] = _col(kw.value, rv, f, unpack)
    if set(p2col) != set(params):
        raise Undecided("Residue(...) call does not bind every parameter", f.loc(ctor))
    # key of residue_table
    k = store.targets[0].slice
    if not (isinstance(k, ast.Attribute) and isinstance(k.value, ast.Name) and k.value.id == resname
            and isinstance(store.value, ast.Name) and store.value.id == resname):
        raise Undecided("residue_table store shape", f.loc(store))
    keyfield = k.attr
    keycol = p2col[fields[keyfield]]
    out = {"_keycol": keycol, "_rows": rows, "_colsrc": colsrc, "_p2col": p2col, "_fields": fields}
    # statements of the constructor besides `self.residue_table = {}`, the buildTable() call and the loop
    out["_extra_stmts"] = [st for st in f.body() if st is not loop
                           and not (isinstance(st, ast.Assign) and isinstance(st.value, ast.Call) and prog.resolve_call(f, st.value) is not None
                                    and prog.resolve_call(f, st.value).key == AA + ":buildTable")
                           and not (isinstance(st, ast.Assign) and any(is_self_attr(t, "residue_table") for t in st.targets))]
    for fld, src in fields.items():
        if isinstance(src, dict):
            out[fld] = {mk: {r[keycol]: r[p2col[p]] for r in rows} for mk, p in src.items()}
        else:
            out[fld] = {r[keycol]: r[p2col[src]] for r in rows}
    return out


def _col(node, rv, f, unpack=None):
    if unpack and isinstance(node, ast.Name) and node.id in unpack:
        return unpack[node.id]
    if isinstance(node, ast.Subscript) and isinstance(node.value, ast.Name) and node.value.id == rv \
            and isinstance(node.slice, ast.Constant) and isinstance(node.slice.value, int):
        return node.slice.value
    raise Undecided("Residue(...) argument is not row[k]", f.loc(node))


def compose_one_letter(prog, table3):
    """table keyed by 3-letter code -> keyed by 1-letter code through ONE_TO_THREE"""
    o2t = global_literal(prog, AA, "ONE_TO_THREE")
    out = {}
    for one, three in o2t.items():
        if three not in table3:
            raise Undecided("ONE_TO_THREE[%s]=%s has no row in the table" % (one, three), AA)
        out[one] = table3[three]
    return out
