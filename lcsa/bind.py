"""BIND - binding of actual arguments to formal parameters at resolved calls, and the
forwarding rule for thin wrappers."""
import ast

from .model import Undecided, unparse

SP = "sequenceParameters.py"
SEQ = "backend/sequence.py"


def bind(prog, caller, call, callee=None):
    """-> (callee FuncInfo, {formal name: actual AST}) ; positional, keyword; defaults not filled"""
    callee = callee or prog.resolve_call(caller, call)
    if callee is None:
        return None, None
    params = callee.params()
    if callee.cls:
        params = params[1:]
    out = {}
    for i, a in enumerate(call.args):
        if isinstance(a, ast.Starred):
            raise Undecided("starred argument", caller.loc(call))
        if i >= len(params):
            out["*extra%d" % i] = a
        else:
            out[params[i]] = a
    for kw in call.keywords:
        if kw.arg is None:
            raise Undecided("**kwargs at call", caller.loc(call))
        if kw.arg in out:
            out["*dup:" + kw.arg] = kw.value
        else:
            out[kw.arg] = kw.value
    return callee, out


def returns_of(f):
    """all Return nodes of f (not of nested functions)"""
    out = []

    def walk(stmts):
        for s in stmts:
            if isinstance(s, (ast.FunctionDef, ast.ClassDef)):
                continue
            if isinstance(s, ast.Return):
                out.append(s)
            for fld in ("body", "orelse", "finalbody"):
                if hasattr(s, fld):
                    walk(getattr(s, fld))
            if isinstance(s, ast.Try):
                for h in s.handlers:
                    walk(h.body)
    walk(f.node.body)
    return out


def check_wrapper(ck, prog, rule, api_rel, api_qual, backend_key, argmap=None, allow_pre=()):
    """obligation: api function returns `<receiver>.<backend>(...)` unchanged on every path that returns,
    passing each of its own parameters named in argmap (default: all, same name) to the stated formal.

    allow_pre: names of calls allowed as statements before the return (guards, messages)."""
    f = prog.fn(api_rel, api_qual)
    construct = f.mod.relpath + ":" + f.qual
    rets = returns_of(f)
    ok_any = False
    own = [p for p in f.params() if p != "self"]
    argmap = dict(argmap) if argmap is not None else {p: p for p in own}
    if not rets:
        ck.ob(rule, construct, False, expected="return %s(...)" % backend_key, found="no return statement",
              slot="return", where=f.loc())
        return False
    good = True
    for r in rets:
        v = r.value
        if not isinstance(v, ast.Call):
            good &= ck.ob(rule, construct, False, expected="return %s(...)" % backend_key,
                          found=unparse(v) if v is not None else "return None", slot="return", where=f.loc(r))
            continue
        callee, b = bind(prog, f, v)
        if callee is None or callee.key != backend_key:
            good &= ck.ob(rule, construct, False, expected=backend_key,
                          found=(callee.key if callee else "unresolved: " + unparse(v.func)),
                          slot="callee", where=f.loc(r))
            continue
        for own_p, formal in argmap.items():
            actual = b.get(formal)
            found = unparse(actual) if actual is not None else None
            if actual is None:
                # an omitted argument is fine only when both defaults are the same literal
                d_api = f.defaults().get(own_p)
                d_be = callee.defaults().get(formal)
                same = d_api is not None and d_be is not None and ast.dump(d_api) == ast.dump(d_be)
                good &= ck.ob(rule, construct, False, expected="%s -> %s" % (own_p, formal),
                              found="parameter %s is not forwarded%s" % (own_p, " (defaults agree)" if same else ""),
                              slot=own_p, where=f.loc(r))
                continue
            ok = isinstance(actual, ast.Name) and actual.id == own_p
            good &= ck.ob(rule, construct, ok, expected="%s -> %s" % (own_p, formal),
                          found="%s -> %s" % (found, formal), slot=own_p, where=f.loc(r))
        extra = [k for k in b if k.startswith("*")]
        if extra:
            good &= ck.ob(rule, construct, False, expected="arity of %s" % backend_key, found=extra,
                          slot="arity", where=f.loc(r))
        ok_any = True
    # statements other than the return(s): only the allowed guards
    for s in f.body():
        if isinstance(s, ast.Return):
            continue
        names = {n.func.attr if isinstance(n.func, ast.Attribute) else getattr(n.func, "id", "?")
                 for n in ast.walk(s) if isinstance(n, ast.Call)}
        stores = [n for n in ast.walk(s) if isinstance(n, (ast.Assign, ast.AugAssign))]
        if stores or not names <= set(allow_pre) | {"len"}:
            good &= ck.ob(rule, construct, False, expected="only guards %s before the return" % (sorted(allow_pre),),
                          found=unparse(s)[:120], slot="pre", where=f.loc(s))
    if good and ok_any:
        ck.ob(rule, construct, True, expected=backend_key, found=backend_key, slot="forwards")
    return good and ok_any
