"""BIND - binding of actual arguments to formal parameters at resolved calls, and the
forwarding rule for thin wrappers."""
import ast

from .model import Undecided, unparse

SP = "sequenceParameters.py"
SEQ = "backend/sequence.py"


def bind(prog, caller, call, callee=None):
    """-> (callee FuncInfo, {formal name: actual AST}) ; positional, keyword; defaults not filled"""
    callee = callee or prog.resolve_call(caller, call)
    if callee is None:
        return None, None
    params = callee.params()
    if callee.cls:
        params = params[1:]
    out = {}
    for i, a in enumerate(call.args):
        if isinstance(a, ast.Starred):
            raise Undecided("starred argument", caller.loc(call))
        if i >= len(params):
            out["*extra%d" % i] = a
        else:
            out[params[i]] = a
    for kw in call.keywords:
        if kw.arg is None:
            raise Undecided("**kwargs at call", caller.loc(call))
        if kw.arg in out:
            out["*dup:" + kw.arg] = kw.value
        else:
            out[kw.arg] = kw.value
    return callee, out


def returns_of(f):
    """all Return nodes of f (not of nested functions)"""
    out = []

    def walk(stmts):
        for s in stmts:
            if isinstance(s, (ast.FunctionDef, ast.ClassDef)):
                continue
            if isinstance(s, ast.Return):
                out.append(s)
            for fld in ("body", "orelse", "finalbody"):
                if hasattr(s, fld):
                    walk(getattr(s, fld))
            if isinstance(s, ast.Try):
                for h in s.handlers:
                    walk(h.body)
    walk(f.node.body)
    return out


def _resolve_local(f, node):
    """a Name bound exactly once in f -> the bound value"""
    if isinstance(node, ast.Name):
        vals = [n.value for n in ast.walk(f.node) if isinstance(n, ast.Assign) and len(n.targets) == 1
                and isinstance(n.targets[0], ast.Name) and n.targets[0].id == node.id]
        if len(vals) == 1:
            return vals[0]
    return node


def inline_locals(f, node, depth=0, used=None):
    """copy of the expression with every Name that f binds exactly once (plain `name = expr`, not a parameter, not a loop or
    augmented target) replaced by the bound expression, recursively: `a = x / m; b = np.where(a >= c)[0]; n = len(b)` -> one expression"""
    import copy
    single = {}
    counts = {}
    for n in ast.walk(f.node):
        if isinstance(n, ast.Assign):
            for t in n.targets:
                for x in ast.walk(t):
                    if isinstance(x, ast.Name) and isinstance(x.ctx, ast.Store):
                        counts[x.id] = counts.get(x.id, 0) + 1
                        if len(n.targets) == 1 and isinstance(t, ast.Name):
                            single[x.id] = n.value
        elif isinstance(n, (ast.AugAssign, ast.AnnAssign, ast.For, ast.comprehension, ast.NamedExpr)):
            for x in ast.walk(n.target):
                if isinstance(x, ast.Name):
                    counts[x.id] = counts.get(x.id, 0) + 2
        elif isinstance(n, (ast.With,)):
            for it in n.items:
                if it.optional_vars is not None:
                    for x in ast.walk(it.optional_vars):
                        if isinstance(x, ast.Name):
                            counts[x.id] = counts.get(x.id, 0) + 2
    params = set(f.params())

    class T(ast.NodeTransformer):
        def __init__(self, d):
            self.d = d

        def visit_Name(self, n):
            if isinstance(n.ctx, ast.Load) and n.id in single and counts.get(n.id) == 1 and n.id not in params and self.d < 8:
                if used is not None:
                    used.add(n.id)
                return T(self.d + 1).visit(copy.deepcopy(single[n.id]))
            return n
    return T(depth).visit(copy.deepcopy(node))


def specialise(prog, caller, call, callee=None):
    """the callee as this call site executes it, when the site hands it constants (a name string, a flag) or a bound method of the same
    receiver: a copy of the callee whose body has those parameters substituted and the dispatch they drive folded away -
    `'get_%s_complexity' % measure`, a lookup in a module-level table, `getattr(obj, <constant name>)` (-> `obj.<name>`), a local that only
    holds the looked-up callable (-> the call is written on the attribute).  -> a FuncInfo over the rewritten body, or None when the site
    passes no such constant / the callee rebinds the parameter.  The copy keeps the callee's module, class, name and line numbers."""
    import copy
    from .model import FuncInfo
    callee = callee or prog.resolve_call(caller, call)
    if callee is None:
        return None
    try:
        _, b = bind(prog, caller, call, callee)
    except Undecided:
        return None
    if b is None:
        return None
    consts = {}
    for formal, actual in b.items():
        if formal.startswith("*"):
            continue
        if isinstance(actual, ast.Constant) and (isinstance(actual.value, (str, int, float, bool)) or actual.value is None):
            consts[formal] = actual
        elif isinstance(actual, (ast.List, ast.Tuple)) and all(isinstance(e, ast.Constant) for e in actual.elts):
            consts[formal] = actual                   # a literal list of constants: every use gets its own copy, which reads cannot tell apart
        elif isinstance(actual, ast.Attribute) and isinstance(actual.value, ast.Name) and actual.value.id == "self" and caller.cls and caller.cls == callee.cls \
                and prog.method(caller.cls, actual.attr) is not None:
            consts[formal] = actual                   # a bound method of the receiver, handed on to be called
    for formal, dv in callee.defaults().items():
        if formal not in b and isinstance(dv, ast.Constant):
            consts[formal] = dv                       # a parameter the site leaves at its constant default
    if not consts:
        return None
    for n in ast.walk(callee.node):
        tg = []
        if isinstance(n, ast.Assign):
            tg = n.targets
        elif isinstance(n, (ast.AugAssign, ast.AnnAssign, ast.For, ast.comprehension, ast.NamedExpr)):
            tg = [n.target]
        if any(isinstance(x, ast.Name) and x.id in consts for t in tg for x in ast.walk(t)):
            return None
    node = copy.deepcopy(callee.node)
    if node.args.kwarg is not None:
        # `**options` collected by the callee and splatted into its own forward: at this site it holds exactly the keywords the site passes
        # beyond the named parameters - they become named parameters of the copy
        kwname = node.args.kwarg.arg
        formals = [a.arg for a in node.args.posonlyargs + node.args.args + node.args.kwonlyargs]
        extras = [k for k in b if not k.startswith("*") and k not in formals]
        other_uses = [x for x in ast.walk(node) if isinstance(x, ast.Name) and x.id == kwname
                      and not any(isinstance(c, ast.Call) and any(kw.arg is None and kw.value is x for kw in c.keywords) for c in ast.walk(node))]
        if not other_uses:
            for c in ast.walk(node):
                if isinstance(c, ast.Call):
                    newkw = []
                    for kw in c.keywords:
                        if kw.arg is None and isinstance(kw.value, ast.Name) and kw.value.id == kwname:
                            newkw.extend(ast.keyword(arg=k, value=ast.copy_location(ast.Name(id=k, ctx=ast.Load()), kw.value)) for k in extras)
                        else:
                            newkw.append(kw)
                    c.keywords = newkw
            node.args.kwarg = None
            node.args.args.extend(ast.arg(arg=k) for k in extras)
            node.args.defaults = list(node.args.defaults)
        # (a **options dict that is also looked at as a dict - in a cache key, say - is left as it is)

    class Subst(ast.NodeTransformer):
        def visit_Name(self, n):
            if isinstance(n.ctx, ast.Load) and n.id in consts:
                return ast.copy_location(copy.deepcopy(consts[n.id]), n)
            return n
    node = Subst().visit(node)
    from . import tab
    changed = [True]

    def cstr(n):
        return isinstance(n, ast.Constant) and isinstance(n.value, str)

    class Fold(ast.NodeTransformer):
        def visit_BinOp(self, n):
            n = self.generic_visit(n)
            try:
                if isinstance(n.op, ast.Mod) and cstr(n.left):
                    r = n.right
                    vals = tuple(e.value for e in r.elts) if isinstance(r, ast.Tuple) and all(isinstance(e, ast.Constant) for e in r.elts) else (
                        (r.value,) if isinstance(r, ast.Constant) else None)
                    if vals is not None:
                        changed[0] = True
                        return ast.copy_location(ast.Constant(value=n.left.value % vals), n)
                if isinstance(n.op, ast.Add) and cstr(n.left) and cstr(n.right):
                    changed[0] = True
                    return ast.copy_location(ast.Constant(value=n.left.value + n.right.value), n)
            except (TypeError, ValueError):
                pass
            return n

        def visit_JoinedStr(self, n):
            n = self.generic_visit(n)
            if all(isinstance(v, ast.Constant) or (isinstance(v, ast.FormattedValue) and cstr(v.value) and v.conversion == -1 and v.format_spec is None) for v in n.values):
                changed[0] = True
                return ast.copy_location(ast.Constant(value="".join(v.value if isinstance(v, ast.Constant) else v.value.value for v in n.values)), n)
            return n

        def visit_Subscript(self, n):
            n = self.generic_visit(n)
            if isinstance(n.ctx, ast.Load) and isinstance(n.slice, ast.Constant) and isinstance(n.value, (ast.Name, ast.Attribute)):
                g = prog.resolve_global(callee.mod, n.value)
                if g and g[1] in g[0].globals:
                    try:
                        v = tab.global_literal(prog, g[0].rel, g[1])
                    except Undecided:
                        return n
                    if isinstance(v, dict) and n.slice.value in v and isinstance(v[n.slice.value], str):
                        changed[0] = True
                        return ast.copy_location(ast.Constant(value=v[n.slice.value]), n)
            return n

        def visit_Call(self, n):
            n = self.generic_visit(n)
            if isinstance(n.func, ast.Name) and n.func.id == "getattr" and len(n.args) == 2 and not n.keywords and cstr(n.args[1]):
                name = n.args[1].value
                if name.isidentifier() and not (name.startswith("__") and not name.endswith("__")):
                    changed[0] = True
                    return ast.copy_location(ast.Attribute(value=n.args[0], attr=name, ctx=ast.Load()), n)
            if isinstance(n.func, ast.Attribute) and n.func.attr == "format" and cstr(n.func.value) and not n.keywords and all(isinstance(a, ast.Constant) for a in n.args):
                try:
                    changed[0] = True
                    return ast.copy_location(ast.Constant(value=n.func.value.value.format(*[a.value for a in n.args])), n)
                except (IndexError, KeyError, ValueError):
                    pass
            return n
    rounds = 0
    while changed[0] and rounds < 6:
        changed[0] = False
        node = Fold().visit(node)
        rounds += 1
    # a local that only holds the looked-up callable: write the call on what it holds
    holds = {}
    stores = {}
    for n in ast.walk(node):
        if isinstance(n, ast.Name) and isinstance(n.ctx, ast.Store):
            stores[n.id] = stores.get(n.id, 0) + 1
    for n in ast.walk(node):
        if isinstance(n, ast.Assign) and len(n.targets) == 1 and isinstance(n.targets[0], ast.Name) and stores.get(n.targets[0].id) == 1 \
                and isinstance(n.value, ast.Attribute) and n.targets[0].id not in [a.arg for a in node.args.args]:
            holds[n.targets[0].id] = n.value
    if holds:
        called = {id(c.func) for c in ast.walk(node) if isinstance(c, ast.Call) and isinstance(c.func, ast.Name)}
        only_called = {v for v in holds if all(id(x) in called for x in ast.walk(node) if isinstance(x, ast.Name) and x.id == v and isinstance(x.ctx, ast.Load))}

        class Inline(ast.NodeTransformer):
            def visit_Call(self, n):
                n = self.generic_visit(n)
                if isinstance(n.func, ast.Name) and n.func.id in only_called:
                    n.func = ast.copy_location(copy.deepcopy(holds[n.func.id]), n.func)
                return n
        node = Inline().visit(node)
    ast.fix_missing_locations(node)
    sf = FuncInfo(callee.mod, callee.cls, node)
    sf.specialised_for = {k: unparse(v) for k, v in consts.items()}
    return sf


def final_forward(prog, f, max_hops=3):
    """follow `return <call>` through helpers on the same side (each specialised for the constants its call site passes) to the first
    call that leaves the class: -> (FuncInfo in which it is written, Call node, callee FuncInfo) or None"""
    cur = f
    for _ in range(max_hops + 1):
        rets = returns_of(cur)
        if len(rets) != 1 or not isinstance(_resolve_local(cur, rets[0].value) if rets[0].value is not None else None, ast.Call):
            return None
        call = _resolve_local(cur, rets[0].value)
        callee = prog.resolve_call(cur, call)
        if callee is None:
            return None
        if (callee.mod is cur.mod and callee.cls == cur.cls):
            sf = specialise(prog, cur, call, callee)
            cur = sf if sf is not None else callee
            continue
        return cur, call, callee
    return None


def specialise_returns(prog, f, consts, keep=(), depth=0):
    """the expressions f can return when the parameters in `consts` (name -> python constant) have those values, with the locals it
    binds and the helpers of its own class it calls (bodies made of `if <test on a constant parameter>`, plain local assignments and
    returns) expanded in place; calls to methods named in `keep` are left as they are.  -> list of expression ASTs, or None when
    some statement is of another kind"""
    import copy
    if depth > 4:
        return None

    def const_test(t, env):
        """truth of a test on known-constant names, else None"""
        if isinstance(t, ast.Compare) and len(t.ops) == 1 and isinstance(t.left, ast.Name) and t.left.id in env and isinstance(t.comparators[0], ast.Constant):
            a, b = env[t.left.id], t.comparators[0].value
            if not isinstance(a, ast.Constant):
                return None
            a = a.value
            op = t.ops[0]
            if isinstance(op, (ast.Is, ast.Eq)):
                return a is b if b is None or a is None else a == b
            if isinstance(op, (ast.IsNot, ast.NotEq)):
                return not (a is b if b is None or a is None else a == b)
        if isinstance(t, ast.UnaryOp) and isinstance(t.op, ast.Not):
            v = const_test(t.operand, env)
            return None if v is None else not v
        return None

    def subst(e, env):
        class T(ast.NodeTransformer):
            def visit_Name(self, n):
                if isinstance(n.ctx, ast.Load) and n.id in env:
                    return copy.deepcopy(env[n.id])
                return n

            def visit_Call(self, n):
                n = self.generic_visit(n)
                name = n.func.attr if isinstance(n.func, ast.Attribute) else getattr(n.func, "id", None)
                if name in keep or not (isinstance(n.func, ast.Attribute) and isinstance(n.func.value, ast.Name) and n.func.value.id == "self"):
                    return n
                callee = prog.resolve_call(f, n)
                if callee is None or callee.cls != f.cls or any(isinstance(a, ast.Starred) for a in n.args):
                    return n
                _, b = bind(prog, f, n)
                if b is None or any(k.startswith("*") for k in b):
                    return n
                env2 = {}
                dflt = callee.defaults()
                for prm in callee.params()[1:]:
                    if prm in b:
                        env2[prm] = b[prm]
                    elif prm in dflt:
                        env2[prm] = dflt[prm]
                    else:
                        return n
                inner = _spec(callee, env2, depth + 1)
                if inner is None or len(inner) != 1:
                    return n
                return inner[0]
        return T().visit(copy.deepcopy(e))

    def _spec(fn, env, d):
        if d > 4:
            return None
        outs = []

        def block(stmts, env):
            """-> True when the block always returns"""
            for st in stmts:
                if isinstance(st, ast.Expr) and isinstance(st.value, ast.Constant):
                    continue
                if isinstance(st, ast.Return):
                    if st.value is None:
                        return None
                    outs.append(specialise_expr(fn, st.value, env))
                    return True
                if isinstance(st, ast.Assign) and len(st.targets) == 1 and isinstance(st.targets[0], ast.Name):
                    env[st.targets[0].id] = specialise_expr(fn, st.value, env)
                    continue
                if isinstance(st, ast.If):
                    c = const_test(st.test, env)
                    if c is True:
                        r = block(st.body, env)
                    elif c is False:
                        r = block(st.orelse, env)
                    else:
                        e1, e2 = dict(env), dict(env)
                        r1, r2 = block(st.body, e1), block(st.orelse, e2)
                        if r1 is None or r2 is None:
                            return None
                        if r1 and r2:
                            return True
                        if r1 or r2:
                            env.clear()
                            env.update(e2 if r1 else e1)
                            continue
                        return None            # both arms fall through with different bindings: not followed
                    if r is None or r is True:
                        return r
                    continue
                return None
            return False
        r = block(fn.body(), dict(env))
        return outs if r is True else None

    def specialise_expr(fn, e, env):
        nonlocal f
        saved, f = f, fn
        try:
            return subst(e, env)
        finally:
            f = saved
    env0 = {k: ast.Constant(value=v) for k, v in consts.items()}
    return _spec(f, env0, depth)


def passthrough(prog, f, call):
    """does the package function called here return its single argument unchanged on every returning path?
    True / a description of the path that alters it / None (cannot tell)"""
    callee = prog.resolve_call(f, call)
    if callee is None:
        return None
    ps = callee.params()[1:] if callee.cls else callee.params()
    if len(ps) != 1:
        return None
    p = ps[0]
    if any(isinstance(n, (ast.Assign, ast.AugAssign)) and any(isinstance(x, ast.Name) and x.id == p and isinstance(x.ctx, ast.Store)
                                                               for t in (n.targets if isinstance(n, ast.Assign) else [n.target]) for x in ast.walk(t)) for n in ast.walk(callee.node)):
        return None
    from .memo import _facts_at, _atomic
    rets = returns_of(callee)
    if not rets:
        return None
    for r in rets:
        v = r.value
        if isinstance(v, ast.Name) and v.id == p:
            continue
        if v is None or (isinstance(v, ast.Constant) and v.value is None):
            atoms = []
            for t, pol in _facts_at(callee.node, r):
                _atomic(t, pol, atoms)
            is_none = any(isinstance(t, ast.Compare) and len(t.ops) == 1 and isinstance(t.left, ast.Name) and t.left.id == p and isinstance(t.comparators[0], ast.Constant)
                          and t.comparators[0].value is None and ((isinstance(t.ops[0], (ast.Is, ast.Eq)) and pol) or (isinstance(t.ops[0], (ast.IsNot, ast.NotEq)) and not pol))
                          for t, pol in atoms)
            if is_none:
                continue
            tests = [unparse(t) for t, _ in atoms]
            return "returns None where the argument need not be None (under %s)" % (tests or "no test")
        return None
    return True


def memo_forward(prog, f):
    """the wrapper computes its result once per key and keeps it: `if k not in T: T[k] = <call>` ... `return T[k]`
    -> (stored call, key expression with single-assignment locals inlined, table text) or None"""
    stores = [n for n in ast.walk(f.node) if isinstance(n, ast.Assign) and len(n.targets) == 1 and isinstance(n.targets[0], ast.Subscript)
              and isinstance(n.value, ast.Call)]
    if len(stores) != 1:
        return None
    st = stores[0]
    table = unparse(st.targets[0].value)
    base = st.targets[0].value
    persistent = (isinstance(base, ast.Name) and base.id in f.mod.globals) or (isinstance(base, ast.Attribute) and isinstance(base.value, ast.Name) and base.value.id == "self")
    if not persistent:
        return None
    key = unparse(st.targets[0].slice)
    for r in returns_of(f):
        v = r.value
        if v is None:
            return None
        v = _resolve_local(f, v) if isinstance(v, ast.Name) else v
        if v is st.value:
            continue
        if not (isinstance(v, ast.Subscript) and unparse(v.value) == table and unparse(v.slice) == key):
            return None
    return st.value, inline_locals(f, st.targets[0].slice), table


def forward_kind(expr, p):
    """how an expression hands on the parameter p: 'same' (p itself), 'harmless' (p, with None / the empty container replaced by an empty
    default), 'swallows' (`p or <something else>`: every falsy value of p - 0, 0.0, '' - is replaced), None (anything else)"""
    if isinstance(expr, ast.Name) and expr.id == p:
        return "same"
    if isinstance(expr, ast.IfExp):
        tt = unparse(expr.test).replace(" ", "")
        other = expr.orelse if tt in (p + "isNone", p + "==None") else (expr.body if tt in (p + "isnotNone", p + "!=None") else None)
        if isinstance(other, ast.Name) and other.id == p:
            return "harmless"
    if isinstance(expr, ast.BoolOp) and isinstance(expr.op, ast.Or) and len(expr.values) == 2 and isinstance(expr.values[0], ast.Name) and expr.values[0].id == p:
        if unparse(expr.values[1]).replace(" ", "") in ("{}", "[]", "()", "''", '""', "dict()", "list()", "tuple()"):
            return "harmless"
        return "swallows"
    return None


def _unpacked_from_helper(prog, f, assign, p):
    """`a, p, c = self.helper(x, p, y)` with `return (e1, e2, e3)` in the helper: the expression p is rebound to, written over f's names"""
    import copy
    t = assign.targets[0] if isinstance(assign, ast.Assign) and len(assign.targets) == 1 else None
    if not (isinstance(t, (ast.Tuple, ast.List)) and isinstance(assign.value, ast.Call)):
        return None
    pos = [i for i, e in enumerate(t.elts) if isinstance(e, ast.Name) and e.id == p]
    callee = prog.resolve_call(f, assign.value)
    if len(pos) != 1 or callee is None:
        return None
    rets = returns_of(callee)
    if len(rets) != 1 or not (isinstance(rets[0].value, (ast.Tuple, ast.List)) and len(rets[0].value.elts) == len(t.elts)):
        return None
    try:
        _, b = bind(prog, f, assign.value, callee)
    except Undecided:
        return None
    if b is None or any(k.startswith("*") for k in b):
        return None
    local_stores = {x.id for x in ast.walk(callee.node) if isinstance(x, ast.Name) and isinstance(x.ctx, ast.Store)}
    if local_stores:
        return None

    class S(ast.NodeTransformer):
        def visit_Name(self, n):
            return copy.deepcopy(b[n.id]) if n.id in b and isinstance(n.ctx, ast.Load) else n
    return S().visit(copy.deepcopy(rets[0].value.elts[pos[0]]))


def check_wrapper(ck, prog, rule, api_rel, api_qual, backend_key, argmap=None, allow_pre=(), void=False, memo=None, _hop=0, _f=None, skip_returns=()):
    """a thin wrapper: what it returns (or, for void=True, the one backend call it makes) is `<receiver>.<backend>(...)` with each
    of its own parameters (argmap, default: all, same name) bound to the stated formal.
    Shape problems (no return, a returned expression that is not a resolvable call) are 'undecided'; a resolvable call to a
    different callee or a parameter bound to the wrong formal is a violation."""
    f = _f if _f is not None else prog.fn(api_rel, api_qual)
    construct = f.mod.relpath + ":" + f.qual
    own = [p for p in f.params() if p != "self"]
    argmap = dict(argmap) if argmap is not None else {p: p for p in own}
    calls = []
    mf = None
    if void:
        bcls = backend_key.split(":")[1].split(".")[0]
        for n in ast.walk(f.node):
            if isinstance(n, ast.Call):
                c = prog.resolve_call(f, n)
                if c is not None and c.cls == bcls and c.mod.rel == backend_key.split(":")[0]:
                    calls.append(n)
        if len(calls) != 1:
            raise Undecided("unrecognised shape: %s makes %d backend calls (expected one)" % (f.qual, len(calls)), f.loc())
    else:
        rets = [r for r in returns_of(f) if id(r) not in skip_returns]          # (returns the caller has judged by a rule of its own)
        if not rets:
            raise Undecided("unrecognised shape: %s has no return statement" % f.qual, f.loc())
        mf = memo_forward(prog, f)
        if mf is not None and prog.resolve_call(f, mf[0]) is not None:
            # a memoised forward: the stored call is checked as the forward; whether the key determines the stored value is
            # MEMO-KEY's verdict (props.common.check_memos runs over every anchored wrapper in each property)
            calls.append(mf[0])
            rets = []
            ck.info("%s keeps the backend's result in %s keyed on %s; key adequacy is decided by MEMO-KEY" % (f.qual, mf[2], unparse(mf[1])))
        for r in rets:
            v = _resolve_local(f, r.value) if r.value is not None else None
            if not isinstance(v, ast.Call) or prog.resolve_call(f, v) is None:
                raise Undecided("unrecognised shape: %s returns %s, not a resolvable call" % (f.qual, unparse(r.value) if r.value is not None else None), f.loc(r))
            calls.append(v)
    good = True
    for v in calls:
        callee, b = bind(prog, f, v)
        if callee.key != backend_key:
            brel, bqual = backend_key.split(":")
            bcls_ = bqual.split(".")[0] if "." in bqual else None
            if (callee.mod.rel, callee.cls) != (brel, bcls_) and not void:
                # not a routine of the backend at all but a helper on the wrapper's side: the forward is judged through it - wrapper
                # parameter -> helper formal (plain names), then the helper as a wrapper of the backend routine
                if _hop >= 2 or len(calls) != 1:
                    raise Undecided("unrecognised shape: %s forwards through %s (helper chain not followed)" % (f.qual, callee.qual), f.loc(v))
                hop_map = {}
                for own_p, formal in argmap.items():
                    hs = [h for h, a in b.items() if isinstance(a, ast.Name) and a.id == own_p]
                    if len(hs) != 1:
                        raise Undecided("unrecognised shape: %s hands %s to helper %s in a form that is not a plain name" % (f.qual, own_p, callee.qual), f.loc(v))
                    hop_map[hs[0]] = formal
                # the helper as this site runs it: constants the site passes (a method name, a table key) are folded into its dispatch
                sf = specialise(prog, f, v, callee)
                ck.info("%s forwards through its helper %s%s" % (f.qual, callee.qual, (" specialised for %s" % sf.specialised_for) if sf is not None else ""))
                return check_wrapper(ck, prog, rule, callee.mod.rel, callee.qual, backend_key, argmap=hop_map, memo=memo, _hop=_hop + 1, _f=sf)
            if _hop:
                raise Undecided("unrecognised shape: helper %s reaches several backend routines (a dispatcher)" % f.qual, f.loc(v))
            good &= ck.ob(rule, construct, False, expected=backend_key, found=callee.key, slot="callee", where=f.loc(v),
                          note="the API method must forward to its own backend routine")
            continue
        ck.last_forward = (f, v)            # where the forward to the backend routine is finally written (a helper, possibly specialised)
        for own_p, formal in argmap.items():
            # a parameter that is rebound inside the wrapper no longer carries what the caller passed
            for n in ast.walk(f.node):
                if isinstance(n, (ast.Assign, ast.AugAssign)) and any(isinstance(x, ast.Name) and x.id == own_p and isinstance(x.ctx, ast.Store)
                                                                       for t in (n.targets if isinstance(n, ast.Assign) else [n.target]) for x in ast.walk(t)):
                    if isinstance(n, ast.Assign) and isinstance(n.value, ast.Call) and len(n.value.args) == 1 and not n.value.keywords \
                            and isinstance(n.value.args[0], ast.Name) and n.value.args[0].id == own_p:
                        # `p = self.checked(p)`: harmless when the helper hands back exactly what it was given
                        pt = passthrough(prog, f, n.value)
                        if pt is True:
                            continue
                        if pt is not None:
                            good &= ck.ob(rule, construct, False, expected="%s reaches %s unchanged" % (own_p, formal), found="%s: %s" % (unparse(n), pt), slot=own_p, where=f.loc(n),
                                          note="a checking helper in front of the backend must hand back the value it was given")
                            continue
                    newval = _unpacked_from_helper(prog, f, n, own_p) if isinstance(n, ast.Assign) else None
                    if newval is None and isinstance(n, ast.Assign) and len(n.targets) == 1 and isinstance(n.targets[0], ast.Name):
                        newval = n.value
                    fk = forward_kind(newval, own_p) if newval is not None else None
                    if fk in ("same", "harmless"):
                        continue
                    if fk == "swallows":
                        good &= ck.ob(rule, construct, False, expected="%s reaches %s as the caller passed it" % (own_p, formal), found="%s = %s" % (own_p, unparse(newval)[:60]), slot=own_p + ":rebound",
                                      where=f.loc(n), note="`p or default` replaces every falsy value of p, a legitimate 0 included")
                        continue
                    txt = unparse(n.value).replace(" ", "")
                    changing = txt.startswith(("sorted(", "set(", "list(set(", "reversed(", "list(reversed(", "frozenset(", "tuple(sorted(", "sorted(set(", "list(sorted(")) or txt.endswith("[::-1]")
                    if not changing:
                        raise Undecided("unrecognised shape: %s rebinds its parameter '%s' (%s) before forwarding it" % (f.qual, own_p, unparse(n)[:50]), f.loc(n))
                    good &= ck.ob(rule, construct, False, expected="%s reaches %s as the caller passed it" % (own_p, formal), found=unparse(n)[:80], slot=own_p + ":rebound", where=f.loc(n),
                                  note="re-ordering or de-duplicating the caller's list changes what the backend stores")
            actual = b.get(formal)
            if actual is None:
                good &= ck.ob(rule, construct, False, expected="%s -> %s" % (own_p, formal), found="parameter %s is not forwarded" % own_p,
                              slot=own_p, where=f.loc(v))
                continue
            # `<default> if p is None else p` / `p or {}`: every value the caller can meaningfully pass is forwarded as it is
            ok = forward_kind(actual, own_p) in ("same", "harmless")
            if not ok and isinstance(actual, ast.Call) and len(actual.args) == 1 and not actual.keywords and isinstance(actual.args[0], ast.Name) and actual.args[0].id == own_p:
                # the parameter goes through a checking helper first: fine if the helper hands back exactly what it was given
                pt = passthrough(prog, f, actual)
                if pt is True:
                    ok = True
                elif pt is None:
                    raise Undecided("unrecognised shape: %s passes %s through %s, which lcsa cannot show to return its argument unchanged" % (f.qual, own_p, unparse(actual.func)), f.loc(v))
                else:
                    good &= ck.ob(rule, construct, False, expected="%s reaches %s unchanged" % (own_p, formal), found="%s: %s" % (unparse(actual), pt), slot=own_p, where=f.loc(v),
                                  note="a checking helper in front of the backend must hand back the value it was given")
                    continue
            if not ok and not any(isinstance(x, ast.Name) and x.id in own for x in ast.walk(actual)):
                raise Undecided("unrecognised shape: argument %s of %s is computed, not forwarded" % (formal, callee.qual), f.loc(v))
            good &= ck.ob(rule, construct, ok, expected="%s -> %s" % (own_p, formal), found="%s -> %s" % (unparse(actual), formal), slot=own_p, where=f.loc(v))
        extra = [k for k in b if k.startswith("*")]
        if extra:
            good &= ck.ob(rule, construct, False, expected="arity of %s" % backend_key, found=extra, slot="arity", where=f.loc(v))
    if good and not void and memo is not None and mf is not None:
        memo(ck, f, mf[2], mf[1], mf[0])
    if good:
        ck.ob(rule, construct, True, expected=backend_key, found=backend_key, slot="forwards")
    return good
