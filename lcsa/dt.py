"""DT - decision tables: rows (conditions, outcome) compared for equivalence over a domain.
Conditions are comparisons of rational normal forms; they are reduced to linear constraints
(denominators cleared using atoms known to be positive) and decided exactly by lin.sat."""
from fractions import Fraction

from .alg import Rat, Poly
from .lin import Lin, f_and, f_or, f_not, sat
from .model import Undecided


def poly_sign_positive(p, positive):
    """is polynomial p certainly > 0 given that the listed atoms are > 0 ?  (all coefficients >= 0,
    not all zero, every atom in `positive`)"""
    if p.is_zero():
        return False
    for k, v in p.t.items():
        if v < 0:
            return False
        for a, _ in k:
            if a not in positive:
                return False
    return True


def rat_to_lin(r, op, positive):
    """(r op 0) -> formula over Lin"""
    n, d = r.n, r.d
    if not poly_sign_positive(d, positive):
        if poly_sign_positive(-d, positive):
            n = -n
        else:
            dl = d.linear()
            if dl is None:
                raise Undecided("sign of denominator %r unknown" % (d,))
            # case split on the sign of an affine denominator (d == 0 is a run-time division error, not a row)
            one = Poly.const(1)
            pos_case = f_and(rat_to_lin(Rat(d, one), ">", positive), rat_to_lin(Rat(n, one), op, positive))
            neg_case = f_and(rat_to_lin(Rat(d, one), "<", positive), rat_to_lin(Rat(-n, one), op, positive))
            return f_or(pos_case, neg_case)
    # divide out common positive monomial factors so that e.g. (p+n)*w^-1 style numerators are linear
    lin = n.linear()
    if lin is None:
        n2 = _strip_positive_factor(n, positive)
        lin = n2.linear()
        if lin is None:
            raise Undecided("non-linear condition %r %s 0" % (r, op))
    co, c = lin
    if op == "<":
        return ("lin", Lin(co, c, "<"))
    if op == "<=":
        return ("lin", Lin(co, c, "<="))
    if op == "==":
        return ("lin", Lin(co, c, "=="))
    neg = {k: -v for k, v in co.items()}
    if op == ">":
        return ("lin", Lin(neg, -c, "<"))
    if op == ">=":
        return ("lin", Lin(neg, -c, "<="))
    if op == "!=":
        return ("not", ("lin", Lin(co, c, "==")))
    raise Undecided("operator %s" % op)


def _strip_positive_factor(n, positive):
    """if every monomial shares a positive atom factor, divide it out"""
    changed = True
    while changed and n.t:
        changed = False
        common = None
        for k in n.t:
            atoms = {a for a, e in k if a in positive}
            common = atoms if common is None else common & atoms
        for a in sorted(common or ()):
            t = {}
            for k, v in n.t.items():
                d = dict(k)
                d[a] -= 1
                t[tuple(sorted((x, e) for x, e in d.items() if e))] = v
            n = Poly(t)
            changed = True
            break
    return n


def to_formula(c, positive):
    if c is True:
        return ("true",)
    if c is False:
        return ("false",)
    t = c[0]
    if t == "cmp":
        return rat_to_lin(c[1] - c[3], c[2], positive)
    if t == "opaque":
        # an uninterpreted boolean: a 0/1 variable
        return ("lin", Lin({"?" + str(c[1]): 1}, -1, "=="))
    if t == "not" and not isinstance(c[1], bool) and c[1][0] == "opaque":
        return ("lin", Lin({"?" + str(c[1][1]): 1}, 0, "=="))
    if t == "not":
        return f_not(to_formula(c[1], positive))
    if t == "and":
        return f_and(*[to_formula(x, positive) for x in c[1]])
    if t == "or":
        return f_or(*[to_formula(x, positive) for x in c[1]])
    raise Undecided("opaque condition: %s" % (c[1],))


def abs_side_conditions(formula_atoms, positive):
    """for every abs(...) atom occurring: (e>=0 & t==e) | (e<=0 & t==-e)"""
    from .sym import ABS_REG
    side = []
    for a in sorted(formula_atoms):
        if a.startswith("abs(") and a in ABS_REG:
            e = ABS_REG[a]
            t = Rat.atom(a)
            side.append(f_or(
                f_and(rat_to_lin(e, ">=", positive), rat_to_lin(t - e, "==", positive)),
                f_and(rat_to_lin(e, "<=", positive), rat_to_lin(t + e, "==", positive))))
    return side


def _atoms_of(f, acc):
    if f[0] == "lin":
        acc.update(f[1].co.keys())
    elif f[0] in ("and", "or"):
        for g in f[1]:
            _atoms_of(g, acc)
    elif f[0] == "not":
        _atoms_of(f[1], acc)


def conj_formula(conds, positive):
    return f_and(*[to_formula(c, positive) for c in conds])


def feasible_with(conds, domain, positive, int_atoms=None):
    f = conj_formula(conds, positive)
    atoms = set()
    _atoms_of(f, atoms)
    for d in domain:
        atoms.update(d.co.keys())
    side = abs_side_conditions(atoms, positive)
    pos = [Lin({a: -1}, 0, "<") for a in sorted(atoms) if a in positive]
    return sat(f_and(f, *side), list(domain) + pos, int_atoms=int_atoms)


def outcome_equal(a, b):
    if isinstance(a, Rat) and isinstance(b, Rat):
        return a.equals(b)
    if isinstance(a, Rat) and isinstance(b, (int, Fraction)) and not isinstance(b, bool):
        return a.equals(Rat.const(b))
    if isinstance(b, Rat) and isinstance(a, (int, Fraction)) and not isinstance(a, bool):
        return b.equals(Rat.const(a))
    if isinstance(a, Rat) or isinstance(b, Rat):
        return False
    return a == b


def compare_rows(A, B, domain=(), positive=("N",), int_atoms=None, norm=None):
    """A, B: [(conds, outcome)].  None if for every overlapping pair the outcomes agree;
    otherwise a dict describing the first disagreement (with the overlapping region's constraints)."""
    positive = set(positive)
    for ca, oa in A:
        for cb, ob in B:
            if outcome_equal(oa, ob):
                continue
            if norm is not None:
                joint = list(ca) + list(cb)
                if outcome_equal(norm(joint, oa), norm(joint, ob)):
                    continue
            w = feasible_with(list(ca) + list(cb), domain, positive, int_atoms=int_atoms)
            if w is not None:
                from .sym import fmt_conds
                return {"code_conditions": fmt_conds(ca), "code_outcome": repr(oa),
                        "spec_conditions": fmt_conds(cb), "spec_outcome": repr(ob),
                        "overlap": [repr(x) for x in w]}
    return None


def _rename(f, ren):
    if f[0] == "lin":
        l = f[1]
        return ("lin", Lin({ren(k): v for k, v in l.co.items()}, l.c, l.op))
    if f[0] in ("and", "or"):
        return (f[0], [_rename(g, ren) for g in f[1]])
    if f[0] == "not":
        return ("not", _rename(f[1], ren))
    return f


def determined_by(rows, key_atoms, domain=(), positive=("N",), int_atoms=None):
    """is the outcome of the decision table a function of `key_atoms` alone?  None if yes; otherwise a witness: two rows with
    different outcomes that are simultaneously satisfiable by two points agreeing on every key atom (exact, Fourier-Motzkin)."""
    positive = set(positive)
    key_atoms = set(key_atoms)

    def full(conds):
        f = conj_formula(conds, positive)
        atoms = set()
        _atoms_of(f, atoms)
        for d in domain:
            atoms.update(d.co.keys())
        side = abs_side_conditions(atoms, positive)
        pos = [("lin", Lin({a: -1}, 0, "<")) for a in sorted(atoms) if a in positive]
        return f_and(f, *side, *pos, *[("lin", d) for d in domain])

    def ren(a):
        return a if a in key_atoms else a + "'"
    for i, (ca, oa) in enumerate(rows):
        for cb, ob in rows[i + 1:]:
            if outcome_equal(oa, ob):
                continue
            fa = full(ca)
            fb = _rename(full(cb), ren)
            ia = None
            if int_atoms:
                ia = set(int_atoms) | {a + "'" for a in int_atoms}
            w = sat(f_and(fa, fb), [], int_atoms=ia)
            if w is not None:
                from .sym import fmt_conds
                return {"row_a": fmt_conds(ca), "outcome_a": repr(oa), "row_b": fmt_conds(cb), "outcome_b": repr(ob),
                        "agreeing_on": sorted(key_atoms)}
    return None
