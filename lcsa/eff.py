"""EFF / ALIAS / MDEF - side-effect summaries closed over the resolved call graph.

Per function: fields of its receiver that may be written (rebinding or in-place mutation), parameters whose object may be
mutated, module-level objects that may be mutated, fields read, and which mutable things its return value may alias.
Origins of a local value are tracked flow-insensitively:  'self' | 'self.<attr>' | 'param:<p>' | 'global:<rel>:<name>' |
'fresh'.  Writes to fresh objects (constructed in the function) are not effects."""
import ast

from .model import unparse, is_self_attr

MUTATORS = {"append", "extend", "insert", "pop", "remove", "sort", "reverse", "clear", "update", "add", "discard",
            "setdefault", "popitem", "fill", "put", "itemset", "resize", "shuffle_inplace"}
FRESH_CALLS = {"list", "dict", "set", "tuple", "sorted", "str", "int", "float", "len", "range", "abs", "min", "max", "sum",
               "enumerate", "zip", "reversed", "round", "hex", "id", "isinstance", "open", "print", "bool", "map", "filter"}
FRESH_ATTR_CALLS = {"deepcopy", "copy", "join", "upper", "lower", "strip", "split", "keys", "values", "items", "count", "format",
                    "readlines", "replace", "index", "get"}
NUMPY_NAMES = {"np", "numpy", "math", "cp", "copy", "itertools", "rng", "os", "plt", "matplotlib", "time", "t", "sys", "zlib"}


def _none_test(test, params):
    """`p is None` -> 'body' ; `p is not None` -> 'orelse' (the side that runs when p is None), for p in params"""
    if isinstance(test, ast.Compare) and len(test.ops) == 1 and isinstance(test.left, ast.Name) and test.left.id in params \
            and isinstance(test.comparators[0], ast.Constant) and test.comparators[0].value is None:
        if isinstance(test.ops[0], (ast.Is, ast.Eq)):
            return "body"
        if isinstance(test.ops[0], (ast.IsNot, ast.NotEq)):
            return "orelse"
    if isinstance(test, ast.UnaryOp) and isinstance(test.op, ast.Not):
        inner = _none_test(test.operand, params)
        if inner is not None:
            return "orelse" if inner == "body" else "body"
    return None


def _has_none_test(f, p):
    # the parameter must never be rebound, or "was not supplied" says nothing about later tests
    for n in ast.walk(f.node):
        if isinstance(n, (ast.Assign, ast.AugAssign, ast.For, ast.NamedExpr, ast.AnnAssign)):
            ts = n.targets if isinstance(n, ast.Assign) else [n.target]
            if any(isinstance(x, ast.Name) and x.id == p for t in ts for x in ast.walk(t)):
                return False
    return any(isinstance(n, ast.If) and _none_test(n.test, {p}) is not None for n in ast.walk(f.node))


class Summary:
    def __init__(self, f):
        self.f = f
        self.self_writes = {}      # attr -> set(kinds) ; kinds: 'rebind', 'mutate'
        self.self_reads = set()
        self.param_muts = {}       # param -> [where]
        self.global_muts = {}      # (rel, name) -> [where]
        self.returns = set()       # origins the return value may alias
        self.calls = []            # (callee, receiver origins, {formal: origins}, node)
        self.write_sites = {}      # attr -> [(kind, loc)]
        self.unresolved = []


def _list_valued(e):
    """an expression that is certainly a list: a display, a comprehension, list(...)/sorted(...), a list repeated or concatenated"""
    if isinstance(e, (ast.List, ast.ListComp)):
        return True
    if isinstance(e, ast.Call) and isinstance(e.func, ast.Name) and e.func.id in ("list", "sorted"):
        return True
    if isinstance(e, ast.BinOp) and isinstance(e.op, (ast.Mult, ast.Add)):
        return _list_valued(e.left) or _list_valued(e.right)
    return False


class Effects:
    def __init__(self, prog, cut=()):
        """cut: callee keys through which effects are NOT propagated (call edges taken only when an optional argument
        is supplied, e.g. charge_at_pH behind `if pH is not None`)"""
        self.prog = prog
        self.cut = set(cut)
        self.sum = {}
        # second variant per function: the summary of a call that supplies none of the function's optional (default None) arguments -
        # branches guarded by `<param> is not None` are then dead, and so are the calls and writes inside them (FCR() never reaches
        # charge_at_pH; FCR(pH) does).  Call edges pick the variant from the arguments actually passed.
        self.sum0 = {}
        self.opt_params = {}
        for f in prog.all_funcs():
            self.sum[f.key] = self._local(f)
            gp = frozenset(p for p, v in f.defaults().items() if isinstance(v, ast.Constant) and v.value is None)
            gp = frozenset(p for p in gp if _has_none_test(f, p))
            self.opt_params[f.key] = gp
            self.sum0[f.key] = self._local(f, skip=gp) if gp else self.sum[f.key]
        self._close()

    def variant(self, callee_key, passed):
        """summary of callee as called with the given formal names bound explicitly"""
        gp = self.opt_params.get(callee_key, frozenset())
        if gp and not (gp & set(passed)):
            return self.sum0.get(callee_key)
        return self.sum.get(callee_key)

    # ------------------------------------------------------------------ local pass
    def _local(self, f, skip=frozenset()):
        s = Summary(f)
        prog = self.prog
        params = f.params()
        selfname = params[0] if f.cls and params else None
        env0 = {}
        for p in params:
            env0[p] = {"self"} if p == selfname else {"param:" + p}
        types = prog.local_types(f)

        def origins(node, env):
            if isinstance(node, ast.Name):
                if node.id in env:
                    return set(env[node.id])
                g = prog.resolve_global(f.mod, node)
                if g and g[1] in g[0].globals:
                    return {"global:%s:%s" % (g[0].rel, g[1])}
                return {"fresh"}
            if isinstance(node, ast.Attribute):
                g = prog.resolve_global(f.mod, node)
                if g and g[1] in g[0].globals:
                    return {"global:%s:%s" % (g[0].rel, g[1])}
                base = origins(node.value, env)
                out = set()
                for o in base:
                    if isinstance(o, tuple):
                        out.add(o)
                    elif o == "self":
                        out.add("self." + node.attr)
                    elif o.startswith("self.") and o.count(".") < 3:
                        out.add(o + "." + node.attr)
                    else:
                        out.add(o)
                return out or {"fresh"}
            if isinstance(node, ast.Subscript):
                return origins(node.value, env)
            if isinstance(node, ast.Call):
                fn = node.func
                if isinstance(fn, ast.Name) and fn.id in FRESH_CALLS:
                    return {"fresh"}
                if isinstance(fn, ast.Attribute):
                    if isinstance(fn.value, ast.Name) and fn.value.id in NUMPY_NAMES and fn.value.id not in env:
                        # numpy functions that may hand back (a view of) their argument instead of a copy
                        if fn.attr in ("asarray", "asanyarray", "ascontiguousarray", "asfarray", "ravel", "reshape", "squeeze", "atleast_1d", "transpose", "swapaxes") and node.args:
                            return origins(node.args[0], env)
                        if fn.attr == "array" and node.args and any(k.arg == "copy" and isinstance(k.value, ast.Constant) and k.value.value is False for k in node.keywords):
                            return origins(node.args[0], env)
                        return {"fresh"}
                    if fn.attr in ("view", "reshape", "ravel", "squeeze", "transpose", "swapaxes") and not (isinstance(fn.value, ast.Name) and fn.value.id in NUMPY_NAMES):
                        return origins(fn.value, env)
                    if fn.attr in FRESH_ATTR_CALLS:
                        return {"fresh"}
                if prog.class_of_ctor(f.mod, node):
                    return {"fresh"}
                callee = prog.resolve_call(f, node, types)
                if callee is not None:
                    return {("ret", callee.key, id(node))}
                return {"fresh"}
            if isinstance(node, (ast.Tuple, ast.List, ast.Set)):
                out = set()
                for e in node.elts:
                    out |= {o for o in origins(e, env) if o != "fresh"}
                return out or {"fresh"}
            if isinstance(node, ast.IfExp):
                return origins(node.body, env) | origins(node.orelse, env)
            if isinstance(node, ast.BoolOp):
                out = set()
                for v in node.values:
                    out |= origins(v, env)
                return out
            return {"fresh"}

        def record_mut(orig_set, where, attr=None, kind="mutate"):
            for o in orig_set:
                if isinstance(o, tuple):
                    continue
                if o == "self":
                    a = attr if attr is not None else "*"
                    s.self_writes.setdefault(a, set()).add(kind if attr is not None else "mutate")
                    s.write_sites.setdefault(a, []).append((kind, where))
                elif o.startswith("self."):
                    a = o[5:] + ("." + attr if attr is not None else "")
                    s.self_writes.setdefault(a, set()).add(kind if attr is not None else "mutate")
                    s.write_sites.setdefault(a, []).append((kind if attr is not None else "mutate", where))
                elif o.startswith("param:"):
                    s.param_muts.setdefault(o[6:], []).append(where)
                elif o.startswith("global:"):
                    _, rel, name = o.split(":", 2)
                    s.global_muts.setdefault((rel, name), []).append(where)

        def bind(t, orig, env, strong):
            if isinstance(t, ast.Name):
                if strong:
                    env[t.id] = set(orig)
                else:
                    env[t.id] = set(env.get(t.id, set())) | set(orig)
            elif isinstance(t, (ast.Tuple, ast.List)):
                for e in t.elts:
                    bind(e, orig, env, strong)

        def scan_expr(node, env, stmt):
            """effects of the expressions of one statement (not of nested statements)"""
            for n in ast.walk(node):
                if isinstance(n, ast.Call):
                    fn = n.func
                    if isinstance(fn, ast.Attribute) and fn.attr in MUTATORS:
                        if not (isinstance(fn.value, ast.Name) and fn.value.id in NUMPY_NAMES and fn.value.id not in env):
                            record_mut(origins(fn.value, env), f.loc(n))
                    if isinstance(fn, ast.Attribute) and fn.attr == "shuffle" and n.args:
                        record_mut(origins(n.args[0], env), f.loc(n))
                    callee = prog.resolve_call(f, n, types)
                    if callee is not None:
                        recv = origins(fn.value, env) if isinstance(fn, ast.Attribute) and callee.cls \
                            and callee.name != "__init__" else set()
                        if prog.class_of_ctor(f.mod, n):
                            recv = {"fresh"}
                        ps = callee.params()[1:] if callee.cls else callee.params()
                        amap = {}
                        for i, a in enumerate(n.args):
                            if i < len(ps):
                                amap[ps[i]] = origins(a, env)
                        for kw in n.keywords:
                            if kw.arg:
                                amap[kw.arg] = origins(kw.value, env)
                        s.calls.append((callee, recv, amap, n))
                    elif isinstance(fn, ast.Attribute) and isinstance(fn.value, ast.Name) and fn.value.id == selfname:
                        s.unresolved.append(unparse(fn))
                elif isinstance(n, ast.Attribute) and isinstance(n.ctx, ast.Load):
                    if isinstance(n.value, ast.Name) and n.value.id == selfname:
                        s.self_reads.add(n.attr)

        def flow(stmts, env):
            for st in stmts:
                if isinstance(st, (ast.FunctionDef, ast.ClassDef)):
                    flow(st.body, dict(env)) if isinstance(st, ast.FunctionDef) else None
                    continue
                if skip and isinstance(st, ast.If):
                    nt = _none_test(st.test, skip)
                    if nt is not None:
                        # the optional argument was not supplied: only the `is None` side runs
                        live = st.body if nt == "body" else st.orelse
                        flow(live, env)
                        if live and isinstance(live[-1], (ast.Return, ast.Raise)):
                            return          # what follows is reached only when the argument was supplied
                        continue
                if isinstance(st, ast.Assign):
                    scan_expr(st.value, env, st)
                    val = origins(st.value, env)
                    for t in st.targets:
                        for tt in (t.elts if isinstance(t, (ast.Tuple, ast.List)) else [t]):
                            if isinstance(tt, (ast.Attribute, ast.Subscript)):
                                # a local object stored in (or inside a display stored in) a field / a table of the receiver is from now on
                                # reachable from the receiver as well: returning the local afterwards hands out shared storage
                                base = tt if isinstance(tt, ast.Attribute) else tt.value
                                where_to = {o for o in origins(base, env) if isinstance(o, str) and o.startswith("self.")} if isinstance(base, ast.Attribute) else set()
                                if where_to:
                                    stored = [st.value] + (list(st.value.elts) if isinstance(st.value, (ast.Tuple, ast.List)) else [])
                                    for sv in stored:
                                        if isinstance(sv, ast.Name) and sv.id in env and sv.id != selfname and any(o == "fresh" for o in env[sv.id]):
                                            env[sv.id] = set(env[sv.id]) | where_to
                            if isinstance(tt, ast.Attribute):
                                record_mut(origins(tt.value, env), f.loc(st), attr=tt.attr, kind="rebind")
                            elif isinstance(tt, ast.Subscript):
                                scan_expr(tt, env, st)
                                record_mut(origins(tt.value, env), f.loc(st))
                        bind(t, val, env, strong=True)
                elif isinstance(st, ast.AugAssign):
                    scan_expr(st.value, env, st)
                    t = st.target
                    if isinstance(t, ast.Attribute):
                        record_mut(origins(t.value, env), f.loc(st), attr=t.attr, kind="rebind")
                    elif isinstance(t, ast.Subscript):
                        record_mut(origins(t.value, env), f.loc(st))
                    elif isinstance(t, ast.Name):
                        o = env.get(t.id, set())
                        # x += ... mutates in place when x aliases a list; numbers/strings rebind (cannot tell: only
                        # report when the alias is a parameter/field/global AND the right side is a list display)
                        if _list_valued(st.value) and any(
                                not isinstance(x, tuple) and x != "fresh" for x in o):
                            record_mut(o, f.loc(st))
                elif isinstance(st, ast.Return):
                    if st.value is not None:
                        scan_expr(st.value, env, st)
                        s.returns |= origins(st.value, env)
                elif isinstance(st, ast.Expr):
                    scan_expr(st.value, env, st)
                elif isinstance(st, ast.If):
                    scan_expr(st.test, env, st)
                    e1, e2 = dict(env), dict(env)
                    flow(st.body, e1)
                    flow(st.orelse, e2)
                    for k in set(e1) | set(e2):
                        env[k] = set(e1.get(k, set())) | set(e2.get(k, set()))
                elif isinstance(st, (ast.For, ast.While)):
                    if isinstance(st, ast.For):
                        scan_expr(st.iter, env, st)
                        bind(st.target, origins(st.iter, env), env, strong=False)
                    else:
                        scan_expr(st.test, env, st)
                    for _ in range(2):
                        e1 = dict(env)
                        n_calls = len(s.calls)
                        flow(st.body, e1)
                        for k in e1:
                            env[k] = set(env.get(k, set())) | set(e1[k])
                        if _ == 0:
                            del s.calls[n_calls:]
                    flow(st.orelse, env)
                elif isinstance(st, ast.With):
                    for it in st.items:
                        scan_expr(it.context_expr, env, st)
                        if it.optional_vars is not None:
                            bind(it.optional_vars, {"fresh"}, env, strong=True)
                    flow(st.body, env)
                elif isinstance(st, ast.Try):
                    flow(st.body, env)
                    for h in st.handlers:
                        flow(h.body, env)
                    flow(st.orelse, env)
                    flow(st.finalbody, env)
                elif isinstance(st, ast.Global):
                    for n in st.names:
                        s.global_muts.setdefault((f.mod.rel, n), []).append(f.loc(st))
                elif isinstance(st, ast.Delete):
                    for t in st.targets:
                        if isinstance(t, ast.Subscript):
                            record_mut(origins(t.value, env), f.loc(st))
                        elif isinstance(t, ast.Attribute):
                            record_mut(origins(t.value, env), f.loc(st), attr=t.attr, kind="rebind")
                elif isinstance(st, (ast.Raise, ast.Assert)):
                    for ch in ast.iter_child_nodes(st):
                        if isinstance(ch, ast.expr):
                            scan_expr(ch, env, st)
        flow(f.node.body, dict(env0))
        return s

    # ------------------------------------------------------------------ closure
    def _close(self):
        changed = True
        rounds = 0
        while changed and rounds < 30:
            changed = False
            rounds += 1
            every = list({id(x): x for x in list(self.sum.values()) + list(self.sum0.values())}.values())
            for s in every:
                for callee, recv, amap, node in s.calls:
                    cs = self.variant(callee.key, amap)
                    if cs is None or callee.key in self.cut:
                        continue
                    where = s.f.loc(node)
                    # callee's writes to its own receiver
                    for attr, kinds in cs.self_writes.items():
                        for o in recv:
                            if isinstance(o, tuple):
                                continue
                            if o == "self":
                                changed |= self._add_sw(s, attr, kinds, where, via=callee.key)
                            elif o.startswith("self."):
                                changed |= self._add_sw(s, o[5:] + "." + attr, kinds, where, via=callee.key + " on " + o)
                            elif o.startswith("param:"):
                                if where not in s.param_muts.setdefault(o[6:], []):
                                    s.param_muts[o[6:]].append(where)
                                    changed = True
                            elif o.startswith("global:"):
                                _, rel, name = o.split(":", 2)
                                if where not in s.global_muts.setdefault((rel, name), []):
                                    s.global_muts[(rel, name)].append(where)
                                    changed = True
                    # callee mutates one of its parameters
                    for p in cs.param_muts:
                        for o in amap.get(p, ()):  # argument passed explicitly
                            if isinstance(o, tuple):
                                continue
                            if o == "self":
                                changed |= self._add_sw(s, "*", {"mutate"}, where, via=callee.key)
                            elif o.startswith("self."):
                                changed |= self._add_sw(s, o[5:], {"mutate"}, where, via=callee.key)
                            elif o.startswith("param:"):
                                if where not in s.param_muts.setdefault(o[6:], []):
                                    s.param_muts[o[6:]].append(where)
                                    changed = True
                            elif o.startswith("global:"):
                                _, rel, name = o.split(":", 2)
                                if where not in s.global_muts.setdefault((rel, name), []):
                                    s.global_muts[(rel, name)].append(where)
                                    changed = True
                    for g, ws in cs.global_muts.items():
                        if g not in s.global_muts:
                            s.global_muts[g] = ["via " + callee.key + " at " + where]
                            changed = True
                    # reads
                    if "self" in recv:
                        n0 = len(s.self_reads)
                        s.self_reads |= cs.self_reads
                        changed |= len(s.self_reads) != n0
                # resolve ('ret', key) origins in returns
                new = set()
                for o in s.returns:
                    if isinstance(o, tuple):
                        call = next((c for c in s.calls if id(c[3]) == o[2]), None)
                        cs = self.variant(o[1], call[2]) if call is not None else None
                        if cs is None or call is None:
                            continue
                        for r in cs.returns:
                            if isinstance(r, tuple):
                                new.add(o)   # keep until resolved
                                continue
                            if r == "fresh":
                                continue
                            if r == "self" or r.startswith("self."):
                                for ro in call[1]:
                                    if isinstance(ro, tuple):
                                        continue
                                    if ro == "self":
                                        new.add(r)
                                    elif ro.startswith("self."):
                                        new.add(ro if r == "self" else ro + r[4:])
                                    elif ro != "fresh":
                                        new.add(ro)
                            elif r.startswith("param:"):
                                for ao in call[2].get(r[6:], ()):  # aliasing the argument
                                    new.add(ao)
                            else:
                                new.add(r)
                    else:
                        new.add(o)
                if new != s.returns:
                    # only growth of concrete origins counts as change
                    if {x for x in new if not isinstance(x, tuple)} != {x for x in s.returns if not isinstance(x, tuple)}:
                        changed = True
                    s.returns = new | {x for x in s.returns if isinstance(x, tuple)}

    def _add_sw(self, s, attr, kinds, where, via=None):
        cur = s.self_writes.setdefault(attr, set())
        before = len(cur)
        cur |= set(kinds)
        sites = s.write_sites.setdefault(attr, [])
        tag = ("via", "%s (%s)" % (where, via))
        if tag not in sites:
            sites.append(tag)
        return len(cur) != before

    # ------------------------------------------------------------------ queries
    def of(self, rel, qual):
        f = self.prog.fn(rel, qual)
        return self.sum[f.key]

    def receiver_field_writes(self, rel, qual, through_attr=None):
        """fields written on the receiver; with through_attr='SeqObj' the writes the function causes on the
        object stored in self.<through_attr> are reported by their own field names"""
        s = self.of(rel, qual)
        if through_attr is None:
            return dict(s.self_writes)
        out = {}
        for callee, recv, amap, node in s.calls:
            if ("self." + through_attr) in recv:
                cs = self.variant(callee.key, amap)
                if cs:
                    for a, k in cs.self_writes.items():
                        out.setdefault(a, set()).update(k)
        if through_attr in s.self_writes:
            out.setdefault("<" + through_attr + " itself>", set()).update(s.self_writes[through_attr])
        return out
