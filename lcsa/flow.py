"""FLOW - a syntax-directed, flow-sensitive typestate walk over one function body.

The abstract state is any hashable value; `step(node, state) -> state` is called for every simple statement and for the header
expression of every compound statement, in execution order.  Branch conditions are not interpreted (both arms are taken), loops
are iterated to a fixpoint over the finite set of states, `break`/`continue`/`return`/`raise` are followed, `try` handlers start
from every state the body can be in.  The walk answers questions of the form "on some path, is <event B> executed in state
<after event A>?" (ordering, pairing, must-pass-through on every path to an exit)."""
import ast


class Exit:
    __slots__ = ("kind", "node", "state")

    def __init__(self, kind, node, state):
        self.kind, self.node, self.state = kind, node, state


def run(body, init, step, max_states=64):
    """-> (fallthrough states, [Exit]) ; Exit.kind in {'return', 'raise'} ; falling off the end is reported as fallthrough"""
    exits = []
    loops = []       # stack of [break states, continue states]

    def block(stmts, states):
        for s in stmts:
            if not states:
                break
            states = stmt(s, states)
            if len(states) > max_states:
                raise OverflowError("too many abstract states")
        return states

    def stmt(s, states):
        if isinstance(s, (ast.FunctionDef, ast.AsyncFunctionDef, ast.ClassDef)):
            return states
        if isinstance(s, ast.If):
            st = {step(s.test, x) for x in states}
            return block(s.body, set(st)) | block(s.orelse, set(st))
        if isinstance(s, (ast.For, ast.While)):
            hdr = s.iter if isinstance(s, ast.For) else s.test
            out, seen, work = set(), set(), set(states)
            loops.append([set(), set()])
            while work:
                st = {step(hdr, x) for x in work}
                seen |= work
                out |= st                                   # the loop may stop here
                after = block(s.body, set(st)) | loops[-1][1]
                loops[-1][1] = set()
                work = after - seen
            brk = loops.pop()[0]
            return block(s.orelse, out) | brk if s.orelse else out | brk
        if isinstance(s, ast.Break):
            loops[-1][0] |= states
            return set()
        if isinstance(s, ast.Continue):
            loops[-1][1] |= states
            return set()
        if isinstance(s, ast.Return):
            for x in states:
                exits.append(Exit("return", s, step(s, x)))
            return set()
        if isinstance(s, ast.Raise):
            for x in states:
                exits.append(Exit("raise", s, step(s, x)))
            return set()
        if isinstance(s, ast.Try):
            n0 = len(exits)
            body_out = block(s.body, set(states))
            # a handler may start from the entry state or from any state reached inside the body (over-approximated by entry + exit
            # states + the states of raises inside the body)
            inside = set(states) | body_out | {e.state for e in exits[n0:] if e.kind == "raise"}
            caught = set()
            if s.handlers:
                # explicit raises in the body are (possibly) caught: keep them as exits only when no bare/Exception handler exists
                broad = any(h.type is None or (isinstance(h.type, ast.Name) and h.type.id in ("Exception", "BaseException")) for h in s.handlers)
                if broad:
                    exits[n0:] = [e for e in exits[n0:] if e.kind != "raise"]
                for h in s.handlers:
                    caught |= block(h.body, set(inside))
            res = block(s.orelse, body_out) if s.orelse else body_out
            res = res | caught
            if s.finalbody:
                res = block(s.finalbody, res)
            return res
        if isinstance(s, (ast.With, ast.AsyncWith)):
            st = set(states)
            for it in s.items:
                st = {step(it.context_expr, x) for x in st}
            return block(s.body, st)
        if isinstance(s, ast.Match):
            st = {step(s.subject, x) for x in states}
            out = set(st)
            for c in s.cases:
                out |= block(c.body, set(st))
            return out
        return {step(s, x) for x in states}

    return block(list(body), {init}), exits


def calls_in(node):
    """Call nodes of a simple statement / header expression, innermost first (evaluation order is irrelevant to the clients)"""
    return [n for n in ast.walk(node) if isinstance(n, ast.Call)]


def _is_self_field(n, fld):
    return isinstance(n, ast.Attribute) and isinstance(n.value, ast.Name) and n.value.id == "self" and (n.attr == fld or fld.endswith("__" + n.attr.lstrip("_")) or n.attr.endswith("__" + fld.lstrip("_")))


def used_before_assigned(fnode_body, fld):
    """first use (load, or in-place method call) of self.<fld> that some path reaches before this call has executed a plain `self.<fld> = <expr not
    reading it>`; None if every use is preceded by such an assignment.  (Private-name mangling: __x and _Cls__x are the same field.)"""
    hit = []

    def uses(node):
        for n in ast.walk(node):
            if _is_self_field(n, fld) and isinstance(n.ctx, ast.Load):
                return n
        return None

    def step(node, st):
        if st == "unset":
            if isinstance(node, ast.Assign) and any(_is_self_field(t, fld) for t in node.targets) and uses(node.value) is None:
                return "set"
            u = uses(node)
            if u is not None:
                hit.append(u)
        return st
    run(fnode_body, "unset", step)
    return hit[0] if hit else None


def local_read_before_assigned(body, name):
    """can some path through `body` (one iteration of a loop, say) read the local `name` before it has assigned it?  Such a name carries
    its value from the previous iteration; one that is always assigned first is a temporary"""
    hit = []

    def step(node, st):
        if st == "set":
            return st
        loads = [n for n in ast.walk(node) if isinstance(n, ast.Name) and n.id == name and isinstance(n.ctx, ast.Load)]
        stores = [n for n in ast.walk(node) if isinstance(n, ast.Name) and n.id == name and isinstance(n.ctx, ast.Store)]
        if loads or (isinstance(node, ast.AugAssign) and stores):
            hit.append(node)
            return st
        if stores:
            return "set"
        return st
    try:
        # the statements are a loop body: `continue` / `break` need their loop
        wrapper = ast.While(test=ast.Constant(value=True), body=list(body), orelse=[])
        run([wrapper], "unset", step)
    except OverflowError:
        return True
    return bool(hit)
