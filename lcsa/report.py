"""Verdict plumbing: obligations, violations, known findings, evidence, exit codes."""
import json
import os
import re
import sys
import time

from .model import Undecided

VERIF = os.path.dirname(os.path.dirname(os.path.abspath(__file__)))
KNOWN_PATH = os.path.join(VERIF, "KNOWN_FINDINGS.json")


def _slug(s):
    return re.sub(r"[^A-Za-z0-9_.-]+", "_", s)[:120]


class Checker:
    def __init__(self, pid, tier="quick", root="/repo", seed=0, level="other", evidence_dir=None,
                 quiet=False):
        self.pid = pid
        self.tier = tier
        self.root = root
        self.seed = seed
        self.level = level
        self.t0 = time.time()
        self.obligations = []      # dicts
        self.violations = []
        self.infos = []
        self.floors = []
        self.analysed = {}         # free-form counters
        self.samples = []
        self.assumptions = []
        self.trusted = ["CPython ast (pinned interpreter)", "lcsa engines", "lemmas of DESIGN.md section 4"]
        self.explanation = ""
        self.extra = {}
        self.evidence_dir = evidence_dir or os.path.join(VERIF, "evidence")
        self.quiet = quiet
        self.undecided = None
        self.deferred = []

    # -- recording -----------------------------------------------------------
    def say(self, msg):
        if not self.quiet:
            print("%s %s" % (self.pid, msg))

    def count(self, key, n=1):
        self.analysed[key] = self.analysed.get(key, 0) + n

    def ob(self, rule, construct, ok, expected=None, found=None, slot="", where=None, note=""):
        """one obligation: (rule, construct, slot) with its expected/found pair"""
        rec = {"rule": rule, "construct": construct, "slot": slot,
               "expected": _j(expected), "found": _j(found), "ok": bool(ok)}
        if where:
            rec["where"] = where
        if note:
            rec["note"] = note
        self.obligations.append(rec)
        if not ok:
            self.violations.append(rec)
        return bool(ok)

    def shape(self, cond, what, where=None):
        """a precondition of a structural rule: the construct has the shape the extractor understands.  If it does not, the
        rule cannot be evaluated - that is 'undecided', never a violation (an equivalent rewrite must not raise an alarm)"""
        if not cond:
            raise Undecided("unrecognised shape: " + what, where)
        return True

    def attempt(self, fn, *args, **kw):
        """run one group of obligations; an Undecided in it is deferred so that violations found by the other
        groups are still reported (a violation outranks 'cannot decide' elsewhere)"""
        try:
            return fn(*args, **kw)
        except Undecided as e:
            self.deferred.append(e)
            self.say("DEFER  undecided in %s: %s" % (getattr(fn, "__name__", "?"), e))
            return None
        except Exception as e:     # analyser failure inside one group: undecided for that group, never a verdict
            u = Undecided("analyser failure in %s: %s: %s" % (getattr(fn, "__name__", "?"), type(e).__name__, str(e)[:200]))
            self.deferred.append(u)
            self.say("DEFER  %s" % u)
            return None

    def fresh_violations(self):
        """violations that are not listed (open) in KNOWN_FINDINGS.json"""
        return [v for v in self.violations if self._is_known(v) is None]

    def raise_deferred(self):
        if self.deferred and not self.fresh_violations():
            raise self.deferred[0]

    def info(self, msg):
        self.infos.append(msg)
        self.say("INFO   " + msg)

    def floor(self, name, found, minimum):
        self.floors.append({"name": name, "found": found, "min": minimum})
        if found < minimum and not self.fresh_violations():
            raise Undecided("instance floor not met for %s: found %d < %d confirmed by hand "
                            "(a rule matching too few sites must not pass vacuously)" % (name, found, minimum))

    def sample(self, s):
        if len(self.samples) < 12:
            self.samples.append(_j(s))

    # -- known findings ------------------------------------------------------
    @staticmethod
    def load_known():
        if not os.path.exists(KNOWN_PATH):
            return []
        with open(KNOWN_PATH) as fh:
            return json.load(fh).get("findings", [])

    def _is_known(self, v):
        for k in self.load_known():
            if k.get("status") != "open":
                continue   # fixed entries suppress nothing
            if k.get("property") == self.pid and k.get("rule") == v["rule"] \
                    and k.get("construct") == v["construct"] and k.get("slot", "") == v.get("slot", ""):
                return k
        return None

    # -- finishing -----------------------------------------------------------
    def finish(self):
        wall = time.time() - self.t0
        known, fresh = [], []
        seen = set()
        for v in self.violations:
            key = (v["rule"], v["construct"], v.get("slot", ""))
            if key in seen:
                continue
            seen.add(key)
            k = self._is_known(v)
            (known if k else fresh).append((v, k))
        for v, k in known:
            print("KNOWN-FINDING: property=%s %s %s %s" % (self.pid, v["rule"], v["construct"], k.get("what", "")))
        replay_paths = []
        if fresh:
            rdir = os.path.join(self.evidence_dir, "replay")
            os.makedirs(rdir, exist_ok=True)
            for v, _ in fresh:
                rp = os.path.join(rdir, "%s-%s-%s%s.json" % (
                    self.pid, _slug(v["rule"]), _slug(v["construct"]),
                    ("-" + _slug(v["slot"])) if v.get("slot") else ""))
                with open(rp, "w") as fh:
                    json.dump({"property": self.pid, "root": self.root, "tier": self.tier,
                               "finding": v}, fh, indent=1)
                replay_paths.append(rp)
                print("VIOLATION property=%s replay=%s" % (self.pid, rp))
                print("  rule=%s construct=%s%s" % (v["rule"], v["construct"],
                                                     (" slot=" + v["slot"]) if v.get("slot") else ""))
                if v.get("where"):
                    print("  at %s" % v["where"])
                print("  expected: %s" % json.dumps(v["expected"])[:600])
                print("  found:    %s" % json.dumps(v["found"])[:600])
                if v.get("note"):
                    print("  note: %s" % v["note"])
        n_ob = len(self.obligations)
        n_ok = sum(1 for o in self.obligations if o["ok"])
        distinct = len({(o["rule"], o["construct"], o["slot"]) for o in self.obligations
                        if o["expected"] is not None or o["found"] is not None})
        samples = list(self.samples)
        if not samples:
            step = max(1, n_ob // 6)
            samples = [self.obligations[i] for i in range(0, n_ob, step)][:8]
        cov = {
            "obligations": n_ob,
            "discharged": n_ok + 0,
            "evaluations": max(n_ob, 1),
            "distinct_nontrivial": distinct,
            "rule": "one case = one obligation (rule, construct, slot) extracted from the current source and "
                    "compared with the specification; non-trivial = touches a repository construct and has a "
                    "non-empty expected or found side; distinct by (rule, construct, slot)",
            "samples": samples if samples else [{"note": "no obligations"}],
            "checker_cmd": "./check %s --tier %s" % (self.pid, self.tier),
            "trusted_base": self.trusted,
            "explanation": self.explanation,
            "analysed": self.analysed,
            "rules_applied": {r: sum(1 for o in self.obligations if o["rule"] == r) for r in sorted({o["rule"] for o in self.obligations})},
            "constructs": sorted({o["construct"] for o in self.obligations})[:60],
            "floors": self.floors,
            "infos": self.infos[:40],
            "known_findings_reported": [v["rule"] + " " + v["construct"] for v, _ in known],
            "exhaustive": bool(self.extra.get("exhaustive", False)),
        }
        for k, v in self.extra.items():
            if k != "exhaustive":
                cov[k] = v
        ev = {"property_id": self.pid, "tier": self.tier, "seed": int(self.seed), "level": self.level,
              "coverage": cov, "assumptions": self.assumptions, "wall_s": round(wall, 3),
              "violations": len(fresh)}
        os.makedirs(self.evidence_dir, exist_ok=True)
        with open(os.path.join(self.evidence_dir, self.pid + ".json"), "w") as fh:
            json.dump(ev, fh, indent=1, sort_keys=True)
        self.say("obligations=%d discharged=%d known=%d violations=%d wall=%.2fs" % (
            n_ob, n_ok, len(known), len(fresh), wall))
        return 1 if fresh else 0


def _j(x):
    """make JSON-friendly"""
    from fractions import Fraction
    if x is None or isinstance(x, (bool, int, str)):
        return x
    if isinstance(x, float):
        return x
    if isinstance(x, Fraction):
        return str(x)
    if isinstance(x, dict):
        return {str(k): _j(v) for k, v in x.items()}
    if isinstance(x, (set, frozenset)):
        try:
            return sorted(_j(v) for v in x)
        except TypeError:
            return sorted((_j(v) for v in x), key=str)
    if isinstance(x, (list, tuple)):
        return [_j(v) for v in x]
    return str(x)
