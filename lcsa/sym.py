"""ALG/DT/FOLD - a path-enumerating evaluator that maps localCIDER's numerical methods (and the
reference definitions in /verif/spec/reference.py, which are parsed, never executed) to the same
normal forms:

 * numbers      -> rational functions over named atoms (alg.Rat), decimal literals read exactly
 * element loop -> finite case split over the 20 letters; the result is a linear form over the
                   composition atoms cnt[A]..cnt[Y] (a commutative fold by construction)
 * window loop  -> one symbolic iteration over a generic index @i; the result is a window-sum or a
                   profile object keyed by (domain, window, piecewise term)
 * branches     -> path split; a function becomes a decision table [(conditions, outcome)]

Anything outside the recognised idioms raises Undecided (exit 2), never a verdict."""
import ast
from fractions import Fraction

from .alg import Poly, Rat
from .model import Undecided, const_number, unparse, is_self_attr
from . import tab

LETTERS = "ACDEFGHIKLMNPQRSTVWY"
MAX_PATHS = 400
MAX_DEPTH = 8


# ------------------------------------------------------------------------- values
class SeqV:
    """a vector indexed by residue position: the sequence string, the charge pattern, or a
    per-residue map of it (elkey names the per-letter table in Evaluator.eltables)"""

    def __init__(self, kind, elkey=None):
        self.kind = kind        # 'seq' | 'cp' | 'map'
        self.elkey = elkey

    def key(self):
        return self.kind if self.kind != "map" else "map:" + self.elkey

    def __repr__(self):
        return "SeqV(%s)" % self.key()


class WinV:
    def __init__(self, base, lo, hi):
        self.base, self.lo, self.hi = base, lo, hi

    def __repr__(self):
        return "WinV(%s[%r:%r])" % (self.base.key(), self.lo, self.hi)


class MaskV:
    def __init__(self, base, op):
        self.base, self.op = base, op      # base: SeqV | WinV ; op in '>0','<0','==0'


class WhereV:
    def __init__(self, mask):
        self.mask = mask


class IdxV:
    def __init__(self, mask):
        self.mask = mask


class ObjV:
    def __init__(self, cls, fields=None):
        self.cls = cls
        self.fields = fields or {}

    def __repr__(self):
        return "ObjV(%s)" % self.cls


class ZerosV:
    """[0]*n awaiting indexed stores"""

    def __init__(self, n):
        self.n = n
        self.stores = []     # (idx Rat, conds, value)


class ProfileV:
    """values[i] for i in [lo,hi) over windows [wlo(i),whi(i)) ; pieces = [(conds, Rat)]"""

    def __init__(self, n, lo, hi, pieces, window):
        self.n, self.lo, self.hi, self.pieces, self.window = n, lo, hi, pieces, window


class ConcatV:
    def __init__(self, parts):
        self.parts = parts


class RepV:
    """[c]*n"""

    def __init__(self, value, n):
        self.value, self.n = value, n


class ARangeV:
    def __init__(self, lo, hi):
        self.lo, self.hi = lo, hi


class VStackV:
    def __init__(self, rows):
        self.rows = rows


class StrMapV:
    """a string with one character per residue: residue letter -> output text (identity for the sequence itself)"""

    def __init__(self, table):
        self.table = dict(table)

    def __repr__(self):
        return "StrMapV(%s)" % "".join("%s>%s " % kv for kv in sorted(self.table.items()))


class AStr:
    """an unknown string, tracked by the expression that produced it"""

    def __init__(self, tag):
        self.tag = tag

    def __repr__(self):
        return "AStr(%s)" % self.tag

    def __eq__(self, o):
        return isinstance(o, AStr) and o.tag == self.tag

    def __hash__(self):
        return hash(self.tag)


def astr_cat(a, b):
    ta = a.tag if isinstance(a, AStr) else repr(a)
    tb = b.tag if isinstance(b, AStr) else repr(b)
    if isinstance(a, str) and a == "":
        return b
    if isinstance(b, str) and b == "":
        return a
    return AStr("(%s + %s)" % (ta, tb))


def astr_fmt(fmt, parts):
    return AStr("fmt(%r|%s)" % (fmt, "|".join(x.tag if isinstance(x, AStr) else repr(x) for x in parts)))


class RLEV:
    """run-length string: sequence of (character, multiplicity as Rat) blocks"""

    def __init__(self, blocks):
        out = []
        for ch, k in blocks:
            if isinstance(k, Rat) and k.is_const() and k.const_value() == 0:
                continue
            if out and out[-1][0] == ch:
                out[-1] = (ch, out[-1][1] + k)
            else:
                out.append((ch, k))
        self.blocks = out

    def length(self):
        t = Rat.const(0)
        for _, k in self.blocks:
            t = t + k
        return t

    def __repr__(self):
        return "RLE(" + " ".join("%s^[%r]" % b for b in self.blocks) + ")"


def _to_rle(v):
    if isinstance(v, RLEV):
        return v
    if isinstance(v, str):
        blocks = [(c, Rat.const(1)) for c in v]
        return RLEV(blocks)
    return None


class ArrV:
    """an array/list of unknown numeric content, e.g. the Wang-Landau g and H vectors; element reads are function
    atoms, element stores are recorded on the path (env key '@store:<name>')"""

    def __init__(self, name):
        self.name = name

    def __repr__(self):
        return "ArrV(%s)" % self.name


class PaletteV:
    """an unknown mapping residue -> text (the colour palette)"""

    def __init__(self, name):
        self.name = name


class FieldListV:
    """a list-valued field of the receiver whose content is unknown (e.g. self.phosphosites)"""

    def __init__(self, name):
        self.name = name

    def __repr__(self):
        return "FieldListV(%s)" % self.name


class AChar:
    def __init__(self, tag):
        self.tag = tag


class ListAcc:
    """a list being built by append in an element loop"""

    def __init__(self, items=None):
        self.items = list(items or [])


class UnknownV:
    def __init__(self, why=""):
        self.why = why

    def __repr__(self):
        return "Unknown(%s)" % self.why


class Path:
    def __init__(self, conds, kind, value, env):
        self.conds, self.kind, self.value, self.env = conds, kind, value, env

    def __repr__(self):
        return "Path(%s, %s, %r)" % (fmt_conds(self.conds), self.kind, self.value)


class _Signal(Exception):
    pass


# ------------------------------------------------------------------------- conditions
# cond: ('cmp', Rat, op, Rat) | ('not', c) | ('and', [c]) | ('or', [c]) | ('opaque', text)
def c_not(c):
    if isinstance(c, bool):
        return not c
    if c[0] == "not":
        return c[1]
    if c[0] == "cmp":
        inv = {"<": ">=", "<=": ">", ">": "<=", ">=": "<", "==": "!=", "!=": "=="}
        return ("cmp", c[1], inv[c[2]], c[3])
    return ("not", c)


def fmt_cond(c):
    if isinstance(c, bool):
        return str(c)
    if c[0] == "cmp":
        return "%r %s %r" % (c[1], c[2], c[3])
    if c[0] == "not":
        return "not(%s)" % fmt_cond(c[1])
    if c[0] in ("and", "or"):
        return "(" + (" %s " % c[0]).join(fmt_cond(x) for x in c[1]) + ")"
    return str(c[1])


def fmt_conds(cs):
    return " & ".join(fmt_cond(c) for c in cs) or "true"


def extend_conds(conds, new):
    """conds + new with duplicates dropped; None if a condition contradicts an earlier one syntactically"""
    out = list(conds)
    keys = {fmt_cond(c) for c in out}
    for c in new:
        if c is True:
            continue
        if c is False:
            return None
        k = fmt_cond(c)
        if k in keys:
            continue
        if fmt_cond(c_not(c)) in keys:
            return None
        keys.add(k)
        out.append(c)
    return out


# ------------------------------------------------------------------------- evaluator
class Evaluator:
    def __init__(self, prog, positive=("N",), self_cls="Sequence"):
        self.prog = prog
        self.positive = set(positive)      # atoms known > 0 (used to clear denominators in conditions)
        self.eltables = {}                 # elkey -> {letter: Fraction}
        self.wsums = []                    # registry of window sums / pair sums: dicts
        self.terms = []                    # registry of opaque per-residue terms (Rat)
        self.int_atoms = set()             # atoms known to be non-negative integers (parity analysis)
        self.pos_int_atoms = set()         # ... of those, the ones known to be >= 1
        self.universe = LETTERS            # characters an element of the sequence string may be
        self.model_ctors = False           # model ClassName(...) as an object value carrying its arguments
        self.extern_calls = {}             # unparse(func) -> callable(node, [arg values]) for calls outside the package
        self.skip_calls = set()            # method / function names whose call statements are ignored (logging)
        self.arange_as_index = False       # np.arange(a, b) -> one generic index atom @k (range recorded in self.aranges)
        self.aranges = []
        self.decorators_ok = set()         # keys of decorated functions whose wrapper was shown to be transparent
        self.last_loop = None              # summary of the most recent element loop (raises per character)
        self._global_cache = {}
        self._global_busy = set()
        self.opaque_calls = {}             # FuncInfo.key -> atom name (do not inline)
        self.trace = []                    # loop summaries for evidence
        self.self_cls = self_cls
        self._lkup = None
        self.field_atoms = True

    # --- element tables -----------------------------------------------------
    def elkey_for(self, table):
        """content-addressed name of a per-letter table {letter: Fraction}"""
        items = tuple(sorted((k, Fraction(v)) for k, v in table.items()))
        for k, t in self.eltables.items():
            if tuple(sorted(t.items())) == items:
                return k
        k = "T%d" % len(self.eltables)
        self.eltables[k] = dict(items)
        return k

    # --- objects --------------------------------------------------------------
    def seq_object(self):
        return ObjV("Sequence")

    def lkup_object(self):
        if self._lkup is None:
            try:
                t = tab.restable_tables(self.prog)
            except Undecided as first:
                # not the loop-and-store idiom TAB reads: the constructor is executed over the (folded) data tables instead
                try:
                    self._lkup = self._lkup_concrete()
                except Undecided as e:
                    raise Undecided("%s; executing the constructor: %s" % (first.msg if hasattr(first, "msg") else first, e.msg if hasattr(e, "msg") else e), getattr(e, "where", None))
                return self._lkup
            rows, keycol = t["_rows"], t["_keycol"]
            fields = t["_fields"]
            p2col = t["_p2col"]
            table = {}
            for r in rows:
                obj = {}
                for fld, src in fields.items():
                    if isinstance(src, dict):
                        obj[fld] = {mk: _num(r[p2col[p]]) for mk, p in src.items()}
                    else:
                        obj[fld] = _num(r[p2col[src]])
                table[r[keycol]] = ObjV("Residue", obj)
            self._lkup = ObjV("ResTable", {"residue_table": table})
            # whatever else the constructor keeps on the object (an index from codes to keys, say): its remaining statements are
            # evaluated with the table in place
            extra = t.get("_extra_stmts") or []
            if extra:
                f = self.prog.fn(tab.RT, "ResTable.__init__")
                fr = _Frame(f, 0)
                env = {f.params()[0]: self._lkup}
                for k, v in self._lkup.fields.items():
                    env["@self." + k] = v
                res = self.exec_block(extra, [Path([], "live", None, env)], fr)
                live = [p for p in res if p.kind == "live"]
                if len(live) != 1:
                    raise Undecided("ResTable.__init__: statements besides the table loop do not reduce to one path", f.loc())
                for k, v in live[0].env.items():
                    if k.startswith("@self.") and k[6:] not in self._lkup.fields:
                        self._lkup.fields[k[6:]] = v
        return self._lkup

    def construct(self, init, bound, fr, node=None):
        """execute a constructor whose arguments are concrete: the object is the fields it stored (one non-raising path)"""
        obj = ObjV(init.cls, {})
        paths = self.run_function(init, bound, obj, fr.depth + 1 if fr is not None else 0)
        done = [p for p in paths if p.kind != "raise"]
        if len(done) != 1 or done[0].conds or len(paths) != 1:
            raise Undecided("%s.__init__ does not reduce to one path on these arguments" % init.cls, init.loc())
        for k, v in done[0].env.items():
            if k.startswith("@self."):
                obj.fields[k[6:]] = v
        return obj

    def _lkup_concrete(self):
        """the residue table object by executing ResTable.__init__ (no arguments) over the folded data tables"""
        init = self.prog.fn(tab.RT, "ResTable.__init__")
        if [p for p in init.params()[1:] if p not in init.defaults()]:
            raise Undecided("ResTable.__init__ takes arguments", init.loc())
        obj = self.construct(init, {}, None)
        table = obj.fields.get("residue_table")
        if not (isinstance(table, dict) and table and all(isinstance(v, ObjV) and v.cls == "Residue" for v in table.values())):
            raise Undecided("ResTable.__init__ does not leave a residue_table of Residue objects", init.loc())
        return obj

    # --- entry points ---------------------------------------------------------
    def run_function(self, f, args=None, self_obj=None, depth=0, conds=None):
        """-> list of Path (kind return/raise/fall)"""
        if depth > MAX_DEPTH:
            raise Undecided("inlining depth exceeded", f.loc())
        if f.opaque_decorators() and f.key not in self.decorators_ok and f.key not in DECORATORS_OK:
            raise Undecided("%s is decorated (%s): its body is not what a call executes" % (
                f.qual, ", ".join(unparse(d) for d in f.opaque_decorators())), f.loc())
        env = {}
        params = f.params()
        args = dict(args or {})
        if f.cls:
            env[params[0]] = self_obj if self_obj is not None else ObjV(f.cls)
            params = params[1:]
        defaults = f.defaults()
        if f.node.args.kwarg is not None:
            kwn = f.node.args.kwarg.arg
            env[kwn] = args.pop(kwn) if kwn in args else {}
        for p in params:
            if p in args:
                env[p] = args.pop(p)
            elif p in defaults:
                env[p] = self.eval(defaults[p], {}, _Frame(f, depth))
            else:
                raise Undecided("parameter %s of %s not bound" % (p, f.qual), f.loc())
        if args:
            raise Undecided("unexpected arguments %s for %s" % (sorted(args), f.qual), f.loc())
        fr = _Frame(f, depth)
        paths = self.exec_block(f.body(), [Path(list(conds or []), "live", None, env)], fr)
        out = []
        for p in paths:
            if p.kind == "live":
                p = Path(p.conds, "return", None, p.env)
            out.append(p)
        return out

    # --- statements -----------------------------------------------------------
    def exec_block(self, stmts, paths, fr):
        for s in stmts:
            new = []
            for p in paths:
                if p.kind != "live":
                    new.append(p)
                    continue
                try:
                    new.extend(self.exec_stmt(s, p, fr))
                except _Raised as r:
                    new.append(Path(p.conds, "raise", r.name, p.env))
            paths = new
            if len(paths) > MAX_PATHS:
                raise Undecided("too many paths", fr.f.loc(s))
        return paths

    def exec_stmt(self, s, p, fr):
        env = p.env
        if isinstance(s, ast.Expr):
            if isinstance(s.value, ast.Constant):
                return [p]
            if isinstance(s.value, ast.Call):
                return self.exec_call_stmt(s.value, p, fr)
            return [p]
        if isinstance(s, ast.Pass):
            return [p]
        if isinstance(s, ast.Assign):
            if len(s.targets) != 1:
                raise Undecided("chained assignment", fr.f.loc(s))
            t0 = s.targets[0]
            if isinstance(t0, ast.Subscript) and isinstance(t0.slice, ast.Slice) and isinstance(t0.value, ast.Name) and isinstance(env.get(t0.value.id), ZerosV) \
                    and not env[t0.value.id].stores and t0.slice.step is None:
                return self.exec_slice_store(s, t0, p, fr)
            outs = []
            for conds, val in self.eval_paths(s.value, p, fr):
                if isinstance(val, _Raised):
                    outs.append(Path(conds, "raise", val.name, env))
                    continue
                e2 = dict(env)
                self.assign(s.targets[0], val, e2, fr, conds)
                outs.append(Path(conds, "live", None, e2))
            return outs
        if isinstance(s, ast.AugAssign):
            cur = ast.BinOp(left=_load(s.target), op=s.op, right=s.value)
            ast.copy_location(cur, s)
            ast.fix_missing_locations(cur)
            outs = []
            for conds, val in self.eval_paths(cur, p, fr):
                if isinstance(val, _Raised):
                    outs.append(Path(conds, "raise", val.name, env))
                    continue
                e2 = dict(env)
                self.assign(s.target, val, e2, fr, conds)
                outs.append(Path(conds, "live", None, e2))
            return outs
        if isinstance(s, ast.Return):
            if s.value is None:
                return [Path(p.conds, "return", None, env)]
            return [Path(c, "raise", v.name, env) if isinstance(v, _Raised) else Path(c, "return", v, env)
                    for c, v in self.eval_paths(s.value, p, fr)]
        if isinstance(s, ast.Raise):
            name = "raise"
            if s.exc is not None:
                e = s.exc.func if isinstance(s.exc, ast.Call) else s.exc
                name = unparse(e)
            return [Path(p.conds, "raise", name, env)]
        if isinstance(s, ast.If):
            outs = []
            for conds, c in self.eval_cond_paths(s.test, p, fr):
                base = Path(conds, "live", None, dict(env))
                if c is True:
                    outs.extend(self.exec_block(s.body, [base], fr))
                elif c is False:
                    outs.extend(self.exec_block(s.orelse, [base], fr))
                else:
                    ct = extend_conds(conds, [c])
                    ce = extend_conds(conds, [c_not(c)])
                    if ct is not None:
                        outs.extend(self.exec_block(s.body, [Path(ct, "live", None, dict(env))], fr))
                    if ce is not None:
                        outs.extend(self.exec_block(s.orelse, [Path(ce, "live", None, dict(env))], fr))
            return outs
        if isinstance(s, ast.For):
            return self.exec_for(s, p, fr)
        if isinstance(s, ast.Continue):
            return [Path(p.conds, "continue", None, env)]
        if isinstance(s, ast.Break):
            return [Path(p.conds, "break", None, env)]
        if isinstance(s, ast.Assert):
            return [p]
        if isinstance(s, ast.Try):
            if s.finalbody:
                raise Undecided("try/finally not modelled", fr.f.loc(s))
            outs = []
            for q in self.exec_block(s.body, [p], fr):
                if q.kind != "raise":
                    if s.orelse and q.kind == "live":
                        outs.extend(self.exec_block(s.orelse, [q], fr))      # the else clause runs when the body raised nothing
                    else:
                        outs.append(q)
                    continue
                handled = False
                for h in s.handlers:
                    names = []
                    if h.type is None:
                        names = None
                    elif isinstance(h.type, ast.Tuple):
                        names = [unparse(e) for e in h.type.elts]
                    else:
                        names = [unparse(h.type)]
                    if names is None or q.value in names or "Exception" in (names or []):
                        e2 = dict(q.env)
                        if h.name:
                            e2[h.name] = UnknownV("exception object")
                        outs.extend(self.exec_block(h.body, [Path(q.conds, "live", None, e2)], fr))
                        handled = True
                        break
                if not handled:
                    outs.append(q)
            return outs
        raise Undecided("statement kind %s not modelled" % type(s).__name__, fr.f.loc(s))

    def exec_slice_store(self, s, t0, p, fr):
        """zeros[lo:hi] = <per-window values>: the array becomes zeros(lo) + values + zeros(n - hi) when the lengths agree, a ValueError when
        they provably do not.  An upper bound written `-b` is n - b for b > 0 and 0 for b == 0 (numpy/python slicing): both cases are followed"""
        env = p.env
        z = env[t0.value.id]
        n = z.n
        lo = _as_rat(self.eval(t0.slice.lower, env, fr)) if t0.slice.lower is not None else Rat.const(0)
        if lo is None:
            raise Undecided("slice store with a non-numeric lower bound", fr.f.loc(s))
        up = t0.slice.upper
        cases = []           # (extra conds, hi)
        if up is None:
            cases.append(([], n))
        elif isinstance(up, ast.UnaryOp) and isinstance(up.op, ast.USub):
            b = _as_rat(self.eval(up.operand, env, fr))
            if b is None:
                raise Undecided("slice store with a non-numeric upper bound", fr.f.loc(s))
            if b.is_const():
                c = b.const_value()
                cases.append(([], Rat.const(0) if c == 0 else (n - b if c > 0 else Rat.const(-c))))
            else:
                cases.append(([("cmp", b, "==", Rat.const(0))], Rat.const(0)))
                cases.append(([("cmp", b, ">", Rat.const(0))], n - b))
                cases.append(([("cmp", b, "<", Rat.const(0))], None))
        else:
            hi = _as_rat(self.eval(up, env, fr))
            if hi is None:
                raise Undecided("slice store with a non-numeric upper bound", fr.f.loc(s))
            cases.append(([], hi))
        outs = []
        for conds, val in self.eval_paths(s.value, p, fr):
            if isinstance(val, _Raised):
                outs.append(Path(conds, "raise", val.name, env))
                continue
            vlen = val.n if isinstance(val, (ProfileV, ZerosV)) else None
            if vlen is None:
                raise Undecided("slice store of a value whose length lcsa does not know", fr.f.loc(s))
            for extra, hi in cases:
                cc = list(conds) + extra
                from .dt import feasible_with
                pos = set(self.positive) if hasattr(self, "positive") else set()
                ints = set(getattr(self, "int_atoms", set()) or set())
                if extra and feasible_with(cc, [], pos, int_atoms=ints or None) is None:
                    continue
                if hi is None:
                    outs.append(Path(cc, "raise", "lcsa:slice bound not followed", env))
                    continue
                width = hi - lo
                if width.equals(vlen):
                    e2 = dict(env)
                    e2[t0.value.id] = ConcatV([ZerosV(lo), val, ZerosV(n - hi)])
                    outs.append(Path(cc, "live", None, e2))
                elif feasible_with(cc + [("cmp", width, "==", vlen)], [], pos, int_atoms=ints or None) is None:
                    outs.append(Path(cc, "raise", "ValueError", env))        # shapes cannot match
                else:
                    raise Undecided("slice store: cannot relate the slice width %r to the number of values %r" % (width, vlen), fr.f.loc(s))
        return outs

    def exec_call_stmt(self, call, p, fr):
        # lst.append(x) on a list accumulator
        fn = call.func
        if isinstance(fn, ast.Attribute) and fn.attr == "append" and isinstance(fn.value, ast.Name):
            tgt = p.env.get(fn.value.id)
            if isinstance(tgt, list) and len(call.args) == 1:
                # a concrete list held in a local: the binding is updated (aliases of the list are not tracked - EFF's business)
                outs = []
                for conds, v in self.eval_paths(call.args[0], p, fr):
                    if isinstance(v, _Raised):
                        outs.append(Path(conds, "raise", v.name, p.env))
                        continue
                    e2 = dict(p.env)
                    e2[fn.value.id] = list(tgt) + [v]
                    outs.append(Path(conds, "live", None, e2))
                return outs
            if isinstance(tgt, ListAcc) and len(call.args) == 1:
                outs = []
                for conds, v in self.eval_paths(call.args[0], p, fr):
                    if isinstance(v, _Raised):
                        outs.append(Path(conds, "raise", v.name, p.env))
                        continue
                    e2 = dict(p.env)
                    e2[fn.value.id] = ListAcc(tgt.items + [v])
                    outs.append(Path(conds, "live", None, e2))
                return outs
        if isinstance(fn, ast.Attribute) and fn.attr == "append" and len(call.args) == 1:
            try:
                tgtv = self.eval(fn.value, p.env, fr)
            except Undecided:
                tgtv = None
            if isinstance(tgtv, FieldListV):
                outs = []
                for conds, v in self.eval_paths(call.args[0], p, fr):
                    e2 = dict(p.env)
                    key = "@app:" + tgtv.name
                    e2[key] = list(e2.get(key, [])) + [v]
                    outs.append(Path(conds, "live", None, e2))
                return outs
        name = _callname(call)
        if name in ("warning_message", "status_message", "print", "print_progress", "running_dotdotdot"):
            return [p]
        if (name in self.skip_calls) or (isinstance(fn, ast.Attribute) and fn.attr in self.skip_calls):
            return [p]
        callee = self.prog.resolve_call(fr.f, call)
        if callee is not None and callee.name in ("warning_message", "status_message"):
            return [p]
        # a call for effect: evaluate (may raise on some paths)
        outs = []
        for conds, v in self.eval_paths(call, p, fr, allow_raise=True):
            if isinstance(v, _Raised):
                outs.append(Path(conds, "raise", v.name, p.env))
            else:
                outs.append(Path(conds, "live", None, p.env))
        return outs

    def assign(self, target, val, env, fr, conds):
        if isinstance(target, ast.Name):
            env[target.id] = val
            return
        if isinstance(target, (ast.Tuple, ast.List)) and isinstance(val, (tuple, list)) and len(val) == len(target.elts):
            for t, v in zip(target.elts, val):
                self.assign(t, v, env, fr, conds)
            return
        if is_self_attr(target):
            env["@self." + target.attr] = val
            return
        if isinstance(target, ast.Subscript) and is_self_attr(target.value):
            key = "@self." + target.value.attr
            base = env.get(key)
            if base is None:
                base = {"<content before the call>": "..."}
            idx = self.eval(target.slice, env, fr)
            if isinstance(base, dict) and _pykey(idx) is not None:
                d = dict(base)
                d[_pykey(idx)] = val
                env[key] = d
                return
            if target.value.attr.split("__")[-1] in {t.split("__")[-1] for t in MEMO_OK_TABLES}:
                return                  # an entry added to a key-complete result table: no influence on what is returned
            raise Undecided("store into self.%s[...] not modelled" % target.value.attr, fr.f.loc(target))
        if isinstance(target, ast.Subscript) and isinstance(target.value, ast.Name) \
                and isinstance(env.get(target.value.id), ArrV):
            arr = env[target.value.id]
            idx = self.eval(target.slice, env, fr)
            key = "@store:" + arr.name
            env[key] = list(env.get(key, [])) + [(idx, val)]
            return
        if isinstance(target, ast.Subscript) and isinstance(target.value, ast.Name):
            base = env.get(target.value.id)
            idx = self.eval(target.slice, env, fr)
            if isinstance(base, ZerosV) and isinstance(idx, Rat):
                z = ZerosV(base.n)
                z.stores = base.stores + [(idx, list(conds), val)]
                env[target.value.id] = z
                return
            if isinstance(base, dict):
                d = dict(base)
                d[_pykey(idx)] = val
                env[target.value.id] = d
                return
        raise Undecided("assignment target %s not modelled" % unparse(target), fr.f.loc(target))

    # --- loops ----------------------------------------------------------------
    def exec_for(self, s, p, fr):
        if s.orelse:
            # for-else: only over a concrete container (below); the else block runs on the paths that were not left by `break`
            try:
                itv = self.eval(s.iter, p.env, fr)
            except Undecided:
                itv = None
            if not isinstance(itv, (list, tuple, dict)):
                raise Undecided("for-else", fr.f.loc(s))
        # for i, x in enumerate(<sequence>[, start])
        if isinstance(s.iter, ast.Call) and getattr(s.iter.func, "id", None) == "enumerate" and s.iter.args \
                and isinstance(s.target, ast.Tuple) and len(s.target.elts) == 2 and all(isinstance(e, ast.Name) for e in s.target.elts):
            base = self.eval(s.iter.args[0], p.env, fr)
            start = Rat.const(0)
            if len(s.iter.args) > 1:
                start = _as_rat(self.eval(s.iter.args[1], p.env, fr))
            for k in s.iter.keywords:
                if k.arg == "start":
                    start = _as_rat(self.eval(k.value, p.env, fr))
            if isinstance(base, SeqV) and base.kind == "seq" and start is not None:
                return self.element_loop(s, p, fr, base, s.target.elts[1].id, by_index=False, lo=Rat.const(0), hi=Rat.atom("N"),
                                         idx_var=s.target.elts[0].id, idx_start=start)
        it = self.eval(s.iter, p.env, fr)
        if isinstance(it, ListAcc):
            it = list(it.items)
        if isinstance(it, WinV) and it.base.kind == "seq" and isinstance(it.lo, Rat) and it.lo.equals(Rat.const(0)) \
                and isinstance(it.hi, Rat) and it.hi.equals(Rat.atom("N")):
            it = it.base                   # seq[:self.len] / seq[0:len(seq)] is the whole sequence (length invariant)
        # element loop directly over the sequence (or a per-residue map)
        if isinstance(it, SeqV) and isinstance(s.target, ast.Name):
            return self.element_loop(s, p, fr, it, s.target.id, by_index=False,
                                     lo=Rat.const(0), hi=Rat.atom("N"))
        if isinstance(it, ARangeV) and isinstance(s.target, ast.Name):
            uses = _index_uses(s, s.target.id)
            if uses == "window":
                return self.window_loop(s, p, fr, it, s.target.id)
            if uses == "element":
                return self.element_loop(s, p, fr, SeqV("seq"), s.target.id, by_index=True,
                                         lo=it.lo, hi=it.hi)
        if isinstance(it, FieldListV) and isinstance(s.target, ast.Name):
            # one generic element: the body must be a pure map into list accumulators
            e2 = dict(p.env)
            e2[s.target.id] = Rat.atom("@e:" + it.name)
            lists = {n: v for n, v in p.env.items() if isinstance(v, ListAcc) and not v.items}
            res = self.exec_block(s.body, [Path([], "live", None, e2)], fr)
            if len(res) != 1 or res[0].kind != "live":
                raise Undecided("loop over %s branches" % it.name, fr.f.loc(s))
            out = dict(p.env)
            for n in lists:
                v = res[0].env.get(n)
                if isinstance(v, ListAcc) and len(v.items) == 1:
                    out[n] = ("fieldmap", it.name, v.items[0])
                elif isinstance(v, ListAcc) and not v.items:
                    pass
                else:
                    raise Undecided("loop over %s is not a one-to-one map" % it.name, fr.f.loc(s))
            return [Path(p.conds, "live", None, out)]
        tuple_target = isinstance(s.target, (ast.Tuple, ast.List)) and all(isinstance(e, ast.Name) for e in s.target.elts)
        if isinstance(it, str) and isinstance(s.target, ast.Name) and len(it) <= 64:
            it = list(it)                  # a literal string walked character by character
        if isinstance(it, (list, tuple, dict)) and (isinstance(s.target, ast.Name) or tuple_target):
            # concrete iteration over a literal container (small, finite)
            keys = list(it.keys()) if isinstance(it, dict) else list(it)
            if tuple_target and not all(isinstance(k, (tuple, list)) and len(k) == len(s.target.elts) for k in keys):
                raise Undecided("unpacking loop target over items of another shape", fr.f.loc(s))
            if len(keys) > 64:
                raise Undecided("literal loop too long", fr.f.loc(s))
            paths = [p]
            for k in keys:
                new = []
                for q in paths:
                    if q.kind != "live":
                        new.append(q)
                        continue
                    e2 = dict(q.env)
                    if tuple_target:
                        for e_, x_ in zip(s.target.elts, k):
                            e2[e_.id] = x_
                    else:
                        e2[s.target.id] = k
                    for r in self.exec_block(s.body, [Path(q.conds, "live", None, e2)], fr):
                        if r.kind == "continue":
                            r = Path(r.conds, "live", None, r.env)
                        new.append(r)
                paths = new
                if len(paths) > MAX_PATHS:
                    raise Undecided("too many paths in literal loop", fr.f.loc(s))
            out = []
            for q in paths:
                if q.kind == "break":
                    q = Path(q.conds, "live", None, q.env)
                elif q.kind == "live" and s.orelse:
                    out.extend(self.exec_block(s.orelse, [q], fr))
                    continue
                out.append(q)
            return out
        raise Undecided("loop over %s not modelled" % unparse(s.iter)[:50], fr.f.loc(s))

    def element_loop(self, s, p, fr, base, var, by_index, lo, hi, idx_var=None, idx_start=None):
        """finite case split over the letters; accumulators become linear forms over cnt[*]"""
        full = lo.equals(Rat.const(0)) and hi.equals(Rat.atom("N"))
        dom = "" if full else "|%r..%r" % (lo, hi)
        assigned = _assigned_names(s.body)
        pre = p.env
        def scan(pre, noacc=()):
            """the per-letter evaluation of the body, started with the loop-carried names as they are in `pre` (names in `noacc` are flags
            given a trial value: they are not accumulators, whatever the type of that value)"""
            flagvals = []
            incs = {}          # name -> {letter: Rat}
            appends = {}       # name -> {letter: [values]}
            strapp = {}        # name -> {letter: str}
            dictincs = {}      # name -> {letter: {key: Rat}}
            raises = {}        # letter -> exception name
            flags = set()
            for L in (self.universe if base.kind == "seq" else ["*"]):
                env = dict(pre)
                marks = {}
                for name in [a_ for a_ in assigned if a_ not in noacc]:
                    v = pre.get(name)
                    if isinstance(v, Rat):
                        a = "@acc:" + name
                        marks[name] = a
                        env[name] = Rat.atom(a)
                    elif isinstance(v, dict) and v and all(isinstance(x, Rat) for x in v.values()):
                        env[name] = {k: Rat.atom("@acc:%s[%s]" % (name, k)) for k in v}
                        marks[name] = "dict"
                    elif isinstance(v, ListAcc):
                        env[name] = ListAcc([])
                        marks[name] = "list"
                    elif isinstance(v, str):
                        env[name] = _StrAcc("")
                        marks[name] = "str"
                if by_index:
                    env[var] = Rat.atom("@i")
                    fr2 = fr.with_elem(L, "@i")
                else:
                    env[var] = L if base.kind == "seq" else Rat.atom("@el:" + base.key())
                    fr2 = fr
                    if idx_var is not None:
                        env[idx_var] = Rat.atom("@i") + idx_start
                        fr2 = fr.with_elem(L, "@i")
                if base.kind != "seq":
                    raise Undecided("element loop over %s" % base.key(), fr.f.loc(s))
                res = self.exec_block(s.body, [Path([], "live", None, env)], fr2)
                res = [Path(r.conds, "live", None, r.env) if r.kind == "continue" else r for r in res]
                kinds = {r.kind for r in res}
                if kinds == {"raise"}:
                    raises[L] = res[0].value
                    continue
                if kinds - {"live"}:
                    raise Undecided("element loop body leaves the loop on some path (letter %s: %s)"
                                    % (L, sorted(kinds)), fr.f.loc(s))
                # all live paths must agree on the accumulator effects
                eff = None
                for r in res:
                    cur = {}
                    for name, mk in marks.items():
                        v = r.env.get(name)
                        if mk == "dict":
                            d = {}
                            if not isinstance(v, dict) or set(v) != set(pre[name]):
                                raise Undecided("counter table %s changes its key set in the loop" % name, fr.f.loc(s))
                            for k, x in v.items():
                                a = "@acc:%s[%s]" % (name, k)
                                if not isinstance(x, Rat):
                                    raise Undecided("counter %s[%s] no longer numeric" % (name, k), fr.f.loc(s))
                                inc = x - Rat.atom(a)
                                if any(t.startswith("@") for t in inc.atoms()):
                                    raise Undecided("counter %s[%s] is not updated additively" % (name, k), fr.f.loc(s))
                                d[k] = inc
                            cur[name] = ("dict", tuple(sorted((str(k), repr(x)) for k, x in d.items())), d)
                        elif mk == "list":
                            cur[name] = ("list", tuple(_vkey(x) for x in v.items), v.items)
                        elif mk == "str":
                            if not isinstance(v, _StrAcc):
                                raise Undecided("string accumulator %s overwritten in loop" % name, fr.f.loc(s))
                            cur[name] = ("str", v.s, v.s)
                        else:
                            if not isinstance(v, Rat):
                                raise Undecided("accumulator %s no longer numeric" % name, fr.f.loc(s))
                            inc = v - Rat.atom(mk)
                            if mk in inc.atoms():
                                raise Undecided("accumulator %s is not updated additively" % name, fr.f.loc(s))
                            if "@i" in inc.atoms():
                                raise Undecided("fold term of %s depends on the position itself" % name, fr.f.loc(s))
                            if any("(" in a for a in inc.d.atoms()):
                                inc = Rat.atom(self.term_atom(inc))
                            cur[name] = ("num", inc, inc)
                    if eff is None:
                        eff = cur
                    else:
                        for name in cur:
                            a, b = eff[name], cur[name]
                            same = a[1].equals(b[1]) if a[0] == "num" else a[1] == b[1]
                            if not same:
                                raise Undecided("paths of the loop body disagree on %s for letter %s (conditions %s)"
                                                % (name, L, fmt_conds(r.conds)), fr.f.loc(s))
                    for name in r.env:
                        if name not in marks and name in assigned and name != var:
                            flags.add(name)
                            flagvals.append((name, r.env.get(name)))
                for name, (k, _, v) in (eff or {}).items():
                    if k == "num":
                        incs.setdefault(name, {})[L] = v
                    elif k == "dict":
                        dictincs.setdefault(name, {})[L] = v
                    elif k == "list":
                        appends.setdefault(name, {})[L] = v
                    else:
                        strapp.setdefault(name, {})[L] = v
            return incs, appends, strapp, dictincs, raises, flags, flagvals
        pre0 = pre
        incs, appends, strapp, dictincs, raises, flags, flagvals = scan(pre0)
        # loop-carried flags (names the body assigns that are not accumulators): the per-letter effects above were computed with their values
        # before the loop.  Every other valuation the body can leave them in is tried as well; the effects must not depend on it
        read_in_body = {x.id for st in s.body for x in ast.walk(st) if isinstance(x, ast.Name) and isinstance(x.ctx, ast.Load)}
        from .flow import local_read_before_assigned
        live_flags = sorted(f_ for f_ in flags if f_ in read_in_body and local_read_before_assigned(s.body, f_))
        if live_flags:
            def concrete(v):
                return isinstance(v, (bool, str, int)) or v is None or (isinstance(v, Rat) and v.is_const())

            def sig(res, L):
                incs_, apps_, strs_, dicts_, raises_ = res[:5]
                if L in raises_:
                    return ("raise",)
                return ("fx", tuple(sorted((n_, repr(per.get(L))) for n_, per in incs_.items())),
                        tuple(sorted((n_, repr([_vkey(x) for x in per.get(L, [])])) for n_, per in apps_.items())),
                        tuple(sorted((n_, per.get(L)) for n_, per in strs_.items())),
                        tuple(sorted((n_, repr(sorted((str(k), repr(x)) for k, x in per.get(L, {}).items()))) for n_, per in dicts_.items())))
            letters = list(self.universe if base.kind == "seq" else ["*"])
            base_res = (incs, appends, strapp, dictincs, raises)
            start = tuple((f_, pre0.get(f_)) for f_ in live_flags)
            seen_vals = {repr(start)}
            work = []

            def push(vals):
                byname = {}
                for n_, v_ in vals:
                    if n_ in live_flags:
                        byname.setdefault(n_, []).append(v_)
                for n_, vs in byname.items():
                    for v_ in vs:
                        if not concrete(v_):
                            raise Undecided("loop-carried %s is read in the loop body and takes a value lcsa cannot enumerate" % n_, fr.f.loc(s))
                        cand = tuple((f_, v_ if f_ == n_ else pre0.get(f_)) for f_ in live_flags)
                        if repr(cand) not in seen_vals:
                            seen_vals.add(repr(cand))
                            work.append(cand)
            push(flagvals)
            while work:
                if len(seen_vals) > 8:
                    raise Undecided("too many valuations of the loop-carried flags %s" % live_flags, fr.f.loc(s))
                cand = work.pop()
                pre2 = dict(pre0)
                pre2.update(dict(cand))
                res2 = scan(pre2, noacc=tuple(live_flags))
                for L in letters:
                    a, b = sig(base_res, L), sig(res2[:5], L)
                    if a != b:
                        raise FlagDependent("what the loop does with %r depends on the loop-carried %s (what came before in the sequence)" % (L, dict(cand)),
                                            fr.f.loc(s), letter=L, valuation=dict(cand), first=a, later=b)
                push(res2[6])
        pre = pre0
        env = dict(pre)
        for name in flags:
            env[name] = UnknownV("loop-carried %s" % name)
        if by_index:
            env[var] = UnknownV("loop index after loop")
        summary = {"loop": fr.f.loc(s), "kind": "element", "domain": [repr(lo), repr(hi)],
                   "accumulators": sorted(incs), "lists": sorted(appends), "raises": dict(raises)}
        self.trace.append(summary)
        self.last_loop = summary
        conds = list(p.conds)
        if raises:
            # the loop completes only when no such letter occurs
            for L in sorted(raises):
                conds.append(("cmp", Rat.atom("cnt[%s]%s" % (L, dom)), "==", Rat.const(0)))
        for name, per in incs.items():
            tot = pre[name]
            for L, inc in per.items():
                tot = tot + inc * Rat.atom("cnt[%s]%s" % (L, dom))
            env[name] = tot
        for name, per in dictincs.items():
            tot = dict(pre[name])
            for L, d in per.items():
                for k, inc in d.items():
                    tot[k] = tot[k] + inc * Rat.atom("cnt[%s]%s" % (L, dom))
            env[name] = tot
        for name, per in appends.items():
            lens = {len(v) for v in per.values()}
            if all(isinstance(x, str) for v in per.values() for x in v) and not pre[name].items and full:
                # output text contributed by each residue (normally exactly one character)
                env[name] = StrMapV({L: "".join(v) for L, v in per.items()})
                continue
            if lens != {1}:
                raise Undecided("list %s does not receive exactly one element per residue on every path "
                                "(lengths %s)" % (name, sorted(lens)), fr.f.loc(s))
            if pre[name].items:
                raise Undecided("list %s not empty before the element loop" % name, fr.f.loc(s))
            if not full:
                raise Undecided("per-residue list over a partial domain", fr.f.loc(s))
            if all(isinstance(v[0], str) for v in per.values()):
                env[name] = StrMapV({L: v[0] for L, v in per.items()})
                continue
            table = {}
            for L, v in per.items():
                x = v[0]
                if not (isinstance(x, Rat) and x.is_const()):
                    raise Undecided("per-residue list element is not a constant for letter %s" % L, fr.f.loc(s))
                table[L] = x.const_value()
            for L in raises:
                table[L] = Fraction(0)
            env[name] = SeqV("map", self.elkey_for(table))
        for name, per in strapp.items():
            if pre[name] != "" or not full:
                raise Undecided("string accumulator %s with a prefix or a partial domain" % name, fr.f.loc(s))
            env[name] = StrMapV(per)
        out = [Path(conds, "live", None, env)]
        if raises:
            out.append(Path(list(p.conds) + [("opaque", "some residue in %s" % sorted(raises))],
                            "raise", sorted(set(raises.values()))[0], dict(pre)))
        return out

    def window_loop(self, s, p, fr, rng, var):
        """one symbolic iteration at the generic index @i"""
        pre = p.env
        assigned = _assigned_names(s.body)
        env = dict(pre)
        marks = {}
        for name in assigned:
            v = pre.get(name)
            if isinstance(v, Rat):
                a = "@acc:" + name
                marks[name] = a
                env[name] = Rat.atom(a)
        env[var] = Rat.atom("@i")
        frw = fr.in_window()
        res = self.exec_block(s.body, [Path([], "live", None, env)], frw)
        res = [Path(r.conds, "live", None, r.env) if r.kind == "continue" else r for r in res]
        if {r.kind for r in res} - {"live"}:
            raise Undecided("window loop body leaves the loop", fr.f.loc(s))
        out_env = dict(pre)
        window = frw.window_seen(res)
        for name, mk in marks.items():
            pieces = []
            for r in res:
                v = r.env.get(name)
                if not isinstance(v, Rat):
                    raise Undecided("accumulator %s no longer numeric" % name, fr.f.loc(s))
                inc = v - Rat.atom(mk)
                if mk in inc.atoms():
                    raise Undecided("accumulator %s is not updated additively" % name, fr.f.loc(s))
                pieces.append((r.conds, inc))
            if all(pc[1].n.is_zero() for pc in pieces):
                continue
            val = self.register_sum({"kind": "wsum", "lo": rng.lo, "hi": rng.hi, "pieces": pieces,
                                     "window": window, "where": fr.f.loc(s)})
            out_env[name] = pre[name] + val
        for name in assigned:
            v0 = pre.get(name)
            if isinstance(v0, ZerosV):
                stores = []
                for r in res:
                    z = r.env.get(name)
                    new = z.stores[len(v0.stores):]
                    if len(new) != 1:
                        raise Undecided("profile %s is not stored exactly once per window" % name, fr.f.loc(s))
                    idx, _, val = new[0]
                    if not idx.equals(Rat.atom("@i")):
                        raise Undecided("profile %s stored at %r, not at the loop index" % (name, idx), fr.f.loc(s))
                    if not isinstance(val, Rat):
                        raise Undecided("profile value is not numeric", fr.f.loc(s))
                    stores.append((r.conds, val))
                out_env[name] = ProfileV(v0.n, rng.lo, rng.hi, stores, window)
            elif name not in marks and name != var:
                out_env[name] = UnknownV("window-loop local %s" % name)
        out_env[var] = UnknownV("loop index after loop")
        self.trace.append({"loop": fr.f.loc(s), "kind": "window", "domain": [repr(rng.lo), repr(rng.hi)],
                           "window": [repr(window[1]), repr(window[2])] if window else None})
        return [Path(p.conds, "live", None, out_env)]

    def term_atom(self, r):
        """opaque name for a per-residue term with a non-constant denominator (keeps sums of such terms
        from being brought to a common denominator); semantically equal terms share the name"""
        for i, old in enumerate(self.terms):
            if old.equals(r):
                return "H%d" % i
        self.terms.append(r)
        return "H%d" % (len(self.terms) - 1)

    def register_sum(self, rec):
        """-> Rat: c * WS<k>, where c is free of per-window atoms.  Sums that differ only by such a factor
        (division inside or outside the loop) share one atom."""
        for i, old in enumerate(self.wsums):
            c = _sum_ratio(old, rec)
            if c is not None:
                return c * Rat.atom("WS%d" % i)
        self.wsums.append(rec)
        return Rat.atom("WS%d" % (len(self.wsums) - 1))

    # --- expressions ----------------------------------------------------------
    def eval_paths(self, node, p, fr, allow_raise=False):
        """evaluate with path splitting through inlined calls -> [(conds, value)]"""
        fr.pending = []
        fr.base_conds = p.conds
        try:
            v = self.eval(node, p.env, fr)
            return [(list(p.conds), v)]
        except _Raised as r:
            return [(list(p.conds), r)]
        except _NeedSplit as ns:
            outs = []
            for conds, repl in ns.alternatives:
                cc = extend_conds(p.conds, conds)
                if cc is None:
                    continue
                if isinstance(repl, _Raised):
                    outs.append((cc, repl))
                    continue
                fr2 = fr.with_memo(ns.call, repl)
                q = Path(cc, "live", None, p.env)
                outs.extend(self.eval_paths(node, q, fr2, allow_raise))
            return outs

    def eval_cond_paths(self, node, p, fr):
        outs = []
        try:
            c = self.cond(node, p.env, fr)
            return [(list(p.conds), c)]
        except _NeedSplit as ns:
            for conds, repl in ns.alternatives:
                if isinstance(repl, _Raised):
                    raise Undecided("call inside a condition may raise", fr.f.loc(node))
                cc = extend_conds(p.conds, conds)
                if cc is None:
                    continue
                fr2 = fr.with_memo(ns.call, repl)
                q = Path(cc, "live", None, p.env)
                outs.extend(self.eval_cond_paths(node, q, fr2))
            return outs

    def cond(self, node, env, fr):
        """-> True | False | cond tree"""
        if isinstance(node, ast.BoolOp):
            parts = [self.cond(v, env, fr) for v in node.values]
            if isinstance(node.op, ast.And):
                if any(x is False for x in parts):
                    return False
                parts = [x for x in parts if x is not True]
                if not parts:
                    return True
                return parts[0] if len(parts) == 1 else ("and", parts)
            if any(x is True for x in parts):
                return True
            parts = [x for x in parts if x is not False]
            if not parts:
                return False
            return parts[0] if len(parts) == 1 else ("or", parts)
        if isinstance(node, ast.UnaryOp) and isinstance(node.op, ast.Not):
            return c_not(self.cond(node.operand, env, fr))
        if isinstance(node, ast.Compare):
            left = self.eval(node.left, env, fr)
            parts = []
            for op, rn in zip(node.ops, node.comparators):
                right = self.eval(rn, env, fr)
                parts.append(self.compare(left, op, right, fr, node))
                left = right
            if any(x is False for x in parts):
                return False
            parts = [x for x in parts if x is not True]
            if not parts:
                return True
            return parts[0] if len(parts) == 1 else ("and", parts)
        v = self.eval(node, env, fr)
        if isinstance(v, bool) or v is None:
            return bool(v)
        if isinstance(v, tuple) and v and v[0] in ("cmp", "and", "or", "not", "opaque") and len(v) in (2, 4):
            return v                      # a condition tree produced by a modelled predicate (endswith, membership ...)
        if isinstance(v, (str, list, tuple, dict, set, frozenset)):
            return bool(v)
        if isinstance(v, Rat):
            if v.is_const():
                return v.const_value() != 0
            return ("cmp", v, "!=", Rat.const(0))
        if isinstance(v, tuple) and v and v[0] in ("cmp", "and", "or", "not", "opaque"):
            return v
        raise Undecided("truth value of %s" % unparse(node)[:60], fr.f.loc(node))

    def compare(self, a, op, b, fr, node):
        name = type(op).__name__
        if name in ("Is", "IsNot", "Eq", "NotEq") and isinstance(a, PyType) and isinstance(b, PyType):
            r = a.name == b.name
            return r if name in ("Is", "Eq") else not r
        if name in ("Is", "IsNot"):
            if a is None or b is None:
                r = (a is None and b is None)
                return r if name == "Is" else not r
            raise Undecided("identity comparison", fr.f.loc(node))
        if name in ("In", "NotIn") and isinstance(a, PyType) and isinstance(b, (list, tuple)) and all(isinstance(x, PyType) for x in b):
            names = {x.name for x in b}
            if a.name == "number":
                if {"int", "float"} <= names:
                    return name == "In"
                if not ({"int", "float", "bool"} & names):
                    return name != "In"
                raise Undecided("class of a number against %s (int and float are not told apart)" % sorted(names), fr.f.loc(node))
            return (a.name in names) == (name == "In")
        if name in ("In", "NotIn"):
            if isinstance(b, ListAcc):
                b = list(b.items)
            if isinstance(b, Rat) and len(b.atoms()) == 1 and next(iter(b.atoms())).startswith("F:") \
                    and next(iter(b.atoms()))[2:].split("__")[-1] in {t.split("__")[-1] for t in MEMO_OK_TABLES}:
                # a result table MEMO-KEY showed key-complete: what the function returns is what its computing path returns, so the lookup is
                # followed as a miss (who may share the stored object is C15's question)
                return name != "In"
            if isinstance(a, AStr) and isinstance(b, (list, tuple)) and all(isinstance(x, str) for x in b):
                c = ("opaque", "%s in %s" % (a.tag, "".join(sorted(b))))
                return c if name == "In" else c_not(c)
            if isinstance(a, AChar) and isinstance(b, (list, tuple)) and all(isinstance(x, str) for x in b):
                c = ("opaque", "%s in %s" % (a.tag, "".join(sorted(b))))
                return c if name == "In" else c_not(c)
            if isinstance(b, FieldListV):
                ra = _as_rat(a)
                c = ("opaque", "%s in %s" % (_canon(ra) if ra is not None else repr(a), b.name))
                return c if name == "In" else c_not(c)
            if isinstance(a, str) and isinstance(b, AStr):
                c = ("opaque", "%r in %s" % (a, b.tag))
                return c if name == "In" else c_not(c)
            if isinstance(a, str) and len(a) == 1 and isinstance(b, WinV) and b.base.kind == "seq" and a in self.universe \
                    and isinstance(b.lo, Rat) and b.lo.equals(Rat.const(0)) and isinstance(b.hi, Rat) and b.hi.equals(Rat.const(-1)):
                # `a in seq[:-1]`: a second occurrence, or one occurrence that is not the last character
                cnt = Rat.atom("cnt[%s]" % a)
                last = ("opaque", "seq[-1]==%r" % a)
                c = ("or", [("cmp", cnt, ">=", Rat.const(2)), ("and", [("cmp", cnt, ">=", Rat.const(1)), c_not(last)])])
                return c if name == "In" else c_not(c)
            if isinstance(a, str) and len(a) == 1 and isinstance(b, WinV) and b.base.kind == "seq" and a in self.universe \
                    and isinstance(b.lo, Rat) and b.lo.equals(Rat.const(0)) and isinstance(b.hi, Rat) and b.hi.equals(Rat.atom("N") - Rat.atom("trail[%s]" % a)):
                # the sequence without its trailing run of `a`: `a` still occurs iff some occurrence lies outside that run
                c = ("cmp", Rat.atom("cnt[%s]" % a) - Rat.atom("trail[%s]" % a), ">=", Rat.const(1))
                return c if name == "In" else c_not(c)
            if isinstance(a, str) and len(a) == 1 and isinstance(b, SeqV) and b.kind == "seq":
                if a in self.universe:
                    c = ("cmp", Rat.atom("cnt[%s]" % a), ">=", Rat.const(1))
                    return c if name == "In" else c_not(c)
                return name != "In"
            if (a is None or isinstance(a, (int, float, bool))) and isinstance(b, (list, tuple)) \
                    and all(isinstance(x, (str, int, float)) or x is None for x in b):
                r = a in b
                return r if name == "In" else not r
            if isinstance(a, str) and isinstance(b, (str, list, tuple, set, frozenset, dict)):
                r = a in b
                return r if name == "In" else not r
            if isinstance(a, Rat) and a.is_const() and isinstance(b, (list, tuple, set, dict)):
                r = any(_as_rat(x) is not None and _as_rat(x).is_const() and _as_rat(x).const_value() == a.const_value() for x in b)
                return r if name == "In" else not r
            if isinstance(a, Rat) and isinstance(b, (list, tuple, dict)) and len(b) <= 32:
                # a symbolic number against a concrete collection: one equality per numeric member
                keys = list(b.keys()) if isinstance(b, dict) else list(b)
                nums = [_as_rat(k) for k in keys]
                nums = [k for k in nums if k is not None and k.is_const()]
                if nums:
                    c = ("or", [("cmp", a, "==", k) for k in nums]) if len(nums) > 1 else ("cmp", a, "==", nums[0])
                else:
                    c = False
                return c if name == "In" else c_not(c)
            raise Undecided("membership test on symbolic value (%s)" % unparse(node)[:60], fr.f.loc(node))
        sym = {"Eq": "==", "NotEq": "!=", "Lt": "<", "LtE": "<=", "Gt": ">", "GtE": ">="}.get(name)
        if sym is None:
            raise Undecided("comparison operator %s" % name, fr.f.loc(node))
        if isinstance(a, AStr) and isinstance(b, str) and sym in ("==", "!="):
            c = ("opaque", "%s==%r" % (a.tag, b))
            return c if sym == "==" else c_not(c)
        if isinstance(a, AChar) and isinstance(b, str) and sym in ("==", "!="):
            c = ("opaque", "%s==%r" % (a.tag, b))
            return c if sym == "==" else c_not(c)
        if isinstance(a, (str, type(None), bool)) and not isinstance(a, Rat) \
                and isinstance(b, (str, type(None), bool)):
            if sym == "==":
                return a == b
            if sym == "!=":
                return a != b
        if isinstance(a, (str, type(None))) != isinstance(b, (str, type(None))) and sym in ("==", "!="):
            # a string/None against a number or object: never equal
            if isinstance(a, (Rat, str, type(None))) and isinstance(b, (Rat, str, type(None))):
                return sym == "!="
        if isinstance(a, (SeqV, WinV)) and isinstance(b, Rat) and b.is_const() and b.const_value() == 0 \
                and sym in (">", "<", "==", ">=", "<=", "!="):
            return MaskV(a, sym + "0")
        a, b = _as_rat(a), _as_rat(b)
        if a is None or b is None:
            raise Undecided("comparison of non-numeric values (%s)" % unparse(node)[:60], fr.f.loc(node))
        d = a - b
        if d.is_const():
            c = d.const_value()
            return {"==": c == 0, "!=": c != 0, "<": c < 0, "<=": c <= 0, ">": c > 0, ">=": c >= 0}[sym]
        return ("cmp", a, sym, b)

    def eval(self, node, env, fr):
        n = const_number(fr.f.mod, node)
        if n is not None:
            return Rat.const(n)
        if isinstance(node, ast.Constant):
            return node.value
        if isinstance(node, ast.Name):
            if node.id in env:
                v = env[node.id]
                if isinstance(v, UnknownV):
                    raise Undecided("use of %s (%s)" % (node.id, v.why), fr.f.loc(node))
                return v
            if node.id in ("True", "False", "None"):
                return {"True": True, "False": False, "None": None}[node.id]
            if node.id in ("str", "int", "float", "dict", "list", "tuple", "bool", "set") and node.id not in fr.f.mod.globals:
                return PyType(node.id)
            g = self.prog.resolve_global(fr.f.mod, node)
            if g:
                return self.global_value(g, fr, node)
            raise Undecided("unbound name %s" % node.id, fr.f.loc(node))
        if isinstance(node, (ast.Tuple, ast.List)):
            vals = [self.eval(e, env, fr) for e in node.elts]
            if isinstance(node, ast.List) and not vals:
                return ListAcc([])
            return tuple(vals) if isinstance(node, ast.Tuple) else vals
        if isinstance(node, ast.Set):
            return [self.eval(e, env, fr) for e in node.elts]
        if isinstance(node, ast.Dict):
            return {_pykey(self.eval(k, env, fr)): self.eval(v, env, fr) for k, v in zip(node.keys, node.values)}
        if isinstance(node, ast.Attribute):
            return self.eval_attr(node, env, fr)
        if isinstance(node, ast.Subscript):
            return self.eval_subscript(node, env, fr)
        if isinstance(node, ast.UnaryOp):
            if isinstance(node.op, ast.Not):
                return self.cond(node, env, fr)
            v = _as_rat(self.eval(node.operand, env, fr))
            if v is None:
                raise Undecided("unary operator on non-number", fr.f.loc(node))
            return -v if isinstance(node.op, ast.USub) else v
        if isinstance(node, ast.BinOp):
            return self.eval_binop(node, env, fr)
        if isinstance(node, ast.BoolOp) and len(node.values) == 2 and not any(isinstance(v, (ast.Compare, ast.BoolOp)) or (isinstance(v, ast.UnaryOp) and isinstance(v.op, ast.Not))
                                                                                for v in node.values):
            # `x or default` / `x and y` used for its VALUE: python returns one of the operands, chosen by the truth of the first
            memo = fr.memo_get(node)
            if memo is not _MISSING:
                return memo
            a = self.eval(node.values[0], env, fr)
            is_or = isinstance(node.op, ast.Or)
            truth = None
            if isinstance(a, tuple) and a and a[0] in ("cmp", "not", "and", "or", "opaque"):
                return self.cond(node, env, fr)               # a stored condition, combined as a condition
            if isinstance(a, (bool, str, int, list, tuple, dict)) or a is None:
                truth = bool(a)
            elif isinstance(a, Rat) and a.is_const():
                truth = a.const_value() != 0
            if truth is not None:
                return a if truth == is_or else self.eval(node.values[1], env, fr)
            if isinstance(a, Rat):
                b = self.eval(node.values[1], env, fr)
                nz, z = ("cmp", a, "!=", Rat.const(0)), ("cmp", a, "==", Rat.const(0))
                raise _NeedSplit(node, [([nz], a if is_or else b), ([z], b if is_or else a)])
            raise Undecided("truth of %s is not modelled" % unparse(node.values[0])[:40], fr.f.loc(node))
        if isinstance(node, (ast.Compare, ast.BoolOp)):
            return self.cond(node, env, fr)
        if isinstance(node, ast.Call):
            return self.eval_call(node, env, fr)
        if isinstance(node, ast.IfExp):
            memo = fr.memo_get(node)
            if memo is not _MISSING:
                return memo
            c = self.cond(node.test, env, fr)
            if c is True:
                return self.eval(node.body, env, fr)
            if c is False:
                return self.eval(node.orelse, env, fr)
            raise _NeedSplit(node, [([c], self.eval(node.body, env, fr)), ([c_not(c)], self.eval(node.orelse, env, fr))])
        if isinstance(node, ast.Lambda):
            a = node.args
            if a.vararg or a.kwarg or a.kwonlyargs or a.defaults or a.posonlyargs:
                raise Undecided("lambda with defaults / star parameters", fr.f.loc(node))
            return LambdaV(node, env, fr.f)
        if isinstance(node, ast.GeneratorExp):
            # consumed at once by the call it is an argument of (sum, tuple, join, ...): the list of its elements
            return self.eval(ast.copy_location(ast.ListComp(elt=node.elt, generators=node.generators), node), env, fr)
        if isinstance(node, ast.ListComp) and len(node.generators) == 1:
            return self.eval_listcomp(node, env, fr)
        if isinstance(node, ast.ListComp):
            return [self.eval(node.elt, e2, fr) for e2 in self._comp_envs(node.generators, env, fr, node)]
        if isinstance(node, ast.DictComp) and len(node.generators) == 1 and not node.generators[0].ifs:
            g = node.generators[0]
            it = g.iter
            src = None
            pairs = None
            if isinstance(it, ast.Call) and isinstance(it.func, ast.Attribute) and it.func.attr == "items" and not it.args:
                src = self.eval(it.func.value, env, fr)
                if isinstance(src, dict) and isinstance(g.target, ast.Tuple) and len(g.target.elts) == 2:
                    pairs = [((g.target.elts[0], k), (g.target.elts[1], v)) for k, v in src.items()]
            else:
                src = self.eval(it, env, fr)
                if isinstance(src, dict) and isinstance(g.target, ast.Name):
                    pairs = [((g.target, k),) for k in src.keys()]
                elif isinstance(src, (list, tuple, str)) and isinstance(g.target, ast.Name):
                    pairs = [((g.target, k),) for k in src]
            if pairs is not None:
                out = {}
                for binds in pairs:
                    e2 = dict(env)
                    for t, v in binds:
                        self.assign(t, v, e2, fr, [])
                    out[_pykey(self.eval(node.key, e2, fr))] = self.eval(node.value, e2, fr)
                return out
            out = {}
            for e2 in self._comp_envs(node.generators, env, fr, node):
                kv = self.eval(node.key, e2, fr)
                k = _pykey(kv)
                if k is None and kv is not None:
                    raise Undecided("dict comprehension with a symbolic key", fr.f.loc(node))
                out[k] = self.eval(node.value, e2, fr)
            return out
        raise Undecided("expression kind %s not modelled: %s" % (type(node).__name__, unparse(node)[:60]),
                        fr.f.loc(node))

    def eval_listcomp(self, node, env, fr):
        g = node.generators[0]
        it = self.eval(g.iter, env, fr)
        if isinstance(it, WinV) and it.base.kind == "seq" and isinstance(it.lo, Rat) and it.lo.equals(Rat.const(0)) \
                and isinstance(it.hi, Rat) and it.hi.equals(Rat.atom("N")):
            it = it.base                   # seq[:self.len] / seq[0:len(seq)] is the whole sequence (length invariant)
        if isinstance(it, SeqV) and it.kind == "seq" and isinstance(g.target, ast.Name) and not g.ifs:
            table = {}
            for L in LETTERS:
                e2 = dict(env)
                e2[g.target.id] = L
                v = _as_rat(self.eval(node.elt, e2, fr))
                if v is None or not v.is_const():
                    raise Undecided("comprehension element not constant per letter", fr.f.loc(node))
                table[L] = v.const_value()
            return SeqV("map", self.elkey_for(table))
        if isinstance(it, (list, tuple, str, dict)):
            return [self.eval(node.elt, e2, fr) for e2 in self._comp_envs(node.generators, env, fr, node)]
        raise Undecided("list comprehension not modelled", fr.f.loc(node))

    def _comp_envs(self, gens, env, fr, node):
        """the environments a comprehension's element is evaluated in, when every iterable is concrete (a folded table, a literal)"""
        if not gens:
            yield env
            return
        g = gens[0]
        it = self.eval(g.iter, env, fr)
        if isinstance(it, dict):
            it = list(it.keys())
        if not isinstance(it, (list, tuple, str)):
            raise Undecided("comprehension over a value that is not a concrete sequence", fr.f.loc(node))
        for item in it:
            e2 = dict(env)
            self.assign(g.target, item, e2, fr, [])
            keep = True
            for cnd in g.ifs:
                c = self.cond(cnd, e2, fr)
                if c is False:
                    keep = False
                elif c is not True:
                    raise Undecided("comprehension filter on symbolic value", fr.f.loc(node))
            if keep:
                yield from self._comp_envs(gens[1:], e2, fr, node)

    def global_value(self, g, fr, node):
        m, name = g
        t = self.prog.global_types.get((m.rel, name))
        if t == "ResTable":
            return self.lkup_object()
        if name in m.funcs and name not in m.globals:
            return FuncV(m.funcs[name])
        if name in m.globals:
            # a table that is edited in place after its assignment is not the literal it was assigned
            edits = [n for n in ast.walk(m.tree) if isinstance(n, (ast.Assign, ast.AugAssign, ast.Delete)) and any(
                isinstance(x, ast.Subscript) and isinstance(x.value, ast.Name) and x.value.id == name and not isinstance(x.ctx, ast.Load)
                for t in (n.targets if isinstance(n, (ast.Assign, ast.Delete)) else [n.target]) for x in ast.walk(t))]
            edits += [n for n in ast.walk(m.tree) if isinstance(n, ast.Call) and isinstance(n.func, ast.Attribute) and isinstance(n.func.value, ast.Name) and n.func.value.id == name
                      and n.func.attr in ("update", "pop", "clear", "setdefault", "append", "extend", "insert", "remove", "sort", "reverse", "popitem")]
            if edits:
                return self._replay_module_table(m, name, edits, fr, node)
            try:
                return _wrap(tab.literal(m, m.globals[name]))
            except Undecided:
                pass
            # a module-level constant computed from other constants (`'E' * len(GROUP)`, `str.maketrans(A, B)`, a table-building helper called
            # on a literal): constant folding with the same evaluator, in a frame that has no locals
            ck = (m.rel, name)
            if ck in self._global_cache:
                return self._global_cache[ck]
            if ck in self._global_busy or fr.depth > MAX_DEPTH - 2:
                raise Undecided("module-level name %s is defined in terms of itself" % name, fr.f.loc(node))
            self._global_busy.add(ck)
            try:
                stores = [n for n in ast.walk(m.tree) if isinstance(n, (ast.Assign, ast.AugAssign, ast.AnnAssign)) and any(
                    isinstance(x, ast.Name) and x.id == name and isinstance(x.ctx, ast.Store) for t in (n.targets if isinstance(n, ast.Assign) else [n.target]) for x in ast.walk(t))]
                subs = [n for n in ast.walk(m.tree) if isinstance(n, (ast.Assign, ast.AugAssign, ast.Delete)) and any(
                    isinstance(x, ast.Subscript) and isinstance(x.value, ast.Name) and x.value.id == name and not isinstance(x.ctx, ast.Load)
                    for t in (n.targets if isinstance(n, (ast.Assign, ast.Delete)) else [n.target]) for x in ast.walk(t))]
                if len(stores) != 1 or subs:
                    raise Undecided("module-level name %s is assigned %d times / edited in place" % (name, len(stores)), fr.f.loc(node))
                pseudo = ast.FunctionDef(name="<module>", args=ast.arguments(posonlyargs=[], args=[], kwonlyargs=[], kw_defaults=[], defaults=[]), body=[], decorator_list=[],
                                         lineno=getattr(m.globals[name], "lineno", 1), col_offset=0)
                from .model import FuncInfo
                mfr = _Frame(FuncInfo(m, None, pseudo), fr.depth + 1)
                v = self.eval(m.globals[name], {}, mfr)
                if not _is_concrete(v):
                    raise Undecided("module-level name %s does not fold to a constant" % name, fr.f.loc(node))
                self._global_cache[ck] = v
                return v
            finally:
                self._global_busy.discard(ck)
        raise Undecided("module-level name %s has no literal value" % name, fr.f.loc(node))

    def _replay_module_table(self, m, name, edits, fr, node):
        """a module-level table completed by module-level statements (`T = {}` ... `for c in 'PEDKR': T[ord(c)] = 'E'`): those statements are
        executed, in order, over constants.  An edit inside a function means the table changes while the program runs: not a constant."""
        ck = (m.rel, name)
        if ck in self._global_cache:
            return self._global_cache[ck]
        top = list(m.tree.body)
        inside = [e for e in edits if not any(e is x for st in top if not isinstance(st, (ast.FunctionDef, ast.ClassDef)) for x in ast.walk(st))]
        if inside:
            raise Undecided("module-level table %s is edited inside a function: it is state, not a constant" % name, fr.f.loc(node))
        if ck in self._global_busy:
            raise Undecided("module-level name %s is defined in terms of itself" % name, fr.f.loc(node))
        self._global_busy.add(ck)
        try:
            stmts = [st for st in top if not isinstance(st, (ast.FunctionDef, ast.ClassDef, ast.Import, ast.ImportFrom))
                     and any(isinstance(x, ast.Name) and x.id == name for x in ast.walk(st))]
            stmts = [st for st in stmts if not (isinstance(st, ast.Delete))]
            from .model import FuncInfo
            pseudo = ast.FunctionDef(name="<module>", args=ast.arguments(posonlyargs=[], args=[], kwonlyargs=[], kw_defaults=[], defaults=[]), body=[], decorator_list=[],
                                     lineno=getattr(m.globals[name], "lineno", 1), col_offset=0)
            mfr = _Frame(FuncInfo(m, None, pseudo), fr.depth + 1)
            paths = self.exec_block(stmts, [Path([], "live", None, {})], mfr)
            live = [p_ for p_ in paths if p_.kind == "live"]
            if len(paths) != 1 or len(live) != 1 or live[0].conds or not _is_concrete(live[0].env.get(name)):
                raise Undecided("module-level table %s does not fold to a constant" % name, fr.f.loc(node))
            self._global_cache[ck] = live[0].env[name]
            return live[0].env[name]
        finally:
            self._global_busy.discard(ck)

    def eval_attr(self, node, env, fr):
        # module attribute (aminoacids.ONE_TO_THREE)
        g = self.prog.resolve_global(fr.f.mod, node)
        if g:
            return self.global_value(g, fr, node)
        if is_self_attr(node) and ("@self." + node.attr) in env:
            return env["@self." + node.attr]
        base = self.eval(node.value, env, fr)
        if node.attr == "__class__" and isinstance(base, Rat):
            return PyType("number")          # an int or a float (the analysis does not tell them apart)
        if node.attr == "__class__" and isinstance(base, (str, AStr)):
            return PyType("str")
        if isinstance(base, ObjV):
            if node.attr in base.fields:
                return base.fields[node.attr]
            if node.attr.split("__")[-1] in {t.split("__")[-1] for t in MEMO_OK_SLOTS}:
                return None                  # a complete one-slot cache, followed as a miss
            if base.cls == "Sequence":
                if node.attr == "seq":
                    return SeqV("seq")
                if node.attr == "len":
                    return Rat.atom("N")
                if node.attr == "chargePattern":
                    return SeqV("cp")
                if node.attr == "ComplexityObject":
                    return ObjV("SequenceComplexity")
                if node.attr == "phosphosites":
                    return FieldListV("phosphosites")
                return Rat.atom("F:" + node.attr)
            if base.cls == "SequenceParameters" and node.attr == "SeqObj":
                return ObjV("Sequence")
            t = self.prog.attr_types.get((base.cls, node.attr))
            if t:
                return ObjV(t)
            return Rat.atom("F:" + node.attr)
        if isinstance(base, IdxV) and node.attr == "size":
            return self.count_atom(base.mask, fr, node)
        raise Undecided("attribute access %s" % unparse(node)[:60], fr.f.loc(node))

    def count_atom(self, mask, fr, node):
        if mask.op in (">=0", "<=0", "!=0"):
            parts = {">=0": (">0", "==0"), "<=0": ("<0", "==0"), "!=0": (">0", "<0")}[mask.op]
            return self.count_atom(MaskV(mask.base, parts[0]), fr, node) + \
                self.count_atom(MaskV(mask.base, parts[1]), fr, node)
        sign = {">0": "+", "<0": "-", "==0": "0"}[mask.op]
        b = mask.base
        # the three masks partition the pattern, so the neutral count is expressed through the other two
        if isinstance(b, SeqV) and b.kind == "cp":
            if sign == "0":
                return Rat.atom("N") - Rat.atom("npos") - Rat.atom("nneg")
            return Rat.atom({"+": "npos", "-": "nneg"}[sign])
        if isinstance(b, WinV) and b.base.kind == "cp":
            fr.note_window(b)
            if sign == "0":
                return (b.hi - b.lo) - Rat.atom("wpos") - Rat.atom("wneg")
            return Rat.atom("w" + {"+": "pos", "-": "neg"}[sign])
        raise Undecided("count over %r" % (b,), fr.f.loc(node))

    def eval_subscript(self, node, env, fr):
        base = self.eval(node.value, env, fr)
        if isinstance(base, ListAcc):
            base = list(base.items)            # a list built by appends, read back by position
        if isinstance(base, Rat) and len(base.atoms()) == 1 and next(iter(base.atoms())).startswith("F:") \
                and next(iter(base.atoms()))[2:].split("__")[-1] in {t.split("__")[-1] for t in MEMO_OK_TABLES}:
            raise _Raised("KeyError")         # a key-complete result table, followed as a miss (see the membership test)
        sl = node.slice
        if isinstance(sl, ast.Slice):
            if sl.step is not None:
                raise Undecided("stepped slice", fr.f.loc(node))
            lo = _as_rat(self.eval(sl.lower, env, fr)) if sl.lower is not None else Rat.const(0)
            hi = _as_rat(self.eval(sl.upper, env, fr)) if sl.upper is not None else None
            if isinstance(base, SeqV):
                if hi is None:
                    hi = Rat.atom("N")
                return WinV(base, lo, hi)
            if isinstance(base, ArrV):
                return ("slice", base.name, lo, hi)
            if isinstance(base, (list, tuple, str)) and lo.is_const() and (hi is None or hi.is_const()):
                a = int(lo.const_value())
                b = None if hi is None else int(hi.const_value())
                return base[a:b]
            raise Undecided("slice of %r" % (base,), fr.f.loc(node))
        idx = self.eval(sl, env, fr)
        if isinstance(base, ArrV):
            i = _as_rat(idx)
            if i is None:
                raise Undecided("index into %s" % base.name, fr.f.loc(node))
            return fatom("el:" + base.name, i)
        if isinstance(base, PaletteV):
            if isinstance(idx, AStr):
                return AStr("%s[%s]" % (base.name, idx.tag))
            if isinstance(idx, str):
                return AStr("%s[%r]" % (base.name, idx))
            if isinstance(idx, AChar):
                return AStr("%s[%s]" % (base.name, idx.tag))
            raise Undecided("palette lookup by %r" % (idx,), fr.f.loc(node))
        if isinstance(base, AStr):
            i = _as_rat(idx)
            if i is not None and i.is_const():
                return AChar("%s[%d]" % (base.tag, int(i.const_value())))
            raise Undecided("symbolic index into an unknown string", fr.f.loc(node))
        if isinstance(base, WhereV):
            if isinstance(idx, Rat) and idx.is_const() and idx.const_value() == 0:
                return IdxV(base.mask)
            raise Undecided("np.where(...)[k] with k != 0", fr.f.loc(node))
        if isinstance(base, dict):
            k = _pykey(idx)
            if k is None:
                raise Undecided("table lookup with a symbolic key (%s)" % unparse(node)[:50], fr.f.loc(node))
            if k not in base:
                raise _Raised("KeyError")
            return base[k]
        if isinstance(base, SeqV):
            if base.kind == "seq" and fr.elem is not None:
                i = _as_rat(idx)
                if i is not None and i.equals(Rat.atom(fr.elem[1])):
                    return fr.elem[0]
            i = _as_rat(idx)
            if i is not None and base.kind == "seq":
                return AChar("seq[%s]" % _canon(i))
            if i is not None:
                return fatom("el:" + base.key(), i)
            raise Undecided("sequence element at %s" % unparse(sl), fr.f.loc(node))
        if isinstance(base, (list, tuple)):
            i = _as_rat(idx)
            if i is not None and i.is_const():
                return base[int(i.const_value())]
        if isinstance(base, VStackV):
            i = _as_rat(idx)
            if i is not None and i.is_const():
                return base.rows[int(i.const_value())]
        raise Undecided("subscript %s" % unparse(node)[:60], fr.f.loc(node))

    def eval_binop(self, node, env, fr):
        a = self.eval(node.left, env, fr)
        b = self.eval(node.right, env, fr)
        op = type(node.op).__name__
        # list / string building
        if op == "Mult":
            for x_, y_ in ((a, b), (b, a)):
                if isinstance(x_, str) and len(x_) != 1 and isinstance(y_, Rat) and y_.is_const() and y_.const_value().denominator == 1:
                    return x_ * max(0, int(y_.const_value()))
            if isinstance(a, str) and len(a) == 1 and isinstance(b, Rat):
                return RLEV([(a, b)])
            if isinstance(b, str) and len(b) == 1 and isinstance(a, Rat):
                return RLEV([(b, a)])
            if isinstance(a, (list, ListAcc)) and isinstance(b, Rat):
                a, b = b, a
            if isinstance(b, (list, ListAcc)) and isinstance(a, Rat):
                items = b.items if isinstance(b, ListAcc) else b
                if len(items) == 1:
                    v = _as_rat(items[0])
                    if v is not None and v.is_const() and v.const_value() == 0:
                        return ZerosV(a)
                    return RepV(items[0], a)
        if op == "Add":
            seqlike = (ZerosV, ProfileV, ConcatV, RepV)
            if isinstance(a, seqlike) and isinstance(b, seqlike):
                pa = a.parts if isinstance(a, ConcatV) else [a]
                pb = b.parts if isinstance(b, ConcatV) else [b]
                return ConcatV(pa + pb)
            if isinstance(a, RLEV) or isinstance(b, RLEV):
                ra_, rb_ = _to_rle(a), _to_rle(b)
                if ra_ is not None and rb_ is not None:
                    return RLEV(ra_.blocks + rb_.blocks)
            if isinstance(a, _StrAcc) and isinstance(b, str):
                return _StrAcc(a.s + b)
            if isinstance(a, str) and isinstance(b, str):
                return a + b
            if isinstance(a, AChar):
                a = AStr(a.tag)
            if isinstance(b, AChar):
                b = AStr(b.tag)
            if isinstance(a, (AStr, str)) and isinstance(b, (AStr, str)):
                return astr_cat(a, b)
            if isinstance(a, (list, tuple)) and isinstance(b, (list, tuple)) and type(a) is type(b):
                return a + b
        if op == "Mod" and isinstance(a, str):
            parts = list(b) if isinstance(b, tuple) else [b]
            if a.count("%s") == len(parts) and a.count("%") == len(parts) and all(isinstance(x, (str, AStr)) for x in parts):
                if all(isinstance(x, str) for x in parts):
                    return a % tuple(parts)
                return astr_fmt(a, parts)
        if op in ("Add", "Sub", "Mult"):
            # a decided comparison used as a number (True is 1, False is 0)
            a = int(a) if isinstance(a, bool) else a
            b = int(b) if isinstance(b, bool) else b
        ra, rb = _as_rat(a), _as_rat(b)
        if ra is None or rb is None:
            raise Undecided("arithmetic on non-numbers: %s" % unparse(node)[:60], fr.f.loc(node))
        if op == "Add":
            return ra + rb
        if op == "Sub":
            return ra - rb
        if op == "Mult":
            return ra * rb
        if op == "Div":
            if rb.n.is_zero():
                raise _Raised("ZeroDivisionError")
            return ra / rb
        if op == "Pow":
            return self.power(ra, rb, fr, node)
        if op == "FloorDiv":
            if ra.is_const() and rb.is_const() and rb.const_value() != 0:
                return Rat.const(ra.const_value() // rb.const_value())
            if rb.is_const() and rb.const_value() > 0:
                fl = self.floor_of(ra / rb)
                if fl is not None:
                    return fl
            return fatom("floordiv", ra, rb)
        if op == "Mod":
            if ra.is_const() and rb.is_const() and rb.const_value() != 0:
                return Rat.const(ra.const_value() % rb.const_value())
            return self.mod_of(ra, rb)
        raise Undecided("operator %s" % op, fr.f.loc(node))

    def power(self, base, exp, fr, node):
        if exp.is_const():
            e = exp.const_value()
            if e.denominator == 1 and abs(e.numerator) <= 6:
                return base ** int(e)
            return fatom("pow", base, exp)
        if base.is_const():
            return fatom("exp%s" % base.const_value(), exp)
        raise Undecided("symbolic power", fr.f.loc(node))

    # --- calls ----------------------------------------------------------------
    def eval_call(self, node, env, fr):
        memo = fr.memo_get(node)
        if memo is not _MISSING:
            return memo
        name = _callname(node)
        fn = node.func
        args = node.args
        kw = {k.arg: k.value for k in node.keywords}
        # ---- builtins and numpy idioms
        if name == "type" and len(args) == 1 and not node.keywords:
            v = self.eval(args[0], env, fr)
            if isinstance(v, bool):
                return PyType("bool")
            if isinstance(v, str):
                return PyType("str")
            if isinstance(v, TransTable) or isinstance(v, dict):
                return PyType("dict")
            if isinstance(v, list) or (isinstance(v, ListAcc) and not v.items):
                return PyType("list")
            if isinstance(v, tuple):
                return PyType("tuple")
            if v is None:
                return PyType("NoneType")
            raise Undecided("type() of a symbolic value (%s)" % unparse(node)[:50], fr.f.loc(node))
        if name == "isinstance" and len(args) == 2 and isinstance(args[1], ast.Name):
            v = self.eval(args[0], env, fr)
            t = args[1].id
            if t == "dict":
                return isinstance(v, dict)
            if t == "int":
                return isinstance(v, Rat) and v.is_const() and v.const_value().denominator == 1
            if t == "str":
                return isinstance(v, str)
            raise Undecided("isinstance(..., %s)" % t, fr.f.loc(node))
        if name == "sum" and len(args) == 1 and isinstance(args[0], (ast.GeneratorExp, ast.ListComp)) and len(args[0].generators) == 1:
            g = args[0].generators[0]
            it = self.eval(g.iter, env, fr)
            if isinstance(it, SeqV) and it.kind == "seq" and isinstance(g.target, ast.Name):
                # commutative fold over the residues: finite case split over the letters
                tot = Rat.const(0)
                for L in self.universe:
                    e2 = dict(env)
                    e2[g.target.id] = L
                    keep = True
                    for cnd in g.ifs:
                        c = self.cond(cnd, e2, fr)
                        if c is False:
                            keep = False
                        elif c is not True:
                            raise Undecided("generator filter on a symbolic value", fr.f.loc(node))
                    if keep:
                        v = _as_rat(self.eval(args[0].elt, e2, fr))
                        if v is None:
                            raise Undecided("generator element is not numeric", fr.f.loc(node))
                        tot = tot + v * Rat.atom("cnt[%s]" % L)
                return tot
        if name in ("frozenset", "set") and len(args) == 1:
            v = self.eval(args[0], env, fr)
            if isinstance(v, (str, list, tuple)):
                out = []
                for x in v:
                    if x not in out:
                        out.append(x)
                return out
        if isinstance(fn, ast.Attribute) and isinstance(fn.value, ast.Name) and fn.value.id == "dict" and fn.attr == "fromkeys" and len(args) in (1, 2):
            keys = self.eval(args[0], env, fr)
            val = self.eval(args[1], env, fr) if len(args) == 2 else None
            if isinstance(keys, (str, list, tuple)):
                return {_pykey(k) if not isinstance(k, str) else k: val for k in keys}
        if name == "dict" and len(args) <= 1 and not node.keywords:
            if not args:
                return {}
            a0 = args[0]
            if isinstance(a0, ast.GeneratorExp):
                a0 = ast.copy_location(ast.ListComp(elt=a0.elt, generators=a0.generators), a0)
            v = self.eval(a0, env, fr)
            if isinstance(v, dict):
                return dict(v)
            if isinstance(v, (list, tuple)) and all(isinstance(x, (tuple, list)) and len(x) == 2 and _pykey(x[0]) is not None for x in v):
                return {_pykey(x[0]): x[1] for x in v}
            raise Undecided("dict(%s)" % unparse(args[0])[:40], fr.f.loc(node))
        if name in ("ord", "chr") and len(args) == 1 and not node.keywords:
            v = self.eval(args[0], env, fr)
            if name == "ord" and isinstance(v, str) and len(v) == 1:
                return Rat.const(ord(v))
            if name == "chr" and isinstance(v, Rat) and v.is_const():
                return chr(int(v.const_value()))
            raise Undecided("%s() of a symbolic value" % name, fr.f.loc(node))
        if name == "getattr" and len(args) == 2 and not node.keywords:
            obj = self.eval(args[0], env, fr)
            attr = self.eval(args[1], env, fr)
            attr = _concrete_str(attr) if not isinstance(attr, str) else attr
            if isinstance(obj, ObjV) and isinstance(attr, str):
                m_ = self.prog.method(obj.cls, attr)
                if m_ is not None:
                    return BoundV(obj, m_)
                return self.eval_attr(ast.copy_location(ast.Attribute(value=args[0], attr=attr, ctx=ast.Load()), node), env, fr)
            raise Undecided("getattr(%s) with a name or an object lcsa does not know" % unparse(node)[:50], fr.f.loc(node))
        if name == "zip" and args and not node.keywords and not any(isinstance(a, ast.Starred) for a in args):
            vals = [self.eval(a, env, fr) for a in args]
            vals = [list(v.keys()) if isinstance(v, dict) else v for v in vals]
            if all(isinstance(v, (list, tuple, str)) for v in vals):
                return [tuple(t) for t in zip(*vals)]
            raise Undecided("zip() of a value that is not a concrete sequence", fr.f.loc(node))
        if name in ("float", "int", "str", "abs", "len", "list", "set", "min", "max", "sum", "range",
                    "sorted", "tuple", "round"):
            return self.builtin(name, node, env, fr)
        if isinstance(fn, ast.Attribute) and isinstance(fn.value, ast.Name) and fn.value.id in ("np", "numpy", "math"):
            return self.numpy(fn.attr, node, env, fr)
        if isinstance(fn, ast.Attribute) and fn.attr == "maketrans" and len(args) in (1, 2) and not node.keywords:
            vals = [self.eval(a, env, fr) for a in args]
            vals = [(_concrete_str(x) if _concrete_str(x) is not None else x) for x in vals]
            if len(vals) == 2 and all(isinstance(x, str) for x in vals):
                if len(vals[0]) != len(vals[1]):
                    raise _Raised("ValueError")
                t = TransTable()
                for a_, b_ in zip(vals[0], vals[1]):
                    t[a_] = b_            # later entries win, as in CPython
                return t
            if len(vals) == 1 and isinstance(vals[0], dict) and all(isinstance(k, str) and len(k) == 1 and isinstance(x, str) for k, x in vals[0].items()):
                return TransTable(vals[0])
            raise Undecided("maketrans of non-constant arguments", fr.f.loc(node))
        if isinstance(fn, ast.Attribute) and fn.attr == "translate" and len(args) == 1 and not node.keywords:
            base = self.eval(fn.value, env, fr)
            t = self.eval(args[0], env, fr)
            if isinstance(t, dict) and not isinstance(t, TransTable) and t and all(isinstance(k, int) and (isinstance(v_, str) or v_ is None) for k, v_ in t.items()):
                # a translation table written by hand: code point -> replacement text (None deletes)
                tt_ = TransTable()
                for k, v_ in t.items():
                    tt_[chr(k)] = "" if v_ is None else v_
                t = tt_
            if isinstance(t, TransTable):
                if isinstance(base, SeqV) and base.kind == "seq":
                    return StrMapV({L: t.get(L, L) for L in self.universe})
                if isinstance(base, StrMapV):
                    return StrMapV({L: "".join(t.get(c, c) for c in out) for L, out in base.table.items()})
                if isinstance(base, str):
                    return "".join(t.get(c, c) for c in base)
            raise Undecided("translate of %r with %r" % (base, type(t).__name__), fr.f.loc(node))
        if isinstance(fn, ast.Attribute):
            # methods of modelled values
            if fn.attr == "join" and len(args) == 1:
                base = self.eval(fn.value, env, fr)
                a = self.eval(args[0], env, fr)
                if base == "" and isinstance(a, StrMapV):
                    return a
                if base == "" and isinstance(a, SeqV) and a.kind == "seq":
                    return StrMapV({L: L for L in LETTERS})
                if isinstance(base, str) and isinstance(a, ListAcc) and all(isinstance(x, str) for x in a.items):
                    return base.join(a.items)
                if isinstance(base, str) and isinstance(a, (list, tuple)) and all(isinstance(x, str) for x in a):
                    return base.join(a)
                raise Undecided("join of %r" % (a,), fr.f.loc(node))
            if fn.attr in ("strip", "upper", "lower") and not args:
                base0 = None
                try:
                    base0 = self.eval(fn.value, env, fr)
                except Undecided:
                    base0 = None
                if isinstance(base0, AStr):
                    return AStr("%s.%s()" % (base0.tag, fn.attr))
            if fn.attr in ("isdigit", "isalpha", "islower", "isupper", "isalnum", "strip") and not args:
                base = self.eval(fn.value, env, fr)
                if isinstance(base, str):
                    return getattr(base, fn.attr)()
                raise Undecided("method %s on %r" % (fn.attr, base), fr.f.loc(node))
            if fn.attr == "rstrip" and len(args) == 1 and not node.keywords:
                memo = fr.memo_get(node)
                if memo is not _MISSING:
                    return memo
                try:
                    base_r = self.eval(fn.value, env, fr)
                except Undecided:
                    base_r = None
                ch = self.eval(args[0], env, fr)
                if isinstance(base_r, str) and isinstance(ch, str):
                    return base_r.rstrip(ch)
                if isinstance(base_r, SeqV) and base_r.kind == "seq" and isinstance(ch, str) and len(ch) == 1:
                    if ch not in self.universe:
                        return base_r
                    # the trailing run of `ch` is removed: nothing when the last character is another one, exactly the last character when it
                    # is the only `ch`, otherwise a run of trail[ch] >= 1 characters (a new integer atom, at most the number of `ch` present)
                    cnt = Rat.atom("cnt[%s]" % ch)
                    trail = Rat.atom("trail[%s]" % ch)
                    last = ("and", [("cmp", cnt, ">=", Rat.const(1)), ("opaque", "seq[-1]==%r" % ch)])
                    raise _NeedSplit(node, [([c_not(last)], base_r),
                                            ([last, ("cmp", cnt, "==", Rat.const(1))], WinV(base_r, Rat.const(0), Rat.const(-1))),
                                            ([last, ("cmp", cnt, ">=", Rat.const(2)), ("cmp", trail, ">=", Rat.const(1)), ("cmp", trail, "<=", cnt)],
                                             WinV(base_r, Rat.const(0), Rat.atom("N") - trail))])
            if fn.attr in ("endswith", "startswith") and len(args) == 1 and not node.keywords:
                try:
                    base_e = self.eval(fn.value, env, fr)
                except Undecided:
                    base_e = None
                suf = self.eval(args[0], env, fr)
                if isinstance(base_e, SeqV) and base_e.kind == "seq" and isinstance(suf, str) and len(suf) == 1:
                    if suf not in self.universe:
                        return False
                    pos = "-1" if fn.attr == "endswith" else "0"
                    # non-empty and the end character is the letter (an empty string has no such character: count >= 1 covers it)
                    return ("and", [("cmp", Rat.atom("cnt[%s]" % suf), ">=", Rat.const(1)), ("opaque", "seq[%s]==%r" % (pos, suf))])
                if isinstance(base_e, str) and isinstance(suf, str):
                    return getattr(base_e, fn.attr)(suf)
            if fn.attr == "get" and len(args) in (1, 2) and not node.keywords:
                try:
                    base_g = self.eval(fn.value, env, fr)
                except Undecided:
                    base_g = None
                if isinstance(base_g, dict) and not isinstance(base_g, PaletteV if isinstance(PaletteV, type) else ()):
                    k = _pykey(self.eval(args[0], env, fr))
                    if k is None:
                        raise Undecided("dict.get with a symbolic key (%s)" % unparse(node)[:50], fr.f.loc(node))
                    if k in base_g:
                        return base_g[k]
                    return self.eval(args[1], env, fr) if len(args) == 2 else None
            if fn.attr in ("keys", "upper", "lower", "count", "values", "items", "isspace"):
                base = self.eval(fn.value, env, fr)
                if fn.attr == "keys" and isinstance(base, dict):
                    return list(base.keys())
                if fn.attr == "values" and isinstance(base, dict):
                    return list(base.values())
                if fn.attr in ("upper", "lower") and isinstance(base, str):
                    return getattr(base, fn.attr)()
                if fn.attr in ("upper", "lower") and (base is None or isinstance(base, (Rat, list, tuple, dict, int, float))):
                    raise _Raised("AttributeError")
                if fn.attr == "count" and isinstance(base, SeqV) and base.kind == "seq" and len(args) == 1:
                    a = self.eval(args[0], env, fr)
                    if isinstance(a, str) and len(a) == 1 and a in self.universe:
                        return Rat.atom("cnt[%s]" % a)
                    if isinstance(a, str) and len(a) == 1:
                        return Rat.const(0)
                if fn.attr == "count" and isinstance(base, WinV) and base.base.kind == "seq" and len(args) == 1:
                    a = self.eval(args[0], env, fr)
                    if isinstance(a, str) and len(a) == 1:
                        fr.note_window(base)
                        return Rat.atom("wcnt[%s]" % a)
                if fn.attr == "isspace" and isinstance(base, str):
                    return base.isspace()
                raise Undecided("method %s on %r" % (fn.attr, base), fr.f.loc(node))
        ext = self.extern_calls.get(unparse(fn))
        if ext is not None:
            return ext(node, [self.eval(a, env, fr) for a in args])
        if isinstance(fn, ast.Name) and isinstance(env.get(fn.id), LambdaV) and not node.keywords and not any(isinstance(a, ast.Starred) for a in args):
            lv = env[fn.id]
            ps = [a.arg for a in lv.node.args.args]
            if len(ps) != len(args):
                raise _Raised("TypeError")
            e2 = dict(lv.env)
            for p_, a in zip(ps, args):
                e2[p_] = self.eval(a, env, fr)
            return self.eval(lv.node.body, e2, _Frame(lv.f, fr.depth + 1))
        callee = self.prog.resolve_call(fr.f, node, fr.types())
        bound_obj = None
        if isinstance(fn, ast.Name) and isinstance(env.get(fn.id), BoundV):
            callee, bound_obj = env[fn.id].f, env[fn.id].obj      # a local bound to a method of a modelled object
        elif isinstance(fn, ast.Call) and _callname(fn) == "getattr":
            bv = self.eval(fn, env, fr)                            # getattr(obj, name)(...)
            if isinstance(bv, BoundV):
                callee, bound_obj = bv.f, bv.obj
        if isinstance(fn, ast.Name) and isinstance(env.get(fn.id), FuncV):
            callee = env[fn.id].f                       # a local bound to a package function
        elif callee is None and isinstance(fn, ast.Subscript):
            fv = self.eval(fn, env, fr)                 # a function looked up in a table
            if isinstance(fv, FuncV):
                callee = fv.f
        if callee is None and isinstance(fn, ast.Attribute):
            # method on a modelled object value
            try:
                base = self.eval(fn.value, env, fr)
            except Undecided:
                base = None
            if isinstance(base, ObjV):
                callee = self.prog.method(base.cls, fn.attr)
        if callee is None:
            raise Undecided("unresolved call %s" % unparse(node)[:60], fr.f.loc(node))
        if callee.key in self.opaque_calls:
            oc = self.opaque_calls[callee.key]
            if callable(oc):
                ps = callee.params()[1:] if callee.cls else callee.params()
                b = {}
                if callee.cls and isinstance(fn, ast.Attribute):
                    try:
                        b["self"] = self.eval(fn.value, env, fr)
                    except Undecided:
                        b["self"] = None
                for i, a in enumerate(args):
                    b[ps[i] if i < len(ps) else "*%d" % i] = self.eval(a, env, fr)
                for k, v in kw.items():
                    b[k] = self.eval(v, env, fr)
                return oc(b)
            return oc if isinstance(oc, Rat) else Rat.atom(oc)
        if callee.mod.rel == tab.AA and not callee.cls and callee.qual in ("buildTable", "build_amino_acids_skeleton") and not args and not kw:
            try:
                return _wrap([list(r) for r in tab.skeleton_rows(self.prog)[0]])       # the fill-rows-in-place idiom
            except Undecided:
                pass
        elif callee.mod.rel == tab.AA and not callee.cls and not args and not kw and fr.depth < 4:
            try:
                return _wrap(tab._table_from_func(self.prog, callee.mod.rel, callee.qual))
            except Undecided:
                pass
        # inline
        self_obj = None
        if callee.cls:
            if callee.is_static:
                self_obj = ObjV(callee.cls)              # no receiver: `Cls.helper(x)` and `self.helper(x)` run the same body
            elif bound_obj is not None:
                self_obj = bound_obj
            elif isinstance(fn, ast.Attribute):
                self_obj = self.eval(fn.value, env, fr)
            if callee.name == "__init__":
                if self.model_ctors and callee.cls not in CONCRETE_CTORS:
                    ps = callee.params()[1:]
                    flds = {}
                    for i, a in enumerate(args):
                        flds["arg:" + (ps[i] if i < len(ps) else str(i))] = self.eval(a, env, fr)
                    for k, v in kw.items():
                        flds["arg:" + k] = self.eval(v, env, fr)
                    if callee.cls == "Sequence" and "arg:seq" in flds:
                        flds["seq"] = flds["arg:seq"]
                    return ObjV(callee.cls, flds)
                if callee.cls in CONCRETE_CTORS:
                    # a record class of the data layer: its constructor is executed, the object is what it stored
                    self_obj = ObjV(callee.cls, {})
                else:
                    raise Undecided("constructor call %s in a numeric context" % unparse(node)[:40], fr.f.loc(node))
            if not isinstance(self_obj, ObjV):
                raise Undecided("receiver of %s is not a modelled object" % callee.qual, fr.f.loc(node))
        params = callee.params()[1:] if callee.cls else callee.params()
        bound = {}
        actuals = []
        for a in args:
            if isinstance(a, ast.Starred):
                sv = self.eval(a.value, env, fr)
                if not isinstance(sv, (list, tuple)):
                    raise Undecided("*%s is not a concrete sequence" % unparse(a.value)[:30], fr.f.loc(node))
                actuals.extend(sv)
            else:
                actuals.append(self.eval(a, env, fr))
        for i, a in enumerate(actuals):
            if i >= len(params):
                raise Undecided("too many arguments for %s" % callee.qual, fr.f.loc(node))
            bound[params[i]] = a
        kwname = callee.node.args.kwarg.arg if callee.node.args.kwarg is not None else None
        extra_kw = {}
        for kwnode in node.keywords:
            k, v = kwnode.arg, kwnode.value
            if k is None:
                dv = self.eval(v, env, fr)                  # **options: a dict with literal names
                if not (isinstance(dv, dict) and all(isinstance(x, str) for x in dv)):
                    raise Undecided("** arguments in the call of %s" % callee.qual, fr.f.loc(node))
                items = list(dv.items())
            else:
                items = [(k, self.eval(v, env, fr))]
            for k2, v2 in items:
                if k2 in params:
                    bound[k2] = v2
                elif kwname is not None:
                    extra_kw[k2] = v2
                else:
                    raise Undecided("unknown keyword %s for %s" % (k2, callee.qual), fr.f.loc(node))
        if kwname is not None:
            bound[kwname] = extra_kw
        if callee.cls and callee.name == "__init__" and callee.cls in CONCRETE_CTORS:
            return self.construct(callee, bound, fr, node)
        paths = self.run_function(callee, bound, self_obj, fr.depth + 1)
        alts = []
        for q in paths:
            if q.kind == "raise":
                alts.append((q.conds, _Raised(q.value)))
            else:
                alts.append((q.conds, q.value))
        if len(alts) == 1 and not alts[0][0]:
            if isinstance(alts[0][1], _Raised):
                raise alts[0][1]
            return alts[0][1]
        # merge alternatives that agree
        live = [a for a in alts if not isinstance(a[1], _Raised)]
        if len(live) == len(alts) and all(_veq(a[1], live[0][1]) for a in live):
            return live[0][1]
        raise _NeedSplit(node, alts)

    def builtin(self, name, node, env, fr):
        args = [self.eval(a, env, fr) for a in node.args]
        if name == "round" and len(args) == 1:
            v = _as_rat(args[0])
            if v is not None:
                if v.is_const():
                    return Rat.const(round(v.const_value()))
                return fatom("round", v)
        if name in ("float", "int") and len(args) == 1:
            if isinstance(args[0], str):
                # a concrete text: converted as python does (surrounding blanks allowed, anything else is a ValueError)
                txt = args[0].strip()
                try:
                    return Rat.const(int(txt)) if name == "int" else Rat.const(Fraction(txt) if "e" not in txt.lower() and "n" not in txt.lower() else Fraction(float(txt)))
                except (ValueError, ZeroDivisionError, OverflowError):
                    raise _Raised("ValueError")
            v = _as_rat(args[0])
            if v is None:
                raise Undecided("%s() of non-number" % name, fr.f.loc(node))
            if name == "int":
                if v.is_const():
                    c = v.const_value()
                    return Rat.const(int(c))   # truncation toward zero
                fl = self.floor_of(v)
                if fl is not None:
                    return fl
                return fatom("int", v)
            return v
        if name == "str":
            if isinstance(args[0], str):
                return args[0]
        if name == "abs" and len(args) == 1:
            v = _as_rat(args[0])
            if v is None:
                raise Undecided("abs() of non-number", fr.f.loc(node))
            return self.abs_of(v)
        if name == "len" and len(args) == 1:
            a = args[0]
            if isinstance(a, SeqV):
                return Rat.atom("N")
            if isinstance(a, WinV):
                return a.hi - a.lo
            if isinstance(a, IdxV):
                return self.count_atom(a.mask, fr, node)
            if isinstance(a, (str, list, tuple, dict, set)):
                return Rat.const(len(a))
            if isinstance(a, AStr):
                return Rat.atom("len(%s)" % a.tag)
            if isinstance(a, FieldListV):
                return Rat.atom("len(%s)" % a.name)
            if isinstance(a, RLEV):
                return a.length()
            if isinstance(a, ListAcc):
                return Rat.const(len(a.items))
        if name in ("list", "tuple", "sorted") and len(args) == 1:
            a = args[0]
            if isinstance(a, ListAcc) and name != "sorted":
                a = list(a.items)
            if name == "sorted" and isinstance(a, (dict, list, tuple, str)):
                # really sorted: the elements must be concretely comparable (all strings, all constants, or sequences of those)
                items = list(a.keys()) if isinstance(a, dict) else list(a)

                def sk(x):
                    if isinstance(x, SetL):
                        raise Undecided("sorted() over sets (ordered by inclusion, not modelled)", fr.f.loc(node))
                    if isinstance(x, str):
                        return (0, x)
                    r = _as_rat(x)
                    if r is not None and r.is_const():
                        return (1, r.const_value())
                    if isinstance(x, (list, tuple)):
                        return (2, tuple(sk(y) for y in x))
                    raise Undecided("sorted() over elements lcsa cannot order (%s)" % unparse(node)[:50], fr.f.loc(node))
                keys = [sk(x) for x in items]
                if len({k[0] for k in keys}) > 1:
                    raise Undecided("sorted() over elements of mixed kinds (%s)" % unparse(node)[:50], fr.f.loc(node))
                if any(k.arg not in ("reverse",) for k in node.keywords):
                    raise Undecided("sorted(..., key=...) not modelled", fr.f.loc(node))
                rev = False
                for k in node.keywords:
                    rv = self.eval(k.value, env, fr)
                    if not isinstance(rv, bool):
                        raise Undecided("sorted(reverse=<symbolic>)", fr.f.loc(node))
                    rev = rv
                order = sorted(range(len(items)), key=lambda i: keys[i], reverse=rev)
                return [items[i] for i in order]
            if isinstance(a, dict):
                return list(a.keys())
            if isinstance(a, (list, tuple)):
                return list(a)
            if isinstance(a, str):
                return list(a)
            if isinstance(a, (SeqV, FieldListV)):
                return a
        if name == "set" and len(args) == 1 and isinstance(args[0], (list, tuple)):
            return SetL(args[0])
        if name in ("min", "max"):
            vals = args[0] if len(args) == 1 and isinstance(args[0], (list, tuple)) else args
            rs = [_as_rat(v) for v in vals]
            if all(r is not None for r in rs):
                if all(r.is_const() for r in rs):
                    f = min if name == "min" else max
                    return Rat.const(f(r.const_value() for r in rs))
                return fatom(name, *sorted(rs, key=_canon))
        if name == "sum" and len(args) == 1:
            a = args[0]
            if isinstance(a, WinV) and a.base.kind == "map":
                fr.note_window(a)
                return Rat.atom("wsum[%s]" % a.base.elkey)
            if isinstance(a, (list, tuple)):
                rs = [_as_rat(v) for v in a]
                if all(r is not None for r in rs):
                    t = Rat.const(0)
                    for r in rs:
                        t = t + r
                    return t
        if name == "range":
            rs = [_as_rat(a) for a in args]
            if all(r is not None for r in rs):
                if len(rs) == 1:
                    return ARangeV(Rat.const(0), rs[0])
                if len(rs) == 2:
                    return ARangeV(rs[0], rs[1])
        raise Undecided("builtin %s(%s) not modelled" % (name, unparse(node)[:50]), fr.f.loc(node))

    def mod_of(self, a, b):
        """a % b = a - b*floor(a/b) when the floor is computable over the declared integer atoms"""
        if b.is_const() and b.const_value() > 0:
            fl = self.floor_of(a / b)
            if fl is not None:
                return a - b * fl
        return fatom("mod", a, b)

    def abs_of(self, v):
        """|v| ; a denominator known to be positive is pulled out so that |x/N| and |x|/N share a form"""
        if v.is_const():
            return Rat.const(abs(v.const_value()))
        from .dt import poly_sign_positive
        if not v.d.is_const() and poly_sign_positive(v.d, self.positive):
            return abs_atom(Rat(v.n)) / Rat(v.d)
        return abs_atom(v)

    def floor_of(self, v, ceil=False):
        """floor (or ceil) of `integer-valued non-negative polynomial + rational constant`, when the
        atoms are declared non-negative integers (parity analysis); None if the shape does not fit"""
        if not v.d.is_const():
            return None
        import math
        ip, c = {}, Fraction(0)
        for k, coef in v.n.t.items():
            coef = coef / v.d.const_value()
            if k == ():
                c = coef
                continue
            if coef.denominator != 1 or coef < 0 or any(a not in self.int_atoms for a, _ in k):
                return None
            ip[k] = coef
        if not ip:
            return None
        ci = math.ceil(c) if ceil else math.floor(c)
        if c < 0 and not ceil:
            # int() truncates toward zero: only claim floor when the value is certainly >= 0.  With every atom >= 1 each monomial is at least
            # its coefficient, so the value is at least (sum of coefficients) + c
            if not (all(a in self.pos_int_atoms for k in ip for a, _ in k) and sum(ip.values()) + c >= 0):
                return None
        return Rat(Poly(ip)) + Rat.const(ci)

    def numpy(self, attr, node, env, fr):
        args = [self.eval(a, env, fr) for a in node.args]
        if attr == "where" and len(args) == 1 and isinstance(args[0], MaskV):
            return WhereV(args[0])
        if attr == "append" and len(args) == 2 and isinstance(args[0], ListAcc) and not args[0].items and isinstance(args[1], SeqV) and args[1].kind == "map":
            return args[1]                 # np.append([], <per-residue vector>): the vector itself
        if attr == "append" and len(args) == 2 and isinstance(args[0], ListAcc):
            return ListAcc(args[0].items + [args[1]])
        if attr == "arange" and self.arange_as_index:
            rs = [_as_rat(a) for a in args]
            if all(r is not None for r in rs) and len(rs) in (1, 2):
                lo, hi = (Rat.const(0), rs[0]) if len(rs) == 1 else (rs[0], rs[1])
                self.aranges.append((lo, hi))
                return Rat.atom("@k")
        if attr in ("round", "rint", "around") and len(args) == 1:
            a = _as_rat(args[0])
            if a is not None:
                return fatom("round", a) if not a.is_const() else Rat.const(round(a.const_value()))
        if attr in ("argmin", "argmax", "mean", "log10") and len(args) == 1:
            a = _as_rat(args[0])
            if a is not None:
                return fatom(attr, a)
        if attr == "arange":
            rs = [_as_rat(a) for a in args]
            if all(r is not None for r in rs) and len(rs) == 2:
                return ARangeV(rs[0], rs[1])
            if all(r is not None for r in rs) and len(rs) == 1:
                return ARangeV(Rat.const(0), rs[0])
        if attr == "power" and len(args) == 2:
            a, b = _as_rat(args[0]), _as_rat(args[1])
            if a is not None and b is not None:
                return self.power(a, b, fr, node)
        if attr == "sqrt" and len(args) == 1:
            a = _as_rat(args[0])
            if a is not None:
                return self.power(a, Rat.const(Fraction(1, 2)), fr, node)
        if attr in ("abs", "absolute", "fabs") and len(args) == 1:
            a = _as_rat(args[0])
            if a is not None:
                return self.abs_of(a)
        if attr == "mod" and len(args) == 2:
            a, b = _as_rat(args[0]), _as_rat(args[1])
            if a is not None and b is not None:
                if a.is_const() and b.is_const():
                    return Rat.const(a.const_value() % b.const_value())
                return self.mod_of(a, b)
        if attr == "log" and len(args) in (1, 2):
            a = _as_rat(args[0])
            if a is not None:
                if len(args) == 2:
                    b = _as_rat(args[1])
                    return fatom("log", a, b)
                return fatom("ln", a)
        if attr == "exp" and len(args) == 1:
            a = _as_rat(args[0])
            if a is not None:
                return fatom("exp", a)
        if attr == "vstack" and len(args) == 1 and isinstance(args[0], (tuple, list, ListAcc)):
            rows = []
            for r_ in (args[0].items if isinstance(args[0], ListAcc) else args[0]):
                rows.extend(r_.rows if isinstance(r_, VStackV) else [r_])         # stacking a stack appends its rows
            return VStackV(rows)
        if attr in ("floor", "ceil") and len(args) == 1:
            a = _as_rat(args[0])
            if a is not None:
                if a.is_const():
                    import math
                    c = a.const_value()
                    return Rat.const(math.floor(c) if attr == "floor" else math.ceil(c))
                fl = self.floor_of(a, ceil=(attr == "ceil"))
                if fl is not None:
                    return fl
                return fatom(attr, a)
        if attr in ("zeros", "ones") and len(args) == 1 and attr == "zeros":
            n_ = _as_rat(args[0])
            if n_ is not None:
                return ZerosV(n_)
        if attr == "sign" and len(args) == 1:
            a = _as_rat(args[0])
            if a is not None and a.is_const():
                c = a.const_value()
                return Rat.const(1 if c > 0 else (-1 if c < 0 else 0))
            if a is not None:
                return fatom("sign", a)
        if attr in ("array", "asarray") and len(args) == 1 and isinstance(args[0], (SeqV, ListAcc, list, ZerosV)):
            dt = [k for k in node.keywords if k.arg == "dtype"]
            if all(unparse(k.value) in ("float", "np.float64", "int", "np.float_", "'float'", "np.double") for k in dt) and len(dt) == len(node.keywords):
                if isinstance(args[0], ListAcc) and not args[0].items:
                    return args[0]
                if isinstance(args[0], (SeqV, ZerosV)):
                    return args[0]          # element-wise exact values: float/int conversion of -1/0/1 and of counts changes nothing
        raise Undecided("numpy/math idiom %s not in the normaliser's table" % attr, fr.f.loc(node))


MEMO_OK_SLOTS = set()   # names of one-slot result caches (`if self.F is not None: return self.F`) MEMO-KEY showed complete: read as empty
MEMO_OK_TABLES = set()  # names of object-level result tables whose key MEMO-KEY showed complete (filled by props.common.check_memos)
DECORATORS_OK = set()   # keys of decorated functions whose (memoising) wrapper was shown key-complete by MEMO-KEY
ABS_REG = {}     # atom name -> Rat it is the absolute value of
FUNC_REG = {}    # function atom name -> (kind, [argument Rats])


def fatom(kind, *args):
    """opaque function application as an atom whose arguments stay available for deep substitution"""
    if kind == "abs":
        return abs_atom(args[0])
    name = "%s(%s)" % (kind, "|".join(_canon(a) for a in args))
    FUNC_REG[name] = (kind, list(args))
    return Rat.atom(name)


def abs_atom(v):
    """|v| as an atom; canonical up to sign"""
    a, b = _canon(v), _canon(-v)
    name = "abs(%s)" % min(a, b)
    inner = v if a <= b else -v
    ABS_REG[name] = inner
    FUNC_REG[name] = ("abs", [inner])
    return Rat.atom(name)


def deep_atoms(r):
    """atoms of r including those inside the arguments of function atoms"""
    out = set()
    for a in r.atoms():
        out.add(a)
        if a in FUNC_REG:
            for x in FUNC_REG[a][1]:
                out |= deep_atoms(x)
    return out


def subst_deep(r, mapping):
    """substitution that also rewrites the arguments of function atoms"""
    m = dict(mapping)
    for a in sorted(r.atoms()):
        if a in FUNC_REG and a not in m:
            kind, args = FUNC_REG[a]
            new = [subst_deep(x, mapping) for x in args]
            if any(not n.equals(o) for n, o in zip(new, args)):
                m[a] = fatom(kind, *new)
    return r.subst(m)


# ------------------------------------------------------------------------- frames
_MISSING = object()


class _Frame:
    def __init__(self, f, depth, memo=None, elem=None, window=None):
        self.f = f
        self.depth = depth
        self.memo = memo or []
        self.elem = elem           # (letter, index atom) inside an element loop by index
        self._types = None
        self.windows = window if window is not None else None
        self.pending = []
        self.base_conds = []

    def types(self):
        return None

    def with_memo(self, call, value):
        fr = _Frame(self.f, self.depth, self.memo + [(call, value)], self.elem, self.windows)
        return fr

    def memo_get(self, call):
        for c, v in self.memo:
            if c is call:
                if isinstance(v, _Raised):
                    raise v
                return v
        return _MISSING

    def with_elem(self, letter, idx_atom):
        return _Frame(self.f, self.depth, self.memo, (letter, idx_atom), self.windows)

    def in_window(self):
        return _Frame(self.f, self.depth, self.memo, self.elem, [])

    def note_window(self, w):
        if self.windows is not None:
            self.windows.append(w)

    def window_seen(self, res):
        if not self.windows:
            return None
        w0 = self.windows[0]
        for w in self.windows[1:]:
            if not (w.lo.equals(w0.lo) and w.hi.equals(w0.hi)):
                raise Undecided("two different windows in one loop body", self.f.loc())
        return (w0.base.key(), w0.lo, w0.hi)


class _NeedSplit(Exception):
    def __init__(self, call, alternatives):
        self.call = call
        self.alternatives = alternatives


class _Raised(Exception):
    def __init__(self, name):
        self.name = name


class _StrAcc:
    def __init__(self, s):
        self.s = s


# ------------------------------------------------------------------------- helpers
def _num(v):
    if isinstance(v, Fraction):
        return Rat.const(v)
    return v


def _concrete_str(v):
    """a str, or a run-length string whose multiplicities are all constant non-negative integers -> str ; else None"""
    if isinstance(v, str):
        return v
    if isinstance(v, RLEV):
        out = []
        for ch, k in v.blocks:
            if not (isinstance(k, Rat) and k.is_const()):
                return None
            c = k.const_value()
            if c.denominator != 1 or c < 0:
                return None
            out.append(ch * int(c))
        return "".join(out)
    return None


class PyType:
    """the class object of a builtin type, as compared in `type(x) is str`"""

    def __init__(self, name):
        self.name = name

    def __repr__(self):
        return "<class %s>" % self.name


class TransTable(dict):
    """result of str.maketrans(a, b): character -> character (kept on characters, not code points)"""


CONCRETE_CTORS = {"Residue"}


class FlagDependent(Undecided):
    """the per-element effect of a loop body depends on a flag an earlier element may have set: the fold over the elements is not a
    per-letter map.  Undecided for the generic clients; a property that knows the required per-letter behaviour can read the two outcomes"""

    def __init__(self, msg, where=None, letter=None, valuation=None, first=None, later=None):
        super().__init__(msg, where)
        self.letter, self.valuation, self.first, self.later = letter, valuation, first, later


class SetL(list):
    """a set, kept as the list of its members in first-seen order: membership, iteration and len() behave like the list's; anything that
    depends on an order among sets (sorted) must not take it for a list"""

    def __init__(self, items=()):
        seen = []
        for x in items:
            if not any(_same_member(x, y) for y in seen):
                seen.append(x)
        super().__init__(seen)


def _same_member(a, b):
    try:
        return type(a) is type(b) and a == b and isinstance(a, (str, int, bool))
    except Exception:
        return False


class BoundV:
    """a bound method used as a value: getattr(obj, 'name'), or obj.name handed on to be called later"""
    __slots__ = ("obj", "f")

    def __init__(self, obj, f):
        self.obj, self.f = obj, f

    def __repr__(self):
        return "BoundV(%s.%s)" % (self.obj.cls, self.f.name)


class LambdaV:
    """a lambda expression as a value: its body is evaluated in the defining environment when it is called"""
    __slots__ = ("node", "env", "f")

    def __init__(self, node, env, f):
        self.node, self.env, self.f = node, env, f

    def __repr__(self):
        return "LambdaV(%s)" % unparse(self.node)[:40]


class FuncV:
    """a package function used as a value (stored in a table, bound to a local, then called)"""
    __slots__ = ("f",)

    def __init__(self, f):
        self.f = f

    def __repr__(self):
        return "FuncV(%s)" % self.f.key

    def __eq__(self, o):
        return isinstance(o, FuncV) and o.f is self.f

    def __hash__(self):
        return hash(self.f.key)


def _is_concrete(v):
    if isinstance(v, (str, int, bool, Fraction, type(None), FuncV)):
        return True
    if isinstance(v, Rat):
        return v.is_const()
    if isinstance(v, dict):
        return all(_is_concrete(k) and _is_concrete(x) for k, x in v.items())
    if isinstance(v, (list, tuple)):
        return all(_is_concrete(x) for x in v)
    return False


def _wrap(v):
    if isinstance(v, Fraction):
        return Rat.const(v)
    if isinstance(v, dict):
        return {k: _wrap(x) for k, x in v.items()}
    if isinstance(v, list):
        return [_wrap(x) for x in v]
    if isinstance(v, tuple):
        return tuple(_wrap(x) for x in v)
    if isinstance(v, set):
        return [_wrap(x) for x in sorted(v, key=str)]
    return v


def _as_rat(v):
    if isinstance(v, Rat):
        return v
    if isinstance(v, bool):
        return None
    if isinstance(v, (int, Fraction)):
        return Rat.const(v)
    return None


def _pykey(v):
    if isinstance(v, Rat):
        if v.is_const():
            c = v.const_value()
            return int(c) if c.denominator == 1 else c
        return None
    if isinstance(v, Fraction):
        return int(v) if v.denominator == 1 else v
    if isinstance(v, (str, int, bool)) or v is None:
        return v
    if isinstance(v, tuple):
        ks = tuple(_pykey(x) for x in v)
        return None if any(k is None and x is not None for k, x in zip(ks, v)) else ks
    return None


def _canon(r):
    return repr(r)


def _vkey(v):
    if isinstance(v, Rat):
        return ("rat", repr(v))
    return ("py", repr(v))


def _veq(a, b):
    if isinstance(a, Rat) and isinstance(b, Rat):
        return a.equals(b)
    if isinstance(a, Rat) or isinstance(b, Rat):
        return False
    try:
        return a == b and type(a) is type(b)
    except Exception:
        return False


def _callname(call):
    fn = call.func
    if isinstance(fn, ast.Name):
        return fn.id
    return None


def _load(target):
    import copy
    t = copy.deepcopy(target)
    for n in ast.walk(t):
        if hasattr(n, "ctx"):
            n.ctx = ast.Load()
    return t


def _assigned_names(stmts):
    out = []
    for s in stmts:
        for n in ast.walk(s):
            if isinstance(n, (ast.Assign, ast.AugAssign)):
                tg = n.targets if isinstance(n, ast.Assign) else [n.target]
                for t in tg:
                    for x in ast.walk(t):
                        if isinstance(x, ast.Name) and isinstance(x.ctx, ast.Store) and x.id not in out:
                            out.append(x.id)
                    if isinstance(t, ast.Subscript) and isinstance(t.value, ast.Name) and t.value.id not in out:
                        out.append(t.value.id)
            elif isinstance(n, ast.Call) and isinstance(n.func, ast.Attribute) and n.func.attr == "append" \
                    and isinstance(n.func.value, ast.Name) and n.func.value.id not in out:
                out.append(n.func.value.id)
    return out


def _index_uses(loop, var):
    """'window' if the loop variable is used in a slice bound, 'element' if only as a plain index"""
    in_slice = plain = False
    for n in ast.walk(loop):
        if isinstance(n, ast.Subscript):
            if isinstance(n.slice, ast.Slice):
                for part in (n.slice.lower, n.slice.upper):
                    if part is not None and any(isinstance(x, ast.Name) and x.id == var for x in ast.walk(part)):
                        in_slice = True
            elif any(isinstance(x, ast.Name) and x.id == var for x in ast.walk(n.slice)):
                plain = True
    if in_slice:
        return "window"
    if plain:
        return "element"
    return None


def is_window_atom(a):
    return a.startswith(("@", "wpos", "wneg", "wneut", "wcnt[", "wsum[", "el:"))


def _sum_ratio(a, b):
    """if b == c * a with c free of per-window atoms -> c (a Rat), else None"""
    if a["kind"] != b["kind"]:
        return None
    if not (a["lo"].equals(b["lo"]) and a["hi"].equals(b["hi"])):
        return None
    wa, wb = a.get("window"), b.get("window")
    if (wa is None) != (wb is None):
        return None
    if wa and not (wa[0] == wb[0] and wa[1].equals(wb[1]) and wa[2].equals(wb[2])):
        return None
    if a.get("extra") != b.get("extra"):
        return None
    c = None
    fa = next((t for _, t in a["pieces"] if not t.n.is_zero()), None)
    fb = next((t for _, t in b["pieces"] if not t.n.is_zero()), None)
    if fa is None or fb is None:
        if fa is None and fb is None:
            return Rat.const(1)
        return None
    # candidate factor from the first non-zero pieces, tried against every pairing of pieces
    if pieces_equal(a["pieces"], b["pieces"]) is None:
        return Rat.const(1)
    for _, ta in a["pieces"]:
        if ta.n.is_zero():
            continue
        c = _window_free_ratio(fb, ta)
        if c is None:
            continue
        scaled = [(cs, t * c) for cs, t in a["pieces"]]
        if pieces_equal(scaled, b["pieces"]) is None:
            return c
    return None


def _window_free_ratio(x, y):
    """x / y as a Rat free of per-window atoms, if it is one: the quotient is evaluated at two different
    points of the per-window atoms and must not depend on the point (the caller verifies the result)"""
    watoms = sorted(a for a in (x.atoms() | y.atoms()) if is_window_atom(a))
    vals = []
    for base in (2, 3):
        pt = {a: Rat.const(Fraction(base + 2 * i + 1, 1 + (i % 2))) for i, a in enumerate(watoms)}
        try:
            vals.append(x.subst(pt) / y.subst(pt))
        except ZeroDivisionError:
            return None
    if vals[0].equals(vals[1]):
        return vals[0]
    return None


def pieces_equal(pa, pb, positive=("N", "w")):
    """compare two piecewise definitions [(conds, Rat)] over the window atoms; returns None if equal,
    else a description.  Decided by exhaustive sign-case analysis on the linear conditions."""
    from .dt import compare_rows
    return compare_rows(pa, pb, positive=positive)
