"""FACTS - program model: parsed modules, classes, functions, import aliases,
attribute types and call resolution for the idioms localCIDER uses."""
import ast
import hashlib
import os
from fractions import Fraction
from decimal import Decimal


class Undecided(Exception):
    """The analysis cannot decide: anchor vanished, unknown shape.  -> exit 2."""

    def __init__(self, msg, where=None):
        super().__init__(msg)
        self.msg = msg
        self.where = where

    def __str__(self):
        return "%s%s" % (self.msg, (" @ " + self.where) if self.where else "")


PKG = "localcider"
SKIP_DIRS = {"tests", "__pycache__"}


class FuncInfo:
    def __init__(self, mod, cls, node):
        self.mod = mod            # ModInfo
        self.cls = cls            # class name or None
        self.node = node          # ast.FunctionDef
        self.name = node.name
        self.qual = (cls + "." if cls else "") + node.name

    @property
    def key(self):
        return self.mod.rel + ":" + self.qual

    def loc(self, node=None):
        n = node if node is not None else self.node
        return "%s:%s:%d" % (self.mod.relpath, self.qual, getattr(n, "lineno", self.node.lineno))

    @property
    def is_static(self):
        return bool(self.cls) and any(isinstance(d, ast.Name) and d.id == "staticmethod" for d in self.node.decorator_list)

    def opaque_decorators(self):
        """decorators that change what a call executes (@staticmethod only changes how the receiver is passed)"""
        return [d for d in self.node.decorator_list if not (isinstance(d, ast.Name) and d.id == "staticmethod")]

    def params(self):
        a = self.node.args
        names = [x.arg for x in a.posonlyargs + a.args]
        if self.is_static:
            # a static method takes no receiver: a placeholder keeps "first parameter of a method is the receiver" true for every client
            return ["self"] + names
        return names

    def defaults(self):
        """formal name -> default AST (positional/keyword-or-positional only)"""
        a = self.node.args
        names = [x.arg for x in a.posonlyargs + a.args]
        d = {}
        for n, dv in zip(names[len(names) - len(a.defaults):], a.defaults):
            d[n] = dv
        for n, dv in zip(a.kwonlyargs, a.kw_defaults):
            if dv is not None:
                d[n.arg] = dv
        return d

    def body(self):
        """body without the docstring"""
        b = self.node.body
        if b and isinstance(b[0], ast.Expr) and isinstance(b[0].value, ast.Constant) \
                and isinstance(b[0].value.value, str):
            return b[1:]
        return b


class ModInfo:
    def __init__(self, root, relpath):
        self.relpath = relpath                        # localcider/backend/sequence.py
        self.rel = relpath[len(PKG) + 1:]            # backend/sequence.py
        self.path = os.path.join(root, relpath)
        with open(self.path, "rb") as fh:
            raw = fh.read()
        self.digest = hashlib.sha256(raw).hexdigest()
        self.src = raw.decode("utf-8")
        import warnings
        with warnings.catch_warnings():
            warnings.simplefilter("ignore")
            self.tree = ast.parse(self.src, filename=self.path)
        self.lines = self.src.splitlines()
        self.funcs = {}      # qual -> FuncInfo
        self.classes = {}    # name -> ClassDef
        self.globals = {}    # name -> value AST (module-level simple assignments)
        self.imports = {}    # local name -> ('mod', rel) | ('name', rel, name) | ('ext', dotted)
        for node in self.tree.body:
            if isinstance(node, ast.FunctionDef):
                self.funcs[node.name] = FuncInfo(self, None, node)
            elif isinstance(node, ast.ClassDef):
                self.classes[node.name] = node
                for sub in node.body:
                    if isinstance(sub, ast.FunctionDef):
                        self.funcs[node.name + "." + sub.name] = FuncInfo(self, node.name, sub)
            elif isinstance(node, ast.Assign) and len(node.targets) == 1 \
                    and isinstance(node.targets[0], ast.Name):
                self.globals[node.targets[0].id] = node.value

    def segment(self, node):
        return ast.get_source_segment(self.src, node)


class Program:
    def __init__(self, root):
        self.root = os.path.abspath(root)
        pkgdir = os.path.join(self.root, PKG)
        if not os.path.isdir(pkgdir):
            raise Undecided("package directory not found", pkgdir)
        self.mods = {}
        for dirpath, dirnames, filenames in os.walk(pkgdir):
            dirnames[:] = sorted(d for d in dirnames if d not in SKIP_DIRS)
            for f in sorted(filenames):
                if f.endswith(".py"):
                    rel = os.path.relpath(os.path.join(dirpath, f), self.root)
                    try:
                        m = ModInfo(self.root, rel)
                    except SyntaxError as e:
                        raise Undecided("module does not parse: %s" % e, rel)
                    self.mods[m.rel] = m
        for m in self.mods.values():
            self._imports(m)
        self.attr_types = {}   # (class, attr) -> class name
        self.class_mod = {}    # class name -> ModInfo
        for m in self.mods.values():
            for c in m.classes:
                self.class_mod.setdefault(c, m)
        self._infer_attr_types()
        self._ret_types = {}

    # ------------------------------------------------------------------ basics
    def digest(self, rels=None):
        h = hashlib.sha256()
        for rel in sorted(rels or self.mods):
            h.update(rel.encode())
            h.update(self.mods[rel].digest.encode())
        return h.hexdigest()[:16]

    def mod(self, rel):
        if rel not in self.mods:
            raise Undecided("module vanished", PKG + "/" + rel)
        return self.mods[rel]

    def fn(self, rel, qual):
        m = self.mod(rel)
        if qual not in m.funcs:
            raise Undecided("anchor function vanished: %s" % qual, m.relpath)
        return m.funcs[qual]

    def has_fn(self, rel, qual):
        return rel in self.mods and qual in self.mods[rel].funcs

    def all_funcs(self):
        for m in self.mods.values():
            for f in m.funcs.values():
                yield f

    def method(self, cls, name):
        m = self.class_mod.get(cls)
        if m is None:
            return None
        return m.funcs.get(cls + "." + name)

    # ----------------------------------------------------------------- imports
    def _resolve_rel(self, m, level, module):
        base = os.path.dirname(m.rel).split("/") if os.path.dirname(m.rel) else []
        if level == 0:
            parts = (module or "").split(".")
            if parts and parts[0] == PKG:
                parts = parts[1:]
            else:
                return None
        else:
            up = level - 1
            base = base[:len(base) - up] if up else base
            parts = base + ((module or "").split(".") if module else [])
        return [p for p in parts if p]

    def _find(self, parts):
        """parts -> rel of a module or package __init__"""
        cand = "/".join(parts) + ".py"
        if cand in self.mods:
            return cand
        cand = "/".join(parts + ["__init__.py"])
        if cand in self.mods:
            return cand
        return None

    def _imports(self, m):
        for node in ast.walk(m.tree):
            if isinstance(node, ast.ImportFrom):
                parts = self._resolve_rel(m, node.level, node.module)
                for al in node.names:
                    local = al.asname or al.name
                    if parts is None:
                        m.imports[local] = ("ext", (node.module or "") + "." + al.name)
                        continue
                    sub = self._find(parts + [al.name])
                    if sub:
                        m.imports[local] = ("mod", sub)
                        continue
                    src = self._find(parts)
                    if src:
                        m.imports[local] = ("name", src, al.name)
                    else:
                        m.imports[local] = ("ext", ".".join(parts + [al.name]))
            elif isinstance(node, ast.Import):
                for al in node.names:
                    local = al.asname or al.name.split(".")[0]
                    m.imports[local] = ("ext", al.name)

    def resolve_module_expr(self, m, node):
        """expression naming a package module (aminoacids, data.aminoacids, plotting) -> rel"""
        if isinstance(node, ast.Name):
            imp = m.imports.get(node.id)
            if imp and imp[0] == "mod":
                return imp[1]
            return None
        if isinstance(node, ast.Attribute):
            base = self.resolve_module_expr(m, node.value)
            if base and base.endswith("__init__.py"):
                pm = self.mods[base]
                imp = pm.imports.get(node.attr)
                if imp and imp[0] == "mod":
                    return imp[1]
                parts = os.path.dirname(base).split("/") if os.path.dirname(base) else []
                return self._find(parts + [node.attr])
        return None

    def resolve_global(self, m, node):
        """expression naming a module-level object -> (ModInfo, name) or None.
        Handles NAME (own global or `from x import NAME`), mod.NAME, pkg.mod.NAME."""
        if isinstance(node, ast.Name):
            if node.id in m.globals or node.id in m.funcs or node.id in m.classes:
                return (m, node.id)
            imp = m.imports.get(node.id)
            if imp and imp[0] == "name":
                return (self.mods[imp[1]], imp[2])
            return None
        if isinstance(node, ast.Attribute):
            rel = self.resolve_module_expr(m, node.value)
            if rel:
                tm = self.mods[rel]
                if node.attr in tm.globals or node.attr in tm.funcs or node.attr in tm.classes:
                    return (tm, node.attr)
                imp = tm.imports.get(node.attr)
                if imp and imp[0] == "name":
                    return (self.mods[imp[1]], imp[2])
        return None

    # ------------------------------------------------------------- type facts
    def class_of_ctor(self, m, call):
        """Call node -> class name if it constructs a package class"""
        if not isinstance(call, ast.Call):
            return None
        g = self.resolve_global(m, call.func)
        if g and g[1] in g[0].classes:
            return g[1]
        return None

    def _infer_attr_types(self):
        for m in self.mods.values():
            for f in m.funcs.values():
                if not f.cls:
                    continue
                for node in ast.walk(f.node):
                    if isinstance(node, ast.Assign) and len(node.targets) == 1:
                        t = node.targets[0]
                        if isinstance(t, ast.Attribute) and isinstance(t.value, ast.Name) \
                                and t.value.id == "self":
                            c = self.class_of_ctor(m, node.value)
                            if c:
                                self.attr_types[(f.cls, t.attr)] = c
        # module-level typed globals: lkupTab = ResTable()
        self.global_types = {}
        for m in self.mods.values():
            for name, val in m.globals.items():
                c = self.class_of_ctor(m, val)
                if c:
                    self.global_types[(m.rel, name)] = c

    def return_type(self, f, _depth=0):
        """class name if every return of f is a package-class constructor call,
        `self`, or a call whose return type is known; else None"""
        if f.key in self._ret_types:
            return self._ret_types[f.key]
        self._ret_types[f.key] = None
        types = set()
        env = self.local_types(f, _depth + 1) if _depth < 3 else {}
        for node in ast.walk(f.node):
            if isinstance(node, ast.Return):
                if node.value is None:
                    types.add(None)
                    continue
                t = self.type_of(f, node.value, env, _depth + 1)
                types.add(t)
        r = None
        if len(types) == 1:
            r = next(iter(types))
        self._ret_types[f.key] = r
        return r

    def type_of(self, f, node, env=None, _depth=0):
        """best-effort package-class type of an expression inside f"""
        if _depth > 4:
            return None
        env = env if env is not None else {}
        if isinstance(node, ast.Name):
            if node.id == "self":
                return f.cls
            if node.id in env:
                return env[node.id]
            g = self.resolve_global(f.mod, node)
            if g:
                return self.global_types.get((g[0].rel, g[1]))
            return None
        if isinstance(node, ast.Attribute):
            bt = self.type_of(f, node.value, env, _depth + 1)
            if bt:
                return self.attr_types.get((bt, node.attr))
            return None
        if isinstance(node, ast.Call):
            c = self.class_of_ctor(f.mod, node)
            if c:
                return c
            callee = self.resolve_call(f, node, env, _depth + 1)
            if callee:
                return self.return_type(callee, _depth + 1)
        return None

    PARAM_TYPES = {"SeqObj": "Sequence", "parentSeqObj": "Sequence"}

    def local_types(self, f, _depth=0):
        env = {}
        for p in f.params():
            if p in self.PARAM_TYPES:
                env[p] = self.PARAM_TYPES[p]
        for _ in range(2):
            for node in ast.walk(f.node):
                if isinstance(node, ast.Assign) and len(node.targets) == 1 \
                        and isinstance(node.targets[0], ast.Name):
                    t = self.type_of(f, node.value, env, _depth + 1)
                    if t:
                        env[node.targets[0].id] = t
        return env

    def resolve_call(self, f, call, env=None, _depth=0):
        """Call node inside f -> FuncInfo of the package callee, or None"""
        fn = call.func
        if isinstance(fn, ast.Name):
            g = self.resolve_global(f.mod, fn)
            if g:
                if g[1] in g[0].funcs:
                    return g[0].funcs[g[1]]
                if g[1] in g[0].classes:
                    return g[0].funcs.get(g[1] + ".__init__")
            return None
        if isinstance(fn, ast.Attribute):
            # module function
            rel = self.resolve_module_expr(f.mod, fn.value)
            if rel:
                tm = self.mods[rel]
                if fn.attr in tm.funcs:
                    return tm.funcs[fn.attr]
                if fn.attr in tm.classes:
                    return tm.funcs.get(fn.attr + ".__init__")
                return None
            if env is None:
                env = self.local_types(f, _depth + 1) if _depth < 3 else {}
            t = self.type_of(f, fn.value, env, _depth + 1)
            if t:
                return self.method(t, fn.attr)
        return None


# ---------------------------------------------------------------- AST helpers
def const_number(mod, node):
    """numeric literal (possibly signed) -> exact Fraction of its *decimal text*, else None"""
    sign = 1
    while isinstance(node, ast.UnaryOp) and isinstance(node.op, (ast.USub, ast.UAdd)):
        if isinstance(node.op, ast.USub):
            sign = -sign
        node = node.operand
    if isinstance(node, ast.Constant) and isinstance(node.value, (int, float)) \
            and not isinstance(node.value, bool):
        if isinstance(node.value, int):
            return Fraction(sign * node.value)
        seg = mod.segment(node) if mod is not None else None
        try:
            return sign * Fraction(Decimal(seg if seg else repr(node.value)))
        except Exception:
            return sign * Fraction(Decimal(repr(node.value)))
    return None


def is_self_attr(node, attr=None):
    return isinstance(node, ast.Attribute) and isinstance(node.value, ast.Name) \
        and node.value.id == "self" and (attr is None or node.attr == attr)


def dump(node):
    return ast.dump(node, annotate_fields=False)


def unparse(node):
    try:
        return ast.unparse(node)
    except Exception:
        return "<?>"
