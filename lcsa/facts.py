"""Facts shared by several properties: the effective residue -> charge-class map that
Sequence.__init__ builds (C02-1), and the lookUpCharge symbol table."""
import ast

from .alg import Rat
from .model import Undecided, is_self_attr, unparse
from .sym import Evaluator, Path, ListAcc, ObjV, SeqV, _Frame, LETTERS

SEQ = "backend/sequence.py"


def charge_pattern_loop(prog):
    """locate, in Sequence.__init__, the loop that fills chargePattern; returns (f, loop, guard_if)"""
    f = prog.fn(SEQ, "Sequence.__init__")
    found = []

    def walk(stmts, guards):
        for s in stmts:
            if isinstance(s, ast.For):
                names = {t.id for n in ast.walk(s) if isinstance(n, ast.Assign)
                         for t in n.targets if isinstance(t, ast.Name)}
                if "chargePattern" in names:
                    found.append((s, list(guards)))
            if isinstance(s, ast.If):
                walk(s.body, guards + [s])
                walk(s.orelse, guards + [s])
    walk(f.body(), [])
    if len(found) != 1:
        raise Undecided("expected exactly one chargePattern-building loop in Sequence.__init__, found %d"
                        % len(found), f.loc())
    return f, found[0][0], found[0][1]


def charge_map(prog, ev=None):
    """{letter: Fraction(-1|0|1)} as built by the constructor, decided per letter through
    lkupTab.lookUpCharge -> lookForRes -> residue_table -> Residue.charge -> skeleton column.
    Two shapes: a loop that grows a local pattern which is then stored, or a direct store of a per-residue expression
    (comprehension over the sequence, possibly through a module-level sign table) - both evaluated by the same per-letter case split."""
    ev = ev or Evaluator(prog)
    try:
        f, loop, guards = charge_pattern_loop(prog)
    except Undecided:
        return _charge_map_direct(prog, ev)
    try:
        # the whole derive-branch (whatever it contains besides the loop) when it evaluates as a block
        cm, f2, g = _charge_map_direct(prog, Evaluator(prog))
        return cm, f2, (loop if [n for n in g.body if n is loop] and len(g.body) <= 2 else g)
    except Undecided:
        pass
    if len(guards) != 1:
        # the loop sits under further conditions that the block evaluation could not follow: evaluating the loop alone would ignore the other branch
        raise Undecided("the charge-pattern loop runs only under %d nested conditions that lcsa cannot evaluate" % len(guards), f.loc(loop))
    env = {"self": ObjV("Sequence"), "chargePattern": ListAcc([]), "seq": SeqV("seq")}
    fr = _Frame(f, 0)
    res = ev.exec_for(loop, Path([], "live", None, env), fr)
    live = [p for p in res if p.kind == "live"]
    if len(live) != 1:
        raise Undecided("charge pattern loop does not complete on exactly one path", f.loc(loop))
    v = live[0].env.get("chargePattern")
    if not (isinstance(v, SeqV) and v.kind == "map"):
        raise Undecided("charge pattern loop does not build a per-residue list", f.loc(loop))
    table = ev.eltables[v.elkey]
    # the result must be what the object keeps
    stored = False
    for n in ast.walk(f.node):
        if isinstance(n, ast.Assign) and is_self_attr(n.targets[0], "chargePattern") \
                and isinstance(n.value, ast.Name) and n.value.id == "chargePattern":
            stored = True
    if not stored:
        raise Undecided("constructor no longer stores the pattern it built", f.loc())
    return dict(table), f, loop


ANOMALIES = []          # (construct loc, path condition text, value text): derive-branch paths that do not build the per-residue map


def _charge_map_direct(prog, ev):
    f = prog.fn(SEQ, "Sequence.__init__")
    guards = [s for s in f.body() if isinstance(s, ast.If) and "chargePattern" in unparse(s.test)
              and any(isinstance(n, ast.Assign) and any(is_self_attr(t, "chargePattern") for t in n.targets) for b in s.body for n in ast.walk(b))]
    if len(guards) != 1:
        raise Undecided("expected exactly one chargePattern-building loop in Sequence.__init__, found 0 (and %d guarded direct stores)" % len(guards), f.loc())
    g = guards[0]
    env = {"self": ObjV("Sequence"), "chargePattern": ListAcc([]), "seq": SeqV("seq")}
    from .alg import Rat
    for p in f.params()[1:]:
        env.setdefault(p, Rat.atom("P:" + p))          # the other constructor arguments: unconstrained
    fr = _Frame(f, 0)
    res = ev.exec_block(g.body, [Path([], "live", None, env)], fr)
    live = [p for p in res if p.kind == "live"]
    from .dt import feasible_with
    from .lin import Lin
    from .sym import fmt_conds
    live = [p for p in live if feasible_with(p.conds, [Lin({"N": -1}, 1, "<=")], {"N"}, int_atoms={"N"}) is not None]
    good = [p for p in live if isinstance(p.env.get("@self.chargePattern"), SeqV) and p.env.get("@self.chargePattern").kind == "map"]
    if not good:
        raise Undecided("the derived charge pattern is not a per-residue map of the sequence (%r)" % (live[0].env.get("@self.chargePattern") if live else None,), f.loc(g))
    tables = {repr(sorted(ev.eltables[p.env["@self.chargePattern"].elkey].items())) for p in good}
    if len(tables) != 1:
        raise Undecided("the branch that derives the charge pattern builds different maps on different paths", f.loc(g))
    del ANOMALIES[:]
    for p in live:
        if p not in good:
            # a path (for N >= 1 and some value of the other arguments) on which the stored pattern is NOT the per-residue map
            ANOMALIES.append((f.loc(g), fmt_conds(p.conds), repr(p.env.get("@self.chargePattern"))[:80]))
    v = good[0].env.get("@self.chargePattern")
    return dict(ev.eltables[v.elkey]), f, g


def symbol_charges(prog, ev=None):
    """lookUpCharge('+'|'-'|'0') -> Fraction"""
    ev = ev or Evaluator(prog)
    f = prog.fn("backend/restable.py", "ResTable.lookUpCharge")
    out = {}
    for sym in "+-0":
        paths = ev.run_function(f, {"resCode": sym}, ev.lkup_object())
        if len(paths) != 1 or paths[0].kind != "return" or not isinstance(paths[0].value, Rat) \
                or not paths[0].value.is_const():
            raise Undecided("lookUpCharge(%r) is not a constant" % sym, f.loc())
        out[sym] = paths[0].value.const_value()
    return out
