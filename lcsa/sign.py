"""SIGN - a small sign analysis over expression trees: 'pos' (>0), 'nonneg' (>=0), 'zero', 'top'."""
import ast

from .model import const_number


def join(a, b):
    if a == b:
        return a
    if {a, b} <= {"zero", "pos", "nonneg"}:
        return "nonneg"
    return "top"


def sign_of(node, env, mod=None, call_sign=None):
    """env: name -> sign ; call_sign(callnode) -> sign or None"""
    c = const_number(mod, node)
    if c is not None:
        return "zero" if c == 0 else ("pos" if c > 0 else "top")
    if isinstance(node, ast.Name):
        return env.get(node.id, "top")
    if isinstance(node, ast.Call):
        if call_sign:
            s = call_sign(node)
            if s:
                return s
        name = getattr(node.func, "id", None)
        if name in ("float", "int") and len(node.args) == 1:
            return sign_of(node.args[0], env, mod, call_sign)
        if name == "abs":
            return "nonneg"
        return "top"
    if isinstance(node, ast.BinOp):
        a = sign_of(node.left, env, mod, call_sign)
        if isinstance(node.op, ast.Pow):
            e = const_number(mod, node.right)
            if e is not None and e.denominator == 1 and e.numerator % 2 == 0 and e > 0:
                return "pos" if a == "pos" else "nonneg"
            if a in ("pos", "nonneg", "zero"):
                return a if a != "zero" else "nonneg"
            return "top"
        b = sign_of(node.right, env, mod, call_sign)
        if isinstance(node.op, ast.Add):
            if a == "zero":
                return b
            if b == "zero":
                return a
            if "top" in (a, b):
                return "top"
            return "pos" if "pos" in (a, b) else "nonneg"
        if isinstance(node.op, ast.Mult):
            if "zero" in (a, b):
                return "zero"
            if "top" in (a, b):
                return "top"
            return "pos" if a == b == "pos" else "nonneg"
        if isinstance(node.op, ast.Div):
            if b != "pos":
                return "top"
            return a if a in ("pos", "nonneg", "zero") else "top"
        return "top"
    return "top"
