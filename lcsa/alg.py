"""ALG - exact algebraic normal forms: multivariate polynomials and rational functions
over named atoms with Fraction coefficients.  Equality of rational functions is decided
by cross-multiplication; no gcd or CAS needed."""
from fractions import Fraction


class Poly:
    """dict: monomial (sorted tuple of (atom, exp)) -> Fraction"""
    __slots__ = ("t",)

    def __init__(self, t=None):
        self.t = {k: v for k, v in (t or {}).items() if v != 0}

    @staticmethod
    def const(c):
        return Poly({(): Fraction(c)})

    @staticmethod
    def atom(name):
        return Poly({((name, 1),): Fraction(1)})

    def is_zero(self):
        return not self.t

    def is_const(self):
        return all(k == () for k in self.t)

    def const_value(self):
        return self.t.get((), Fraction(0))

    def atoms(self):
        return {a for k in self.t for a, _ in k}

    def __add__(self, o):
        t = dict(self.t)
        for k, v in o.t.items():
            t[k] = t.get(k, 0) + v
        return Poly(t)

    def __neg__(self):
        return Poly({k: -v for k, v in self.t.items()})

    def __sub__(self, o):
        return self + (-o)

    def __mul__(self, o):
        t = {}
        for k1, v1 in self.t.items():
            for k2, v2 in o.t.items():
                d = dict(k1)
                for a, e in k2:
                    d[a] = d.get(a, 0) + e
                k = tuple(sorted((a, e) for a, e in d.items() if e))
                t[k] = t.get(k, 0) + v1 * v2
        return Poly(t)

    def __pow__(self, n):
        r = Poly.const(1)
        for _ in range(n):
            r = r * self
        return r

    def __eq__(self, o):
        return isinstance(o, Poly) and self.t == o.t

    def __hash__(self):
        return hash(frozenset(self.t.items()))

    def subst(self, mapping):
        """atom -> Rat ; returns Rat"""
        res = Rat.const(0)
        for k, v in self.t.items():
            term = Rat.const(v)
            for a, e in k:
                base = mapping.get(a)
                if base is None:
                    base = Rat(Poly.atom(a))
                for _ in range(e):
                    term = term * base
            res = res + term
        return res

    def linear(self):
        """-> (dict atom->coef, const) if affine else None"""
        co, c = {}, Fraction(0)
        for k, v in self.t.items():
            if k == ():
                c = v
            elif len(k) == 1 and k[0][1] == 1:
                co[k[0][0]] = v
            else:
                return None
        return co, c

    def __repr__(self):
        if not self.t:
            return "0"
        parts = []
        for k in sorted(self.t, key=lambda m: (len(m), m)):
            v = self.t[k]
            mono = "*".join(a if e == 1 else "%s^%d" % (a, e) for a, e in k)
            if not mono:
                parts.append(str(v))
            elif v == 1:
                parts.append(mono)
            elif v == -1:
                parts.append("-" + mono)
            else:
                parts.append("%s*%s" % (v, mono))
        return " + ".join(parts).replace("+ -", "- ")


class Rat:
    """num/den, den never the zero polynomial"""
    __slots__ = ("n", "d")

    def __init__(self, n, d=None):
        self.n = n
        self.d = d if d is not None else Poly.const(1)
        if self.d.is_zero():
            raise ZeroDivisionError("rational function with zero denominator")
        if self.d.is_const():
            c = self.d.const_value()
            if c != 1:
                self.n = self.n * Poly.const(1 / c)
                self.d = Poly.const(1)

    @staticmethod
    def const(c):
        return Rat(Poly.const(c))

    @staticmethod
    def atom(name):
        return Rat(Poly.atom(name))

    def __add__(self, o):
        if self.d == o.d:
            return Rat(self.n + o.n, self.d)
        return Rat(self.n * o.d + o.n * self.d, self.d * o.d)

    def __neg__(self):
        return Rat(-self.n, self.d)

    def __sub__(self, o):
        return self + (-o)

    def __mul__(self, o):
        return Rat(self.n * o.n, self.d * o.d)

    def __truediv__(self, o):
        if o.n.is_zero():
            raise ZeroDivisionError("division by the zero function")
        return Rat(self.n * o.d, self.d * o.n)

    def __pow__(self, k):
        if k >= 0:
            return Rat(self.n ** k, self.d ** k)
        return Rat(self.d ** (-k), self.n ** (-k))

    def equals(self, o):
        return (self.n * o.d - o.n * self.d).is_zero()

    def is_const(self):
        # n = c*d ?
        if self.n.is_zero():
            return True
        if self.d.is_const():
            return self.n.is_const()
        # proportional test
        k = next(iter(self.d.t))
        if k not in self.n.t:
            return False
        c = self.n.t[k] / self.d.t[k]
        return (self.n - self.d * Poly.const(c)).is_zero()

    def const_value(self):
        if self.n.is_zero():
            return Fraction(0)
        if self.d.is_const():
            return self.n.const_value() / self.d.const_value()
        k = next(iter(self.d.t))
        return self.n.t[k] / self.d.t[k]

    def atoms(self):
        return self.n.atoms() | self.d.atoms()

    def subst(self, mapping):
        return self.n.subst(mapping) / self.d.subst(mapping)

    def swap(self, a, b):
        tmp = "__swap_tmp__"
        m1 = {a: Rat.atom(tmp)}
        m2 = {b: Rat.atom(a)}
        m3 = {tmp: Rat.atom(b)}
        return self.subst(m1).subst(m2).subst(m3)

    def __repr__(self):
        if self.d.is_const() and self.d.const_value() == 1:
            return repr(self.n)
        return "(%r)/(%r)" % (self.n, self.d)
